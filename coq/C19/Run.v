(* Helpers used by the correspondence case files of C19. *)
From Coq Require Import List NArith Bool.
Import ListNotations.
From C11 Require Import Model.
From C19 Require Import Model.
Open Scope N_scope.

Definition dummy_block : binfo := mkb 0 0 false None.

Fixpoint lookup_block (l : list (N * (N * N))) (h : N) : binfo :=
  match l with
  | [] => dummy_block
  | (k, (p, ht)) :: l' => if k =? h then mkb p ht true None else lookup_block l' h
  end.

(* best, last justified, last finalized *)
Definition tri := (N * N * N)%type.

(* startup class (0 started, 1 error, 2 panic); kind of unit k (0 none, 1 checkpoints, 2 block,
   3 header, 4 status); total number of units; state after restart; state after re-delivery with
   the main-chain index for heights 0..maxh (0 = no entry) *)
Definition obs := (N * N * N * option tri * option (tri * list N))%type.

Definition E4 : N := 4.

Definition view (m : mem) : tri :=
  (m_best m,
   match last_justified (m_tree m) with Some (h, _) => h | None => 0 end,
   chash_of (m_tree m)).

Fixpoint heights_upto (n : nat) (from : N) : list N :=
  match n with
  | O => []
  | S n' => from :: heights_upto n' (from + 1)
  end.

Definition unit_kind (u : option wunit) : N :=
  match u with
  | None => 0
  | Some (UCk _) => 1
  | Some (UBlock _) => 2
  | Some (UHeader _) => 3
  | Some (UStatus _ _ _) => 4
  end.

Definition run_case (blocks : list (N * (N * N))) (g : N) (steps : list step) (k : nat) (maxh : N) : obs :=
  let U := lookup_block blocks in
  let us := all_units E4 U g steps in
  let kind := unit_kind (match k with O => None | S k' => nth_error us k' end) in
  let d := crash E4 U g steps k in
  let '(su, om, d') := recover U g d in
  match su, om with
  | Started, Some m =>
    let '(d2, m2) := run_steps E4 U d' m (remaining E4 U g steps k) in
    if m_hung m2 then (0, kind, N.of_nat (length us), Some (view m), None)
    else (0, kind, N.of_nat (length us), Some (view m),
          Some (view m2, map (fun h => match idx_get h (d_idx d2) with Some x => x | None => 0 end)
                             (heights_upto (S (N.to_nat maxh)) 0)))
  | StartPanic, _ => (2, kind, N.of_nat (length us), None, None)
  | _, _ => (1, kind, N.of_nat (length us), None, None)
  end.

Definition tri_eqb (x y : tri) : bool :=
  let '(a1, b1, c1) := x in let '(a2, b2, c2) := y in (a1 =? a2) && (b1 =? b2) && (c1 =? c2).

Definition opt_eqb {A} (eqb : A -> A -> bool) (x y : option A) : bool :=
  match x, y with
  | Some a, Some b => eqb a b
  | None, None => true
  | _, _ => false
  end.

Fixpoint list_eqb {A} (eqb : A -> A -> bool) (x y : list A) : bool :=
  match x, y with
  | [], [] => true
  | a :: x', b :: y' => eqb a b && list_eqb eqb x' y'
  | _, _ => false
  end.

Definition obs_eqb (x y : obs) : bool :=
  let '(s1, k1, n1, r1, f1) := x in
  let '(s2, k2, n2, r2, f2) := y in
  (s1 =? s2) && (k1 =? k2) && (n1 =? n2) && opt_eqb tri_eqb r1 r2 &&
  opt_eqb (fun a b => tri_eqb (fst a) (fst b) && list_eqb N.eqb (snd a) (snd b)) f1 f2.
