(* C19 — statements and proofs about the model of C19/Model.v.

   The property has three clauses: (1) the node starts on the database left by any prefix of its
   write units, (2) the state it starts in is one the crash-free node passed through, (3) delivering
   the remaining steps again reaches the crash-free final state.  On the pinned tree (1) and (3)
   are false; the faithful model refutes them with the witnesses that the harness replays on the
   real node (four classes, all recorded as findings).  What holds for ALL histories and ALL crash
   points is proved below: the ledger part of (2) (status record and main-chain index are written
   by one batch), the "best block is stored" half of (1), and (1) itself outside the recorded class
   under one further decidable check on the root record. *)
From Coq Require Import List NArith Bool Lia PeanoNat.
Import ListNotations.
From C11 Require Import Model.
From C19 Require Import Model Run.
Open Scope N_scope.

(* ------------------------------------------------------------------ statements *)

Definition started (U : N -> binfo) (g : N) (d : db) : Prop := fst (fst (recover U g d)) = Started.

(* clause 1, full strength *)
Definition c19_recovers_full : Prop :=
  forall E U g steps k, bheight (U g) = 0 -> started U g (crash E U g steps k).

(* the recorded class: a checkpoint record whose block is not stored *)
Definition no_dangling (d : db) : bool := forallb (fun c => memN (fst c) (d_blocks d)) (d_cks d).

Definition c19_recovers_holds_outside : Prop :=
  forall E U g steps k, bheight (U g) = 0 ->
    no_dangling (crash E U g steps k) = true -> started U g (crash E U g steps k).

(* the first checkpoint record at or after the persisted finalized key is genesis or Finalized
   (NewCasper panics otherwise) *)
Definition root_ok (U : N -> binfo) (d : db) (fin : N) : bool :=
  match recs_from U fin (d_cks d) with
  | r0 :: _ => (hgt U (fst r0) =? 0) || is_finalized (fst (snd r0))
  | [] => false
  end.

(* clause 2: ledger part (status record, main-chain index) and finality part *)
Definition led (d : db) := (d_status d, d_idx d).

(* the database of the crash-free node after startup (i = 1) and after i - 1 steps; i = 0: the
   empty store *)
Definition groups (E : N) (U : N -> binfo) (g : N) (steps : list step) : list (list wunit) :=
  init_units g :: fst (run_log E U (fresh_db U g) (fresh_mem g) steps).

Definition db_at (E : N) (U : N -> binfo) (g : N) (steps : list step) (i : nat) : db :=
  apply_units U empty_db (concat (firstn i (groups E U g steps))).

Definition c19_ledger_on_path_stmt : Prop :=
  forall E U g steps k, exists i, led (crash E U g steps k) = led (db_at E U g steps i).

(* the memory of the crash-free node after i steps *)
Definition mem_at (E : N) (U : N -> binfo) (g : N) (steps : list step) (i : nat) : mem :=
  snd (run_steps E U (fresh_db U g) (fresh_mem g) (firstn i steps)).

Definition c19_state_on_path_full : Prop :=
  forall E U g steps k m d', bheight (U g) = 0 ->
    recover U g (crash E U g steps k) = (Started, Some m, d') ->
    exists i, view m = view (mem_at E U g steps i).

(* clause 3 *)
Definition final_view (E : N) (U : N -> binfo) (g : N) (steps : list step) (k : nat) : option tri :=
  match recover U g (crash E U g steps k) with
  | (Started, Some m, d') => Some (view (snd (run_steps E U d' m (remaining E U g steps k))))
  | _ => None
  end.

Definition crashfree_view (E : N) (U : N -> binfo) (g : N) (steps : list step) : tri :=
  view (mem_at E U g steps (length steps)).

Definition c19_convergence_full : Prop :=
  forall E U g steps k, bheight (U g) = 0 ->
    final_view E U g steps k = Some (crashfree_view E U g steps).

(* guard of the statement that is expected to hold on the pinned tree: the crash point is outside the
   four recorded classes.  Decidable on the model: no dangling record; no finalization in flight (no
   stored checkpoint other than the first loaded one has status Finalized); the checkpoint tree the
   restart builds has the same candidates as the crash-free node's (no growing checkpoint lost) and
   the chain status agrees with its best chain. *)
Definition fin_clean (U : N -> binfo) (d : db) : bool :=
  match d_status d with
  | Some (_, fin) => match recs_from U fin (d_cks d) with
                     | _ :: rest => forallb (fun c => negb (is_finalized (fst (snd c)))) rest
                     | [] => false
                     end
  | None => true
  end.

Fixpoint tips (t : cnode) : list N :=
  match t with CNode h _ _ _ ks => h :: flat_map tips ks end.

Definition same_candidates (a b : cnode) : bool :=
  forallb (fun x => memN x (tips b)) (tips a) && forallb (fun x => memN x (tips a)) (tips b).

Definition outside_classes (E : N) (U : N -> binfo) (g : N) (steps : list step) (k : nat) : bool :=
  let d := crash E U g steps k in
  no_dangling d && fin_clean U d &&
  match recover U g d with
  | (Started, Some m, _) =>
    let i := (length steps - length (remaining E U g steps k))%nat in
    same_candidates (m_tree m) (m_tree (mem_at E U g steps i)) && (m_best m =? best_chain (m_tree m))
  | _ => false
  end.

Definition c19_convergence_holds_outside : Prop :=
  forall E U g steps k, bheight (U g) = 0 ->
    outside_classes E U g steps k = true ->
    final_view E U g steps k = Some (crashfree_view E U g steps).

(* ------------------------------------------------------------------ witnesses (replayed on the node) *)

Definition blocks_a := [(2, (0, 0)); (1, (2, 1)); (4, (1, 2)); (3, (4, 3)); (6, (3, 4)); (5, (6, 5))].
Definition steps_a := [SBlock 1 None; SBlock 4 None; SBlock 3 None; SBlock 6 None; SBlock 5 None].

Lemma genesis_height_a : bheight (lookup_block blocks_a 2) = 0.
Proof. reflexivity. Qed.

(* after 10 units (genesis 3, blocks 1..3 two each, the checkpoint of block 4) startup fails *)
Lemma witness_a : fst (fst (recover (lookup_block blocks_a) 2 (crash E4 (lookup_block blocks_a) 2 steps_a 10))) = StartErr.
Proof. vm_compute. reflexivity. Qed.

Lemma witness_a_dangling : no_dangling (crash E4 (lookup_block blocks_a) 2 steps_a 10) = false.
Proof. vm_compute. reflexivity. Qed.

Lemma recovers_refuted : ~ c19_recovers_full.
Proof.
  intro H. specialize (H E4 (lookup_block blocks_a) 2 steps_a 10%nat genesis_height_a).
  unfold started in H. rewrite witness_a in H. discriminate H.
Qed.

(* growing checkpoint lost: trunk 1..6, clean restart, sibling of block 5 *)
Definition blocks_b := [(2, (0, 0)); (1, (2, 1)); (6, (1, 2)); (5, (6, 3)); (8, (5, 4)); (7, (8, 5)); (4, (7, 6)); (3, (8, 5))].
Definition steps_b := [SBlock 1 None; SBlock 6 None; SBlock 5 None; SBlock 8 None; SBlock 7 None; SBlock 4 None; SBlock 3 None].

Lemma witness_b :
  final_view E4 (lookup_block blocks_b) 2 steps_b 16 = Some (3, 2, 2) /\
  crashfree_view E4 (lookup_block blocks_b) 2 steps_b = (4, 2, 2).
Proof. split; vm_compute; reflexivity. Qed.

Lemma witness_b_class :
  let d := crash E4 (lookup_block blocks_b) 2 steps_b 16 in
  no_dangling d = true /\ fin_clean (lookup_block blocks_b) d = true /\
  outside_classes E4 (lookup_block blocks_b) 2 steps_b 16 = false.
Proof. vm_compute. repeat split; reflexivity. Qed.

Lemma convergence_refuted_b : ~ c19_convergence_full.
Proof.
  intro H. specialize (H E4 (lookup_block blocks_b) 2 steps_b 16%nat eq_refl).
  destruct witness_b as [A B]. rewrite A, B in H. clear A B. discriminate H.
Qed.

(* stored block not adopted: A1..A10, B6..B8 from A5, B8 carries the link genesis -> B8 *)
Definition blocks_c := [(6, (0, 0)); (1, (6, 1)); (11, (1, 2)); (10, (11, 3)); (14, (10, 4)); (12, (14, 5)); (7, (12, 6)); (2, (7, 7)); (9, (2, 8)); (4, (9, 9)); (8, (4, 10)); (13, (12, 6)); (5, (13, 7)); (3, (5, 8))].
Definition steps_c := [SBlock 1 None; SBlock 11 None; SBlock 10 None; SBlock 14 None; SBlock 12 None; SBlock 7 None; SBlock 2 None; SBlock 9 None; SBlock 4 None; SBlock 8 None; SBlock 13 None; SBlock 5 None; SBlock 3 (Some 6)].

Lemma witness_c :
  final_view E4 (lookup_block blocks_c) 6 steps_c 29 = Some (8, 3, 6) /\
  crashfree_view E4 (lookup_block blocks_c) 6 steps_c = (3, 3, 6).
Proof. split; vm_compute; reflexivity. Qed.

Lemma convergence_refuted_c : ~ c19_convergence_full.
Proof.
  intro H. specialize (H E4 (lookup_block blocks_c) 6 steps_c 29%nat eq_refl).
  destruct witness_c as [A B]. rewrite A, B in H. clear A B. discriminate H.
Qed.

(* finalization in flight: block 4 justified by a carried link, votes 4 -> 8 finalize it *)
Definition blocks_d := [(7, (0, 0)); (2, (7, 1)); (13, (2, 2)); (11, (13, 3)); (17, (11, 4)); (16, (17, 5)); (9, (16, 6)); (3, (9, 7)); (10, (3, 8)); (6, (10, 9)); (8, (11, 4)); (1, (8, 5)); (5, (1, 6)); (4, (5, 7)); (12, (4, 8)); (14, (12, 9)); (15, (14, 10))].
Definition steps_d := [SBlock 2 None; SBlock 13 None; SBlock 11 None; SBlock 17 (Some 7); SBlock 16 None; SBlock 9 None; SBlock 3 None; SBlock 10 None; SVote 10 17 false; SVote 10 17 true; SBlock 6 None; SBlock 8 None; SBlock 1 None; SBlock 5 None; SBlock 4 None; SBlock 12 None; SBlock 14 None; SBlock 15 None].

Lemma witness_d :
  final_view E4 (lookup_block blocks_d) 7 steps_d 24 = Some (6, 10, 7) /\
  crashfree_view E4 (lookup_block blocks_d) 7 steps_d = (6, 10, 17).
Proof. split; vm_compute; reflexivity. Qed.

Lemma witness_d_class :
  fin_clean (lookup_block blocks_d) (crash E4 (lookup_block blocks_d) 7 steps_d 24) = false.
Proof. vm_compute. reflexivity. Qed.

Lemma convergence_refuted_d : ~ c19_convergence_full.
Proof.
  intro H. specialize (H E4 (lookup_block blocks_d) 7 steps_d 24%nat eq_refl).
  destruct witness_d as [A B]. rewrite A, B in H. clear A B. discriminate H.
Qed.

(* the restarted node reports a finality state (justified 8, finalized genesis) that the crash-free
   node never had *)
Lemma witness_d_state :
  exists m d', recover (lookup_block blocks_d) 7 (crash E4 (lookup_block blocks_d) 7 steps_d 25) = (Started, Some m, d') /\
    forallb (fun i => negb (tri_eqb (view m) (view (mem_at E4 (lookup_block blocks_d) 7 steps_d i))))
            (seq 0 19) = true.
Proof. eexists. eexists. split; vm_compute; reflexivity. Qed.

(* a point outside the classes exists in a history with a fork and a reorganisation *)
Example outside_classes_satisfiable :
  outside_classes E4 (lookup_block blocks_c) 6 steps_c 21 = true /\
  final_view E4 (lookup_block blocks_c) 6 steps_c 21 = Some (crashfree_view E4 (lookup_block blocks_c) 6 steps_c).
Proof. split; vm_compute; reflexivity. Qed.

(* ------------------------------------------------------------------ prefixes of the write log *)

Section Facts.

Variable E : N.
Variable U : N -> binfo.
Variable g : N.

Lemma apply_units_app d a b : apply_units U d (a ++ b) = apply_units U (apply_units U d a) b.
Proof. unfold apply_units. apply fold_left_app. Qed.

Definition nostatus (u : wunit) : bool := match u with UStatus _ _ _ => false | _ => true end.

Lemma led_nostatus d us : forallb nostatus us = true -> led (apply_units U d us) = led d.
Proof.
  revert d. induction us as [|u us IH]; intros d H; [reflexivity|].
  cbn in H. apply andb_prop in H. destruct H as [Hu Hus].
  change (apply_units U d (u :: us)) with (apply_units U (apply_unit U d u) us).
  rewrite IH by exact Hus. destruct u; try discriminate; reflexivity.
Qed.

Lemma forallb_firstn {A} (f : A -> bool) j l : forallb f l = true -> forallb f (firstn j l) = true.
Proof.
  revert j. induction l as [|x l IH]; intros [|j] H; cbn in *; try reflexivity.
  apply andb_prop in H. destruct H as [-> H]. cbn. apply IH, H.
Qed.

(* the units of one step: writes that leave status and index alone, then at most one status batch *)
Definition group_ok (us : list wunit) : Prop :=
  exists pre tl, us = pre ++ tl /\ forallb nostatus pre = true /\ (length tl <= 1)%nat.

Lemma prefix_group d us j :
  group_ok us ->
  led (apply_units U d (firstn j us)) = led d \/ led (apply_units U d (firstn j us)) = led (apply_units U d us).
Proof.
  intros (pre & tl & -> & Hpre & Htl).
  destruct (Nat.le_gt_cases j (length pre)) as [Hle|Hgt].
  - left. rewrite firstn_app. replace (j - length pre)%nat with 0%nat by lia.
    cbn. rewrite app_nil_r. apply led_nostatus, forallb_firstn, Hpre.
  - right. rewrite firstn_all2; [reflexivity|]. rewrite app_length. lia.
Qed.

Lemma prefix_groups gs : Forall group_ok gs ->
  forall d k, exists i, led (apply_units U d (firstn k (concat gs))) = led (apply_units U d (concat (firstn i gs))).
Proof.
  induction 1 as [|us gs Hus Hgs IH]; intros d k.
  - exists 0%nat. destruct k; reflexivity.
  - cbn [concat]. rewrite firstn_app.
    destruct (Nat.le_gt_cases k (length us)) as [Hle|Hgt].
    + replace (k - length us)%nat with 0%nat by lia. cbn [firstn]. rewrite app_nil_r.
      destruct (prefix_group d us k Hus) as [H|H].
      * exists 0%nat. exact H.
      * exists 1%nat. cbn. rewrite app_nil_r. exact H.
    + rewrite firstn_all2 by lia. rewrite apply_units_app.
      destruct (IH (apply_units U d us) (k - length us)%nat) as [i Hi].
      exists (S i). cbn [firstn concat]. rewrite apply_units_app. exact Hi.
Qed.

(* ---- the shape of the units of one step *)

Lemma apply_block_nostatus d t b carry t' us :
  apply_block E U d t b carry = Some (t', us) -> forallb nostatus us = true.
Proof.
  unfold apply_block. intros H.
  destruct (find_path b t); [inversion H; reflexivity|].
  destruct (cp_node E U _ _ t (par U b)) as [[t1 p]|]; [|discriminate].
  destruct (if hgt U b mod E =? 1 then _ else _) as [t2 pt].
  destruct (hgt U b mod E =? 0); [|inversion H; reflexivity].
  destruct carry.
  - destruct (justify_at d t2 pt n). inversion H. reflexivity.
  - destruct (get_at pt t2); inversion H; reflexivity.
Qed.

Lemma try_reorganize_shape d m us m' :
  try_reorganize U d m = (us, m') ->
  us = [] \/ exists bh fin att, us = [UStatus bh fin att] /\ memN bh (d_blocks d) = true.
Proof.
  unfold try_reorganize. intros H.
  destruct (m_best m =? best_chain (m_tree m)); [inversion H; auto|].
  destruct (memN (best_chain (m_tree m)) (d_blocks d)) eqn:Hm; cbn [negb] in H; [|inversion H; auto].
  destruct (calc_reorg U _ _ _ _ _ _) as [[att det]|]; inversion H; subst.
  - right. do 3 eexists. split; [reflexivity|exact Hm].
  - left. reflexivity.
Qed.

Lemma forallb_app_true {A} (f : A -> bool) a b :
  forallb f a = true -> forallb f b = true -> forallb f (a ++ b) = true.
Proof. intros. rewrite forallb_app, H, H0. reflexivity. Qed.

Lemma group_nil : group_ok [].
Proof. exists [], []. repeat split; auto. Qed.

Lemma do_step_group d m st us m' : do_step E U d m st = (us, m') -> group_ok us.
Proof.
  unfold do_step. destruct (m_hung m); [intros H; inversion H; apply group_nil|].
  destruct st as [b carry|t s c].
  - unfold process_block.
    destruct (memN b (d_blocks d) && (hgt U b <=? hgt U (m_best m))); [intros H; inversion H; apply group_nil|].
    destruct (negb (memN (par U b) (d_blocks d))); [intros H; inversion H; apply group_nil|].
    destruct (negb (hgt U b =? hgt U (par U b) + 1)); [intros H; inversion H; apply group_nil|].
    destruct (apply_block E U d (m_tree m) b carry) as [[t' us0]|] eqn:Hab; [|intros H; inversion H; apply group_nil].
    destruct (try_reorganize U _ _) as [us2 m2] eqn:Htr. intros H. inversion H; subst.
    exists (us0 ++ [UBlock b]), us2. split; [reflexivity|]. split.
    + apply forallb_app_true; [eapply apply_block_nostatus; eauto|reflexivity].
    + destruct (try_reorganize_shape _ _ _ _ Htr) as [->|(bh & fin & att & -> & _)]; cbn; lia.
  - unfold process_vote.
    destruct (find_path t (m_tree m)) as [[|i pt]|]; try (intros H; inversion H; apply group_nil).
    destruct (ck_get s (d_cks d)); [|intros H; inversion H; apply group_nil].
    destruct (get_at (i :: pt) (m_tree m)); [|intros H; inversion H; apply group_nil].
    destruct (if c then _ else _) as [t' recs].
    destruct (best_chain (m_tree m) =? best_chain t'); intros H; inversion H;
      exists [UCk recs; UHeader t], []; rewrite app_nil_r; repeat split; auto.
Qed.

Lemma run_log_groups steps : forall d m, Forall group_ok (fst (run_log E U d m steps)).
Proof.
  induction steps as [|st steps IH]; intros d m; cbn; [constructor|].
  destruct (do_step E U d m st) as [us m'] eqn:Hs.
  specialize (IH (apply_units U d us) m').
  destruct (run_log E U (apply_units U d us) m' steps) as [l r]. cbn in *.
  constructor; [eapply do_step_group; eauto|exact IH].
Qed.

Lemma init_group : group_ok (init_units g).
Proof.
  exists [UBlock g; UCk [(g, (Justified, 0))]], [UStatus g g [g]]. repeat split; auto.
Qed.

Lemma all_units_groups steps : all_units E U g steps = concat (groups E U g steps).
Proof. reflexivity. Qed.

Theorem ledger_on_path : forall steps k, exists i, led (crash E U g steps k) = led (db_at E U g steps i).
Proof.
  intros steps k. unfold crash, db_at. rewrite all_units_groups.
  apply prefix_groups. constructor; [apply init_group|apply run_log_groups].
Qed.

(* ---- the best block of the status record is stored, at every crash point *)

Definition unit_ok (d : db) (u : wunit) : Prop :=
  match u with UStatus b _ _ => memN b (d_blocks d) = true | _ => True end.

Fixpoint units_ok (d : db) (us : list wunit) : Prop :=
  match us with
  | [] => True
  | u :: us' => unit_ok d u /\ units_ok (apply_unit U d u) us'
  end.

Definition best_stored (d : db) : Prop :=
  match d_status d with Some (b, _) => memN b (d_blocks d) = true | None => True end.

Lemma memN_put b x l : memN x l = true -> memN x (put_block b l) = true.
Proof.
  unfold put_block. destruct (memN b l); [auto|]. unfold memN. intros H. cbn [existsb].
  rewrite H. apply orb_true_r.
Qed.

Lemma best_stored_unit d u : best_stored d -> unit_ok d u -> best_stored (apply_unit U d u).
Proof.
  unfold best_stored. destruct u; cbn; auto.
  destruct (d_status d) as [[b0 f0]|]; auto. intros H _. apply memN_put, H.
Qed.

Lemma best_stored_units us : forall d, best_stored d -> units_ok d us -> best_stored (apply_units U d us).
Proof.
  induction us as [|u us IH]; intros d Hd Hok; [exact Hd|].
  destruct Hok as [Hu Hus]. apply (IH (apply_unit U d u)); [apply best_stored_unit; auto|exact Hus].
Qed.

Lemma units_ok_firstn us : forall d j, units_ok d us -> units_ok d (firstn j us).
Proof.
  induction us as [|u us IH]; intros d [|j] H; cbn; auto.
  destruct H as [Hu Hus]. split; [exact Hu|apply IH, Hus].
Qed.

Lemma units_ok_app a : forall d b, units_ok d a -> units_ok (apply_units U d a) b -> units_ok d (a ++ b).
Proof.
  induction a as [|u a IH]; intros d b Ha Hb; [exact Hb|].
  destruct Ha as [Hu Ha]. split; [exact Hu|]. apply IH; [exact Ha|exact Hb].
Qed.

Lemma units_ok_nostatus us : forall d, forallb nostatus us = true -> units_ok d us.
Proof.
  induction us as [|u us IH]; intros d H; [exact I|].
  cbn in H. apply andb_prop in H. destruct H as [Hu Hus].
  split; [destruct u; try discriminate; exact I|apply IH, Hus].
Qed.

Lemma do_step_units_ok d m st us m' : do_step E U d m st = (us, m') -> units_ok d us.
Proof.
  unfold do_step. destruct (m_hung m); [intros H; inversion H; exact I|].
  destruct st as [b carry|t s c].
  - unfold process_block.
    destruct (memN b (d_blocks d) && (hgt U b <=? hgt U (m_best m))); [intros H; inversion H; exact I|].
    destruct (negb (memN (par U b) (d_blocks d))); [intros H; inversion H; exact I|].
    destruct (negb (hgt U b =? hgt U (par U b) + 1)); [intros H; inversion H; exact I|].
    destruct (apply_block E U d (m_tree m) b carry) as [[t' us0]|] eqn:Hab; [|intros H; inversion H; exact I].
    destruct (try_reorganize U _ _) as [us2 m2] eqn:Htr. intros H. inversion H; subst.
    apply units_ok_app.
    + apply units_ok_nostatus, forallb_app_true; [eapply apply_block_nostatus; eauto|reflexivity].
    + destruct (try_reorganize_shape _ _ _ _ Htr) as [->|(bh & fin & att & -> & Hm)]; [exact I|].
      split; [exact Hm|exact I].
  - unfold process_vote.
    destruct (find_path t (m_tree m)) as [[|i pt]|]; try (intros H; inversion H; exact I).
    destruct (ck_get s (d_cks d)); [|intros H; inversion H; exact I].
    destruct (get_at (i :: pt) (m_tree m)); [|intros H; inversion H; exact I].
    destruct (if c then _ else _) as [t' recs].
    destruct (best_chain (m_tree m) =? best_chain t'); intros H; inversion H; repeat split.
Qed.

Lemma run_log_units_ok steps : forall d m, units_ok d (concat (fst (run_log E U d m steps))).
Proof.
  induction steps as [|st steps IH]; intros d m; cbn; [exact I|].
  destruct (do_step E U d m st) as [us m'] eqn:Hs.
  specialize (IH (apply_units U d us) m').
  destruct (run_log E U (apply_units U d us) m' steps) as [l r]. cbn in *.
  apply units_ok_app; [eapply do_step_units_ok; eauto|exact IH].
Qed.

Lemma all_units_ok steps : units_ok empty_db (all_units E U g steps).
Proof.
  unfold all_units. apply units_ok_app.
  - cbn. repeat split. rewrite N.eqb_refl. reflexivity.
  - apply run_log_units_ok.
Qed.

Theorem best_block_stored : forall steps k, best_stored (crash E U g steps k).
Proof.
  intros steps k. unfold crash. apply best_stored_units; [exact I|].
  apply units_ok_firstn, all_units_ok.
Qed.

(* ---- startup, outside the recorded class *)

Lemma forallb_filter {A} (f p : A -> bool) l : forallb f l = true -> forallb f (filter p l) = true.
Proof.
  induction l as [|x l IH]; cbn; [auto|]. intros H. apply andb_prop in H. destruct H as [Hx Hl].
  destruct (p x); cbn; [rewrite Hx|]; auto.
Qed.

Lemma existsb_negb_forallb {A} (f : A -> bool) l : forallb f l = true -> existsb (fun c => negb (f c)) l = false.
Proof.
  induction l as [|x l IH]; cbn; [auto|]. intros H. apply andb_prop in H. destruct H as [-> Hl].
  cbn. apply IH, Hl.
Qed.

Theorem recovers_partial : forall steps k best fin,
  d_status (crash E U g steps k) = Some (best, fin) ->
  no_dangling (crash E U g steps k) = true ->
  root_ok U (crash E U g steps k) fin = true ->
  started U g (crash E U g steps k).
Proof.
  intros steps k best fin Hst Hnd Hroot.
  pose proof (best_block_stored steps k) as Hb. unfold best_stored in Hb. rewrite Hst in Hb.
  unfold started, recover. rewrite Hst. unfold start_with_status. rewrite Hb. cbn [negb].
  unfold root_ok in Hroot. unfold no_dangling in Hnd.
  pose proof (forallb_filter _ (fun c => negb (key_ltb U (fst c) fin)) _ Hnd) as Hf.
  fold (recs_from U fin (d_cks (crash E U g steps k))) in Hf.
  destruct (recs_from U fin (d_cks (crash E U g steps k))) as [|r0 rest]; [discriminate|].
  cbn in Hf. apply andb_prop in Hf. destruct Hf as [_ Hrest].
  rewrite (existsb_negb_forallb _ _ Hrest).
  apply orb_prop in Hroot. destruct Hroot as [H|H]; rewrite H; cbn; [reflexivity|].
  rewrite andb_false_r. reflexivity.
Qed.

End Facts.
