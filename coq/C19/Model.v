(* C19 — executable model of what the Bytom node writes to its database, in which order, and of
   what it rebuilds from the database when it starts.

   Mirrors (working tree of /repo):
     protocol/block.go       processBlock, saveBlock (casper.ApplyBlock BEFORE store.SaveBlock),
                             tryReorganize, reorganizeChain, calcReorganizeChain
     protocol/protocol.go    NewChainWithOrphanManage (GetStoreStatus, initChainStatus, best header,
                             newCasper), setState (SaveChainStatus with casper's finalized root)
     protocol/casper/apply_block.go   ApplyBlock, applyBlockToCheckpoint, checkpointNodeByHash,
                             applySupLinks (a growing checkpoint is NOT saved: empty batch),
                             saveCheckpoints (target and source in ONE batch)
     protocol/casper/auth_verification.go AuthVerification, addVerificationToCheckpoint (the source
                             must be stored with status Justified), SaveCheckpoints then
                             saveVerificationToHeader (SaveBlockHeader), setJustified, setFinalized
     protocol/casper/casper.go NewCasper (panics unless the first checkpoint is genesis or Finalized),
                             LastFinalized (the root), LastJustified
     protocol/casper/tree_node.go makeTree, bestNode, lastJustified  (tree functions of C11/Model.v)
     database/store.go       SaveBlock (one batch), SaveBlockHeader (one Set), SaveChainStatus (one
                             batch: utxo view, status record, main-chain index, stale index entries)
     database/store_checkpoint.go SaveCheckpoints (one batch), CheckpointsFromNode,
                             loadCheckpointsFromIter (every loaded checkpoint needs its block header)

   Conventions (as C11): a block hash is a label in N whose ORDER is the order of the hexadecimal hash
   strings (= the byte order used by the database keys); block content is a function U of the label.
   Whether a carried sup link / a verification message reaches a supermajority is an INPUT of the
   model (vote counting is C17); the gates the code applies on top of the count (target Unjustified,
   source stored with status Justified) are modelled.  The ledger (utxo and contract tables) is
   written in the same batch as the status record and is represented by it. *)
From Coq Require Import List NArith Bool.
Import ListNotations.
From C11 Require Import Model.
Open Scope N_scope.

(* a stored checkpoint record: key (height, hash) — the height is a function of the hash — and the
   persisted fields the restart reads: status and parent checkpoint hash *)
Definition crec := (N * (cstatus * N))%type.

Record db := mkdb {
  d_blocks : list N;             (* block header + transactions stored (SaveBlock) *)
  d_cks : list crec;             (* checkpoint records, sorted by key (height, hash) *)
  d_status : option (N * N);     (* blockStore record: best hash, finalized hash *)
  d_idx : index                  (* main-chain index *)
}.

Inductive wunit :=
| UCk (l : list crec)                      (* Store.SaveCheckpoints: one batch *)
| UBlock (b : N)                           (* Store.SaveBlock: one batch *)
| UHeader (b : N)                          (* Store.SaveBlockHeader: one Set (sup links of a vote) *)
| UStatus (best fin : N) (attach : list N). (* Store.SaveChainStatus: one batch *)

Inductive step :=
| SBlock (b : N) (carry : option N)        (* deliver b; Some s: b closes an epoch and the sup link
                                              s -> b it carries (plus the node's own vote) reaches a
                                              supermajority *)
| SVote (t s : N) (completes : bool).      (* verification message for the link s -> t *)

Inductive startup := Started | StartErr | StartPanic.

Section Model.

Variable E : N.
Variable U : N -> binfo.
Variable g : N.          (* genesis *)

Notation hgt := (hgt U).
Notation par := (par U).

(* ------------------------------------------------------------------ the database *)

Definition key_ltb (a b : N) : bool := (hgt a <? hgt b) || ((hgt a =? hgt b) && (a <? b)).

Fixpoint ck_put (r : crec) (l : list crec) : list crec :=
  match l with
  | [] => [r]
  | x :: l' => if fst x =? fst r then r :: l'
               else if key_ltb (fst r) (fst x) then r :: x :: l'
               else x :: ck_put r l'
  end.

Fixpoint ck_get (h : N) (l : list crec) : option (cstatus * N) :=
  match l with
  | [] => None
  | x :: l' => if fst x =? h then Some (snd x) else ck_get h l'
  end.

Definition put_block (b : N) (l : list N) : list N := if memN b l then l else b :: l.

Definition apply_unit (d : db) (u : wunit) : db :=
  match u with
  | UCk l => mkdb (d_blocks d) (fold_left (fun c r => ck_put r c) l (d_cks d)) (d_status d) (d_idx d)
  | UBlock b => mkdb (put_block b (d_blocks d)) (d_cks d) (d_status d) (d_idx d)
  | UHeader _ => d
  | UStatus best fin attach =>
    mkdb (d_blocks d) (d_cks d) (Some (best, fin))
         (idx_del_above (hgt best) (fold_left (fun m b => idx_set (hgt b) b m) attach (d_idx d)))
  end.

Definition apply_units (d : db) (us : list wunit) : db := fold_left apply_unit us d.

Definition empty_db : db := mkdb [] [] None [].

(* ------------------------------------------------------------------ the running node *)

Record mem := mkm {
  m_tree : cnode;      (* casper's checkpoint tree (in memory only) *)
  m_best : N;          (* Chain.bestBlockHeader *)
  m_hung : bool
}.

Definition is_justified_rec (o : option (cstatus * N)) : bool :=
  match o with Some (Justified, _) => true | _ => false end.

Definition rec_parent (o : option (cstatus * N)) : N := match o with Some (_, p) => p | None => 0 end.

(* addVerificationToCheckpoint + setJustified for a link s -> (node at pt) that reaches a
   supermajority; returns the new tree and the records of the affected checkpoints *)
Definition justify_at (d : db) (t : cnode) (pt : list nat) (s : N) : cnode * list crec :=
  match get_at pt t with
  | None => (t, [])
  | Some n =>
    let own st := (chash_of n, (st, cphash_of n)) in
    if is_unjustified (cst_of n) && is_justified_rec (ck_get s (d_cks d)) then
      let t' := set_justified pt s t in
      (t', [own Justified;
            (s, ((if cphash_of n =? s then Finalized else Justified), rec_parent (ck_get s (d_cks d))))])
    else (t, [own (cst_of n)])
  end.

(* Casper.ApplyBlock: None = error; Some (tree, units) *)
Definition apply_block (d : db) (t : cnode) (b : N) (carry : option N) : option (cnode * list wunit) :=
  match find_path b t with
  | Some _ => Some (t, [])
  | None =>
    match cp_node E U (S (N.to_nat (hgt b))) (d_blocks d) t (par b) with
    | None => None
    | Some (t1, p) =>
      let '(t2, pt) := if hgt b mod E =? 1
                       then (update_at p (add_kid E U b) t1, p ++ [nkids_at p t1])
                       else (update_at p (increase E U b) t1, p) in
      if hgt b mod E =? 0 then
        match carry with
        | Some s => let '(t3, recs) := justify_at d t2 pt s in Some (t3, [UCk recs])
        | None =>
          match get_at pt t2 with
          | Some n => Some (t2, [UCk [(chash_of n, (cst_of n, cphash_of n))]])
          | None => Some (t2, [])
          end
        end
      else Some (t2, [])   (* growing checkpoint: applySupLinks returns nil, the batch is empty *)
    end
  end.

(* tryReorganize + reorganizeChain + setState *)
Definition try_reorganize (d : db) (m : mem) : list wunit * mem :=
  let bh := best_chain (m_tree m) in
  if m_best m =? bh then ([], m)
  else if negb (memN bh (d_blocks d)) then ([], m)
  else match calc_reorg U (S (N.to_nat (hgt bh) + N.to_nat (hgt (m_best m)))) (d_blocks d) bh (m_best m) [] [] with
       | None => ([], m)
       | Some (attach, _) => ([UStatus bh (chash_of (m_tree m)) attach], mkm (m_tree m) bh (m_hung m))
       end.

(* Chain.processBlock for a block whose parent was delivered before (no orphans) *)
Definition process_block (d : db) (m : mem) (b : N) (carry : option N) : list wunit * mem :=
  if memN b (d_blocks d) && (hgt b <=? hgt (m_best m)) then ([], m)
  else if negb (memN (par b) (d_blocks d)) then ([], m)
  else if negb (hgt b =? hgt (par b) + 1) then ([], m)
  else match apply_block d (m_tree m) b carry with
       | None => ([], m)
       | Some (t', us) =>
         let us1 := us ++ [UBlock b] in
         let '(us2, m') := try_reorganize (apply_units d us1) (mkm t' (m_best m) (m_hung m)) in
         (us1 ++ us2, m')
       end.

(* Casper.AuthVerification *)
Definition process_vote (d : db) (m : mem) (t s : N) (completes : bool) : list wunit * mem :=
  match find_path t (m_tree m) with
  | None => ([], m)          (* cached in memory *)
  | Some [] => ([], m)       (* the target is the root: rejected *)
  | Some pt =>
    match ck_get s (d_cks d), get_at pt (m_tree m) with
    | Some _, Some n =>
      let old := best_chain (m_tree m) in
      let '(t', recs) := if completes then justify_at d (m_tree m) pt s
                         else (m_tree m, [(chash_of n, (cst_of n, cphash_of n))]) in
      let us := [UCk recs; UHeader t] in
      if old =? best_chain t' then (us, mkm t' (m_best m) (m_hung m))
      else (us, mkm t' (m_best m) true)    (* tryRollback under casper's lock: the node hangs (C37) *)
    | _, _ => ([], m)
    end
  end.

Definition do_step (d : db) (m : mem) (st : step) : list wunit * mem :=
  if m_hung m then ([], m) else
  match st with
  | SBlock b carry => process_block d m b carry
  | SVote t s c => process_vote d m t s c
  end.

(* initChainStatus *)
Definition init_units : list wunit := [UBlock g; UCk [(g, (Justified, 0))]; UStatus g g [g]].

(* ------------------------------------------------------------------ startup *)

(* makeTree: children of a node = the later records naming it as parent, in key order *)
Fixpoint make_tree (fuel : nat) (r : crec) (rest : list crec) : cnode :=
  match fuel with
  | O => CNode (fst r) (hgt (fst r)) (fst (snd r)) (snd (snd r)) []
  | S f =>
    CNode (fst r) (hgt (fst r)) (fst (snd r)) (snd (snd r))
          (map (fun c => make_tree f c rest) (filter (fun c => snd (snd c) =? fst r) rest))
  end.

(* records with key >= (height fin, fin), in key order *)
Definition recs_from (fin : N) (l : list crec) : list crec :=
  filter (fun c => negb (key_ltb (fst c) fin)) l.

Definition is_finalized (s : cstatus) : bool := match s with Finalized => true | _ => false end.

(* NewChainWithOrphanManage on a database with a status record *)
Definition start_with_status (d : db) (best fin : N) : startup * option mem :=
  if negb (memN best (d_blocks d)) then (StartErr, None)            (* best header missing *)
  else match recs_from fin (d_cks d) with
       | [] => (StartErr, None)                                     (* no checkpoint at or after the start key *)
       | r0 :: rest =>
         if existsb (fun c => negb (memN (fst c) (d_blocks d))) rest
         then (StartErr, None)                                      (* loadCheckpointsFromIter: header missing *)
         else if negb (hgt (fst r0) =? 0) && negb (is_finalized (fst (snd r0)))
         then (StartPanic, None)                                    (* NewCasper *)
         else (Started, Some (mkm (make_tree (S (length rest)) r0 rest) best false))
       end.

(* returns the startup class, the node, and the database (initChainStatus writes when there is no
   status record) *)
Definition recover (d : db) : startup * option mem * db :=
  match d_status d with
  | Some (best, fin) => (start_with_status d best fin, d)
  | None => let d' := apply_units d init_units in
            (start_with_status d' g g, d')
  end.

(* ------------------------------------------------------------------ histories, crashes *)

(* the crash-free run: the units of every step, in order *)
Fixpoint run_log (d : db) (m : mem) (steps : list step) : list (list wunit) * (db * mem) :=
  match steps with
  | [] => ([], (d, m))
  | st :: steps' =>
    let '(us, m') := do_step d m st in
    let '(l, r) := run_log (apply_units d us) m' steps' in
    (us :: l, r)
  end.

Definition fresh_mem : mem := mkm (CNode g 0 Justified 0 []) g false.
Definition fresh_db : db := apply_units empty_db init_units.

Definition all_units (steps : list step) : list wunit :=
  init_units ++ concat (fst (run_log fresh_db fresh_mem steps)).

(* the database after the first k write units *)
Definition crash (steps : list step) (k : nat) : db := apply_units empty_db (firstn k (all_units steps)).

(* run steps on a node *)
Fixpoint run_steps (d : db) (m : mem) (steps : list step) : db * mem :=
  match steps with
  | [] => (d, m)
  | st :: steps' => let '(us, m') := do_step d m st in run_steps (apply_units d us) m' steps'
  end.

(* number of steps completed within the first k units: the steps from that index on are "remaining" *)
Fixpoint completed (k : nat) (log : list (list wunit)) : nat :=
  match log with
  | [] => O
  | us :: log' => if Nat.leb (length us) k then S (completed (k - length us) log') else O
  end.

Definition remaining (steps : list step) (k : nat) : list step :=
  let log := fst (run_log fresh_db fresh_mem steps) in
  skipn (completed (k - length init_units) log) steps.

(* ------------------------------------------------------------------ observables *)

(* treeNode.lastJustified: the highest node with status Justified (the first one found wins ties) *)
Fixpoint last_justified (t : cnode) : option (N * N) :=
  match t with
  | CNode h ht st _ ks =>
    fold_left (fun sel k => match last_justified k, sel with
                            | None, _ => sel
                            | Some c, None => Some c
                            | Some c, Some s => if snd s <? snd c then Some c else sel
                            end)
              ks (if is_justified st then Some (h, ht) else None)
  end.

End Model.
