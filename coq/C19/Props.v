(* C19 — the node restarts cleanly from a crash at any storage write boundary.
   PROPERTY THEOREMS ONLY.

   Model: C19/Model.v mirrors what the node writes and in which order — casper.ApplyBlock's
   SaveCheckpoints batch BEFORE store.SaveBlock, then SaveChainStatus (one batch: ledger, status
   record, main-chain index); for a verification message SaveCheckpoints then SaveBlockHeader — and
   what NewChain rebuilds from a database: status record, best header, CheckpointsFromNode (every
   loaded checkpoint needs its block header), NewCasper/makeTree.  Checkpoints of unfinished epochs
   are never written (the code saves an empty batch for them).

   A history is ANY list of steps [SBlock b carry | SVote t s completes] over ANY block universe
   [U : hash -> (parent, height)], any epoch length [E], genesis [g] of height 0.  [all_units] is the
   write log of the crash-free run, [crash steps k] the database after its first k units,
   [recover] the startup, [remaining steps k] the steps from the interrupted one on,
   [final_view] best / last justified / last finalized after restart and re-delivery,
   [crashfree_view] the same after the crash-free run.

   Outcome on the pinned tree: clauses 1 and 3 of the property are REFUTED (four witness classes
   of the model, each replayed on the real node by harness/c19 on every run and recorded as a
   finding; a fifth class, C19-own-vote-erased, changes which signatures are stored and therefore
   the model's INPUT "this link reaches a supermajority": it is found and replayed by the oracle
   only); the
   ledger half of clause 2 and the "best block is stored" half of clause 1 hold for all histories
   and all crash points. *)
From Coq Require Import List NArith.
From C11 Require Import Model.
From C19 Require Import Model Run Proofs.
Import ListNotations.
Open Scope N_scope.

(* 1. "restarts without error".  Full statement Proofs.c19_recovers_full: for every history and
   every k the startup on [crash steps k] succeeds.  Refuted: the checkpoint of an epoch-closing
   block is committed before the block; between the two units the store holds a checkpoint whose
   header is missing and CheckpointsFromNode fails (witness: trunk 1..5, k = 10). *)
Theorem c19_recovers_refuted_checkpoint_before_block : ~ c19_recovers_full.
Proof. exact recovers_refuted. Qed.
Print Assumptions c19_recovers_refuted_checkpoint_before_block.

(* the witness is in the recorded class: the guard of the statement below is false on it *)
Theorem c19_recovers_witness_in_class :
  no_dangling (crash E4 (lookup_block blocks_a) 2 steps_a 10) = false.
Proof. exact witness_a_dangling. Qed.
Print Assumptions c19_recovers_witness_in_class.

(* 1'. Outside that class.  Full statement Proofs.c19_recovers_holds_outside (guard: no checkpoint
   record without its block).  Proved here with one more decidable check on the database, [root_ok]:
   the first checkpoint record at or after the persisted finalized key is genesis or has status
   Finalized (NewCasper panics otherwise).  That the best block named by the status record is stored
   is NOT assumed: it is theorem 2.  [partial: root_ok is not derived from the history] *)
Theorem c19_recovers_holds_outside_partial :
  forall (E : N) (U : N -> binfo) (g : N) (steps : list step) (k : nat) (best fin : N),
    d_status (crash E U g steps k) = Some (best, fin) ->
    no_dangling (crash E U g steps k) = true ->
    root_ok U (crash E U g steps k) fin = true ->
    started U g (crash E U g steps k).
Proof. exact recovers_partial. Qed.
Print Assumptions c19_recovers_holds_outside_partial.

(* 2. At every crash point of every history the best block named by the status record is stored:
   SaveChainStatus is only issued for a block that SaveBlock has already committed. *)
Theorem c19_best_block_stored :
  forall (E : N) (U : N -> binfo) (g : N) (steps : list step) (k : nat),
    best_stored (crash E U g steps k).
Proof. exact best_block_stored. Qed.
Print Assumptions c19_best_block_stored.

(* 3. "its state is one a crash-free node passed through", ledger part: at every crash point of
   every history the status record (best block, with it the utxo and contract tables of the same
   batch) and the main-chain index are exactly those of the crash-free node at a step boundary
   ([db_at steps i]: the empty store, the store after startup, after 1, 2, ... steps). *)
Theorem c19_state_on_path_ledger :
  forall (E : N) (U : N -> binfo) (g : N) (steps : list step) (k : nat),
    exists i : nat, led (crash E U g steps k) = led (db_at E U g steps i).
Proof. exact ledger_on_path. Qed.
Print Assumptions c19_state_on_path_ledger.

(* 3'. Finality part of clause 2 (full statement Proofs.c19_state_on_path_full): refuted — after a
   restart between the SaveCheckpoints batch that stores a Finalized status and the next
   SaveChainStatus the node reports (justified 8, finalized genesis), a pair the crash-free node
   never had (same root cause as C16-finalized-regresses-after-restart). *)
Theorem c19_state_refuted_finalization_in_flight :
  exists m d',
    recover (lookup_block blocks_d) 7 (crash E4 (lookup_block blocks_d) 7 steps_d 25) = (Started, Some m, d') /\
    forallb (fun i => negb (tri_eqb (view m) (view (mem_at E4 (lookup_block blocks_d) 7 steps_d i))))
            (seq 0 19) = true.
Proof. exact witness_d_state. Qed.
Print Assumptions c19_state_refuted_finalization_in_flight.

(* 4. "re-delivering the remaining blocks and votes leads to the same best chain and finality".
   Full statement Proofs.c19_convergence_full.  Refuted three times:
   (b) checkpoints of unfinished epochs are not persisted and startup rebuilds casper's tree from the
       stored epoch-closing checkpoints only: after a CLEAN restart inside an epoch the best block
       is no candidate and the next block of a shorter fork wins (trunk 1..6, restart, sibling of 5);
   (c) a crash between SaveBlock and SaveChainStatus of an epoch-closing block that wins by its
       carried sup link while not being higher than the best block: the re-delivered block is
       answered "already processed" and nothing reconciles the chain status with casper's best chain;
   (d) finalization in flight: the restart roots the tree at the old finalized checkpoint and the
       next SaveChainStatus persists the old pointer again. *)
Theorem c19_convergence_refuted_growing_lost : ~ c19_convergence_full.
Proof. exact convergence_refuted_b. Qed.
Print Assumptions c19_convergence_refuted_growing_lost.

Theorem c19_convergence_refuted_stored_not_adopted : ~ c19_convergence_full.
Proof. exact convergence_refuted_c. Qed.
Print Assumptions c19_convergence_refuted_stored_not_adopted.

Theorem c19_convergence_refuted_finalization_in_flight : ~ c19_convergence_full.
Proof. exact convergence_refuted_d. Qed.
Print Assumptions c19_convergence_refuted_finalization_in_flight.

(* 4'. The statement expected to hold on the pinned tree is Proofs.c19_convergence_holds_outside
   (decidable guard [outside_classes]: no dangling record, no finalization in flight, the rebuilt
   tree has the crash-free node's candidates, chain status = casper's best chain).  It is NOT
   proved [partial]; what is established: the guard is satisfiable at a crash point strictly inside
   a history with a fork (and convergence holds there), and witness (b) falls outside it. *)
Theorem c19_convergence_guard_partial :
  (outside_classes E4 (lookup_block blocks_c) 6 steps_c 21 = true /\
   final_view E4 (lookup_block blocks_c) 6 steps_c 21 = Some (crashfree_view E4 (lookup_block blocks_c) 6 steps_c)) /\
  outside_classes E4 (lookup_block blocks_b) 2 steps_b 16 = false.
Proof. exact (conj outside_classes_satisfiable (proj2 (proj2 witness_b_class))). Qed.
Print Assumptions c19_convergence_guard_partial.
