(* C12 — out-of-order block delivery: executable model.  NO PROOFS HERE.

   Mirrors, with the repair of OrphanManage.GetPrevOrphans / Get in place
   (GetPrevOrphans returns a copy, Get is nil-safe):

     protocol/orphan_manage.go   Add, delete, deleteLRU, Get, GetPrevOrphans, BlockExist
     protocol/block.go           BlockExist, saveBlock, saveSubBlock, processBlock

   Hashes are opaque labels (N); only their equality is used.  A block carries
   its hash [bid], its parent's hash [bparent], its height and an opaque tag on
   which validity may depend.  Everything that [saveBlock] checks after it has
   found the parent header (validation.ValidateBlock, casper.ApplyBlock,
   store.SaveBlock) is the parameter [valid]: a predicate of the block alone,
   because the block's hash fixes the chain of ancestors it is validated
   against.  The height of the best block, read by the duplicate test of
   processBlock, is the parameter [best_height] (any function of the stored
   headers: the theorems hold for every fork choice).  [cap] is
   numOrphanBlockLimit.

   After the repair no slice descriptor outlives the call that shifts it, so
   lists with value semantics model prevOrphans[parent]. *)
From Coq Require Import List NArith Bool.
Import ListNotations.

Record blk := mkBlk { bid : N; bparent : N; bheight : N; btag : N }.

(* The orphan pool [orphans] is kept in insertion order: Add stamps
   expiration = now + TTL with a monotone clock, so the least-recently-added
   orphan is the one deleteLRU picks.  [prevs] is the map prevOrphans as an
   association list.  [evicted] is a ghost counter (how often deleteLRU ran);
   nothing reads it. *)
Record state := mkState {
  stored : list blk;
  orphans : list blk;
  prevs : list (N * list N);
  evicted : N
}.

Definition init (g : blk) : state := mkState [g] [] [] 0.

Inductive res := Done (s : state) | OutOfFuel.

(* ---- maps ------------------------------------------------------------------ *)
Fixpoint lookup (m : list (N * list N)) (k : N) : option (list N) :=
  match m with
  | [] => None
  | (k', v) :: m' => if N.eqb k' k then Some v else lookup m' k
  end.

Fixpoint remove_key (m : list (N * list N)) (k : N) : list (N * list N) :=
  match m with
  | [] => []
  | (k', v) :: m' => if N.eqb k' k then remove_key m' k else (k', v) :: remove_key m' k
  end.

Definition set_key (m : list (N * list N)) (k : N) (v : list N) : list (N * list N) :=
  (k, v) :: remove_key m k.

(* append(s[:i], s[i+1:]...) for the first i with s[i] = h *)
Fixpoint remove_first (h : N) (l : list N) : list N :=
  match l with
  | [] => []
  | x :: l' => if N.eqb x h then l' else x :: remove_first h l'
  end.

Definition has_id (l : list blk) (h : N) : bool := existsb (fun b => N.eqb (bid b) h) l.
Definition find_id (l : list blk) (h : N) : option blk := find (fun b => N.eqb (bid b) h) l.
Definition drop_id (l : list blk) (h : N) : list blk := filter (fun b => negb (N.eqb (bid b) h)) l.

(* ---- orphan_manage.go ------------------------------------------------------ *)

(* OrphanManage.Get (repaired: (nil, false) when absent) *)
Definition om_get (s : state) (h : N) : option blk := find_id (orphans s) h.

(* OrphanManage.GetPrevOrphans (repaired: a copy) *)
Definition om_prev (s : state) (h : N) : option (list N) := lookup (prevs s) h.

(* OrphanManage.delete *)
Definition om_delete (s : state) (h : N) : state :=
  match find_id (orphans s) h with
  | None => s
  | Some b =>
    let os := drop_id (orphans s) h in
    match lookup (prevs s) (bparent b) with
    | None => mkState (stored s) os (remove_key (prevs s) (bparent b)) (evicted s)
    | Some l =>
      if Nat.eqb (length l) 1
      then mkState (stored s) os (remove_key (prevs s) (bparent b)) (evicted s)
      else if existsb (N.eqb h) l
           then mkState (stored s) os (set_key (prevs s) (bparent b) (remove_first h l)) (evicted s)
           else mkState (stored s) os (prevs s) (evicted s)
    end
  end.

(* OrphanManage.deleteLRU: the orphan with the earliest expiration *)
Definition om_delete_lru (s : state) : state :=
  match orphans s with
  | [] => s
  | o :: _ => om_delete s (bid o)
  end.

(* OrphanManage.Add *)
Definition om_add (cap : nat) (s : state) (b : blk) : state :=
  if has_id (orphans s) (bid b) then s
  else
    let s1 := if Nat.leb cap (length (orphans s))
              then (let s' := om_delete_lru s in
                    mkState (stored s') (orphans s') (prevs s') (N.succ (evicted s')))
              else s in
    let l := match lookup (prevs s1) (bparent b) with Some l => l | None => [] end in
    mkState (stored s1) (orphans s1 ++ [b]) (set_key (prevs s1) (bparent b) (l ++ [bid b])) (evicted s1).

(* ---- block.go -------------------------------------------------------------- *)
Section Chain.
Variable valid : blk -> bool.
Variable best_height : list blk -> N.
Variable cap : nat.

(* Chain.BlockExist *)
Definition block_exist (s : state) (h : N) : bool := has_id (stored s) h || has_id (orphans s) h.

(* Chain.saveBlock: None = an error is returned and nothing changes *)
Definition save_block (s : state) (b : blk) : option state :=
  if has_id (stored s) (bparent b) then
    if valid b then
      let st := if has_id (stored s) (bid b) then stored s else stored s ++ [b] in
      Some (om_delete (mkState st (orphans s) (prevs s) (evicted s)) (bid b))
    else None
  else None.

(* the loop of Chain.saveSubBlock over the copied list of waiting children *)
Fixpoint sub_loop (rec : state -> blk -> res) (s : state) (hs : list N) : res :=
  match hs with
  | [] => Done s
  | h :: hs' =>
    match om_get s h with
    | None => sub_loop rec s hs'                (* "fail to get block from orphanManage": continue *)
    | Some ob =>
      match save_block s ob with
      | None => sub_loop rec s hs'              (* "fail to save block": continue *)
      | Some s1 =>
        match rec s1 ob with
        | Done s2 => sub_loop rec s2 hs'
        | OutOfFuel => OutOfFuel
        end
      end
    end
  end.

(* Chain.saveSubBlock; the fuel bounds the recursion depth *)
Fixpoint save_sub (fuel : nat) (s : state) (b : blk) : res :=
  match fuel with
  | O => OutOfFuel
  | S f =>
    match om_prev s (bid b) with
    | None => Done s
    | Some hs => sub_loop (save_sub f) s hs
    end
  end.

(* enough fuel: every level of the recursion has removed one orphan from the pool *)
Definition sub_fuel (s : state) : nat := S (length (orphans s)).

(* what ProcessBlock returns: (isOrphan, error class: 0 none, 1 ErrBadBlock-like rejection) *)
Definition obs := (bool * N)%type.

(* Chain.processBlock *)
Definition process_block (s : state) (b : blk) : option (state * obs) :=
  if block_exist s (bid b) && N.leb (bheight b) (best_height (stored s))
  then Some (s, (has_id (orphans s) (bid b), 0%N))
  else if negb (has_id (stored s) (bparent b))
  then Some (om_add cap s b, (true, 0%N))
  else
    match save_block s b with
    | None => Some (s, (false, 1%N))
    | Some s1 =>
      match save_sub (sub_fuel s1) s1 b with
      | Done s2 => Some (s2, (false, 0%N))
      | OutOfFuel => None
      end
    end.

(* a delivery history; None = out of fuel (never happens: Proofs.run_total) *)
Fixpoint run (s : state) (ds : list blk) : option (state * list obs) :=
  match ds with
  | [] => Some (s, [])
  | b :: ds' =>
    match process_block s b with
    | None => None
    | Some (s1, o) =>
      match run s1 ds' with
      | None => None
      | Some (s2, os) => Some (s2, o :: os)
      end
    end
  end.

End Chain.
