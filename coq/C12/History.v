(* C12 — the behaviour of the pinned tree, before the repair of
   OrphanManage.GetPrevOrphans / Get.  Not a proof obligation of the property;
   kept to show that the repair is needed and that the positive theorems do not
   hold vacuously.

   Here prevOrphans[parent] is a Go slice: a descriptor (array, len, cap) over a
   heap of arrays.  GetPrevOrphans hands out the descriptor itself; `range`
   fixes the length once and reads the cells live; delete shifts the cells of
   the very same array in place (append(s[:i], s[i+1:]...) never reallocates:
   the capacity of s[:i] reaches to the end of the array); Get dereferences a
   nil *OrphanBlock when the hash is absent (Panic NilDeref).

   genesis <- P <- {A, B, C}; deliver A, B, C, then P:
     array [A,B,C]; iteration 0 reads A, saves it, delete shifts -> [B,C,C] len 2;
     iteration 1 reads C, saves it, delete -> [B,C,C] len 1;
     iteration 2 reads C again: Get(C) dereferences nil.  B is never connected. *)
From Coq Require Import List NArith Bool PeanoNat.
From Verif Require Import Outcome.
From C12 Require Import Model Spec Proofs.
Import ListNotations.

Record slice := mkSlice { arr : nat; slen : nat; scap : nat }.

Record ostate := mkO {
  o_stored : list blk;
  o_orphans : list blk;
  o_heap : list (list N);                 (* array id -> cells (length = capacity) *)
  o_prevs : list (N * slice)
}.

Fixpoint plookup (m : list (N * slice)) (k : N) : option slice :=
  match m with
  | [] => None
  | (k', v) :: m' => if N.eqb k' k then Some v else plookup m' k
  end.
Fixpoint premove (m : list (N * slice)) (k : N) : list (N * slice) :=
  match m with
  | [] => []
  | (k', v) :: m' => if N.eqb k' k then premove m' k else (k', v) :: premove m' k
  end.
Definition pset m k v := (k, v) :: premove m k.

Fixpoint set_nth {A} (l : list A) (i : nat) (x : A) : list A :=
  match l, i with
  | [], _ => []
  | _ :: l', O => x :: l'
  | y :: l', S i' => y :: set_nth l' i' x
  end.

Definition cells (s : ostate) (sl : slice) : list N := nth (arr sl) (o_heap s) [].

(* append(prev, h): in place while len < cap, else a fresh array of doubled capacity *)
Definition o_append (s : ostate) (sl : option slice) (h : N) : ostate * slice :=
  match sl with
  | Some sl =>
    if Nat.ltb (slen sl) (scap sl)
    then (mkO (o_stored s) (o_orphans s) (set_nth (o_heap s) (arr sl) (set_nth (cells s sl) (slen sl) h)) (o_prevs s),
          mkSlice (arr sl) (S (slen sl)) (scap sl))
    else let c := (2 * scap sl)%nat in
         (mkO (o_stored s) (o_orphans s)
              (o_heap s ++ [firstn (slen sl) (cells s sl) ++ h :: repeat 0%N (c - S (slen sl))]) (o_prevs s),
          mkSlice (length (o_heap s)) (S (slen sl)) c)
  | None => (mkO (o_stored s) (o_orphans s) (o_heap s ++ [[h]]) (o_prevs s), mkSlice (length (o_heap s)) 1 1)
  end.

Definition o_add (s : ostate) (b : blk) : ostate :=
  if has_id (o_orphans s) (bid b) then s
  else
    let '(s1, sl) := o_append s (plookup (o_prevs s) (bparent b)) (bid b) in
    mkO (o_stored s1) (o_orphans s1 ++ [b]) (o_heap s1) (pset (o_prevs s1) (bparent b) sl).

Fixpoint index_of (h : N) (l : list N) (i : nat) : option nat :=
  match l with
  | [] => None
  | x :: l' => if N.eqb x h then Some i else index_of h l' (S i)
  end.

(* OrphanManage.delete on the pinned tree: shifts the shared array in place *)
Definition o_delete (s : ostate) (h : N) : ostate :=
  match find_id (o_orphans s) h with
  | None => s
  | Some b =>
    let os := drop_id (o_orphans s) h in
    match plookup (o_prevs s) (bparent b) with
    | None => mkO (o_stored s) os (o_heap s) (premove (o_prevs s) (bparent b))
    | Some sl =>
      if Nat.eqb (slen sl) 1 then mkO (o_stored s) os (o_heap s) (premove (o_prevs s) (bparent b))
      else
        let live := firstn (slen sl) (cells s sl) in
        match index_of h live 0 with
        | None => mkO (o_stored s) os (o_heap s) (o_prevs s)
        | Some i =>
          let shifted := firstn i live ++ skipn (S i) live ++ skipn (Nat.pred (slen sl)) (cells s sl) in
          mkO (o_stored s) os (set_nth (o_heap s) (arr sl) shifted)
              (pset (o_prevs s) (bparent b) (mkSlice (arr sl) (Nat.pred (slen sl)) (scap sl)))
        end
    end
  end.

Section Old.
Variable valid : blk -> bool.

Definition o_save_block (s : ostate) (b : blk) : option ostate :=
  if has_id (o_stored s) (bparent b) then
    if valid b then
      let st := if has_id (o_stored s) (bid b) then o_stored s else o_stored s ++ [b] in
      Some (o_delete (mkO st (o_orphans s) (o_heap s) (o_prevs s)) (bid b))
    else None
  else None.

Definition ores := outcome unit ostate.   (* Err tt = out of fuel *)

(* `for _, prevOrphan := range prevOrphans`: the descriptor [sl] is the one GetPrevOrphans returned;
   cell i is read from the current heap *)
Fixpoint o_loop (rec : ostate -> blk -> ores) (s : ostate) (sl : slice) (i n : nat) : ores :=
  match n with
  | O => Ok s
  | S n' =>
    match nth_error (cells s sl) i with
    | None => Panic IndexOOR
    | Some h =>
      match find_id (o_orphans s) h with
      | None => Panic NilDeref                     (* Get: block.Block on a nil *OrphanBlock *)
      | Some ob =>
        match o_save_block s ob with
        | None => o_loop rec s sl (S i) n'
        | Some s1 =>
          match rec s1 ob with
          | Ok s2 => o_loop rec s2 sl (S i) n'
          | e => e
          end
        end
      end
    end
  end.

Fixpoint o_save_sub (fuel : nat) (s : ostate) (b : blk) : ores :=
  match fuel with
  | O => Err tt
  | S f =>
    match plookup (o_prevs s) (bid b) with
    | None => Ok s
    | Some sl => o_loop (o_save_sub f) s sl 0 (slen sl)
    end
  end.

Definition o_process (s : ostate) (b : blk) : ores :=
  if negb (has_id (o_stored s) (bparent b)) then Ok (o_add s b)
  else
    match o_save_block s b with
    | None => Ok s
    | Some s1 => o_save_sub (S (length (o_orphans s1))) s1 b
    end.

Fixpoint o_run (s : ostate) (ds : list blk) : ores :=
  match ds with
  | [] => Ok s
  | b :: ds' => match o_process s b with Ok s1 => o_run s1 ds' | e => e end
  end.

End Old.

Definition o_init (g : blk) : ostate := mkO [g] [] [] [].

(* three sibling orphans, then their parent: the pinned code dereferences nil *)
Theorem pinned_three_siblings_panic :
  o_run ex_valid (o_init ex_g) [ex_A; ex_B; ex_C; ex_P] = Panic NilDeref.
Proof. vm_compute. reflexivity. Qed.

(* the repaired model on the same deliveries (instances of the general theorems) *)
Lemma repaired_three_siblings :
  exists s os, run ex_valid (fun _ => 0%N) 256 (init ex_g) [ex_A; ex_B; ex_C; ex_P] = Some (s, os) /\
               stored s = [ex_g; ex_P; ex_A; ex_B; ex_C] /\ orphans s = [].
Proof. eexists. eexists. vm_compute. repeat split. Qed.

(* two waiting siblings are still connected by the pinned code: the cell re-read after the
   shift happens to hold the sibling that is still waiting; the crash needs three *)
Theorem pinned_two_siblings_ok :
  exists s, o_run ex_valid (o_init ex_g) [ex_A; ex_B; ex_P] = Ok s /\
            o_stored s = [ex_g; ex_P; ex_A; ex_B] /\ o_orphans s = [].
Proof. eexists. vm_compute. repeat split. Qed.
