(* C12 — blocks delivered in any order are all connected without crashing.
   PROPERTY THEOREMS ONLY.

   Model: C12/Model.v mirrors protocol/block.go (processBlock, saveBlock,
   saveSubBlock, BlockExist) and protocol/orphan_manage.go (Add, delete,
   deleteLRU, Get, GetPrevOrphans) with the repair of GetPrevOrphans (returns a
   copy of the list that delete shifts in place) and Get (nil-safe) in place.
   [run valid best_height cap (init g) ds] delivers the blocks [ds] in this
   order to a node that stores only genesis [g]; it returns the final state and
   what ProcessBlock returned for every delivery.

   The predicates of the statements (hash_consistent, connected, index lookup,
   Inv) are defined in C12/Spec.v.

   Parameters, universally quantified in every theorem:
     valid        everything saveBlock checks once the parent header is found
                  (validation, casper, store) - any predicate of the block;
     best_height  the height of the best block read by the duplicate test of
                  processBlock - any function of the stored blocks (any fork choice);
     cap          numOrphanBlockLimit - any number.
   Deliveries are arbitrary lists of arbitrary blocks: invalid blocks, repeated
   deliveries, blocks whose ancestors never arrive, any tree shape, any size.

   Hypotheses:
     hash_consistent (g :: ds)  a hash identifies its block (no two different
                                blocks among genesis and the deliveries share a hash);
     evicted s = 0              deleteLRU never ran, i.e. the orphan pool never held
                                [cap] orphans at once (c12_no_eviction_below_capacity:
                                guaranteed when at most [cap] blocks are delivered).
   The expiry worker (a timer) is not part of the model: no expiry tick inside
   the history. *)
From Coq Require Import List NArith Permutation.
From C12 Require Import Model Spec Proofs.
Import ListNotations.

(* Block processing never crashes and always returns: the model has no panicking
   operation left (the repaired Get returns (nil, false)), and the recursion of
   saveSubBlock terminates within the fuel [run] gives it, for EVERY history. *)
Theorem c12_no_crash :
  forall valid best_height cap g (ds : list blk),
    exists s os, run valid best_height cap (init g) ds = Some (s, os).
Proof. exact no_crash_statement. Qed.
Print Assumptions c12_no_crash.

(* The property.  For every set of blocks and EVERY delivery order, after the last
   delivery: the stored blocks are exactly genesis and the delivered valid blocks
   all of whose ancestors were delivered and are valid ([connected]: as if the
   blocks had arrived in order); no valid orphan has a stored parent; no valid
   delivered block is lost (it is stored or waits); every waiting orphan was
   delivered and is listed in the orphan index under its parent. *)
Theorem c12_closure :
  forall valid best_height cap g (ds : list blk) s os,
    hash_consistent (g :: ds) ->
    run valid best_height cap (init g) ds = Some (s, os) ->
    evicted s = 0%N ->
    (forall b, In b (stored s) <-> b = g \/ connected valid g ds b) /\
    (forall o, In o (orphans s) -> valid o = true -> has_id (stored s) (bparent o) = false) /\
    (forall b, In b ds -> valid b = true -> In b (stored s) \/ In b (orphans s)) /\
    (forall o, In o (orphans s) -> In o ds /\
       exists l, lookup (prevs s) (bparent o) = Some l /\ In (bid o) l).
Proof. exact closure_statement. Qed.
Print Assumptions c12_closure.

(* Corollary: the final stored set does not depend on the delivery order. *)
Theorem c12_order_independent :
  forall valid best_height cap g (ds1 ds2 : list blk) s1 os1 s2 os2,
    Permutation ds1 ds2 -> hash_consistent (g :: ds1) ->
    run valid best_height cap (init g) ds1 = Some (s1, os1) ->
    run valid best_height cap (init g) ds2 = Some (s2, os2) ->
    evicted s1 = 0%N -> evicted s2 = 0%N ->
    forall b, In b (stored s1) <-> In b (stored s2).
Proof. exact order_independent_statement. Qed.
Print Assumptions c12_order_independent.

(* The side condition is met whenever no more blocks are delivered than the pool holds. *)
Theorem c12_no_eviction_below_capacity :
  forall valid best_height cap g (ds : list blk) s os,
    hash_consistent (g :: ds) ->
    run valid best_height cap (init g) ds = Some (s, os) ->
    length ds <= cap -> evicted s = 0%N.
Proof. exact below_capacity_statement. Qed.
Print Assumptions c12_no_eviction_below_capacity.

(* The inductive invariant behind c12_closure holds after every single delivery
   (D = the blocks delivered so far), with or without evictions. *)
Theorem c12_invariant_step :
  forall valid best_height cap g (U : blk -> Prop),
    U g -> (forall a b, U a -> U b -> bid a = bid b -> a = b) ->
    forall D s b s' o,
      (forall x, In x (D ++ [b]) -> U x) ->
      Inv valid g D s -> process_block valid best_height cap s b = Some (s', o) ->
      Inv valid g (D ++ [b]) s'.
Proof. exact invariant_step_statement. Qed.
Print Assumptions c12_invariant_step.
