(* C12 — helpers used by the generated case files.

   A case is a block tree given as a list of (parent label, height, tag) — the
   k-th entry (from 1) is the block with label k, label 0 is genesis, tag 0 =
   valid — and the delivery sequence as a list of labels.  The projection
   compared with the implementation: per delivery (orphan flag, error class);
   finally, for every label 0..n, whether the block is stored, whether it
   waits in the orphan pool, and the list of labels the orphan index holds
   under it.  [None] = the node process died (never produced by the model). *)
From Coq Require Import List NArith Bool.
From Verif Require Import Cmp.
From C12 Require Import Model.
Import ListNotations.

Definition genesis : blk := mkBlk 0 4294967295 0 0.

Definition valid_tag (b : blk) : bool := N.eqb (btag b) 0.

(* the harness's nodes never justify a checkpoint beyond genesis (one of four
   federation votes), so fork choice picks a highest stored block *)
Definition max_height (l : list blk) : N := fold_right (fun b m => N.max (bheight b) m) 0%N l.

Definition orphan_limit : nat := 256.

Fixpoint mkblocks (k : N) (l : list (N * N * N)) : list blk :=
  match l with
  | [] => []
  | (p, h, t) :: l' => mkBlk k p h t :: mkblocks (N.succ k) l'
  end.

Fixpoint resolve (bs : list blk) (order : list N) : option (list blk) :=
  match order with
  | [] => Some []
  | l :: order' =>
    match find_id bs l, resolve bs order' with
    | Some b, Some r => Some (b :: r)
    | _, _ => None
    end
  end.

Definition cres := option (list (bool * N) * (list bool * list bool * list (list N))).

Definition project (s : state) (labels : list N) : list bool * list bool * list (list N) :=
  (map (has_id (stored s)) labels,
   map (has_id (orphans s)) labels,
   map (fun l => match lookup (prevs s) l with Some v => v | None => [] end) labels).

Definition run_case (tree : list (N * N * N)) (order : list N) : cres :=
  let bs := mkblocks 1 tree in
  match resolve bs order with
  | None => None
  | Some ds =>
    match run valid_tag max_height orphan_limit (init genesis) ds with
    | None => None
    | Some (s, os) => Some (os, project s (0%N :: map bid bs))
    end
  end.

Definition cres_eqb : cres -> cres -> bool :=
  option_eqb (pair_eqb (list_eqb (pair_eqb Bool.eqb N.eqb))
    (pair_eqb (pair_eqb (list_eqb Bool.eqb) (list_eqb Bool.eqb)) (list_eqb (list_eqb N.eqb)))).
