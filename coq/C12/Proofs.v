(* C12 — proofs about the model of out-of-order block delivery. *)
From Coq Require Import List NArith Bool Lia PeanoNat Permutation.
From C12 Require Import Model Spec.
Import ListNotations.

(* ---- lists and maps --------------------------------------------------------- *)

Lemma has_id_true l h : has_id l h = true <-> exists b, In b l /\ bid b = h.
Proof.
  unfold has_id. rewrite existsb_exists. split; intros [b [H1 H2]]; exists b; split; auto.
  - apply N.eqb_eq; auto.
  - apply N.eqb_eq; auto.
Qed.

Lemma has_id_false l h : has_id l h = false -> forall b, In b l -> bid b <> h.
Proof.
  intros H b Hb E. assert (has_id l h = true) by (apply has_id_true; eauto). congruence.
Qed.

Lemma has_id_app l1 l2 h : has_id (l1 ++ l2) h = has_id l1 h || has_id l2 h.
Proof. unfold has_id. apply existsb_app. Qed.

Lemma find_id_some l h b : find_id l h = Some b -> In b l /\ bid b = h.
Proof.
  unfold find_id. intros H. apply find_some in H. destruct H as [H1 H2].
  apply N.eqb_eq in H2. auto.
Qed.

Lemma find_id_none l h : find_id l h = None -> forall b, In b l -> bid b <> h.
Proof.
  unfold find_id. intros H b Hb E. pose proof (find_none _ _ H b Hb) as H1. cbn in H1.
  apply N.eqb_neq in H1. auto.
Qed.

Lemma find_id_has l h : has_id l h = true -> exists b, find_id l h = Some b.
Proof.
  intros H. destruct (find_id l h) eqn:E; eauto.
  apply has_id_true in H. destruct H as [b [H1 H2]]. exfalso. eapply find_id_none; eauto.
Qed.

Lemma drop_id_In l h b : In b (drop_id l h) <-> In b l /\ bid b <> h.
Proof.
  unfold drop_id. rewrite filter_In. split; intros [H1 H2]; split; auto.
  - apply negb_true_iff in H2. apply N.eqb_neq in H2. auto.
  - apply negb_true_iff. apply N.eqb_neq. auto.
Qed.

Lemma drop_id_length l h : length (drop_id l h) <= length l.
Proof.
  unfold drop_id. induction l as [|x l IH]; cbn; [lia|]. destruct (negb _); cbn; lia.
Qed.

Lemma drop_id_length_lt l b : In b l -> length (drop_id l (bid b)) < length l.
Proof.
  unfold drop_id. induction l as [|x l IH]; cbn; [tauto|]. intros [E | H].
  - subst x. rewrite N.eqb_refl. cbn. pose proof (drop_id_length l (bid b)). unfold drop_id in H. lia.
  - specialize (IH H). destruct (negb _); cbn; lia.
Qed.

Lemma lookup_remove_key m k k' :
  lookup (remove_key m k) k' = if N.eqb k k' then None else lookup m k'.
Proof.
  induction m as [|[k0 v] m IH]; cbn.
  - destruct (N.eqb k k'); reflexivity.
  - destruct (N.eqb k0 k) eqn:E0.
    + apply N.eqb_eq in E0. subst k0. rewrite IH. destruct (N.eqb k k'); reflexivity.
    + cbn. rewrite IH. destruct (N.eqb k0 k') eqn:E1; [|reflexivity].
      apply N.eqb_eq in E1. subst k0. rewrite N.eqb_sym in E0. rewrite E0. reflexivity.
Qed.

Lemma lookup_set_key m k v k' :
  lookup (set_key m k v) k' = if N.eqb k k' then Some v else lookup m k'.
Proof.
  unfold set_key. cbn. rewrite lookup_remove_key. destruct (N.eqb k k'); reflexivity.
Qed.

Lemma remove_first_In h l x : In x l -> x <> h -> In x (remove_first h l).
Proof.
  induction l as [|y l IH]; cbn; [tauto|]. intros [E | H] Hne.
  - subst y. destruct (N.eqb x h) eqn:E; [apply N.eqb_eq in E; congruence | left; reflexivity].
  - destruct (N.eqb y h); [assumption | right; auto].
Qed.

(* ---- the orphan manager ------------------------------------------------------ *)

Lemma om_delete_stored s h : stored (om_delete s h) = stored s.
Proof.
  unfold om_delete. destruct (find_id _ _); [|reflexivity].
  destruct (lookup _ _); [|reflexivity]. destruct (Nat.eqb _ _); [reflexivity|].
  destruct (existsb _ _); reflexivity.
Qed.

Lemma om_delete_evicted s h : evicted (om_delete s h) = evicted s.
Proof.
  unfold om_delete. destruct (find_id _ _); [|reflexivity].
  destruct (lookup _ _); [|reflexivity]. destruct (Nat.eqb _ _); [reflexivity|].
  destruct (existsb _ _); reflexivity.
Qed.

Lemma drop_id_none l h : find_id l h = None -> drop_id l h = l.
Proof.
  intros H. unfold drop_id. induction l as [|x l IH]; cbn; [reflexivity|].
  unfold find_id in H. cbn in H. destruct (N.eqb (bid x) h) eqn:E; [discriminate|].
  cbn. f_equal. apply IH. exact H.
Qed.

Lemma om_delete_orphans s h : orphans (om_delete s h) = drop_id (orphans s) h.
Proof.
  unfold om_delete. destruct (find_id _ _) eqn:E.
  - destruct (lookup _ _); [|reflexivity]. destruct (Nat.eqb _ _); [reflexivity|].
    destruct (existsb _ _); reflexivity.
  - symmetry. apply drop_id_none. exact E.
Qed.

Lemma om_delete_index s h : index_complete s -> index_complete (om_delete s h).
Proof.
  intros Hc o Ho. rewrite om_delete_orphans in Ho. apply drop_id_In in Ho. destruct Ho as [Ho Hne].
  destruct (Hc o Ho) as [l [Hl Hin]].
  unfold om_delete. destruct (find_id (orphans s) h) as [b|] eqn:Ef; [|eauto].
  apply find_id_some in Ef. destruct Ef as [Hb Hbid].
  destruct (Hc b Hb) as [lb [Hlb Hinb]]. rewrite Hlb.
  destruct (N.eqb (bparent b) (bparent o)) eqn:Ep.
  - apply N.eqb_eq in Ep. rewrite Ep in Hlb. rewrite Hlb in Hl. inversion Hl; subst lb.
    destruct (Nat.eqb (length l) 1) eqn:E1.
    + (* a single entry: it is h, and it is also bid o *)
      exfalso. apply Nat.eqb_eq in E1. destruct l as [|x [|y l]]; cbn in E1; try discriminate.
      cbn in Hin, Hinb. destruct Hin as [Hin|[]]. destruct Hinb as [Hinb|[]]. congruence.
    + assert (Hex : existsb (N.eqb h) l = true).
      { apply existsb_exists. exists (bid b). split; [assumption|]. apply N.eqb_eq. auto. }
      rewrite Hex. cbn [prevs]. rewrite Ep. rewrite lookup_set_key, N.eqb_refl.
      eexists; split; [reflexivity|]. apply remove_first_In; assumption.
  - destruct (Nat.eqb (length lb) 1).
    + cbn [prevs]. rewrite lookup_remove_key, Ep. eauto.
    + destruct (existsb (N.eqb h) lb); cbn [prevs].
      * rewrite lookup_set_key, Ep. eauto.
      * eauto.
Qed.

Lemma om_delete_lru_stored s : stored (om_delete_lru s) = stored s.
Proof. unfold om_delete_lru. destruct (orphans s); [reflexivity|]. apply om_delete_stored. Qed.

Lemma om_delete_lru_evicted s : evicted (om_delete_lru s) = evicted s.
Proof. unfold om_delete_lru. destruct (orphans s); [reflexivity|]. apply om_delete_evicted. Qed.

Lemma om_delete_lru_orphans s x : In x (orphans (om_delete_lru s)) -> In x (orphans s).
Proof.
  unfold om_delete_lru. destruct (orphans s) eqn:E; [rewrite E; auto|].
  rewrite om_delete_orphans. intros H. apply drop_id_In in H. rewrite <- E. tauto.
Qed.

Lemma om_delete_lru_length s : length (orphans (om_delete_lru s)) <= length (orphans s).
Proof.
  unfold om_delete_lru. destruct (orphans s) eqn:E; [rewrite E; lia|].
  rewrite om_delete_orphans. rewrite <- E. apply drop_id_length.
Qed.

Lemma om_delete_lru_index s : index_complete s -> index_complete (om_delete_lru s).
Proof. unfold om_delete_lru. destruct (orphans s); [auto|]. apply om_delete_index. Qed.

(* ---- the chain --------------------------------------------------------------- *)
Section Chain.
Variable valid : blk -> bool.
Variable best_height : list blk -> N.
Variable cap : nat.

Notation save_block := (save_block valid).
Notation sub_loop := (sub_loop valid).
Notation save_sub := (save_sub valid).
Notation process_block := (process_block valid best_height cap).
Notation run := (run valid best_height cap).
Notation viol := (viol valid).
Notation connected := (connected valid).

Lemma connected_In g D b : connected g D b -> In b D.
Proof. destruct 1; assumption. Qed.

Lemma connected_valid g D b : connected g D b -> valid b = true.
Proof. destruct 1; assumption. Qed.

Lemma connected_incl g D D' b : incl D D' -> connected g D b -> connected g D' b.
Proof.
  intros Hi H. induction H.
  - apply conn_root; auto.
  - eapply conn_step; eauto.
Qed.

(* ---- fuel: saveSubBlock's recursion is bounded by the number of waiting orphans *)

Lemma save_block_orphans s b s1 : save_block s b = Some s1 -> orphans s1 = drop_id (orphans s) (bid b).
Proof.
  unfold Model.save_block. destruct (has_id _ _); [|discriminate]. destruct (valid b); [|discriminate].
  intros H. inversion H. rewrite om_delete_orphans. reflexivity.
Qed.

Lemma sub_loop_fuel f :
  (forall s b, length (orphans s) < f -> exists s', save_sub f s b = Done s' /\ length (orphans s') <= length (orphans s)) ->
  forall hs s, length (orphans s) < S f ->
    exists s', sub_loop (save_sub f) s hs = Done s' /\ length (orphans s') <= length (orphans s).
Proof.
  intros IH hs. induction hs as [|h hs IHhs]; intros s Hlen; cbn.
  - eauto.
  - destruct (om_get s h) as [ob|] eqn:Eg; [|auto].
    destruct (save_block s ob) as [s1|] eqn:Es; [|auto].
    apply find_id_some in Eg. destruct Eg as [Hin Hid].
    pose proof (save_block_orphans _ _ _ Es) as Ho.
    pose proof (drop_id_length_lt _ _ Hin) as Hlt. rewrite <- Ho in Hlt.
    destruct (IH s1 ob) as [s2 [E2 L2]]; [lia|]. rewrite E2.
    destruct (IHhs s2) as [s3 [E3 L3]]; [lia|]. exists s3. split; [assumption|lia].
Qed.

Lemma save_sub_fuel f : forall s b, length (orphans s) < f ->
  exists s', save_sub f s b = Done s' /\ length (orphans s') <= length (orphans s).
Proof.
  induction f as [|f IH]; intros s b Hlen; [lia|]. cbn.
  destruct (om_prev s (bid b)) as [hs|]; [|eauto].
  apply sub_loop_fuel; auto.
Qed.

Lemma process_block_total s b : exists s' o, process_block s b = Some (s', o).
Proof.
  unfold Model.process_block. destruct (_ && _); [eauto|]. destruct (negb _); [eauto|].
  destruct (save_block s b) as [s1|]; [|eauto].
  destruct (save_sub_fuel (sub_fuel s1) s1 b) as [s2 [E _]]; [unfold sub_fuel; lia|].
  rewrite E. eauto.
Qed.

Lemma run_total ds : forall s, exists s' os, run s ds = Some (s', os).
Proof.
  induction ds as [|b ds IH]; intros s; cbn; [eauto|].
  destruct (process_block_total s b) as [s1 [o E]]. rewrite E.
  destruct (IH s1) as [s2 [os E2]]. rewrite E2. eauto.
Qed.

(* ---- the universe of blocks: a hash identifies its block ---------------------- *)
Variable g : blk.
Variable U : blk -> Prop.
Hypothesis Ug : U g.
Hypothesis Ucons : forall a b, U a -> U b -> bid a = bid b -> a = b.
Notation stored_ok := (stored_ok valid g).
Notation Inv := (Inv valid g).

Section Delivered.
Variable D : list blk.
Hypothesis DU : forall x, In x D -> U x.

Lemma stored_U s x : stored_ok D s -> In x (stored s) -> U x.
Proof. intros H Hx. destruct (H x Hx) as [E|C]; [subst; auto | apply DU; eapply connected_In; eauto]. Qed.

Lemma stored_by_id s b : stored_ok D s -> U b -> has_id (stored s) (bid b) = true -> In b (stored s).
Proof.
  intros H Hb Hh. apply has_id_true in Hh. destruct Hh as [y [Hy E]].
  assert (y = b) by (apply Ucons; eauto using stored_U). subst. assumption.
Qed.

(* frame conditions of everything that happens after the parent was found *)
Record ext (s s' : state) : Prop := {
  ext_stored : forall x, In x (stored s) -> In x (stored s');
  ext_orph : forall x, In x (orphans s') -> In x (orphans s);
  ext_kept : forall x, In x (orphans s) -> In x (orphans s') \/ In x (stored s');
  ext_evicted : evicted s' = evicted s
}.

Lemma ext_refl s : ext s s.
Proof. constructor; auto. Qed.

Lemma ext_trans s1 s2 s3 : ext s1 s2 -> ext s2 s3 -> ext s1 s3.
Proof.
  intros [a1 b1 c1 d1] [a2 b2 c2 d2]. constructor; auto.
  - intros x Hx. destruct (c1 x Hx) as [H|H]; auto.
  - congruence.
Qed.

Lemma ext_has_id s s' h : ext s s' -> has_id (stored s) h = true -> has_id (stored s') h = true.
Proof.
  intros E H. apply has_id_true in H. destruct H as [b [H1 H2]]. apply has_id_true. exists b.
  split; [apply (ext_stored _ _ E); assumption | assumption].
Qed.

Lemma save_block_spec s b s1 :
  save_block s b = Some s1 -> stored_ok D s -> orph_ok D s -> In b D ->
  has_id (stored s) (bparent b) = true /\ valid b = true /\
  (stored s1 = stored s \/ stored s1 = stored s ++ [b]) /\ In b (stored s1) /\
  orphans s1 = drop_id (orphans s) (bid b) /\
  ext s s1 /\ stored_ok D s1 /\ orph_ok D s1 /\
  (index_complete s -> index_complete s1).
Proof.
  intros Hs Hst Hor Hb. pose proof (save_block_orphans _ _ _ Hs) as Ho.
  unfold Model.save_block in Hs. destruct (has_id (stored s) (bparent b)) eqn:Hp; [|discriminate].
  destruct (valid b) eqn:Hv; [|discriminate]. injection Hs as Hs1.
  set (st := if has_id (stored s) (bid b) then stored s else stored s ++ [b]) in *.
  assert (Hst1 : stored s1 = st) by (rewrite <- Hs1; rewrite om_delete_stored; reflexivity).
  assert (Hinb : In b st).
  { subst st. destruct (has_id (stored s) (bid b)) eqn:E.
    - apply stored_by_id; auto.
    - apply in_or_app. right. left. reflexivity. }
  assert (Hsub : forall x, In x (stored s) -> In x st).
  { subst st. intros x Hx. destruct (has_id (stored s) (bid b)); [assumption | apply in_or_app; auto]. }
  assert (Hsup : forall x, In x st -> In x (stored s) \/ x = b).
  { subst st. intros x Hx. destruct (has_id (stored s) (bid b)); [auto|]. apply in_app_or in Hx.
    destruct Hx as [Hx|[Hx|[]]]; auto. }
  assert (Hconn : connected g D b).
  { apply has_id_true in Hp. destruct Hp as [p [Hp1 Hp2]]. destruct (Hst p Hp1) as [E|C].
    - subst p. apply conn_root; auto.
    - eapply conn_step; eauto. }
  split; [reflexivity|]. split; [reflexivity|]. split.
  { rewrite Hst1. subst st. destruct (has_id (stored s) (bid b)); auto. }
  split; [rewrite Hst1; assumption|]. split; [assumption|]. split.
  { constructor.
    - intros x Hx. rewrite Hst1. auto.
    - intros x Hx. rewrite Ho in Hx. apply drop_id_In in Hx. tauto.
    - intros x Hx. destruct (N.eq_dec (bid x) (bid b)) as [E|E].
      + right. assert (x = b) by (apply Ucons; auto). subst x. rewrite Hst1. assumption.
      + left. rewrite Ho. apply drop_id_In. auto.
    - rewrite <- Hs1. rewrite om_delete_evicted. reflexivity. }
  split.
  { intros x Hx. rewrite Hst1 in Hx. destruct (Hsup x Hx) as [H|H]; [auto | subst; auto]. }
  split.
  { intros x Hx. rewrite Ho in Hx. apply drop_id_In in Hx. apply Hor. tauto. }
  intros Hc. rewrite <- Hs1. apply om_delete_index. exact Hc.
Qed.

(* the heart: saveSubBlock connects every waiting descendant.  X excuses the orphans that the
   enclosing loops (the callers' remaining lists) are still going to visit. *)
Lemma sub_loop_spec f :
  (forall s b s' (X : N -> Prop),
     save_sub f s b = Done s' -> stored_ok D s -> orph_ok D s -> index_complete s ->
     (forall o, viol s o -> bparent o = bid b \/ X (bid o)) ->
     ext s s' /\ stored_ok D s' /\ orph_ok D s' /\ index_complete s' /\ (forall o, viol s' o -> X (bid o))) ->
  forall hs s s' (X : N -> Prop),
    sub_loop (save_sub f) s hs = Done s' -> stored_ok D s -> orph_ok D s -> index_complete s ->
    (forall o, viol s o -> In (bid o) hs \/ X (bid o)) ->
    ext s s' /\ stored_ok D s' /\ orph_ok D s' /\ index_complete s' /\ (forall o, viol s' o -> X (bid o)).
Proof.
  intros IH hs. induction hs as [|h hs IHhs]; intros s s' X Hrun Hst Hor Hidx Hv; cbn in Hrun.
  - inversion Hrun; subst s'. split; [apply ext_refl|]. repeat split; auto.
    intros o Ho. destruct (Hv o Ho) as [[]|]; assumption.
  - destruct (om_get s h) as [ob|] eqn:Eg.
    2:{ apply (IHhs s s' X); auto. intros o Ho. destruct (Hv o Ho) as [[E|H]|H]; auto.
        exfalso. destruct Ho as [Ho _]. eapply find_id_none; eauto. }
    pose proof (find_id_some _ _ _ Eg) as [Hob Hobid].
    destruct (save_block s ob) as [s1|] eqn:Es.
    2:{ apply (IHhs s s' X); auto. intros o Ho. destruct (Hv o Ho) as [[E|H]|H]; auto.
        exfalso. destruct Ho as [Ho1 [Ho2 Ho3]].
        assert (o = ob) by (apply Ucons; auto; congruence). subst o.
        unfold Model.save_block in Es. rewrite Ho3, Ho2 in Es. discriminate. }
    destruct (save_block_spec _ _ _ Es Hst Hor (Hor _ Hob)) as (Hp & Hval & Hstd & Hin1 & Ho1 & Hext1 & Hst1 & Hor1 & Hidx1).
    destruct (save_sub f s1 ob) as [s2|] eqn:E2; [|discriminate].
    assert (Hv1 : forall o, viol s1 o -> bparent o = bid ob \/ (In (bid o) hs \/ X (bid o))).
    { intros o [Ha [Hb Hc]]. rewrite Ho1 in Ha. apply drop_id_In in Ha. destruct Ha as [Ha Hne].
      destruct Hstd as [Hstd|Hstd]; rewrite Hstd in Hc.
      - right. destruct (Hv o) as [[E|H]|H]; auto. { repeat split; auto. } congruence.
      - rewrite has_id_app in Hc. apply orb_true_iff in Hc. destruct Hc as [Hc|Hc].
        + right. destruct (Hv o) as [[E|H]|H]; auto. { repeat split; auto. } congruence.
        + left. unfold has_id in Hc. cbn in Hc. rewrite orb_false_r in Hc. apply N.eqb_eq in Hc. auto. }
    destruct (IH s1 ob s2 (fun i => In i hs \/ X i) E2 Hst1 Hor1 (Hidx1 Hidx) Hv1)
      as (Hext2 & Hst2 & Hor2 & Hidx2 & Hv2).
    destruct (IHhs s2 s' X Hrun Hst2 Hor2 Hidx2 Hv2) as (Hext3 & Hst3 & Hor3 & Hidx3 & Hv3).
    split; [eapply ext_trans; [exact Hext1 | eapply ext_trans; eassumption]|]. auto.
Qed.

Lemma save_sub_spec f : forall s b s' (X : N -> Prop),
  save_sub f s b = Done s' -> stored_ok D s -> orph_ok D s -> index_complete s ->
  (forall o, viol s o -> bparent o = bid b \/ X (bid o)) ->
  ext s s' /\ stored_ok D s' /\ orph_ok D s' /\ index_complete s' /\ (forall o, viol s' o -> X (bid o)).
Proof.
  induction f as [|f IH]; intros s b s' X Hrun Hst Hor Hidx Hv; cbn in Hrun; [discriminate|].
  destruct (om_prev s (bid b)) as [hs|] eqn:Ep.
  - apply (sub_loop_spec f IH hs s s' X); auto.
    intros o Ho. destruct (Hv o Ho) as [E|H]; auto. left.
    destruct Ho as [Ho _]. destruct (Hidx o Ho) as [l [Hl Hin]].
    unfold om_prev in Ep. rewrite E in Hl. rewrite Hl in Ep. inversion Ep; subst; assumption.
  - inversion Hrun; subst s'. split; [apply ext_refl|]. repeat split; auto.
    intros o Ho. destruct (Hv o Ho) as [E|H]; auto. exfalso.
    destruct Ho as [Ho _]. destruct (Hidx o Ho) as [l [Hl Hin]].
    unfold om_prev in Ep. rewrite E in Hl. congruence.
Qed.

End Delivered.

(* ---- the invariant over delivery histories ------------------------------------ *)

Lemma Inv_init : Inv [] (init g).
Proof.
  constructor.
  - cbn. left. reflexivity.
  - intros x Hx. cbn in Hx. destruct Hx as [E|[]]. left. symmetry. exact E.
  - intros x Hx. cbn in Hx. destruct Hx.
  - intros _ x Hx. destruct Hx.
  - intros o Ho. destruct Ho as [Ho _]. cbn in Ho. destruct Ho.
  - intros o Ho. cbn in Ho. destruct Ho.
  - cbn. apply le_n.
Qed.

Lemma stored_ok_mono D D' s : incl D D' -> stored_ok D s -> stored_ok D' s.
Proof. intros Hi H x Hx. destruct (H x Hx); eauto using connected_incl. Qed.

Lemma om_add_spec s b :
  has_id (orphans s) (bid b) = false ->
  let s' := om_add cap s b in
  stored s' = stored s /\
  (forall x, In x (orphans s') -> In x (orphans s) \/ x = b) /\
  In b (orphans s') /\
  (evicted s' = 0%N -> evicted s = 0%N /\ forall x, In x (orphans s) -> In x (orphans s')) /\
  (index_complete s -> index_complete s') /\
  length (orphans s') <= S (length (orphans s)) /\
  (evicted s = 0%N -> length (orphans s) < cap -> evicted s' = 0%N).
Proof.
  intros Hno. unfold om_add. rewrite Hno. cbn zeta.
  set (s1 := if Nat.leb cap (length (orphans s)) then _ else s).
  assert (H1 : stored s1 = stored s /\ (forall x, In x (orphans s1) -> In x (orphans s)) /\
               length (orphans s1) <= length (orphans s) /\
               (index_complete s -> index_complete s1) /\
               (evicted s1 = 0%N -> s1 = s) /\
               (length (orphans s) < cap -> s1 = s)).
  { subst s1. destruct (Nat.leb cap (length (orphans s))) eqn:E; cbn.
    - split; [apply om_delete_lru_stored|]. split; [apply om_delete_lru_orphans|].
      split; [apply om_delete_lru_length|]. split; [apply om_delete_lru_index|].
      split.
      + intros H. exfalso. destruct (evicted (om_delete_lru s)); discriminate.
      + apply Nat.leb_le in E. lia.
    - repeat split; auto. }
  destruct H1 as (Ha & Hb & Hc & Hd & He & Hf). cbn.
  split; [assumption|]. split.
  { intros x Hx. apply in_app_or in Hx. destruct Hx as [Hx|[Hx|[]]]; auto. }
  split; [apply in_or_app; right; left; reflexivity|]. split.
  { intros H0. pose proof (He H0) as Es. rewrite Es in H0. split; [exact H0|]. intros x Hx. rewrite Es. apply in_or_app. auto. }
  split.
  { intros Hidx o Ho. cbn [orphans prevs] in *. rewrite lookup_set_key.
    apply in_app_or in Ho. destruct Ho as [Ho|[Ho|[]]].
    - destruct (Hd Hidx o Ho) as [l [Hl Hin]].
      destruct (N.eqb (bparent b) (bparent o)) eqn:E.
      + apply N.eqb_eq in E. rewrite E. rewrite Hl. eexists; split; [reflexivity|]. apply in_or_app; auto.
      + eauto.
    - subst o. rewrite N.eqb_refl. eexists; split; [reflexivity|]. apply in_or_app. right. left. reflexivity. }
  split.
  { rewrite app_length. cbn. lia. }
  intros H0 Hlt. rewrite (Hf Hlt). assumption.
Qed.

Lemma process_block_inv D s b s' o :
  (forall x, In x (D ++ [b]) -> U x) ->
  Inv D s -> process_block s b = Some (s', o) ->
  Inv (D ++ [b]) s' /\ (evicted s' = 0%N -> evicted s = 0%N) /\
  (evicted s = 0%N -> length D < cap -> evicted s' = 0%N).
Proof.
  intros HU HI Hp.
  assert (Hincl : incl D (D ++ [b])) by (intros x Hx; apply in_or_app; auto).
  assert (HbD : In b (D ++ [b])) by (apply in_or_app; right; left; reflexivity).
  assert (HUb : U b) by auto.
  assert (HDU : forall x, In x D -> U x) by auto.
  destruct HI as [Ig Iconn Iorph Ikept Iviol Iidx Ilen].
  assert (Hlen' : length (D ++ [b]) = S (length D)) by (rewrite app_length; cbn; lia).
  (* the state does not change and b is accounted for *)
  assert (Hsame : (valid b = true -> In b (stored s) \/ In b (orphans s)) -> Inv (D ++ [b]) s).
  { intros Hb. constructor; auto.
    - eapply stored_ok_mono; eauto.
    - intros x Hx. apply Hincl. auto.
    - intros H0 x Hx Hv. apply in_app_or in Hx. destruct Hx as [Hx|[Hx|[]]]; [auto|subst; auto].
    - lia. }
  unfold Model.process_block in Hp.
  destruct (block_exist s (bid b) && N.leb (bheight b) (best_height (stored s))) eqn:Ex.
  { (* already known *)
    inversion Hp; subst s' o. split; [|auto]. apply Hsame. intros _.
    apply andb_true_iff in Ex. destruct Ex as [Ex _]. unfold block_exist in Ex.
    apply orb_true_iff in Ex. destruct Ex as [Ex|Ex].
    - left. eapply stored_by_id; eauto.
    - right. apply has_id_true in Ex. destruct Ex as [y [Hy E]].
      assert (y = b) by (apply Ucons; auto). subst; assumption. }
  destruct (negb (has_id (stored s) (bparent b))) eqn:Epar.
  { (* parent unknown: the block waits *)
    apply negb_true_iff in Epar. inversion Hp; subst s' o. clear Hp.
    destruct (has_id (orphans s) (bid b)) eqn:Eo.
    - unfold om_add. rewrite Eo. split; [|auto]. apply Hsame. intros _. right.
      apply has_id_true in Eo. destruct Eo as [y [Hy E]].
      assert (y = b) by (apply Ucons; auto). subst; assumption.
    - destruct (om_add_spec s b Eo) as (Ha & Hb & Hc & Hd & He & Hf & Hg).
      split; [|split; [intros H0; apply Hd; assumption | intros H0 Hl; apply Hg; [assumption|lia]]].
      constructor.
      + rewrite Ha. assumption.
      + intros x Hx. rewrite Ha in Hx. destruct (Iconn x Hx); eauto using connected_incl.
      + intros x Hx. destruct (Hb x Hx) as [H|H]; [apply Hincl; auto | subst; assumption].
      + intros H0 x Hx Hv. destruct (Hd H0) as [H00 Hkeep]. rewrite Ha.
        apply in_app_or in Hx. destruct Hx as [Hx|[Hx|[]]]; [|subst; auto].
        destruct (Ikept H00 x Hx Hv); auto.
      + intros x [Hx1 [Hx2 Hx3]]. rewrite Ha in Hx3. destruct (Hb x Hx1) as [H|H].
        * apply (Iviol x). repeat split; auto.
        * subst x. congruence.
      + auto.
      + lia. }
  apply negb_false_iff in Epar.
  destruct (save_block s b) as [s1|] eqn:Es.
  2:{ (* rejected *)
    inversion Hp; subst s' o. split; [|auto]. apply Hsame. intros Hv. exfalso.
    unfold Model.save_block in Es. rewrite Epar, Hv in Es. discriminate. }
  destruct (Model.save_sub valid (sub_fuel s1) s1 b) as [s2|] eqn:E2; [|discriminate].
  inversion Hp; subst s' o. clear Hp.
  assert (Iconn' : stored_ok (D ++ [b]) s) by (eapply stored_ok_mono; eauto).
  assert (Iorph' : orph_ok (D ++ [b]) s) by (intros x Hx; apply Hincl; auto).
  destruct (save_block_spec (D ++ [b]) HU _ _ _ Es Iconn' Iorph' HbD)
    as (Hp & Hval & Hstd & Hin1 & Ho1 & Hext1 & Hst1 & Hor1 & Hidx1).
  assert (Hv1 : forall o, viol s1 o -> bparent o = bid b \/ False).
  { intros o [Ha [Hb Hc]]. rewrite Ho1 in Ha. apply drop_id_In in Ha. destruct Ha as [Ha Hne].
    destruct Hstd as [Hstd|Hstd]; rewrite Hstd in Hc.
    - exfalso. apply (Iviol o). repeat split; auto.
    - rewrite has_id_app in Hc. apply orb_true_iff in Hc. destruct Hc as [Hc|Hc].
      + exfalso. apply (Iviol o). repeat split; auto.
      + left. unfold has_id in Hc. cbn in Hc. rewrite orb_false_r in Hc. apply N.eqb_eq in Hc. auto. }
  destruct (save_sub_spec (D ++ [b]) HU _ _ _ _ (fun _ => False) E2 Hst1 Hor1 (Hidx1 Iidx) Hv1)
    as (Hext2 & Hst2 & Hor2 & Hidx2 & Hv2).
  destruct (save_sub_fuel (sub_fuel s1) s1 b) as [s2' [E2' L2]]; [unfold sub_fuel; lia|].
  rewrite E2 in E2'. inversion E2'; subst s2'.
  assert (Hev : evicted s2 = evicted s).
  { rewrite (ext_evicted _ _ Hext2). apply (ext_evicted _ _ Hext1). }
  split; [|rewrite Hev; auto].
  constructor.
  - apply (ext_stored _ _ Hext2). apply (ext_stored _ _ Hext1). assumption.
  - exact Hst2.
  - exact Hor2.
  - intros H0 x Hx Hv. rewrite Hev in H0.
    assert (Hx1 : In x (stored s1) \/ In x (orphans s1)).
    { apply in_app_or in Hx. destruct Hx as [Hx|[Hx|[]]]; [|subst; auto].
      destruct (Ikept H0 x Hx Hv) as [H|H].
      - left. apply (ext_stored _ _ Hext1). assumption.
      - destruct (ext_kept _ _ Hext1 x H); auto. }
    destruct Hx1 as [H|H].
    + left. apply (ext_stored _ _ Hext2). assumption.
    + destruct (ext_kept _ _ Hext2 x H); auto.
  - intros o Ho. apply (Hv2 o Ho).
  - exact Hidx2.
  - rewrite Ho1 in L2. pose proof (drop_id_length (orphans s) (bid b)). lia.
Qed.

Lemma run_inv ds : forall D s s' os,
  (forall x, In x (D ++ ds) -> U x) ->
  Inv D s -> run s ds = Some (s', os) ->
  Inv (D ++ ds) s' /\ (evicted s' = 0%N -> evicted s = 0%N) /\
  (evicted s = 0%N -> length (D ++ ds) <= cap -> evicted s' = 0%N).
Proof.
  induction ds as [|b ds IH]; intros D s s' os HU HI Hr; cbn in Hr.
  - inversion Hr; subst. rewrite app_nil_r. auto.
  - destruct (Model.process_block valid best_height cap s b) as [[s1 o]|] eqn:Ep; [|discriminate].
    destruct (Model.run valid best_height cap s1 ds) as [[s2 os2]|] eqn:Er; [|discriminate].
    inversion Hr; subst s' os. clear Hr.
    assert (Heq : D ++ b :: ds = (D ++ [b]) ++ ds) by (rewrite <- app_assoc; reflexivity).
    rewrite Heq in *.
    assert (HU1 : forall x, In x (D ++ [b]) -> U x) by (intros x Hx; apply HU; apply in_or_app; auto).
    destruct (process_block_inv D s b s1 o HU1 HI Ep) as (HI1 & Hm1 & Hn1).
    destruct (IH (D ++ [b]) s1 s2 os2 HU HI1 Er) as (HI2 & Hm2 & Hn2).
    split; [assumption|]. split; [auto|]. intros H0 Hl. apply Hn2; [|assumption].
    apply Hn1; [assumption|]. rewrite !app_length in Hl. cbn in Hl. lia.
Qed.

End Chain.

(* ---- the property -------------------------------------------------------------- *)

Section Statement.
Variable valid : blk -> bool.
Variable best_height : list blk -> N.
Variable cap : nat.

Lemma reachable_inv g ds s os :
  hash_consistent (g :: ds) ->
  run valid best_height cap (init g) ds = Some (s, os) ->
  Inv valid g ds s /\ (length ds <= cap -> evicted s = 0%N).
Proof.
  intros Hc Hr.
  destruct (run_inv valid best_height cap g (fun x => In x (g :: ds)) (or_introl eq_refl) Hc
              ds [] (init g) s os) as (HI & _ & Hn); auto.
  - intros x Hx. right. exact Hx.
  - apply Inv_init.
Qed.

Lemma closure_statement g ds s os :
  hash_consistent (g :: ds) ->
  run valid best_height cap (init g) ds = Some (s, os) ->
  evicted s = 0%N ->
  (forall b, In b (stored s) <-> b = g \/ connected valid g ds b) /\
  (forall o, In o (orphans s) -> valid o = true -> has_id (stored s) (bparent o) = false) /\
  (forall b, In b ds -> valid b = true -> In b (stored s) \/ In b (orphans s)) /\
  (forall o, In o (orphans s) -> In o ds /\
     exists l, lookup (prevs s) (bparent o) = Some l /\ In (bid o) l).
Proof.
  intros Hc Hr H0. destruct (reachable_inv g ds s os Hc Hr) as [[Ig Iconn Iorph Ikept Iviol Iidx Ilen] _].
  assert (Hnov : forall o, In o (orphans s) -> valid o = true -> has_id (stored s) (bparent o) = false).
  { intros o Ho Hv. destruct (has_id (stored s) (bparent o)) eqn:E; [|reflexivity].
    exfalso. apply (Iviol o). repeat split; auto. }
  split; [|split; [exact Hnov | split; [auto | intros o Ho; split; auto]]].
  intros b. split; [apply Iconn|]. intros [E|C]; [subst; assumption|].
  induction C as [b Hb Hv Hp | b p Hb Hv Cp IH Hp].
  - destruct (Ikept H0 b Hb Hv) as [H|H]; [assumption|]. exfalso.
    pose proof (Hnov b H Hv) as Hn. rewrite Hp in Hn.
    assert (has_id (stored s) (bid g) = true) by (apply has_id_true; eauto). congruence.
  - destruct (Ikept H0 b Hb Hv) as [H|H]; [assumption|]. exfalso.
    pose proof (Hnov b H Hv) as Hn. rewrite Hp in Hn.
    assert (has_id (stored s) (bid p) = true) by (apply has_id_true; eauto). congruence.
Qed.

Lemma no_crash_statement g ds : exists s os, run valid best_height cap (init g) ds = Some (s, os).
Proof. apply run_total. Qed.

Lemma order_independent_statement g ds1 ds2 s1 os1 s2 os2 :
  Permutation ds1 ds2 -> hash_consistent (g :: ds1) ->
  run valid best_height cap (init g) ds1 = Some (s1, os1) ->
  run valid best_height cap (init g) ds2 = Some (s2, os2) ->
  evicted s1 = 0%N -> evicted s2 = 0%N ->
  forall b, In b (stored s1) <-> In b (stored s2).
Proof.
  intros Hperm Hc H1 H2 E1 E2 b.
  assert (Hc2 : hash_consistent (g :: ds2)).
  { assert (Hin : forall x, In x (g :: ds2) -> In x (g :: ds1)).
    { intros x [Hx|Hx]; [left; assumption|]. right.
      eapply Permutation_in; [apply Permutation_sym; eassumption | assumption]. }
    intros x y Hx Hy. apply Hc; auto. }
  destruct (closure_statement g ds1 s1 os1 Hc H1 E1) as [C1 _].
  destruct (closure_statement g ds2 s2 os2 Hc2 H2 E2) as [C2 _].
  rewrite C1, C2.
  assert (I12 : incl ds1 ds2) by (intros x Hx; eapply Permutation_in; eassumption).
  assert (I21 : incl ds2 ds1) by (intros x Hx; eapply Permutation_in; [apply Permutation_sym|]; eassumption).
  split; intros [E|C]; auto; right; eapply connected_incl; eassumption.
Qed.

Lemma invariant_step_statement g (U : blk -> Prop) :
  U g -> (forall a b, U a -> U b -> bid a = bid b -> a = b) ->
  forall D s b s' o,
    (forall x, In x (D ++ [b]) -> U x) ->
    Inv valid g D s -> process_block valid best_height cap s b = Some (s', o) ->
    Inv valid g (D ++ [b]) s'.
Proof.
  intros Ug Uc D s b s' o HU HI Hp.
  exact (proj1 (process_block_inv valid best_height cap g U Ug Uc D s b s' o HU HI Hp)).
Qed.

Lemma below_capacity_statement g ds s os :
  hash_consistent (g :: ds) ->
  run valid best_height cap (init g) ds = Some (s, os) ->
  length ds <= cap -> evicted s = 0%N.
Proof. intros Hc Hr. apply (reachable_inv g ds s os Hc Hr). Qed.

End Statement.

(* ---- the hypotheses are satisfiable by a non-trivial history --------------------- *)

Definition blk_eqb (a b : blk) : bool :=
  N.eqb (bid a) (bid b) && N.eqb (bparent a) (bparent b) && N.eqb (bheight a) (bheight b) && N.eqb (btag a) (btag b).

Lemma blk_eqb_eq a b : blk_eqb a b = true -> a = b.
Proof.
  unfold blk_eqb. intros H. repeat (apply andb_true_iff in H; destruct H as [H ?]).
  destruct a, b; cbn in *. repeat match goal with E : N.eqb _ _ = true |- _ => apply N.eqb_eq in E end.
  subst. reflexivity.
Qed.

Definition consistentb (l : list blk) : bool :=
  forallb (fun a => forallb (fun b => negb (N.eqb (bid a) (bid b)) || blk_eqb a b) l) l.

Lemma consistentb_sound l : consistentb l = true -> hash_consistent l.
Proof.
  unfold consistentb. intros H a b Ha Hb E. rewrite forallb_forall in H.
  specialize (H a Ha). rewrite forallb_forall in H. specialize (H b Hb).
  apply orb_true_iff in H. destruct H as [H|H].
  - apply negb_true_iff in H. apply N.eqb_neq in H. contradiction.
  - apply blk_eqb_eq. exact H.
Qed.

(* genesis <- P <- {A, B, C}, delivered A, B, C, P: the historical crash *)
Definition ex_g := mkBlk 0 99 0 0.
Definition ex_P := mkBlk 1 0 1 0.
Definition ex_A := mkBlk 2 1 2 0.
Definition ex_B := mkBlk 3 1 2 0.
Definition ex_C := mkBlk 4 1 2 0.
Definition ex_valid (b : blk) : bool := N.eqb (btag b) 0.

Example ex_consistent : hash_consistent [ex_g; ex_A; ex_B; ex_C; ex_P].
Proof. apply consistentb_sound. vm_compute. reflexivity. Qed.

Example ex_siblings_then_parent :
  exists s, run ex_valid (fun _ => 0%N) 256 (init ex_g) [ex_A; ex_B; ex_C; ex_P]
            = Some (s, [(true, 0%N); (true, 0%N); (true, 0%N); (false, 0%N)]) /\
            evicted s = 0%N /\ stored s = [ex_g; ex_P; ex_A; ex_B; ex_C] /\ orphans s = [] /\ prevs s = [].
Proof. eexists. vm_compute. repeat split. Qed.

Example ex_connected : connected ex_valid ex_g [ex_A; ex_B; ex_C; ex_P] ex_C.
Proof.
  apply conn_step with (p := ex_P); [cbn; tauto | reflexivity | | reflexivity].
  apply conn_root; [cbn; tauto | reflexivity | reflexivity].
Qed.
