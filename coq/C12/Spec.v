(* C12 — the predicates used in the statements of the property theorems.  DEFINITIONS ONLY. *)
From Coq Require Import List NArith Bool.
From C12 Require Import Model.
Import ListNotations.

(* a hash identifies its block, over genesis and everything delivered *)
Definition hash_consistent (l : list blk) : Prop :=
  forall a b, In a l -> In b l -> bid a = bid b -> a = b.

(* every waiting orphan is listed under its parent in the orphan index *)
Definition index_complete (s : state) : Prop :=
  forall o, In o (orphans s) -> exists l, lookup (prevs s) (bparent o) = Some l /\ In (bid o) l.

Section Spec.
Variable valid : blk -> bool.

(* a valid orphan whose parent is stored: what must not be left behind *)
Definition viol (s : state) (o : blk) : Prop :=
  In o (orphans s) /\ valid o = true /\ has_id (stored s) (bparent o) = true.

(* b is connected to genesis g through delivered (D) valid blocks: b was delivered and is
   valid, and so was every one of its ancestors down to a child of genesis *)
Inductive connected (g : blk) (D : list blk) : blk -> Prop :=
| conn_root b : In b D -> valid b = true -> bparent b = bid g -> connected g D b
| conn_step b p : In b D -> valid b = true -> connected g D p -> bparent b = bid p -> connected g D b.

Definition stored_ok (g : blk) (D : list blk) (s : state) : Prop :=
  forall x, In x (stored s) -> x = g \/ connected g D x.
Definition orph_ok (D : list blk) (s : state) : Prop :=
  forall x, In x (orphans s) -> In x D.

(* the invariant over delivery histories; D = the blocks delivered so far *)
Record Inv (g : blk) (D : list blk) (s : state) : Prop := {
  inv_g : In g (stored s);
  inv_conn : stored_ok g D s;
  inv_orph : orph_ok D s;
  inv_kept : evicted s = 0%N -> forall x, In x D -> valid x = true -> In x (stored s) \/ In x (orphans s);
  inv_viol : forall o, ~ viol s o;
  inv_idx : index_complete s;
  inv_len : length (orphans s) <= length D
}.

End Spec.
