(* C13 — the property at full strength, as two statements about ALL histories
   (kept as definitions: the pinned code refutes both, see C13/History.v and
   C13/Props.v; what holds is stated in C13/Props.v).  NO PROOFS HERE. *)
From Coq Require Import List NArith Bool.
From C13 Require Import Model Spec Rules Run.
Import ListNotations.
Open Scope N_scope.

(* side conditions on the inputs, common to all statements:
   - a hash identifies its block among genesis and the delivered blocks;
   - gas numbers are non-negative int64 values, the block gas limit too;
   - the genesis block spends nothing *)
Definition universe_ok (P : params) (g : blk) (ds : list (N * blk)) : Prop :=
  (forall a b, (a = g \/ exists n, In (n, a) ds) -> (b = g \/ exists n, In (n, b) ds) ->
               bid a = bid b -> a = b) /\
  p_maxgas P < two63 /\
  (forall now b, In (now, b) ds -> gas_bounded b) /\
  (forall t, In t (btxs g) -> tspends t = []).

(* "A block is never connected if it breaks any consensus rule": after every history, for
   every fork choice, every block of the main chain is consensus-valid w.r.t. its predecessors
   (at the clock of one of its deliveries). *)
Definition C13_sound_full : Prop :=
  forall P proposer choose g ds s os,
    universe_ok P g ds ->
    run P proposer choose (init P g) ds = (s, os) ->
    forall pre b c, mainc s = pre ++ b :: c -> c <> [] ->
      exists now, In (now, b) ds /\ consensus_valid P proposer now c b.

(* every block of the chain is consensus-valid w.r.t. its predecessors *)
Definition chain_all_valid (P : params) (proposer : N -> N -> N) (ds : list (N * blk)) (c : list blk) : Prop :=
  forall pre b c', c = pre ++ b :: c' -> c' <> [] ->
    exists now, In (now, b) ds /\ consensus_valid P proposer now c' b.

(* "Valid blocks are accepted": with the fork choice "highest block, ties by the greater hash
   string", a new block that is consensus-valid on top of the best block and outranks every
   stored block whose whole chain is consensus-valid becomes the best block when it is processed. *)
Definition C13_complete_full : Prop :=
  forall P proposer g l s os now b,
    universe_ok P g (l ++ [(now, b)]) ->
    run P proposer run_choose (init P g) l = (s, os) ->
    consensus_valid P proposer now (mainc s) b ->
    ~ In (bid b) (map (fun e => bid (sb e)) (stored s)) ->
    (forall e, In e (stored s) ->
       chain_all_valid P proposer (l ++ [(now, b)]) (sb e :: spath e) -> better b (sb e) = true) ->
    best (fst (process_block P proposer run_choose now s b)) = bid b.
