(* C13 — the UTXO table of the node represents the reference ledger of its main chain:
   apply refines the ledger (both directions), detach undoes apply (under the guard),
   saving normalises. *)
From Coq Require Import List NArith Bool Lia.
From C13 Require Import Model Spec.
Import ListNotations.
Open Scope N_scope.

(* how a table entry represents the ledger's knowledge about an output id *)
Definition rel (c : option entry) (u : ust) : Prop :=
  match u with
  | ULive t h => exists h', c = Some (mkE t h' false) /\ (t = Normal \/ h' = h)
  | UGone Coinbase h => c = Some (mkE Coinbase h true)
  | UGone t _ => c = None \/ exists h', c = Some (mkE t h' true)
  | UAbsent => c = None \/ exists t h', c = Some (mkE t h' true) /\ t <> Coinbase
  end.

Definition Rep (m : umap) (L : ledgerT) : Prop := forall o, rel (m o) (L o).

Lemma out_type_not_cb t : out_type t <> Coinbase.
Proof. destruct t; discriminate. Qed.

Definition keys {A} (l : list (N * A)) : list N := map fst l.

Lemma in_keys {A} (l : list (N * A)) x : In x (keys l) <-> exists a, In (x, a) l.
Proof.
  unfold keys. rewrite in_map_iff. split.
  - intros [[k a] [E H]]. cbn in E. subst. exists a; exact H.
  - intros [a H]. exists (x, a). split; [reflexivity | exact H].
Qed.

Section Utxo.
Variable P : params.

(* ---------------------------------------------------------------- ledger, pointwise *)

Lemma l_spends_other sps : forall L x, ~ In x (keys sps) -> l_spends L sps x = L x.
Proof.
  induction sps as [|[o ty] r IH]; intros L x Hn; cbn; [reflexivity|].
  rewrite IH by (intro H; apply Hn; right; exact H).
  unfold l_spend. destruct (x =? o) eqn:E; [|reflexivity].
  apply N.eqb_eq in E. exfalso. apply Hn. left. cbn. congruence.
Qed.

Lemma l_spends_key h sps : forall L x,
  spends_ok P L h sps -> In x (keys sps) ->
  exists t h0, L x = ULive t h0 /\ l_spends L sps x = UGone t h0.
Proof.
  induction sps as [|[o ty] r IH]; intros L x Hok Hin; [destruct Hin|].
  cbn in Hok. destruct Hok as [Hc Hr]. cbn [l_spends].
  assert (Ho : exists t h0, L o = ULive t h0).
  { unfold can_spend in Hc. destruct (L o) as [|t h0|]; try contradiction. eauto. }
  destruct Ho as (t & h0 & Ho).
  assert (Hnot : ~ In o (keys r)).
  { intro Hi. destruct (IH _ _ Hr Hi) as (t' & h' & E & _).
    unfold l_spend in E. rewrite N.eqb_refl, Ho in E. discriminate. }
  destruct (N.eq_dec x o) as [->|Hne].
  - exists t, h0. split; [exact Ho|]. rewrite l_spends_other by exact Hnot.
    unfold l_spend. rewrite N.eqb_refl, Ho. reflexivity.
  - destruct Hin as [Hin|Hin]; [cbn in Hin; congruence|].
    destruct (IH _ _ Hr Hin) as (t' & h' & E & E2).
    exists t', h'. split; [|exact E2].
    unfold l_spend in E. apply N.eqb_neq in Hne. rewrite Hne in E. exact E.
Qed.

Lemma spends_ok_nodup h sps : forall L, spends_ok P L h sps -> NoDup (keys sps).
Proof.
  induction sps as [|[o ty] r IH]; intros L Hok; cbn; [constructor|].
  cbn in Hok. destruct Hok as [Hc Hr]. constructor; [|eapply IH; exact Hr].
  intro Hi. destruct (l_spends_key _ _ _ _ Hr Hi) as (t' & h' & E & _).
  unfold l_spend in E. rewrite N.eqb_refl in E.
  unfold can_spend in Hc. destruct (L o); try contradiction; discriminate.
Qed.

Lemma l_outs_other h cb outs : forall L x, ~ In x (keys outs) -> l_outs h cb L outs x = L x.
Proof.
  induction outs as [|[o ty] r IH]; intros L x Hn; cbn; [reflexivity|].
  rewrite IH by (intro H; apply Hn; right; exact H).
  unfold l_out. cbn. destruct (x =? o) eqn:E; [|reflexivity].
  apply N.eqb_eq in E. exfalso. apply Hn. left. cbn. congruence.
Qed.

(* ---------------------------------------------------------------- apply refines the ledger *)

Lemma rep_upd m L o e u :
  Rep m L -> rel (Some e) u ->
  Rep (uset m o e) (fun x => if x =? o then u else L x).
Proof.
  intros HR He x. unfold uset. destruct (x =? o); [exact He | apply HR].
Qed.

Lemma apply_spends_sim h sps : forall m L, Rep m L ->
  (forall m', apply_spends P h m sps = Some m' -> spends_ok P L h sps /\ Rep m' (l_spends L sps)) /\
  (spends_ok P L h sps -> exists m', apply_spends P h m sps = Some m').
Proof.
  induction sps as [|[o ty] r IH]; intros m L HR.
  - cbn. split; [intros m' E; inversion E; subst; split; [exact I | exact HR] | eauto].
  - cbn [apply_spends spends_ok l_spends].
    pose proof (HR o) as Ho. unfold rel in Ho. unfold can_spend.
    destruct (L o) as [|t h0|t h0] eqn:EL.
    + (* absent *)
      split.
      * intros m' E. exfalso. destruct Ho as [Ho|(t & h' & Ho & _)]; rewrite Ho in E; cbn in E; discriminate.
      * intros [[] _].
    + (* live *)
      destruct Ho as (h' & Ho & Hh). rewrite Ho. cbn [espent etype eheight].
      set (e1 := mkE t h' true).
      assert (HR1 : Rep (uset m o e1) (l_spend L o)).
      { unfold l_spend. rewrite EL. apply rep_upd; [exact HR|].
        unfold e1. destruct t; cbn.
        - right. eauto.
        - destruct Hh as [Hh|Hh]; [discriminate | subst; reflexivity].
        - right. eauto. }
      destruct (IH _ _ HR1) as [IH1 IH2].
      destruct t.
      * split; [intros m' E; destruct (IH1 _ E); tauto | intros [_ H]; apply IH2; exact H].
      * destruct Hh as [Hh|Hh]; [discriminate|]. subst h'.
        destruct (h0 + p_maturity P <=? h) eqn:Ec.
        -- apply N.leb_le in Ec. split; [intros m' E; destruct (IH1 _ E); tauto | intros [_ H]; apply IH2; exact H].
        -- apply N.leb_gt in Ec. split; [discriminate | intros [H _]; lia].
      * destruct Hh as [Hh|Hh]; [discriminate|]. subst h'.
        destruct (h0 + p_lock P h <=? h) eqn:Ec.
        -- apply N.leb_le in Ec. split; [intros m' E; destruct (IH1 _ E); tauto | intros [_ H]; apply IH2; exact H].
        -- apply N.leb_gt in Ec. split; [discriminate | intros [H _]; lia].
    + (* gone *)
      split.
      * intros m' E. exfalso. destruct t.
        -- destruct Ho as [Ho|(h' & Ho)]; rewrite Ho in E; cbn in E; discriminate.
        -- rewrite Ho in E; cbn in E; discriminate.
        -- destruct Ho as [Ho|(h' & Ho)]; rewrite Ho in E; cbn in E; discriminate.
      * intros [[] _].
Qed.

Lemma apply_outs_sim h cb outs : forall m L, Rep m L -> Rep (apply_outs h cb m outs) (l_outs h cb L outs).
Proof.
  induction outs as [|[o ty] r IH]; intros m L HR; cbn; [exact HR|].
  apply IH. unfold l_out. cbn. apply rep_upd; [exact HR|].
  cbn. eexists. split; [reflexivity | right; reflexivity].
Qed.

Lemma apply_txs_sim h ts : forall cb m L, Rep m L ->
  (forall m', apply_txs P h cb m ts = Some m' -> txs_ok P L h cb ts /\ Rep m' (l_txs h cb L ts)) /\
  (txs_ok P L h cb ts -> exists m', apply_txs P h cb m ts = Some m').
Proof.
  induction ts as [|t r IH]; intros cb m L HR.
  - cbn. split; [intros m' E; inversion E; subst; split; [exact I | exact HR] | eauto].
  - cbn [apply_txs txs_ok l_txs]. unfold apply_tx.
    destruct (apply_spends_sim h (tspends t) m L HR) as [S1 S2].
    destruct (apply_spends P h m (tspends t)) as [m1|] eqn:E1.
    + destruct (S1 _ eq_refl) as [Hok HR1].
      pose proof (apply_outs_sim h cb (touts t) _ _ HR1) as HR2.
      destruct (IH false _ _ HR2) as [I1 I2]. fold (l_tx h cb L t) in *.
      split.
      * intros m' E. destruct (I1 _ E). tauto.
      * intros [_ H]. apply I2. exact H.
    + split; [discriminate|]. intros [H _]. destruct (S2 H) as [m' E]. discriminate.
Qed.

(* ---------------------------------------------------------------- detach, pointwise *)

Definition unspent_of (c : option entry) (ty : utype) : entry :=
  match c with None => mkE (out_type ty) 0 false | Some e => mkE (etype e) (eheight e) false end.

Lemma detach_spends_char sps : forall m,
  NoDup (keys sps) ->
  (forall x, In x (keys sps) -> m x = None \/ exists e, m x = Some e /\ espent e = true) ->
  exists m', detach_spends m sps = Some m' /\
    (forall x, ~ In x (keys sps) -> m' x = m x) /\
    (forall x ty, In (x, ty) sps -> m' x = Some (unspent_of (m x) ty)).
Proof.
  induction sps as [|[o ty] r IH]; intros m Hnd Hpre.
  - exists m. cbn. split; [reflexivity|]. split; [reflexivity | intros ? ? []].
  - cbn in Hnd. inversion Hnd as [|? ? Hno Hnd']; subst.
    cbn [detach_spends].
    set (e1 := unspent_of (m o) ty).
    assert (Hstep : detach_spends m ((o, ty) :: r) = detach_spends (uset m o e1) r).
    { cbn [detach_spends]. unfold e1, unspent_of.
      destruct (Hpre o (or_introl eq_refl)) as [E|(e & E & Es)]; rewrite E; [reflexivity|].
      rewrite Es. reflexivity. }
    cbn [detach_spends] in Hstep. rewrite Hstep.
    destruct (IH (uset m o e1) Hnd') as (m' & E & Hoth & Hkey).
    { intros x Hx. unfold uset. destruct (x =? o) eqn:Ex.
      - apply N.eqb_eq in Ex. subst. contradiction.
      - apply Hpre. right. exact Hx. }
    exists m'. split; [exact E|]. split.
    + intros x Hn. rewrite Hoth by (intro H; apply Hn; right; exact H).
      unfold uset. destruct (x =? o) eqn:Ex; [|reflexivity].
      apply N.eqb_eq in Ex. exfalso. apply Hn. left. cbn. congruence.
    + intros x ty' [Hin|Hin].
      * inversion Hin; subst. rewrite Hoth by exact Hno. unfold uset. rewrite N.eqb_refl. reflexivity.
      * rewrite (Hkey _ _ Hin). unfold uset.
        destruct (x =? o) eqn:Ex; [|reflexivity].
        apply N.eqb_eq in Ex. subst. exfalso. apply Hno. apply in_keys. eauto.
Qed.

Lemma detach_outs_char outs : forall m x,
  (~ In x (keys outs) -> detach_outs m outs x = m x) /\
  (In x (keys outs) -> exists t, detach_outs m outs x = Some (mkE (out_type t) 0 true)).
Proof.
  induction outs as [|[o ty] r IH]; intros m x; cbn [detach_outs].
  - split; [reflexivity | intros []].
  - destruct (IH (uset m o (mkE (out_type ty) 0 true)) x) as [I1 I2].
    destruct (in_dec N.eq_dec x (keys r)) as [Hin|Hnin].
    + split; [intros Hn; exfalso; apply Hn; right; exact Hin | intros _; apply I2; exact Hin].
    + rewrite I1 by exact Hnin. unfold uset. destruct (x =? o) eqn:Ex.
      * split; [intros Hn; apply N.eqb_eq in Ex; exfalso; apply Hn; left; cbn; congruence | intros _; eauto].
      * split; [reflexivity|]. intros [H|H]; [apply N.eqb_neq in Ex; cbn in H; congruence | contradiction].
Qed.

(* ---------------------------------------------------------------- detach undoes apply *)

(* Prop reading of the guard for one transaction *)
Definition tx_det_ok (L : ledgerT) (t : tx) : Prop :=
  (forall o ty, In (o, ty) (touts t) -> L o = UAbsent) /\
  (forall o ty, In (o, ty) (tspends t) -> ty <> Vote /\ forall h0, L o <> ULive Vote h0).

Lemma detach_tx_sim h cb t m L :
  spends_ok P L h (tspends t) -> tx_det_ok L t ->
  Rep m (l_tx h cb L t) ->
  exists m', detach_tx m t = Some m' /\ Rep m' L.
Proof.
  intros Hok [Hfresh Hvote] HR. unfold detach_tx.
  pose proof (spends_ok_nodup _ _ _ Hok) as Hnd.
  assert (Hdisj : forall x, In x (keys (tspends t)) -> ~ In x (keys (touts t))).
  { intros x Hs Ho. apply in_keys in Ho. destruct Ho as [ty Ho].
    destruct (l_spends_key _ _ _ _ Hok Hs) as (t' & h' & E & _).
    rewrite (Hfresh _ _ Ho) in E. discriminate. }
  assert (Hpre : forall x, In x (keys (tspends t)) -> m x = None \/ exists e, m x = Some e /\ espent e = true).
  { intros x Hs. pose proof (HR x) as Hx. unfold l_tx in Hx.
    rewrite l_outs_other in Hx by (apply Hdisj; exact Hs).
    destruct (l_spends_key _ _ _ _ Hok Hs) as (t' & h' & _ & E). rewrite E in Hx.
    unfold rel in Hx. destruct t'.
    - destruct Hx as [Hx|(h2 & Hx)]; [left; exact Hx | right; eexists; split; [exact Hx | reflexivity]].
    - right; eexists; split; [exact Hx | reflexivity].
    - destruct Hx as [Hx|(h2 & Hx)]; [left; exact Hx | right; eexists; split; [exact Hx | reflexivity]]. }
  destruct (detach_spends_char (tspends t) m Hnd Hpre) as (m1 & E1 & Hoth & Hkey).
  rewrite E1. eexists. split; [reflexivity|].
  intros x.
  destruct (detach_outs_char (touts t) m1 x) as [D1 D2].
  destruct (in_dec N.eq_dec x (keys (touts t))) as [Hxo|Hxo].
  - destruct (D2 Hxo) as [t0 E]. rewrite E.
    apply in_keys in Hxo. destruct Hxo as [ty Hxo]. rewrite (Hfresh _ _ Hxo).
    cbn. right. exists (out_type t0), 0. split; [reflexivity | apply out_type_not_cb].
  - rewrite D1 by exact Hxo.
    pose proof (HR x) as Hx. unfold l_tx in Hx. rewrite l_outs_other in Hx by exact Hxo.
    destruct (in_dec N.eq_dec x (keys (tspends t))) as [Hxs|Hxs].
    + destruct (l_spends_key _ _ _ _ Hok Hxs) as (t' & h' & EL & EG). rewrite EG in Hx. rewrite EL.
      apply in_keys in Hxs. destruct Hxs as [ty Hxs]. rewrite (Hkey _ _ Hxs).
      destruct (Hvote _ _ Hxs) as [Hty Hnv].
      assert (Ht' : t' <> Vote) by (intro; subst; apply (Hnv h'); exact EL).
      unfold rel in Hx. cbn.
      destruct t'; [| |contradiction].
      * destruct Hx as [Hx|(h2 & Hx)]; rewrite Hx; cbn.
        -- exists 0. split; [|left; reflexivity]. destruct ty; try reflexivity. contradiction.
        -- exists h2. split; [reflexivity | left; reflexivity].
      * rewrite Hx. cbn. exists h'. split; [reflexivity | right; reflexivity].
    + rewrite Hoth by exact Hxs. rewrite l_spends_other in Hx by exact Hxs. exact Hx.
Qed.

Fixpoint det_ok (L : ledgerT) (h : N) (cb : bool) (ts : list tx) : Prop :=
  match ts with
  | [] => True
  | t :: r => tx_det_ok L t /\ det_ok (l_tx h cb L t) h false r
  end.

Lemma det_okb_ok ts : forall L h cb, det_okb L h cb ts = true -> det_ok L h cb ts.
Proof.
  induction ts as [|t r IH]; intros L h cb H; cbn in *; [exact I|].
  apply andb_prop in H. destruct H as [H H3]. apply andb_prop in H. destruct H as [H1 H2].
  split; [|apply IH; exact H3].
  rewrite forallb_forall in H1, H2. split.
  - intros o ty Hin. specialize (H1 _ Hin). cbn in H1. destruct (L o); try discriminate; reflexivity.
  - intros o ty Hin. specialize (H2 _ Hin). cbn in H2. apply andb_prop in H2. destruct H2 as [A B].
    split.
    + intro; subst; discriminate.
    + intros h0 E. rewrite E in B. discriminate.
Qed.

Lemma detach_txs_sim h ts : forall cb m L,
  txs_ok P L h cb ts -> det_ok L h cb ts -> Rep m (l_txs h cb L ts) ->
  exists m', detach_txs m ts = Some m' /\ Rep m' L.
Proof.
  induction ts as [|t r IH]; intros cb m L Hok Hd HR; cbn in *.
  - eauto.
  - destruct Hok as [Hs Hr]. destruct Hd as [Hd1 Hd2].
    destruct (IH _ _ _ Hr Hd2 HR) as (m1 & E1 & HR1). rewrite E1.
    eapply detach_tx_sim; eassumption.
Qed.

(* ---------------------------------------------------------------- saving *)

Lemma normalise_rep m L : Rep m L -> Rep (normalise m) L.
Proof.
  intros HR x. pose proof (HR x) as Hx. unfold normalise, rel in *.
  destruct (L x) as [|t h|t h].
  - destruct Hx as [Hx|(t & h' & Hx & Ht)]; rewrite Hx; [left; reflexivity|].
    cbn. destruct t; try contradiction; cbn; left; reflexivity.
  - destruct Hx as (h' & Hx & Hh). rewrite Hx. cbn. eauto.
  - destruct t.
    + destruct Hx as [Hx|(h' & Hx)]; rewrite Hx; cbn; left; reflexivity.
    + rewrite Hx. cbn. reflexivity.
    + destruct Hx as [Hx|(h' & Hx)]; rewrite Hx; cbn; left; reflexivity.
Qed.

Lemma rep_empty : Rep uempty lempty.
Proof. intros x. cbn. left. reflexivity. Qed.

End Utxo.
