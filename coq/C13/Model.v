(* C13 — blocks violating consensus rules never enter the main chain: executable
   model.  NO PROOFS HERE.

   Mirrors
     protocol/validation/block.go   ValidateBlockHeader, checkBlockTime, verifyBlockSignature,
                                    ValidateBlock, checkCoinbaseAmount, checkoutRewardCoinbase
     protocol/state/utxo_view.go    applySpendUtxo, applyOutputUtxo, ApplyBlock,
                                    detachSpendUtxo, detachOutputUtxo, DetachBlock
     database/utxo_view.go          saveUtxoView (spent non-coinbase entries are deleted)
     protocol/block.go              processBlock, saveBlock (NO spend check), tryReorganize,
                                    reorganizeChain (spend check inside, state committed only at the end)

   Hashes (blocks, transactions, outputs, programs, keys) are opaque labels (N);
   only their equality is used.

   Parameters of the model (Section variables):
     P         consensus parameters (epoch length, block interval, time offset,
               coinbase maturity, vote lock, block gas limit);
     proposer  the key scheduled for a block time, given the timestamp of the last
               finished checkpoint on the block's branch (Checkpoint.GetValidator, property C15);
     choose    fork choice: the hash casper.BestChain returns for the stored blocks
               (ANY function: the theorems hold for every fork choice).
   What the model takes from the block description as an oracle table:
     tres   the verdict and gas of validation.ValidateTx for a transaction in its block
            (None = rejected) - "per-transaction validation as a parameter";
     bsig   the key under which the block witness verifies for the block's hash (0 = none);
     broot  the transaction-id list the committed merkle root was computed over (a merkle
            root is an opaque, collision-free commitment to a list of transaction ids);
     breward  fees + subsidy of the block (what Checkpoint.applyValidatorReward adds).

   Every stored block carries the list of its predecessors (tip first, genesis last):
   the code finds them by following parent hashes in the append-only store; the
   model keeps the list it found when the block was saved.  The checkpoint consulted by
   saveBlock (timestamp and reward table of the last finished epoch on the block's own
   branch, PrevCheckpointByPrevHash) is computed from that list by its definition; casper's
   incremental checkpoint tree caches exactly this value.

   The UTXO table is a function (label -> entry); the viewpoint of reorganizeChain
   (entries loaded on demand, unloaded entries read through, everything saved at the end)
   is a working copy of the table, and saveUtxoView's rule is applied to the whole copy.

   calcReorganizeChain is modelled by its result for stores in which every block's
   height is its parent's plus one: the two paths down to the last common ancestor. *)
From Coq Require Import List NArith Bool.
Import ListNotations.
Open Scope N_scope.

Inductive utype := Normal | Coinbase | Vote.

Definition utype_eqb (a b : utype) : bool :=
  match a, b with
  | Normal, Normal | Coinbase, Coinbase | Vote, Vote => true
  | _, _ => false
  end.

(* the type detachSpendUtxo / detachOutputUtxo / applyOutputUtxo derive from an output entry *)
Definition out_type (t : utype) : utype := match t with Vote => Vote | _ => Normal end.

Record tx := mkT {
  tid : N;
  tspends : list (N * utype);   (* spent output id, type of the output entry embedded in the spending tx *)
  touts : list (N * utype);     (* created output ids with amount > 0 (original or vote outputs) *)
  tres : option N               (* validation.ValidateTx: Some gas | None = invalid *)
}.

Record blk := mkB {
  bid : N; bparent : N; bheight : N; bversion : N; btime : N;
  bsig : N;
  broot : list N;
  btxs : list tx;
  bcb : list (N * N * N);       (* outputs of the first transaction: program, amount, 1 = original BTM output *)
  breward : N;
  brank : N                     (* opaque tag (the run's fork choice reads it) *)
}.

Record params := mkP {
  p_epoch : N; p_interval : N; p_offset : N; p_maturity : N; p_lock : N -> N; p_maxgas : N
}.

Definition two64 : N := 18446744073709551616.
Definition w64 (x : N) : N := x mod two64.

(* ---- UTXO entries (database/storage.UtxoEntry) ----------------------------------------- *)
Record entry := mkE { etype : utype; eheight : N; espent : bool }.
Definition umap := N -> option entry.
Definition uempty : umap := fun _ => None.
Definition uset (m : umap) (k : N) (e : entry) : umap := fun x => if x =? k then Some e else m x.

(* ---- the reference ledger (replay of a chain; used by the specification C13/Spec.v and by
        the ghost flag [risky] below, never by the node's decisions) -------------------------
   For every output id: never created, unspent (type and height of its creation), or spent.
   None of the implementation's artefacts (deletion of spent entries, re-creation on detach). *)
Inductive ust := UAbsent | ULive (t : utype) (h : N) | UGone (t : utype) (h : N).
Definition ledgerT := N -> ust.
Definition lempty : ledgerT := fun _ => UAbsent.

Definition l_spend (L : ledgerT) (o : N) : ledgerT :=
  fun x => if x =? o then match L o with ULive t h => UGone t h | u => u end else L x.

Fixpoint l_spends (L : ledgerT) (sps : list (N * utype)) : ledgerT :=
  match sps with [] => L | (o, _) :: r => l_spends (l_spend L o) r end.

Definition l_out (h : N) (cb : bool) (L : ledgerT) (ot : N * utype) : ledgerT :=
  fun x => if x =? fst ot then ULive (if cb then Coinbase else out_type (snd ot)) h else L x.

Fixpoint l_outs (h : N) (cb : bool) (L : ledgerT) (outs : list (N * utype)) : ledgerT :=
  match outs with [] => L | ot :: r => l_outs h cb (l_out h cb L ot) r end.

Definition l_tx (h : N) (cb : bool) (L : ledgerT) (t : tx) : ledgerT :=
  l_outs h cb (l_spends L (tspends t)) (touts t).

Fixpoint l_txs (h : N) (cb : bool) (L : ledgerT) (ts : list tx) : ledgerT :=
  match ts with [] => L | t :: r => l_txs h false (l_tx h cb L t) r end.

Definition l_block (L : ledgerT) (b : blk) : ledgerT := l_txs (bheight b) true L (btxs b).

Fixpoint ledger (c : list blk) : ledgerT :=
  match c with [] => lempty | b :: r => l_block (ledger r) b end.

(* ghost guard: detaching these transactions is harmless - no input spends a vote output
   (detachSpendUtxo re-creates a deleted entry with height 0, which forgets a vote output's lock),
   and no output id existed before (detachOutputUtxo would erase the older output) *)
Definition is_absent (u : ust) : bool := match u with UAbsent => true | _ => false end.
Definition is_live_vote (u : ust) : bool := match u with ULive Vote _ => true | _ => false end.
Fixpoint det_okb (L : ledgerT) (h : N) (cb : bool) (ts : list tx) : bool :=
  match ts with
  | [] => true
  | t :: r =>
    forallb (fun ot => is_absent (L (fst ot))) (touts t) &&
    forallb (fun sp => negb (utype_eqb (snd sp) Vote) && negb (is_live_vote (L (fst sp)))) (tspends t) &&
    det_okb (l_tx h cb L t) h false r
  end.
(* the first n blocks of the (tip first) chain c are about to be detached *)
Fixpoint risk (n : nat) (c : list blk) : bool :=
  match n, c with
  | S n', d :: r => negb (det_okb (ledger r) (bheight d) true (btxs d)) || risk n' r
  | _, _ => false
  end.

(* rules of the block validator, for reporting *)
Inductive rule := RVersion | RHeight | RParent | RTime | RSig | RTx | RGas | RCoinbase | RMerkle.
Inductive verdict := VOk | VBad (r : rule).

Section Model.
Variable P : params.
Variable proposer : N -> N -> N.
Variable choose : list blk -> N.

(* ---- state/utxo_view.go ------------------------------------------------------------------ *)

(* applySpendUtxo *)
Fixpoint apply_spends (h : N) (m : umap) (sps : list (N * utype)) : option umap :=
  match sps with
  | [] => Some m
  | (o, _) :: r =>
    match m o with
    | None => None                                          (* fail to find utxo entry *)
    | Some e =>
      if espent e then None                                 (* utxo has been spent *)
      else
        let ok := match etype e with
                  | Coinbase => eheight e + p_maturity P <=? h
                  | Vote => eheight e + p_lock P h <=? h
                  | Normal => true
                  end in
        if ok then apply_spends h (uset m o (mkE (etype e) (eheight e) true)) r
        else None
    end
  end.

(* applyOutputUtxo; [cb] = the transaction is the block's first one *)
Fixpoint apply_outs (h : N) (cb : bool) (m : umap) (outs : list (N * utype)) : umap :=
  match outs with
  | [] => m
  | (o, t) :: r => apply_outs h cb (uset m o (mkE (if cb then Coinbase else out_type t) h false)) r
  end.

Definition apply_tx (h : N) (cb : bool) (m : umap) (t : tx) : option umap :=
  match apply_spends h m (tspends t) with
  | None => None
  | Some m1 => Some (apply_outs h cb m1 (touts t))
  end.

Fixpoint apply_txs (h : N) (cb : bool) (m : umap) (ts : list tx) : option umap :=
  match ts with
  | [] => Some m
  | t :: r => match apply_tx h cb m t with None => None | Some m1 => apply_txs h false m1 r end
  end.

(* ApplyBlock *)
Definition apply_block (m : umap) (b : blk) : option umap := apply_txs (bheight b) true m (btxs b).

(* detachSpendUtxo *)
Fixpoint detach_spends (m : umap) (sps : list (N * utype)) : option umap :=
  match sps with
  | [] => Some m
  | (o, t) :: r =>
    match m o with
    | None => detach_spends (uset m o (mkE (out_type t) 0 false)) r
    | Some e =>
      if espent e then detach_spends (uset m o (mkE (etype e) (eheight e) false)) r
      else None                                             (* try to revert an unspent utxo *)
    end
  end.

(* detachOutputUtxo *)
Fixpoint detach_outs (m : umap) (outs : list (N * utype)) : umap :=
  match outs with
  | [] => m
  | (o, t) :: r => detach_outs (uset m o (mkE (out_type t) 0 true)) r
  end.

Definition detach_tx (m : umap) (t : tx) : option umap :=
  match detach_spends m (tspends t) with
  | None => None
  | Some m1 => Some (detach_outs m1 (touts t))
  end.

(* DetachBlock: the transactions in reverse order *)
Fixpoint detach_txs (m : umap) (ts : list tx) : option umap :=
  match ts with
  | [] => Some m
  | t :: r => match detach_txs m r with None => None | Some m1 => detach_tx m1 t end
  end.

Definition detach_block (m : umap) (b : blk) : option umap := detach_txs m (btxs b).

(* saveUtxoView *)
Definition normalise (m : umap) : umap :=
  fun x => match m x with
           | Some e => if espent e && negb (utype_eqb (etype e) Coinbase) then None else Some e
           | None => None
           end.

(* ---- the checkpoint of a branch (chains are tip first, genesis last) ------------------- *)

Definition reward_prog (b : blk) : option N :=
  match bcb b with (p, _, _) :: _ => Some p | [] => None end.

Fixpoint tbl_get (t : list (N * N)) (k : N) : N :=
  match t with
  | [] => 0
  | (k', v) :: r => if k' =? k then v else tbl_get r k
  end.

Fixpoint tbl_add (t : list (N * N)) (k a : N) : list (N * N) :=
  match t with
  | [] => [(k, w64 a)]
  | (k', v) :: r => if k' =? k then (k', w64 (v + a)) :: r else (k', v) :: tbl_add r k a
  end.

(* Rewards of the checkpoint that is growing at the tip of the chain *)
Fixpoint grow (c : list blk) : list (N * N) :=
  match c with
  | [] => []
  | b :: r =>
    match r with
    | [] => []                                              (* genesis checkpoint: no rewards *)
    | _ :: _ =>
      let base := if bheight b mod p_epoch P =? 1 then [] else grow r in
      match reward_prog b with Some p => tbl_add base p (breward b) | None => base end
    end
  end.

(* Rewards / Timestamp of the last finished checkpoint at or below the tip *)
Fixpoint ck_rewards (c : list blk) : list (N * N) :=
  match c with
  | [] => []
  | b :: r => if bheight b mod p_epoch P =? 0 then grow c else ck_rewards r
  end.

Fixpoint ck_time (c : list blk) : N :=
  match c with
  | [] => 0
  | b :: r => if bheight b mod p_epoch P =? 0 then btime b else ck_time r
  end.

(* ---- validation/block.go ------------------------------------------------------------------ *)

(* the loop of ValidateBlock over the validation results: first error wins, gas summed in uint64 *)
Fixpoint check_txs (sum : N) (ts : list tx) : verdict :=
  match ts with
  | [] => VOk
  | t :: r =>
    match tres t with
    | None => VBad RTx
    | Some g => let s := w64 (sum + g) in
                if p_maxgas P <? s then VBad RGas else check_txs s r
    end
  end.

(* checkoutRewardCoinbase: output amounts grouped by program; a zero first output is skipped *)
Fixpoint out_map (first : bool) (outs : list (N * N * N)) (acc : list (N * N)) : list (N * N) :=
  match outs with
  | [] => acc
  | (p, a, _) :: r => if first && (a =? 0) then out_map false r acc else out_map false r (tbl_add acc p a)
  end.

Definition pays (outs : list (N * N * N)) (tbl : list (N * N)) : bool :=
  let m := out_map true outs [] in
  Nat.eqb (length m) (length tbl) && forallb (fun kv => tbl_get m (fst kv) =? snd kv) tbl.

(* checkCoinbaseAmount *)
Definition check_coinbase (c : list blk) (b : blk) : bool :=
  match btxs b with
  | [] => false
  | _ :: _ =>
    forallb (fun o => snd o =? 1) (bcb b) &&
    (if bheight b mod p_epoch P =? 1 then pays (bcb b) (ck_rewards c)
     else match bcb b with [(_, a, _)] => a =? 0 | _ => false end)
  end.

Fixpoint ids_eqb (x y : list N) : bool :=
  match x, y with
  | [], [] => true
  | u :: x', v :: y' => (u =? v) && ids_eqb x' y'
  | _, _ => false
  end.

(* ValidateBlockHeader + ValidateBlock; c = the parent and its predecessors *)
Definition validate_block (now : N) (c : list blk) (b : blk) : verdict :=
  match c with
  | [] => VBad RParent
  | p :: _ =>
    if negb (bversion b =? 1) then VBad RVersion
    else if negb (bheight b =? bheight p + 1) then VBad RHeight
    else if negb (bparent b =? bid p) then VBad RParent
    else if btime b <? btime p + p_interval P then VBad RTime
    else if now + p_offset P <? btime b then VBad RTime
    else if negb (bsig b =? proposer (ck_time c) (btime b)) || (bsig b =? 0) then VBad RSig
    else match check_txs 0 (btxs b) with
         | VBad r => VBad r
         | VOk =>
           if negb (check_coinbase c b) then VBad RCoinbase
           else if negb (ids_eqb (map tid (btxs b)) (broot b)) then VBad RMerkle
           else VOk
         end
  end.

(* ---- protocol/block.go ------------------------------------------------------------------ *)

Record sblk := mkS { sb : blk; spath : list blk }.

Record state := mkState {
  stored : list sblk;
  best : N;
  mainc : list blk;        (* the main chain, tip (best block) first *)
  utxo : umap;
  risky : bool             (* ghost: a reorganisation detached a block that spends a vote output or
                              re-creates an output id that already existed below it (see [risk]) *)
}.

Definition find_stored (l : list sblk) (h : N) : option sblk :=
  find (fun e => bid (sb e) =? h) l.

Definition best_height (s : state) : N :=
  match mainc s with b :: _ => bheight b | [] => 0 end.

(* common prefix of two genesis-first chains removed *)
Fixpoint strip_common (a d : list blk) : list blk * list blk :=
  match a, d with
  | x :: a', y :: d' => if bid x =? bid y then strip_common a' d' else (a, d)
  | _, _ => (a, d)
  end.

Fixpoint detach_chain (m : umap) (ds : list blk) : option umap :=   (* tip first *)
  match ds with
  | [] => Some m
  | d :: r => match detach_block m d with None => None | Some m1 => detach_chain m1 r end
  end.

Fixpoint attach_chain (m : umap) (bs : list blk) : option umap :=   (* lowest first *)
  match bs with
  | [] => Some m
  | a :: r => match apply_block m a with None => None | Some m1 => attach_chain m1 r end
  end.

(* reorganizeChain towards the stored block ts; None = an error is returned, nothing changes *)
Definition reorganize (s : state) (ts : sblk) : option state :=
  let newc := sb ts :: spath ts in
  let '(att, det) := strip_common (rev newc) (rev (mainc s)) in
  match detach_chain (utxo s) (rev det) with
  | None => None
  | Some m1 =>
    match attach_chain m1 att with
    | None => None
    | Some m2 =>
      Some (mkState (stored s) (bid (sb ts)) newc (normalise m2)
                    (risky s || risk (length det) (mainc s)))
    end
  end.

(* what ProcessBlock returns and what is observed afterwards:
   (isOrphan, error class 0 none / 1 ErrBadBlock / 2 other, hash of the best block) *)
Definition obs := (bool * N * N)%type.

(* Chain.processBlock (the orphan pool is property C12's subject: an orphan is set aside) *)
Definition process_block (now : N) (s : state) (b : blk) : state * obs :=
  let known := existsb (fun e => bid (sb e) =? bid b) (stored s) in
  if known && (bheight b <=? best_height s) then (s, (false, 0, best s))
  else
    match find_stored (stored s) (bparent b) with
    | None => (s, (true, 0, best s))
    | Some ps =>
      let c := sb ps :: spath ps in
      match validate_block now c b with
      | VBad _ => (s, (false, 1, best s))
      | VOk =>
        let st := if known then stored s else stored s ++ [mkS b c] in
        let s1 := mkState st (best s) (mainc s) (utxo s) (risky s) in
        let target := choose (map sb st) in
        if best s =? target then (s1, (false, 0, best s))
        else
          match find_stored st target with
          | None => (s1, (false, 2, best s))
          | Some ts =>
            match reorganize s1 ts with
            | Some s2 => (s2, (false, 0, best s2))
            | None => (s1, (false, 2, best s))
            end
          end
      end
    end.

(* the node after initChainStatus: genesis stored and applied to an empty table *)
Definition init (g : blk) : state :=
  mkState [mkS g []] (bid g) [g]
          (match apply_block uempty g with Some m => normalise m | None => uempty end)
          false.

(* a history: deliveries (time of the node's clock, block) *)
Fixpoint run (s : state) (ds : list (N * blk)) : state * list obs :=
  match ds with
  | [] => (s, [])
  | (now, b) :: r =>
    let '(s1, o) := process_block now s b in
    let '(s2, os) := run s1 r in
    (s2, o :: os)
  end.

End Model.
