(* C13 — helpers used by the generated case files.

   A case: the node's clock [now] (one value for the whole case), the blocks of the
   case in label order (label 0 = genesis; the harness describes every block from its
   content), and the delivery sequence as a list of labels.  Compared with the
   implementation: per delivery (orphan flag, error class, label of the best block
   afterwards); finally, per label, whether the block is on the main chain.
   [None] = the node process died (never produced by the model).

   Instance of the model's parameters = the harness configuration (chainlib.DefaultOptions):
   epoch length 4, block interval 6000 ms, MaxTimeOffsetMs 24000, coinbase maturity 10,
   vote lock 3, MaxBlockGas 10^7; four federation keys labelled 1..4 in federation order,
   scheduled round-robin from the checkpoint timestamp + interval (closed form of
   getValidatorOrder proved in C15: c15_one_proposer); fork choice = the stored block of
   greatest (height, rank of the hash's hex string): the harness nodes never justify a
   checkpoint beyond genesis (one of four federation votes), so casper's bestNode picks
   the highest tip and breaks ties by the hash string. *)
From Coq Require Import List NArith Bool.
From Verif Require Import Cmp.
From C13 Require Import Model.
Import ListNotations.
Open Scope N_scope.

(* the harness runs a two-range vote-lock schedule: 3 blocks below height 22, 5 from there on;
   the lock in force is the one at the height of the spending block *)
Definition run_params : params := mkP 4 6000 24000 10 (fun h => if (h <? 22)%N then 3 else 5)%N 10000000.

Definition run_proposer (ck t : N) : N :=
  let start := ck + 6000 in
  ((t - start) / 6000) mod 4 + 1.

Definition better (a b : blk) : bool :=
  (bheight b <? bheight a) || ((bheight a =? bheight b) && (brank b <? brank a)).

Definition run_choose (l : list blk) : N :=
  match l with
  | [] => 0
  | x :: r => bid (fold_left (fun acc b => if better b acc then b else acc) r x)
  end.

Fixpoint resolve (bs : list blk) (order : list N) : list blk :=
  match order with
  | [] => []
  | l :: order' =>
    match find (fun b => bid b =? l) bs with
    | Some b => b :: resolve bs order'
    | None => resolve bs order'
    end
  end.

Definition cres := option (list (bool * N * N) * list bool).

Definition in_main (s : state) (l : N) : bool := existsb (fun b => bid b =? l) (mainc s).

Definition run_case (now : N) (bs : list blk) (order : list N) : cres :=
  match bs with
  | [] => None
  | g :: _ =>
    let '(s, os) := run run_params run_proposer run_choose (init run_params g)
                        (map (fun b => (now, b)) (resolve bs order)) in
    Some (os, map (fun b => in_main s (bid b)) bs)
  end.

Definition cres_eqb : cres -> cres -> bool :=
  option_eqb (pair_eqb (list_eqb (pair_eqb (pair_eqb Bool.eqb N.eqb) N.eqb)) (list_eqb Bool.eqb)).
