(* C13 — blocks violating consensus rules never enter the main chain; valid blocks are
   accepted.  PROPERTY THEOREMS ONLY.

   Model: C13/Model.v mirrors protocol/validation/block.go (ValidateBlockHeader, ValidateBlock,
   checkCoinbaseAmount), protocol/state/utxo_view.go (apply / detach of spends and outputs),
   database/utxo_view.go (saveUtxoView) and protocol/block.go (processBlock, saveBlock WITHOUT a
   spend check, tryReorganize, reorganizeChain with the spend check inside and the state committed
   only at the end).  [run P proposer choose (init P g) ds] delivers the blocks of the history
   [ds] (each with the value of the node's clock at that moment) to a node that holds only
   genesis [g]; it returns the final state and what ProcessBlock returned per delivery.

   Specification: C13/Spec.v.  [consensus_valid P proposer now c b]: block b obeys, on top of
   the chain c (tip first) at clock [now], the conjunction of the consensus rules the property
   lists - version, height, parent link, timestamp window, the witness verifies under the key of
   the block's time slot, merkle commitment, gas limit, every transaction valid, coinbase shape
   and reward amounts, and every input spends an output that is unspent in the reference ledger
   of its predecessors (replay), mature if coinbase, unlocked if vote.

   Universally quantified in every theorem: the consensus parameters P, the proposer schedule,
   the fork choice [choose] (ANY function of the stored blocks), genesis, and the history -
   arbitrary lists of arbitrary blocks: invalid ones, repeated deliveries, forks, any size.

   Side conditions [universe_ok] (C13/Full.v): a hash identifies its block among genesis and the
   delivered blocks; gas values are non-negative int64; genesis spends nothing.

   STATUS.  The two full statements (C13/Full.v) are REFUTED on the pinned behaviour, each by a
   history that was replayed on the real node (known findings):
     C13_sound_full      fails by the vote-UTXO height loss on detach (finding of C10): a veto of a
                         still-locked vote output is connected after a reorganisation;
     C13_complete_full   fails because a block with a bad spend passes saveBlock, stays in the fork
                         choice and makes tryReorganize fail for later VALID blocks.
   What holds outside these two classes is c13_sound and c13_complete below; their guards
   ([risky s = false], "the fork choice returns the new block") are decidable and exclude
   exactly those classes. *)
From Coq Require Import List NArith Bool.
From C13 Require Import Model Spec Rules Utxo Pipeline Run Full History.
Import ListNotations.
Open Scope N_scope.

(* saveBlock's validator accepts a block on top of a chain exactly when the block obeys every
   rule but the spend rule. *)
Theorem c13_validator_exact :
  forall P proposer now c b,
    p_maxgas P < two63 -> gas_bounded b ->
    (validate_block P proposer now c b = VOk <-> block_rules P proposer now c b).
Proof. intros P proposer now c b Hm Hg. exact (validate_block_spec P proposer Hm now c b Hg). Qed.
Print Assumptions c13_validator_exact.

(* SOUNDNESS (holds outside the vote-height-loss class).  After EVERY history, for EVERY fork
   choice: every block of the main chain other than genesis is consensus-valid with respect to
   its predecessors on the main chain, at the clock of one of its deliveries - including blocks
   that were first stored on a side branch (where no spend check runs) and attached by a later
   reorganisation.  Guard: no reorganisation of the history detached a block that spends a vote
   output or re-creates an output id that already existed below it (ghost flag [risky], computed
   on the reference ledger; Model.risk). *)
Theorem c13_sound :
  forall P proposer choose g ds s os,
    universe_ok P g ds ->
    run P proposer choose (init P g) ds = (s, os) ->
    risky s = false ->
    forall pre b c, mainc s = pre ++ b :: c -> c <> [] ->
      exists now, In (now, b) ds /\ consensus_valid P proposer now c b.
Proof.
  intros P proposer choose g ds s os (H1 & H2 & H3 & H4) E Hr.
  exact (sound_statement P proposer choose g ds H1 H2 H3 H4 ds s os (incl_refl _) E Hr).
Qed.
Print Assumptions c13_sound.

(* The full soundness statement is refuted: locked vote output spent after a reorganisation
   (History.relock_ds: V creates a vote output at height 3, X6 vetoes it legally at height 6,
   Y4 vetoes it at height 4 on a fork from V; when Y outgrows X, Y4 enters the main chain). *)
Theorem C13_refuted_vote_relock : ~ C13_sound_full.
Proof. exact refuted_vote_relock. Qed.
Print Assumptions C13_refuted_vote_relock.

(* COMPLETENESS (the honest statement of what the code does).  After every history not flagged
   by the guard, a new block that is consensus-valid on top of the current best block, and that
   the fork choice returns once it is stored, is connected: it becomes the best block, the main
   chain is extended by it, ProcessBlock reports no error. *)
Theorem c13_complete :
  forall P proposer choose g l s os now b,
    universe_ok P g (l ++ [(now, b)]) ->
    run P proposer choose (init P g) l = (s, os) ->
    risky s = false ->
    consensus_valid P proposer now (mainc s) b ->
    ~ In (bid b) (map (fun e => bid (sb e)) (stored s)) ->
    choose (map sb (stored s ++ [mkS b (mainc s)])) = bid b ->
    let '(s', o) := process_block P proposer choose now s b in
    best s' = bid b /\ mainc s' = b :: mainc s /\ o = (false, 0, bid b) /\ risky s' = false.
Proof.
  intros P proposer choose g l s os now b (H1 & H2 & H3 & H4) E Hr Hcv Hnew Hch.
  exact (complete_statement P proposer choose g (l ++ [(now, b)]) H1 H2 H3 H4 l s os now b
           (fun x Hx => in_or_app _ _ _ (or_introl Hx)) E Hr
           (in_or_app l [(now, b)] (now, b) (or_intror (or_introl eq_refl))) Hcv Hnew Hch).
Qed.
Print Assumptions c13_complete.

(* c13_stuck_note.  The full completeness statement is refuted: a block whose only defect is a
   bad spend is STORED (saveBlock has no spend check); while the fork choice prefers it, the
   reorganisation fails and a later valid block on top of the best block is not connected
   (History.stuck_l: B spends a missing output, C is valid with a lower-ranked hash). *)
Theorem C13_refuted_stuck_behind_bad_spend : ~ C13_complete_full.
Proof. exact refuted_stuck_behind_bad_spend. Qed.
Print Assumptions C13_refuted_stuck_behind_bad_spend.

(* the same as a statement about the model's run: B is stored, ProcessBlock(C) returns the
   reorganisation error, the best block is still genesis, C is stored but not connected *)
Theorem c13_stuck_note :
  stored (fst stuck_run) = [mkS wg []; mkS Bb [wg]] /\
  consensus_valid WP wprop 1000 (mainc (fst stuck_run)) Cc /\
  (let '(s', o) := process_block WP wprop run_choose 1000 (fst stuck_run) Cc in
   best s' = bid wg /\ o = (false, 2, bid wg) /\
   existsb (fun e => bid (sb e) =? bid Cc) (stored s') = true).
Proof.
  split; [exact (proj1 stuck_state)|]. split.
  - rewrite (proj1 (proj2 stuck_state)). exact Cc_valid.
  - exact stuck_result.
Qed.
Print Assumptions c13_stuck_note.

(* the reference ledger is what the node's table represents on the main chain: after every
   history not flagged by the guard, an output can be spent at the next height according to the
   node's table exactly when the specification allows it (the link used by both theorems) *)
Theorem c13_table_represents_ledger :
  forall P proposer choose g ds s os,
    universe_ok P g ds ->
    run P proposer choose (init P g) ds = (s, os) ->
    risky s = false ->
    forall h sps,
      (exists m', apply_spends P h (utxo s) sps = Some m') <-> spends_ok P (ledger (mainc s)) h sps.
Proof.
  intros P proposer choose g ds s os (H1 & H2 & H3 & H4) E Hr h sps.
  pose proof (run_inv P proposer choose g ds H1 H2 H3 ds _ _ _ (incl_refl _)
                (init_inv P proposer g ds H4) E Hr) as HI.
  destruct (apply_spends_sim P h sps _ _ (inv_rep _ _ _ _ _ HI)) as [A B].
  split; [intros [m' X]; exact (proj1 (A _ X)) | exact B].
Qed.
Print Assumptions c13_table_represents_ledger.
