(* C13 — what saveBlock's validator accepts is exactly the conjunction of the
   block rules of the specification (everything but the spend rule). *)
From Coq Require Import List NArith Bool Lia Arith PeanoNat.
From C13 Require Import Model Spec.
Import ListNotations.
Open Scope N_scope.

Definition two63 : N := 9223372036854775808.

(* GasUsed is an int64 >= 0 *)
Definition gas_bounded (b : blk) : Prop :=
  forall t g, In t (btxs b) -> tres t = Some g -> g < two63.

Section Rules.
Variable P : params.
Variable proposer : N -> N -> N.
Hypothesis maxgas_small : p_maxgas P < two63.

Lemma w64_small x : x < two64 -> w64 x = x.
Proof. intros. unfold w64. apply N.mod_small; assumption. Qed.

Lemma check_txs_spec ts : forall sum,
  sum <= p_maxgas P ->
  (forall t g, In t ts -> tres t = Some g -> g < two63) ->
  (check_txs P sum ts = VOk <->
   (forall t, In t ts -> tres t <> None) /\ sum + total_gas ts <= p_maxgas P).
Proof.
  induction ts as [|t r IH]; intros sum Hs Hb; cbn [check_txs total_gas fold_right].
  - split; [intros _; split; [intros ? []| lia] | reflexivity].
  - destruct (tres t) as [g|] eqn:Et.
    + assert (Hg : g < two63) by (eapply Hb; [left; reflexivity | exact Et]).
      assert (Hw : w64 (sum + g) = sum + g).
      { apply w64_small. unfold two63, two64 in *. lia. }
      rewrite Hw. unfold gas_of at 1. rewrite Et.
      destruct (p_maxgas P <? sum + g) eqn:Ec.
      * apply N.ltb_lt in Ec. split; [discriminate|].
        intros [_ H]. fold (total_gas r) in H. lia.
      * apply N.ltb_ge in Ec.
        rewrite IH; [| exact Ec | intros; eapply Hb; [right; eassumption | eassumption]].
        fold (total_gas r).
        split; intros [H1 H2]; (split; [| lia]).
        -- intros t' [<-|Hin]; [rewrite Et; discriminate | apply H1; exact Hin].
        -- intros t' Hin. apply H1. right; exact Hin.
    + split; [discriminate|]. intros [H _]. exfalso. apply (H t); [left; reflexivity | exact Et].
Qed.

Lemma ids_eqb_eq x : forall y, ids_eqb x y = true <-> x = y.
Proof.
  induction x as [|u x IH]; intros [|v y]; cbn; split; intro H; try reflexivity; try discriminate.
  - apply andb_prop in H. destruct H as [H1 H2]. apply N.eqb_eq in H1. apply IH in H2. subst; reflexivity.
  - inversion H; subst. apply andb_true_intro. split; [apply N.eqb_refl | apply IH; reflexivity].
Qed.

Lemma check_coinbase_spec c b : check_coinbase P c b = true <-> rule_coinbase P c b.
Proof.
  unfold check_coinbase, rule_coinbase.
  destruct (btxs b) as [|t0 ts] eqn:Etx.
  - split; [discriminate | intros [H _]; congruence].
  - rewrite andb_true_iff, forallb_forall.
    split.
    + intros [Hok Hrest]. split; [discriminate|]. split.
      { intros o Ho. apply N.eqb_eq. apply Hok; exact Ho. }
      destruct (bheight b mod p_epoch P =? 1) eqn:Eh.
      * apply N.eqb_eq in Eh. split; [intros Hn; congruence|]. intros _.
        unfold pays in Hrest. apply andb_prop in Hrest. destruct Hrest as [Hl Hf].
        apply Nat.eqb_eq in Hl. split; [exact Hl|].
        intros p a Hin. rewrite forallb_forall in Hf. specialize (Hf (p, a) Hin). cbn in Hf.
        apply N.eqb_eq in Hf; exact Hf.
      * apply N.eqb_neq in Eh. split; [| intros; congruence]. intros _.
        destruct (bcb b) as [|[[p a] k] [|? ?]]; try discriminate.
        apply N.eqb_eq in Hrest. subst a. exists p, k; reflexivity.
    + intros (_ & Hok & Hne & Heq). split.
      { intros o Ho. apply N.eqb_eq. apply Hok; exact Ho. }
      destruct (bheight b mod p_epoch P =? 1) eqn:Eh.
      * apply N.eqb_eq in Eh. destruct (Heq Eh) as [Hl Hf].
        unfold pays. apply andb_true_intro. split; [apply Nat.eqb_eq; exact Hl|].
        apply forallb_forall. intros [p a] Hin. cbn. apply N.eqb_eq. apply Hf; exact Hin.
      * apply N.eqb_neq in Eh. destruct (Hne Eh) as (p & k & E). rewrite E. apply N.eqb_refl.
Qed.

(* saveBlock's validator accepts b on top of c exactly when b obeys every rule but the spend rule *)
Theorem validate_block_spec now c b :
  gas_bounded b ->
  (validate_block P proposer now c b = VOk <-> block_rules P proposer now c b).
Proof.
  intros Hb. unfold validate_block, block_rules.
  destruct c as [|p r]; [split; [discriminate | intros []]|].
  set (c := p :: r).
  unfold rule_version, rule_height, rule_parent, rule_time, rule_proposer, rule_merkle.
  destruct (bversion b =? 1) eqn:E1; cbn [negb];
    [apply N.eqb_eq in E1 | apply N.eqb_neq in E1; split; [discriminate | tauto]].
  destruct (bheight b =? bheight p + 1) eqn:E2; cbn [negb];
    [apply N.eqb_eq in E2 | apply N.eqb_neq in E2; split; [discriminate | tauto]].
  destruct (bparent b =? bid p) eqn:E3; cbn [negb];
    [apply N.eqb_eq in E3 | apply N.eqb_neq in E3; split; [discriminate | tauto]].
  destruct (btime b <? btime p + p_interval P) eqn:E4;
    [apply N.ltb_lt in E4; split; [discriminate | intros (_ & _ & _ & [H _] & _); lia] | apply N.ltb_ge in E4].
  destruct (now + p_offset P <? btime b) eqn:E5;
    [apply N.ltb_lt in E5; split; [discriminate | intros (_ & _ & _ & [_ H] & _); lia] | apply N.ltb_ge in E5].
  destruct (bsig b =? proposer (ck_time P c) (btime b)) eqn:E6; cbn [negb orb];
    [apply N.eqb_eq in E6 | apply N.eqb_neq in E6; split; [discriminate | tauto]].
  destruct (bsig b =? 0) eqn:E7;
    [apply N.eqb_eq in E7; split; [discriminate | tauto] | apply N.eqb_neq in E7].
  pose proof (check_txs_spec (btxs b) 0 (N.le_0_l _) Hb) as Htx. rewrite N.add_0_l in Htx.
  destruct (check_txs P 0 (btxs b)) as [|rr] eqn:E8.
  - destruct Htx as [Htx _]. specialize (Htx eq_refl). destruct Htx as [Ht Hg].
    destruct (check_coinbase P c b) eqn:E9; cbn [negb].
    + apply check_coinbase_spec in E9.
      destruct (ids_eqb (map tid (btxs b)) (broot b)) eqn:E10; cbn [negb].
      * apply ids_eqb_eq in E10. split; [intros _ | reflexivity].
        unfold rule_txs, rule_gas. tauto.
      * split; [discriminate|]. intros (_ & _ & _ & _ & _ & _ & _ & _ & H).
        apply ids_eqb_eq in H. congruence.
    + split; [discriminate|]. intros (_ & _ & _ & _ & _ & _ & _ & H & _).
      apply check_coinbase_spec in H. congruence.
  - split; [discriminate|]. intros (_ & _ & _ & _ & _ & Ht & Hg & _).
    destruct Htx as [_ Htx]. discriminate Htx. split; assumption.
Qed.

End Rules.
