(* C13 — concrete histories evaluated on the model: the two witnesses that refute the
   full statements on the pinned behaviour, and examples showing that the guards and
   hypotheses of the positive theorems are satisfiable by non-trivial histories. *)
From Coq Require Import List NArith Bool Lia.
From C13 Require Import Model Spec Rules Utxo Pipeline Run Full.
Import ListNotations.
Open Scope N_scope.

(* ---------------------------------------------------------------- checking the side conditions *)

Fixpoint nodupN (l : list N) : bool :=
  match l with [] => true | x :: r => negb (existsb (N.eqb x) r) && nodupN r end.

Lemma nodupN_ok l : nodupN l = true -> NoDup l.
Proof.
  induction l as [|x r IH]; cbn; intros H; [constructor|].
  apply andb_prop in H. destruct H as [H1 H2]. constructor; [|apply IH; exact H2].
  intro Hin. apply negb_true_iff in H1. rewrite <- not_true_iff_false in H1. apply H1.
  apply existsb_exists. exists x. split; [exact Hin | apply N.eqb_refl].
Qed.

Lemma nodup_map_inj {A} (f : A -> N) l : NoDup (map f l) ->
  forall a b, In a l -> In b l -> f a = f b -> a = b.
Proof.
  induction l as [|x r IH]; intros Hnd a b Ha Hb E; [destruct Ha|].
  cbn in Hnd. inversion Hnd as [|? ? Hno Hnd']; subst.
  destruct Ha as [<-|Ha], Hb as [<-|Hb].
  - reflexivity.
  - exfalso. apply Hno. rewrite E. apply in_map. exact Hb.
  - exfalso. apply Hno. rewrite <- E. apply in_map. exact Ha.
  - apply IH; assumption.
Qed.

Definition gas_boundedb (b : blk) : bool :=
  forallb (fun t => match tres t with Some g => g <? two63 | None => true end) (btxs b).

Lemma gas_boundedb_ok b : gas_boundedb b = true -> gas_bounded b.
Proof.
  unfold gas_boundedb, gas_bounded. rewrite forallb_forall. intros H t g Hin E.
  specialize (H t Hin). rewrite E in H. apply N.ltb_lt. exact H.
Qed.

Definition universe_okb (P : params) (g : blk) (ds : list (N * blk)) : bool :=
  nodupN (map bid (g :: map snd ds)) && (p_maxgas P <? two63) &&
  forallb gas_boundedb (map snd ds) &&
  forallb (fun t => match tspends t with [] => true | _ => false end) (btxs g).

Lemma universe_okb_ok P g ds : universe_okb P g ds = true -> universe_ok P g ds.
Proof.
  unfold universe_okb. intros H.
  apply andb_prop in H. destruct H as [H H4]. apply andb_prop in H. destruct H as [H H3].
  apply andb_prop in H. destruct H as [H1 H2].
  assert (Hu : forall a, (a = g \/ exists n, In (n, a) ds) -> In a (g :: map snd ds)).
  { intros a [->|[n Hin]]; [left; reflexivity | right]. apply in_map_iff. exists (n, a). split; [reflexivity | exact Hin]. }
  repeat split.
  - intros a b Ha Hb E. apply (nodup_map_inj bid _ (nodupN_ok _ H1)); auto.
  - apply N.ltb_lt. exact H2.
  - intros now b Hin. apply gas_boundedb_ok. rewrite forallb_forall in H3. apply H3.
    apply in_map_iff. exists (now, b). split; [reflexivity | exact Hin].
  - intros t Hin. rewrite forallb_forall in H4. specialize (H4 t Hin). destruct (tspends t); [reflexivity | discriminate].
Qed.

(* a block accepted by the validator whose spends are in order is consensus-valid *)
Lemma cv_of_check P proposer now c b :
  p_maxgas P < two63 -> gas_bounded b ->
  validate_block P proposer now c b = VOk -> rule_spends P c b ->
  consensus_valid P proposer now c b.
Proof.
  intros Hm Hg Hv Hs. apply (validate_block_spec P proposer Hm now c b Hg) in Hv.
  unfold block_rules, consensus_valid in *. destruct c; [exact Hv | tauto].
Qed.

(* ---------------------------------------------------------------- a small world *)

(* epoch 100 (no epoch boundary below height 100 except height 1), interval 1, no clock offset,
   coinbase maturity 1, vote lock 3, gas limit 1000; one proposer key (1) *)
Definition WP : params := mkP 100 1 0 1 (fun _ => 3) 1000.
Definition wprop (_ _ : N) : N := 1.
Definition cbt (i : N) : tx := mkT i [] [] (Some 0).
Definition mk (id parent h rank : N) (txs : list tx) : blk :=
  mkB id parent h 1 h 1 (map tid txs) txs [(1, 0, 1)] 1 rank.
(* genesis: its second transaction creates the ordinary output 20 *)
Definition wg : blk := mkB 0 999 0 1 0 1 [100; 101] [cbt 100; mkT 101 [] [(20, Normal)] (Some 0)] [(1, 0, 1)] 0 0.
Definition at_ (now : N) (l : list blk) : list (N * blk) := map (fun b => (now, b)) l.

(* ---------------------------------------------------------------- witness 1: locked vote output spent after a reorganisation *)

Definition A1 := mk 1 0 1 10 [cbt 110].
Definition A2 := mk 2 1 2 10 [cbt 111].
(* V (height 3) turns output 20 into the vote output 10: locked until height 6 *)
Definition V := mk 3 2 3 10 [cbt 112; mkT 113 [(20, Normal)] [(10, Vote)] (Some 1)].
Definition X4 := mk 4 3 4 20 [cbt 114].
Definition X5 := mk 5 4 5 20 [cbt 115].
(* X6 vetoes the vote output at height 6: legal *)
Definition X6 := mk 6 5 6 20 [cbt 116; mkT 117 [(10, Vote)] [(11, Normal)] (Some 1)].
(* Y4 vetoes it at height 4: still locked - Y4 breaks the spend rule *)
Definition Y4 := mk 7 3 4 5 [cbt 118; mkT 119 [(10, Vote)] [(12, Normal)] (Some 1)].
Definition Y5 := mk 8 7 5 5 [cbt 120].
Definition Y6 := mk 9 8 6 5 [cbt 121].
Definition Y7 := mk 10 9 7 5 [cbt 122].

Definition relock_ds := at_ 1000 [A1; A2; V; X4; X5; X6; Y4; Y5; Y6; Y7].
Definition relock_run := run WP wprop run_choose (init WP wg) relock_ds.

Lemma relock_universe : universe_ok WP wg relock_ds.
Proof. apply universe_okb_ok. vm_compute. reflexivity. Qed.

Lemma relock_main : mainc (fst relock_run) = [Y7; Y6; Y5] ++ Y4 :: [V; A2; A1; wg].
Proof. vm_compute. reflexivity. Qed.

(* the observations: X is connected block by block; Y4, Y5, Y6 are stored without error on the
   side branch; Y7 triggers the reorganisation, which SUCCEEDS *)
Lemma relock_obs : snd relock_run =
  [(false,0,1); (false,0,2); (false,0,3); (false,0,4); (false,0,5); (false,0,6);
   (false,0,6); (false,0,6); (false,0,6); (false,0,10)].
Proof. vm_compute. reflexivity. Qed.

(* the guard of the positive theorem does flag this history *)
Lemma relock_risky : risky (fst relock_run) = true.
Proof. vm_compute. reflexivity. Qed.

Lemma Y4_invalid now : ~ consensus_valid WP wprop now [V; A2; A1; wg] Y4.
Proof.
  unfold consensus_valid. intros (_ & _ & _ & _ & _ & _ & _ & _ & _ & Hs).
  unfold rule_spends in Hs. cbn in Hs. destruct Hs as (_ & (Hc & _) & _).
  unfold can_spend in Hc. vm_compute in Hc. apply Hc. reflexivity.
Qed.

Theorem refuted_vote_relock : ~ C13_sound_full.
Proof.
  intro H.
  destruct (H WP wprop run_choose wg relock_ds (fst relock_run) (snd relock_run) relock_universe
              (surjective_pairing _) [Y7; Y6; Y5] Y4 [V; A2; A1; wg] relock_main ltac:(discriminate))
    as (now & _ & Hcv).
  exact (Y4_invalid now Hcv).
Qed.

(* ---------------------------------------------------------------- witness 2: a valid block stuck behind a stored bad-spend block *)

(* B (height 1) spends the output 99, which does not exist; C (height 1) is valid, its hash string
   ranks below B's *)
Definition Bb := mk 1 0 1 5 [cbt 110; mkT 111 [(99, Normal)] [(30, Normal)] (Some 1)].
Definition Cc := mk 2 0 1 3 [cbt 112].

Definition stuck_l := at_ 1000 [Bb].
Definition stuck_run := run WP wprop run_choose (init WP wg) stuck_l.

Lemma stuck_universe : universe_ok WP wg (stuck_l ++ [(1000, Cc)]).
Proof. apply universe_okb_ok. vm_compute. reflexivity. Qed.

(* B passes saveBlock (it is stored), the reorganisation towards it fails (error class 2),
   the best block stays genesis *)
Lemma stuck_state :
  stored (fst stuck_run) = [mkS wg []; mkS Bb [wg]] /\ mainc (fst stuck_run) = [wg] /\
  snd stuck_run = [(false, 2, 0)] /\ risky (fst stuck_run) = false.
Proof. vm_compute. repeat split; reflexivity. Qed.

Lemma Cc_valid : consensus_valid WP wprop 1000 [wg] Cc.
Proof.
  apply cv_of_check.
  - vm_compute. reflexivity.
  - apply gas_boundedb_ok. vm_compute. reflexivity.
  - vm_compute. reflexivity.
  - unfold rule_spends. cbn. tauto.
Qed.

Lemma Bb_invalid now : ~ consensus_valid WP wprop now [wg] Bb.
Proof.
  unfold consensus_valid. intros (_ & _ & _ & _ & _ & _ & _ & _ & _ & Hs).
  unfold rule_spends in Hs. cbn in Hs. destruct Hs as (_ & (Hc & _) & _).
  unfold can_spend in Hc. vm_compute in Hc. exact Hc.
Qed.

(* the valid block C is NOT connected: ProcessBlock returns the reorganisation error again *)
Lemma stuck_result :
  let '(s', o) := process_block WP wprop run_choose 1000 (fst stuck_run) Cc in
  best s' = 0 /\ o = (false, 2, 0) /\ existsb (fun e => bid (sb e) =? 2) (stored s') = true.
Proof. vm_compute. repeat split; reflexivity. Qed.

Theorem refuted_stuck_behind_bad_spend : ~ C13_complete_full.
Proof.
  intro H.
  destruct stuck_state as (Est & Emain & _ & _).
  assert (X : best (fst (process_block WP wprop run_choose 1000 (fst stuck_run) Cc)) = bid Cc).
  { apply (H WP wprop wg stuck_l (fst stuck_run) (snd stuck_run) 1000 Cc stuck_universe (surjective_pairing _)).
    - rewrite Emain. exact Cc_valid.
    - rewrite Est. cbn. intros [E|[E|[]]]; discriminate.
    - rewrite Est. intros e [<-|[<-|[]]].
      + intros _. vm_compute. reflexivity.
      + intros Hv. exfalso. destruct (Hv [] Bb [wg] eq_refl ltac:(discriminate)) as (n & _ & Hcv).
        exact (Bb_invalid n Hcv). }
  vm_compute in X. discriminate.
Qed.

(* ---------------------------------------------------------------- the guards are satisfiable *)

(* a history with a real reorganisation (a side branch first stored, attached later, one block
   detached; both branches spend the same output) that the guard [risky] does not flag *)
Definition P2 := mk 2 1 2 20 [cbt 130; mkT 131 [(20, Normal)] [(21, Normal)] (Some 1)].
Definition Q2 := mk 3 1 2 5 [cbt 132; mkT 133 [(20, Normal)] [(22, Normal)] (Some 1)].
Definition Q3 := mk 4 3 3 5 [cbt 134; mkT 135 [(22, Normal)] [(23, Normal)] (Some 1)].
(* R3 on the detached branch double-spends across blocks: never connected *)
Definition reorg_ds := at_ 1000 [A1; P2; Q2; Q3].
Definition reorg_run := run WP wprop run_choose (init WP wg) reorg_ds.

Example reorg_example :
  universe_ok WP wg reorg_ds /\
  risky (fst reorg_run) = false /\
  mainc (fst reorg_run) = [Q3; Q2; A1; wg] /\
  snd reorg_run = [(false,0,1); (false,0,2); (false,0,2); (false,0,4)].
Proof.
  split; [apply universe_okb_ok; vm_compute; reflexivity|].
  vm_compute. repeat split; reflexivity.
Qed.

(* the hypotheses of the completeness theorem are satisfiable: after that history, a valid block
   on top of Q3 which the fork choice prefers *)
Definition Q4 := mk 5 4 4 5 [cbt 136; mkT 137 [(23, Normal)] [(24, Normal); (25, Vote)] (Some 1)].

Example complete_example :
  universe_ok WP wg (reorg_ds ++ [(1000, Q4)]) /\
  consensus_valid WP wprop 1000 (mainc (fst reorg_run)) Q4 /\
  ~ In (bid Q4) (ids (stored (fst reorg_run))) /\
  run_choose (map sb (stored (fst reorg_run) ++ [mkS Q4 (mainc (fst reorg_run))])) = bid Q4.
Proof.
  split; [apply universe_okb_ok; vm_compute; reflexivity|].
  split.
  { replace (mainc (fst reorg_run)) with [Q3; Q2; A1; wg] by (vm_compute; reflexivity).
    apply cv_of_check.
    - vm_compute. reflexivity.
    - apply gas_boundedb_ok. vm_compute. reflexivity.
    - vm_compute. reflexivity.
    - unfold rule_spends. cbn. unfold can_spend. vm_compute. tauto. }
  split; [vm_compute; intuition discriminate | vm_compute; reflexivity].
Qed.
