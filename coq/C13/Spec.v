(* C13 — the specification: consensus validity of a block with respect to its
   predecessors, stated declaratively.  NO PROOFS HERE.

   A chain is a list of blocks, tip first, genesis last.  [consensus_valid now c b]
   says that block [b] may follow the chain [c] (its parent is the head of [c]) when the
   node's clock shows [now]: the conjunction of the rules the property lists.

   The reference ledger [ledger c] (defined in C13/Model.v next to the block type) is the
   replay of the chain: for every output id whether it was never created, is unspent (with
   the type and height of its creation), or was spent.  It has none of the implementation's
   artefacts (no deletion of spent entries, no re-creation on detach, no viewpoint). *)
From Coq Require Import List NArith Bool.
From C13 Require Import Model.
Import ListNotations.
Open Scope N_scope.

Section Spec.
Variable P : params.
Variable proposer : N -> N -> N.

(* an output may be spent at height h: it exists unspent, a coinbase output is mature,
   a vote output is no longer locked *)
Definition can_spend (L : ledgerT) (h o : N) : Prop :=
  match L o with
  | ULive Normal _ => True
  | ULive Coinbase h0 => h0 + p_maturity P <= h
  | ULive Vote h0 => h0 + p_lock P h <= h
  | _ => False
  end.

Fixpoint spends_ok (L : ledgerT) (h : N) (sps : list (N * utype)) : Prop :=
  match sps with
  | [] => True
  | (o, _) :: r => can_spend L h o /\ spends_ok (l_spend L o) h r
  end.

Fixpoint txs_ok (L : ledgerT) (h : N) (cb : bool) (ts : list tx) : Prop :=
  match ts with
  | [] => True
  | t :: r => spends_ok L h (tspends t) /\ txs_ok (l_tx h cb L t) h false r
  end.

(* every input of every transaction, in order, spends an output that is spendable in the
   ledger of the predecessors updated by the earlier inputs and transactions of the block
   (so: no missing, already spent, immature or locked output, no double spend inside the block) *)
Definition rule_spends (c : list blk) (b : blk) : Prop :=
  txs_ok (ledger c) (bheight b) true (btxs b).

Definition rule_version (b : blk) : Prop := bversion b = 1.
Definition rule_height (p b : blk) : Prop := bheight b = bheight p + 1.
Definition rule_parent (p b : blk) : Prop := bparent b = bid p.
Definition rule_time (now : N) (p b : blk) : Prop :=
  btime p + p_interval P <= btime b /\ btime b <= now + p_offset P.
(* the witness verifies under the key scheduled for the block's time slot *)
Definition rule_proposer (c : list blk) (b : blk) : Prop :=
  bsig b = proposer (ck_time P c) (btime b) /\ bsig b <> 0.
Definition rule_merkle (b : blk) : Prop := map tid (btxs b) = broot b.
Definition rule_txs (b : blk) : Prop := forall t, In t (btxs b) -> tres t <> None.
Definition gas_of (t : tx) : N := match tres t with Some g => g | None => 0 end.
Definition total_gas (ts : list tx) : N := fold_right (fun t a => gas_of t + a) 0 ts.
Definition rule_gas (b : blk) : Prop := total_gas (btxs b) <= p_maxgas P.
(* coinbase shape and amounts: the first transaction's outputs are original BTM outputs; outside
   the first block of an epoch there is exactly one, of amount zero; in the first block of an
   epoch the outputs, grouped by program (a zero first output aside), are exactly the reward
   table of the epoch that just ended on this branch *)
Definition rule_coinbase (c : list blk) (b : blk) : Prop :=
  btxs b <> [] /\
  (forall o, In o (bcb b) -> snd o = 1) /\
  (bheight b mod p_epoch P <> 1 -> exists p k, bcb b = [(p, 0, k)]) /\
  (bheight b mod p_epoch P = 1 ->
     let m := out_map true (bcb b) [] in
     length m = length (ck_rewards P c) /\
     forall p a, In (p, a) (ck_rewards P c) -> tbl_get m p = a).

Definition consensus_valid (now : N) (c : list blk) (b : blk) : Prop :=
  match c with
  | [] => False
  | p :: _ =>
    rule_version b /\ rule_height p b /\ rule_parent p b /\ rule_time now p b /\
    rule_proposer c b /\ rule_txs b /\ rule_gas b /\ rule_coinbase c b /\ rule_merkle b /\
    rule_spends c b
  end.

(* everything but the spend rule (what saveBlock checks) *)
Definition block_rules (now : N) (c : list blk) (b : blk) : Prop :=
  match c with
  | [] => False
  | p :: _ =>
    rule_version b /\ rule_height p b /\ rule_parent p b /\ rule_time now p b /\
    rule_proposer c b /\ rule_txs b /\ rule_gas b /\ rule_coinbase c b /\ rule_merkle b
  end.

End Spec.
