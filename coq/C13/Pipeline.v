(* C13 — the processing pipeline: invariant over all histories, soundness, completeness. *)
From Coq Require Import List NArith Bool Lia.
From C13 Require Import Model Spec Rules Utxo.
Import ListNotations.
Open Scope N_scope.

(* every non-genesis block of the (tip first) chain obeys the spend rule w.r.t. its predecessors *)
Fixpoint schain (P : params) (c : list blk) : Prop :=
  match c with
  | [] => True
  | b :: c' => match c' with [] => True | _ :: _ => rule_spends P c' b /\ schain P c' end
  end.

(* the blocks of [a] (lowest first) are attached one after the other on top of [k] *)
Fixpoint ext_ok (P : params) (a : list blk) (k : list blk) : Prop :=
  match a with
  | [] => True
  | x :: r => rule_spends P k x /\ ext_ok P r (x :: k)
  end.

Section Pipeline.
Variable P : params.
Variable proposer : N -> N -> N.
Variable choose : list blk -> N.
Variable g : blk.                       (* genesis *)
Variable ds : list (N * blk).           (* the whole history: (clock, delivered block) *)

Definition U (b : blk) : Prop := b = g \/ exists now, In (now, b) ds.

Hypothesis hash_consistent : forall a b, U a -> U b -> bid a = bid b -> a = b.
Hypothesis maxgas_small : p_maxgas P < two63.
Hypothesis gas_ok : forall now b, In (now, b) ds -> gas_bounded b.
Hypothesis genesis_no_spends : forall t, In t (btxs g) -> tspends t = [].

(* ---------------------------------------------------------------- chains *)

Lemma detach_chain_sim D : forall K m,
  K <> [] -> schain P (D ++ K) -> Rep m (ledger (D ++ K)) -> risk (length D) (D ++ K) = false ->
  exists m', detach_chain m D = Some m' /\ Rep m' (ledger K).
Proof.
  induction D as [|d D' IH]; intros K m HK Hs HR Hrisk; cbn in *.
  - eauto.
  - apply orb_false_elim in Hrisk. destruct Hrisk as [Hd Hrisk]. apply negb_false_iff in Hd.
    assert (Hne : D' ++ K <> []) by (destruct D'; [exact HK | discriminate]).
    destruct (D' ++ K) as [|p r] eqn:E; [congruence|].
    destruct Hs as [Hsp Hs].
    unfold detach_block. unfold rule_spends in Hsp.
    destruct (detach_txs_sim P (bheight d) (btxs d) true m (ledger (p :: r)) Hsp (det_okb_ok _ _ _ _ Hd) HR)
      as (m1 & E1 & HR1).
    rewrite E1. rewrite <- E in *. apply IH; assumption.
Qed.

Lemma attach_chain_sim A : forall K m, Rep m (ledger K) ->
  (forall m', attach_chain P m A = Some m' -> ext_ok P A K /\ Rep m' (ledger (rev A ++ K))) /\
  (ext_ok P A K -> exists m', attach_chain P m A = Some m').
Proof.
  induction A as [|a r IH]; intros K m HR; cbn [attach_chain ext_ok rev].
  - split; [intros m' E; inversion E; subst; split; [exact I | exact HR] | eauto].
  - unfold apply_block, rule_spends.
    destruct (apply_txs_sim P (bheight a) (btxs a) true m (ledger K) HR) as [S1 S2].
    destruct (apply_txs P (bheight a) true m (btxs a)) as [m1|] eqn:E1.
    + destruct (S1 _ eq_refl) as [Hok HR1].
      destruct (IH (a :: K) m1 HR1) as [I1 I2].
      split.
      * intros m' E. destruct (I1 _ E) as [X Y]. split; [tauto|].
        rewrite <- app_assoc. exact Y.
      * intros [_ H]. apply I2; exact H.
    + split; [discriminate|]. intros [H _]. destruct (S2 H) as [? ?]; discriminate.
Qed.

Lemma schain_ext A : forall K, schain P K -> K <> [] -> ext_ok P A K -> schain P (rev A ++ K).
Proof.
  induction A as [|a r IH]; intros K Hs HK He; cbn in *; [exact Hs|].
  destruct He as [H1 H2]. rewrite <- app_assoc. apply IH; [|discriminate|exact H2].
  cbn. destruct K; [congruence|]. split; assumption.
Qed.

Lemma schain_suffix D : forall K, schain P (D ++ K) -> schain P K.
Proof.
  induction D as [|d D' IH]; intros K H; cbn in *; [exact H|].
  destruct (D' ++ K) eqn:E.
  - destruct D'; cbn in E; [subst; exact I | discriminate].
  - rewrite <- E in *. apply IH. tauto.
Qed.

(* strip_common removes a common prefix (blocks compared by hash) *)
Lemma strip_common_spec a : forall d a' d',
  (forall x, In x a -> U x) -> (forall x, In x d -> U x) ->
  strip_common a d = (a', d') -> exists k, a = k ++ a' /\ d = k ++ d'.
Proof.
  induction a as [|x a IH]; intros d a' d' Ha Hd E.
  - cbn in E. inversion E; subst. exists []. split; reflexivity.
  - destruct d as [|y d].
    + cbn in E. inversion E; subst. exists []. split; reflexivity.
    + cbn in E. destruct (bid x =? bid y) eqn:Eb.
      * apply N.eqb_eq in Eb. assert (x = y) by (apply hash_consistent; [apply Ha; left; reflexivity | apply Hd; left; reflexivity | exact Eb]).
        subst y. destruct (IH d a' d') as (k & E1 & E2); [intros; apply Ha; right; assumption | intros; apply Hd; right; assumption | exact E|].
        exists (x :: k). cbn. split; congruence.
      * inversion E; subst. exists []. split; reflexivity.
Qed.

Lemma strip_common_ext l : forall a, strip_common (l ++ a) l = (a, []).
Proof.
  induction l as [|x l IH]; intros a; cbn.
  - destruct a; reflexivity.
  - rewrite N.eqb_refl. apply IH.
Qed.

(* ---------------------------------------------------------------- the invariant *)

(* every block of the chain but genesis passed saveBlock's validator on top of its predecessors *)
Fixpoint vchain (c : list blk) : Prop :=
  match c with
  | [] => False
  | b :: c' =>
    match c' with
    | [] => b = g
    | _ :: _ => (exists now, In (now, b) ds /\ block_rules P proposer now c' b) /\ vchain c'
    end
  end.

Lemma vchain_U c : vchain c -> forall x, In x c -> U x.
Proof.
  induction c as [|b c' IH]; intros H x Hin; [destruct Hin|].
  cbn in H. destruct c' as [|p r].
  - destruct Hin as [<-|[]]. left; exact H.
  - destruct H as [(now & Hin' & _) Hv]. destruct Hin as [<-|Hin].
    + right; eauto.
    + apply IH; assumption.
Qed.

Lemma vchain_nonempty c : vchain c -> c <> [].
Proof. destruct c; [intros [] | discriminate]. Qed.

Definition ids (l : list sblk) : list N := map (fun e => bid (sb e)) l.

Record Inv (s : state) : Prop := mkInv {
  inv_stored : forall e, In e (stored s) -> vchain (sb e :: spath e);
  inv_ids : NoDup (ids (stored s));
  inv_main : exists e, In e (stored s) /\ mainc s = sb e :: spath e /\ best s = bid (sb e);
  inv_spend : schain P (mainc s);
  inv_rep : Rep (utxo s) (ledger (mainc s))
}.

Lemma find_stored_in l h e : find_stored l h = Some e -> In e l /\ bid (sb e) = h.
Proof.
  unfold find_stored. intros H. apply find_some in H. destruct H as [H1 H2].
  apply N.eqb_eq in H2. tauto.
Qed.

Lemma find_stored_unique l : NoDup (ids l) -> forall e, In e l -> find_stored l (bid (sb e)) = Some e.
Proof.
  induction l as [|x l IH]; intros Hnd e Hin; [destruct Hin|].
  cbn in Hnd. inversion Hnd as [|? ? Hno Hnd']; subst.
  unfold find_stored. cbn. destruct (bid (sb x) =? bid (sb e)) eqn:E.
  - apply N.eqb_eq in E. destruct Hin as [->|Hin]; [reflexivity|].
    exfalso. apply Hno. rewrite E. unfold ids. apply in_map_iff. eauto.
  - destruct Hin as [->|Hin]; [rewrite N.eqb_refl in E; discriminate|].
    apply IH; assumption.
Qed.

Lemma known_spec l h : existsb (fun e => bid (sb e) =? h) l = true <-> In h (ids l).
Proof.
  rewrite existsb_exists. unfold ids. rewrite in_map_iff. split.
  - intros (e & H1 & H2). apply N.eqb_eq in H2. eauto.
  - intros (e & H1 & H2). exists e. split; [exact H2 | apply N.eqb_eq; exact H1].
Qed.

Lemma find_stored_app_new l e : ~ In (bid (sb e)) (ids l) -> find_stored (l ++ [e]) (bid (sb e)) = Some e.
Proof.
  induction l as [|x l IH]; intros Hn; unfold find_stored; cbn.
  - rewrite N.eqb_refl. reflexivity.
  - destruct (bid (sb x) =? bid (sb e)) eqn:E.
    + apply N.eqb_eq in E. exfalso. apply Hn. left. exact E.
    + apply IH. intro H. apply Hn. right. exact H.
Qed.

Lemma init_inv : Inv (init P g).
Proof.
  unfold init. constructor; cbn.
  - intros e [<-|[]]. cbn. reflexivity.
  - constructor; [intros [] | constructor].
  - eexists. split; [left; reflexivity | split; reflexivity].
  - exact I.
  - unfold apply_block, l_block.
    destruct (apply_txs_sim P (bheight g) (btxs g) true uempty lempty rep_empty) as [S1 S2].
    assert (Hok : txs_ok P lempty (bheight g) true (btxs g)).
    { assert (Hgen : forall ts, (forall t, In t ts -> tspends t = []) ->
                forall cb L, txs_ok P L (bheight g) cb ts).
      { induction ts as [|t r IH]; intros Hs cb L; cbn; [exact I|].
        rewrite (Hs t (or_introl eq_refl)). split; [exact I|].
        apply IH. intros; apply Hs; right; assumption. }
      apply Hgen. exact genesis_no_spends. }
    destruct (S2 Hok) as [m' E]. rewrite E. apply normalise_rep. apply (S1 _ E).
Qed.

(* reorganisation towards a stored block whose chain is valid *)
Lemma reorganize_inv s ts s' :
  Inv s -> In ts (stored s) ->
  reorganize P s ts = Some s' -> risky s' = false ->
  Inv s' /\ stored s' = stored s.
Proof.
  intros [Hst Hids (e & He & Hmain & Hbest) Hsp Hrep] Hts E Hr.
  unfold reorganize in E.
  set (newc := sb ts :: spath ts) in *.
  destruct (strip_common (rev newc) (rev (mainc s))) as [att det] eqn:Es.
  pose proof (Hst _ Hts) as Hvn. fold newc in Hvn.
  pose proof (Hst _ He) as Hvm. rewrite <- Hmain in Hvm.
  destruct (strip_common_spec _ _ _ _
              (fun x H => vchain_U _ Hvn x (proj2 (in_rev _ _) H))
              (fun x H => vchain_U _ Hvm x (proj2 (in_rev _ _) H)) Es) as (k & Ea & Ed).
  assert (Em : mainc s = rev det ++ rev k).
  { rewrite <- (rev_involutive (mainc s)), Ed, rev_app_distr. reflexivity. }
  assert (En : newc = rev att ++ rev k).
  { rewrite <- (rev_involutive newc), Ea, rev_app_distr. reflexivity. }
  assert (Hk : rev k <> []).
  { (* both chains end in genesis, so the common part is not empty *)
    destruct k as [|x k']; [|cbn; intro H; apply app_eq_nil in H; destruct H; discriminate].
    exfalso. cbn [app] in Ea, Ed.
    assert (Hg : forall c, vchain c -> exists c0, rev c = g :: c0).
    { clear. induction c as [|b c' IH]; intros H; [destruct H|].
      cbn [vchain] in H. destruct c' as [|p r].
      - subst. exists []. reflexivity.
      - destruct H as [_ H]. destruct (IH H) as [c0 E]. cbn [rev] in *. rewrite E. eexists. reflexivity. }
    destruct (Hg _ Hvn) as [c1 E1]. destruct (Hg _ Hvm) as [c2 E2].
    rewrite Ea, Ed in Es. rewrite Ea in E1. rewrite Ed in E2. rewrite E1, E2 in Es.
    cbn [strip_common] in Es. rewrite N.eqb_refl in Es.
    assert (Hlen : forall a d a' d', strip_common a d = (a', d') -> (length a' <= length a)%nat).
    { clear. induction a as [|x a IH]; intros d a' d' E; cbn [strip_common] in E.
      - inversion E; subst; cbn; lia.
      - destruct d as [|y d]; [inversion E; subst; cbn; lia|].
        destruct (bid x =? bid y); [apply IH in E; cbn; lia | inversion E; subst; cbn; lia]. }
    apply Hlen in Es. cbn [length] in Es. lia. }
  destruct (detach_chain (utxo s) (rev det)) as [m1|] eqn:E1; [|discriminate].
  destruct (attach_chain P m1 att) as [m2|] eqn:E2; [|discriminate].
  inversion E; subst s'; clear E. cbn in Hr.
  apply orb_false_elim in Hr. destruct Hr as [_ Hrisk].
  rewrite Em in Hsp, Hrep, Hrisk.
  rewrite <- (rev_length det) in Hrisk.
  destruct (detach_chain_sim (rev det) (rev k) (utxo s) Hk Hsp Hrep Hrisk) as (m1' & E1' & HR1).
  rewrite E1 in E1'. inversion E1'; subst m1'.
  destruct (attach_chain_sim att (rev k) m1 HR1) as [A1 _].
  destruct (A1 _ E2) as [Hext HR2].
  split; [|reflexivity].
  constructor; cbn [stored best mainc utxo risky].
  - exact Hst.
  - exact Hids.
  - exists ts. split; [exact Hts | split; reflexivity].
  - rewrite En. apply schain_ext; [eapply schain_suffix; exact Hsp | exact Hk | exact Hext].
  - rewrite En. apply normalise_rep. exact HR2.
Qed.

Lemma reorganize_risky s ts s' : reorganize P s ts = Some s' -> risky s' = false -> risky s = false.
Proof.
  unfold reorganize. destruct (strip_common _ _) as [att det].
  destruct (detach_chain _ _); [|discriminate]. destruct (attach_chain _ _ _); [|discriminate].
  intros E H. inversion E; subst. cbn in H. apply orb_false_elim in H. tauto.
Qed.

Lemma process_risky now s b : risky (fst (process_block P proposer choose now s b)) = false -> risky s = false.
Proof.
  unfold process_block.
  destruct (_ && _); [cbn; tauto|].
  destruct (find_stored _ _); [|cbn; tauto].
  destruct (validate_block _ _ _ _ _); [|cbn; tauto].
  destruct (best s =? _); [cbn; tauto|].
  destruct (find_stored _ _) as [ts|]; [|cbn; tauto].
  destruct (reorganize _ _ _) as [s2|] eqn:E; [|cbn; tauto].
  cbn. intros H. apply (reorganize_risky _ _ _ E) in H. exact H.
Qed.

Lemma process_inv now s b :
  In (now, b) ds -> Inv s ->
  risky (fst (process_block P proposer choose now s b)) = false ->
  Inv (fst (process_block P proposer choose now s b)).
Proof.
  intros Hin HI. unfold process_block.
  set (known := existsb (fun e => bid (sb e) =? bid b) (stored s)).
  destruct (known && (bheight b <=? best_height s)); [intros _; exact HI|].
  destruct (find_stored (stored s) (bparent b)) as [ps|] eqn:Ef; [|intros _; exact HI].
  destruct (validate_block P proposer now (sb ps :: spath ps) b) eqn:Ev; [|intros _; exact HI].
  apply find_stored_in in Ef. destruct Ef as [Hps _].
  apply (validate_block_spec P proposer maxgas_small) in Ev; [|eapply gas_ok; exact Hin].
  set (st := if known then stored s else stored s ++ [mkS b (sb ps :: spath ps)]).
  set (s1 := mkState st (best s) (mainc s) (utxo s) (risky s)).
  assert (HI1 : Inv s1).
  { destruct HI as [Hst Hids (e & He & Hmain & Hbest) Hsp Hrep].
    unfold s1, st. destruct known eqn:Ek.
    - constructor; cbn; eauto.
    - constructor; cbn.
      + intros e' Hin'. apply in_app_or in Hin'. destruct Hin' as [Hin'|[<-|[]]]; [apply Hst; exact Hin'|].
        cbn [sb spath vchain]. split; [eauto | apply Hst; exact Hps].
      + unfold ids. rewrite map_app. cbn.
        assert (Hn : ~ In (bid b) (ids (stored s))).
        { intro H. apply known_spec in H. unfold known in Ek. congruence. }
        clear - Hids Hn. unfold ids in *. induction (map _ (stored s)) as [|x l IH]; cbn.
        * constructor; [intros [] | constructor].
        * inversion Hids; subst. constructor.
          -- intro H. apply in_app_or in H. destruct H as [H|[H|[]]]; [contradiction|]. apply Hn. left. symmetry; exact H.
          -- apply IH; [assumption | intro H; apply Hn; right; exact H].
      + exists e. split; [apply in_or_app; left; exact He | tauto].
      + exact Hsp.
      + exact Hrep. }
  destruct (best s =? choose (map sb st)); [intros _; exact HI1|].
  destruct (find_stored st (choose (map sb st))) as [ts|] eqn:Et; [|intros _; exact HI1].
  apply find_stored_in in Et. destruct Et as [Hts _].
  destruct (reorganize P s1 ts) as [s2|] eqn:Er; [|intros _; exact HI1].
  cbn. intros Hr. apply (reorganize_inv s1 ts s2 HI1 Hts Er Hr).
Qed.

Lemma run_inv l : forall s s' os,
  incl l ds -> Inv s -> run P proposer choose s l = (s', os) -> risky s' = false -> Inv s'.
Proof.
  induction l as [|[now b] r IH]; intros s s' os Hincl HI E Hr; cbn in E.
  - inversion E; subst. exact HI.
  - destruct (process_block P proposer choose now s b) as [s1 o] eqn:Ep.
    destruct (run P proposer choose s1 r) as [s2 os2] eqn:Er. inversion E; subst; clear E.
    assert (Hr1 : risky s1 = false).
    { (* the flag is never cleared *)
      clear - Er Hr. revert s1 s' os2 Er Hr. induction r as [|[n x] r IH]; intros s1 s' os2 Er Hr; cbn in Er.
      - inversion Er; subst. exact Hr.
      - destruct (process_block P proposer choose n s1 x) as [s3 o3] eqn:Ep.
        destruct (run P proposer choose s3 r) as [s4 os4] eqn:Er2. inversion Er; subst.
        specialize (IH _ _ _ Er2 Hr). pose proof (process_risky n s1 x) as H. rewrite Ep in H. apply H. exact IH. }
    eapply IH; [intros x Hx; apply Hincl; right; exact Hx | | exact Er | exact Hr].
    pose proof (process_inv now s b (Hincl _ (or_introl eq_refl)) HI) as H. rewrite Ep in H. apply H. exact Hr1.
Qed.

(* ---------------------------------------------------------------- soundness *)

Lemma chain_valid c : vchain c -> schain P c ->
  forall pre b c', c = pre ++ b :: c' -> c' <> [] ->
  exists now, In (now, b) ds /\ consensus_valid P proposer now c' b.
Proof.
  intros Hv Hs pre. revert c Hv Hs. induction pre as [|x pre IH]; intros c Hv Hs b c' E Hne; subst c.
  - cbn in *. destruct c' as [|p r]; [congruence|].
    destruct Hv as [(now & Hin & Hb) _]. destruct Hs as [Hsp _].
    exists now. split; [exact Hin|]. unfold consensus_valid, block_rules in *. tauto.
  - cbn [app] in *. cbn in Hv, Hs.
    destruct (pre ++ b :: c') as [|y l] eqn:E; [destruct pre; discriminate|].
    apply (IH (y :: l)); [tauto | tauto | symmetry; exact E | exact Hne].
Qed.

Theorem sound_statement l s os :
  incl l ds ->
  run P proposer choose (init P g) l = (s, os) -> risky s = false ->
  forall pre b c, mainc s = pre ++ b :: c -> c <> [] ->
    exists now, In (now, b) ds /\ consensus_valid P proposer now c b.
Proof.
  intros Hl E Hr. pose proof (run_inv l _ _ _ Hl init_inv E Hr) as [Hst _ (e & He & Hmain & _) Hsp _].
  apply chain_valid; [rewrite Hmain; apply Hst; exact He | exact Hsp].
Qed.

(* ---------------------------------------------------------------- completeness *)

Theorem complete_statement l s os now b :
  incl l ds ->
  run P proposer choose (init P g) l = (s, os) -> risky s = false ->
  In (now, b) ds ->
  consensus_valid P proposer now (mainc s) b ->
  ~ In (bid b) (ids (stored s)) ->
  choose (map sb (stored s ++ [mkS b (mainc s)])) = bid b ->
  let '(s', o) := process_block P proposer choose now s b in
  best s' = bid b /\ mainc s' = b :: mainc s /\ o = (false, 0, bid b) /\ risky s' = false.
Proof.
  intros Hl E Hr Hin Hcv Hnew Hch.
  pose proof (run_inv l _ _ _ Hl init_inv E Hr) as [Hst Hids (e & He & Hmain & Hbest) Hsp Hrep].
  unfold process_block.
  assert (Ek : existsb (fun e => bid (sb e) =? bid b) (stored s) = false).
  { destruct (existsb _ _) eqn:X; [|reflexivity]. apply known_spec in X. contradiction. }
  rewrite Ek. cbn [andb].
  assert (Hcv' := Hcv). unfold consensus_valid in Hcv. rewrite Hmain in Hcv.
  destruct Hcv as (R1 & R2 & R3 & R4 & R5 & R6 & R7 & R8 & R9 & R10).
  unfold rule_parent in R3. rewrite R3. rewrite (find_stored_unique _ Hids _ He).
  assert (Ev : validate_block P proposer now (sb e :: spath e) b = VOk).
  { apply (validate_block_spec P proposer maxgas_small); [eapply gas_ok; exact Hin|].
    unfold block_rules. tauto. }
  rewrite Ev. rewrite <- Hmain. rewrite Hch.
  assert (Hb : (best s =? bid b) = false).
  { apply N.eqb_neq. intro X. apply Hnew. rewrite <- X, Hbest. unfold ids. apply in_map_iff. eauto. }
  rewrite Hb.
  change (bid b) with (bid (sb (mkS b (mainc s)))) at 1.
  rewrite find_stored_app_new by exact Hnew.
  unfold reorganize. cbn [sb spath mainc utxo stored risky].
  cbn [rev]. rewrite strip_common_ext. cbn [rev detach_chain length risk].
  destruct (attach_chain_sim [b] (mainc s) (utxo s) Hrep) as [_ A2].
  destruct A2 as [m2 E2]; [cbn; split; [rewrite Hmain; exact R10 | exact I]|].
  rewrite E2. cbn. rewrite orb_false_r. repeat split; try reflexivity. exact Hr.
Qed.

End Pipeline.
