(* C30 — running the model on the correspondence cases (H := SHA3-256).
   No proofs here; boolean equality on the projected observables. *)
From Coq Require Import List NArith Bool.
From Verif Require Import Outcome Cmp Sha3.
From C30 Require Import Model.
Import ListNotations.

(* a 32-byte value written as one number (big-endian), so that case files parse fast *)
Fixpoint be_bytes (k : nat) (n : N) (acc : bytes) : bytes :=
  match k with
  | O => acc
  | S k' => be_bytes k' (N.div n 256) (N.modulo n 256 :: acc)
  end.
Definition B (n : N) : bytes := be_bytes 32 n [].

(* one validation attempt derived from the generated proof of the case *)
Inductive op :=
| OHash (i : nat) (h : hash)                 (* proof hash i replaced *)
| OFlag (i : nat) (b : N)                    (* proof flag i replaced *)
| ORoot (r : hash)                           (* validated against another root *)
| ORel (rel : list bytes)                    (* validated with another related list *)
| ORaw (hs : list hash) (fs : list N) (rel : list bytes).  (* arbitrary proof, real root *)

Fixpoint set_nth {A} (i : nat) (x : A) (l : list A) : list A :=
  match l with
  | [] => []
  | y :: t => match i with O => x :: t | S j => y :: set_nth j x t end
  end.

(* observables: root, generated proof (hashes, flags), validation of the
   generated proof, result of every derived validation *)
Definition obs := option (hash * (list hash * list N) * bool * list (option bool)).

Definition run_case (xs rel : list bytes) (ops : list op) : obs :=
  let H := sha3_256 in
  match merkle_root H xs with
  | None => None
  | Some r =>
    match gen_proof H xs rel with
    | Ok (hs, fs) =>
      let ms := map (leaf_hash H) rel in
      match validate_ms H hs fs ms r with
      | None => None
      | Some b =>
        Some (r, (hs, fs), b,
              map (fun o =>
                     match o with
                     | OHash i h => validate_ms H (set_nth i h hs) fs ms r
                     | OFlag i f => validate_ms H hs (set_nth i f fs) ms r
                     | ORoot r' => validate_ms H hs fs ms r'
                     | ORel rel' => validate H hs fs rel' r
                     | ORaw hs' fs' rel' => validate H hs' fs' rel' r
                     end) ops)
      end
    | _ => None
    end
  end.

Definition hashes_eqb := list_eqb bytes_eqb.
Definition flags_eqb := list_eqb N.eqb.
Definition obs_eqb (a b : obs) : bool :=
  match a, b with
  | Some (r1, (h1, f1), b1, l1), Some (r2, (h2, f2), b2, l2) =>
      bytes_eqb r1 r2 && hashes_eqb h1 h2 && flags_eqb f1 f2 && Bool.eqb b1 b2 &&
      list_eqb (option_eqb Bool.eqb) l1 l2
  | None, None => true
  | _, _ => false
  end.
