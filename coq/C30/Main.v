(* C30 — proofs, part 3: completeness, wrong root, soundness, tampered hash. *)
From Coq Require Import List NArith Arith Bool Lia.
From Verif Require Import Outcome Cmp.
From C30 Require Import Model Proofs Sound.
Import ListNotations.

Section WithHash.
  Variable H : bytes -> bytes.
  Hypothesis H_len : forall x, length (H x) = 32.

  Notation leaf_hash := (leaf_hash H).
  Notation interior_hash := (interior_hash H).
  Notation empty_hash := (empty_hash H).
  Notation Collision := (Collision H).
  Notation wf := (wf H).
  Notation isleaf := (isleaf H).

  (* ------------------------------------------------ leaf hashes and lists *)

  Lemma leaf_inj_or x y : leaf_hash x = leaf_hash y -> x = y \/ Collision.
  Proof.
    intros E. destruct (hash_inj_or H _ _ E) as [Eq|C]; [left; injection Eq; auto | right; auto].
  Qed.

  Lemma nodup_leaves l : NoDup l -> NoDup (map leaf_hash l) \/ Collision.
  Proof.
    induction 1 as [|a l Hnot Hnd IH]; cbn; [left; constructor|].
    destruct IH as [IH|C]; [|right; auto].
    destruct (In_dec bytes_eq_dec (leaf_hash a) (map leaf_hash l)) as [Hin|Hnin].
    - apply in_map_iff in Hin. destruct Hin as [y [Ey Hy]].
      destruct (leaf_inj_or _ _ Ey) as [->|C]; [contradiction | right; auto].
    - left. constructor; auto.
  Qed.

  Lemma sublist_map {A B} (f : A -> B) s l : sublist s l -> sublist (map f s) (map f l).
  Proof. induction 1; cbn; constructor; auto. Qed.

  Lemma sublist_map_inv : forall a b, sublist a b -> forall s l,
    a = map leaf_hash s -> b = map leaf_hash l -> sublist s l \/ Collision.
  Proof.
    induction 1 as [b | x a b Hs IH | x a b Hs IH]; intros s l Ea Eb.
    - destruct s; [left; constructor | discriminate].
    - destruct s as [|x' s']; [discriminate|]. destruct l as [|y' l']; [discriminate|].
      cbn in Ea, Eb. injection Ea as Ex Ea. injection Eb as Ey Eb.
      destruct (IH _ _ Ea Eb) as [S|C]; [|right; auto].
      assert (E : leaf_hash x' = leaf_hash y') by congruence.
      destruct (leaf_inj_or _ _ E) as [->|C]; [left; constructor; auto | right; auto].
    - destruct l as [|y' l']; [discriminate|]. cbn in Eb. injection Eb as Ey Eb.
      destruct (IH _ _ Ea Eb) as [S|C]; [left; constructor; auto | right; auto].
  Qed.

  Lemma Forall_isleaf_map s : Forall isleaf (map leaf_hash s).
  Proof. induction s; cbn; constructor; auto. eexists; reflexivity. Qed.

  (* -------------------------------------------- shape of generated proofs *)

  Lemma found_nil t : found [] t = false.
  Proof. unfold found. induction (leaves t); cbn; auto. Qed.

  Lemma gen_notfound S t : found S t = false -> gen S t = ([], []).
  Proof.
    destruct t as [h | h l r]; intros F.
    - unfold found in F. cbn in F. rewrite orb_false_r in F. cbn. rewrite F. reflexivity.
    - rewrite gen_node. rewrite found_node in F. rewrite F. reflexivity.
  Qed.

  Lemma gen_proof_form xs rel t : build H xs = Ok (Some t) ->
    gen_proof H xs rel = Ok (gen1 (map leaf_hash rel) t) \/
    gen_proof H xs rel = Ok ([], []).
  Proof.
    intros B. unfold gen_proof. rewrite B.
    destruct rel as [|x rel'].
    - left. cbn. unfold gen1. rewrite found_nil. reflexivity.
    - cbn [map is_nil]. unfold gen1.
      destruct (found (leaf_hash x :: map leaf_hash rel') t) eqn:F; [left; auto|].
      right. rewrite gen_notfound; auto.
  Qed.

  Lemma gen_proof_sub xs rel t : build H xs = Ok (Some t) -> leaves t = map leaf_hash xs ->
    sublist rel xs -> gen_proof H xs rel = Ok (gen1 (map leaf_hash rel) t).
  Proof.
    intros B L Sx. unfold gen_proof. rewrite B.
    destruct rel as [|x rel'].
    - cbn. unfold gen1. rewrite found_nil. reflexivity.
    - cbn [map is_nil]. unfold gen1.
      assert (F : found (leaf_hash x :: map leaf_hash rel') t = true).
      { unfold found. apply existsb_exists. exists (leaf_hash x). split.
        - rewrite L. apply in_map. eapply sublist_in; eauto. left; auto.
        - apply mem_In. left; auto. }
      rewrite F. reflexivity.
  Qed.

  Lemma gen1_len32 S t : wf t -> Forall len32 (fst (gen1 S t)).
  Proof.
    induction t as [h | h l IHl r IHr]; intros W.
    - destruct (gen1_cases S (Leaf h)) as [[_ ->] | [[_ [h' [E [_ ->]]]] | [_ [h' [l [r [E _]]]]]]].
      + cbn. constructor; auto. apply (isleaf_len32 H H_len). exact W.
      + injection E as <-. cbn. constructor; auto. apply (isleaf_len32 H H_len). exact W.
      + discriminate.
    - destruct (gen1_cases S (Node h l r)) as [[_ ->] | [[_ [h' [E _]]] | [_ [h' [l' [r' [E ->]]]]]]].
      + cbn [fst]. constructor; auto. apply (wf_len32 H H_len). exact W.
      + discriminate.
      + injection E as <- <- <-. cbn [fst]. cbn in W. apply Forall_app. split; [apply IHl | apply IHr]; tauto.
  Qed.

  (* ------------------------------------------------------------- validate *)

  Lemma validate_total hs fs rel root : exists b, validate H hs fs rel root = Some b.
  Proof.
    unfold validate, validate_ms.
    destruct (rbp_total H H_len (S (length fs)) hs fs (map leaf_hash rel) (Nat.lt_succ_diag_r _))
      as [r [hs1 [fs1 [ms1 [E _]]]]].
    rewrite E. eauto.
  Qed.

  Lemma validate_true hs fs rel root : validate H hs fs rel root = Some true ->
    exists hs1 fs1, rbp H (S (length fs)) hs fs (map leaf_hash rel) = Some (root, (hs1, fs1, [])).
  Proof.
    unfold validate, validate_ms.
    destruct (rbp H (S (length fs)) hs fs (map leaf_hash rel)) as [[r [[hs1 fs1] ms1]]|]; [|discriminate].
    intros E. injection E as E. apply andb_prop in E. destruct E as [E1 E2].
    apply bytes_eqb_eq in E1. subst r. destruct ms1; [|discriminate]. eauto.
  Qed.

  (* the three entry points always return: never out of fuel, never a nil dereference *)
  Theorem total l s :
    (exists r p, merkle_root H l = Some r /\ gen_proof H l s = Ok p) /\
    (forall hs fs rel root, exists b, validate H hs fs rel root = Some b).
  Proof.
    split; [|intros; apply validate_total].
    destruct l as [|x0 l0].
    - exists empty_hash, ([], []). cbn. auto.
    - destruct (build_nonempty H H_len (x0 :: l0)) as [t [B [W [L R]]]]; [discriminate|].
      destruct (gen_proof_form (x0 :: l0) s t B) as [G | G]; eauto.
  Qed.

  (* ---------------------------------------------------------- completeness *)

  Theorem complete l s : NoDup l -> sublist s l ->
    exists r hs fs, merkle_root H l = Some r /\ gen_proof H l s = Ok (hs, fs) /\
                    (validate H hs fs s r = Some true \/ Collision).
  Proof.
    intros Hnd Hs. destruct l as [|x0 l0].
    - apply sublist_nil_r in Hs. subst s. exists empty_hash, [], []. cbn.
      repeat split; auto. left. unfold validate, validate_ms. cbn. rewrite bytes_eqb_refl. reflexivity.
    - destruct (build_nonempty H H_len (x0 :: l0)) as [t [B [W [L R]]]]; [discriminate|].
      pose proof (gen_proof_sub _ _ _ B L Hs) as G.
      set (S0 := map leaf_hash s) in *.
      exists (thash t), (fst (gen1 S0 t)), (snd (gen1 S0 t)).
      split; auto. split; [rewrite G; destruct (gen1 S0 t); reflexivity|].
      destruct (nodup_leaves _ Hnd) as [ND|C]; [left | right; auto].
      pose proof (walk_gen1 S0 t []) as Wk. rewrite app_nil_r in Wk.
      assert (F : filter (fun h => mem h S0) (leaves t) = S0).
      { rewrite L. apply filter_sublist; auto. apply sublist_map; auto. }
      rewrite F in Wk.
      pose proof (rbp_walk H H_len t W _ _ _ _ Wk (S (length (snd (gen1 S0 t)))) [] [] (Nat.lt_succ_diag_r _)) as Rb.
      rewrite !app_nil_r in Rb.
      unfold validate, validate_ms. fold S0. rewrite Rb. rewrite bytes_eqb_refl. reflexivity.
  Qed.

  (* ------------------------------------------------------------ wrong root *)

  Theorem wrong_root hs fs s r r' :
    validate H hs fs s r = Some true -> r' <> r -> validate H hs fs s r' = Some false.
  Proof.
    unfold validate, validate_ms.
    destruct (rbp H (S (length fs)) hs fs (map leaf_hash s)) as [[r0 [[hs1 fs1] ms1]]|]; [|discriminate].
    intros E N. injection E as E. apply andb_prop in E. destruct E as [E1 _].
    apply bytes_eqb_eq in E1. subst r0.
    destruct (bytes_eqb r r') eqn:E; [apply bytes_eqb_eq in E; congruence | reflexivity].
  Qed.

  (* ------------------------------------------------------------- soundness *)

  Theorem sound l s hs fs r : merkle_root H l = Some r -> Forall len32 hs ->
    validate H hs fs s r = Some true -> sublist s l \/ Collision.
  Proof.
    intros R Fh V. destruct (validate_true _ _ _ _ V) as [hs1 [fs1 Rb]].
    pose proof (Forall_isleaf_map s) as Fm.
    destruct l as [|x0 l0].
    - cbn in R. injection R as <-.
      destruct (rbp_consumed H _ _ _ _ _ _ _ _ Rb Fm) as [E | [z [Hz Ez]]].
      + destruct s; [left; constructor | discriminate].
      + right. unfold Model.empty_hash in Ez. eapply coll_of; [symmetry; exact Ez | auto].
    - destruct (build_nonempty H H_len (x0 :: l0)) as [t [B [W [L R']]]]; [discriminate|].
      rewrite R' in R. injection R as <-.
      destruct (sync H H_len _ _ _ _ _ _ _ _ Rb Fh Fm t W eq_refl) as [C | [hsc [c [Wk [_ Ec]]]]]; [right; auto|].
      rewrite app_nil_r in Ec. subst c.
      destruct (walk_props _ _ _ _ _ Wk) as [_ [_ Sub]].
      eapply sublist_map_inv; eauto.
  Qed.

  (* the part of the statement "validation fails for hashes not in the list" *)
  Corollary sound_not_in l s hs fs r x : merkle_root H l = Some r -> Forall len32 hs ->
    In x s -> ~ In x l -> validate H hs fs s r = Some false \/ Collision.
  Proof.
    intros R Fh Hx Hn. destruct (validate_total hs fs s r) as [[|] V]; [|left; auto].
    destruct (sound _ _ _ _ _ R Fh V) as [S|C]; [|right; auto].
    exfalso. apply Hn. eapply sublist_in; eauto.
  Qed.

  (* ---------------------------------------------------------- tampered hash *)

  Theorem tamper_hash l s r hs fs pre a post h' :
    merkle_root H l = Some r -> gen_proof H l s = Ok (hs, fs) ->
    hs = pre ++ a :: post -> h' <> a -> len32 h' ->
    validate H (pre ++ h' :: post) fs s r = Some false \/ Collision.
  Proof.
    intros R G Ehs Hne Hl'.
    destruct (validate_total (pre ++ h' :: post) fs s r) as [[|] V]; [|left; auto].
    right. destruct l as [|x0 l0].
    - cbn in G. injection G as <- <-. destruct pre; discriminate.
    - destruct (build_nonempty H H_len (x0 :: l0)) as [t [B [W [L R']]]]; [discriminate|].
      rewrite R' in R. injection R as <-.
      destruct (gen_proof_form (x0 :: l0) s t B) as [G' | G']; rewrite G' in G.
      2:{ injection G as <- <-. destruct pre; discriminate. }
      set (S0 := map leaf_hash s) in *.
      assert (Eh : hs = fst (gen1 S0 t)) by (destruct (gen1 S0 t); injection G as <- <-; reflexivity).
      assert (Ef : fs = snd (gen1 S0 t)) by (destruct (gen1 S0 t); injection G as <- <-; reflexivity).
      destruct (validate_true _ _ _ _ V) as [hs1 [fs1 Rb]].
      assert (Fh : Forall len32 (pre ++ h' :: post)).
      { pose proof (gen1_len32 S0 t W) as F. rewrite <- Eh, Ehs in F.
        apply Forall_app in F. destruct F as [F1 F2]. apply Forall_app. split; auto.
        inversion F2; subst. constructor; auto. }
      destruct (sync H H_len _ _ _ _ _ _ _ _ Rb Fh (Forall_isleaf_map s) t W eq_refl)
        as [C | [hsc [c [Wk [Eh' _]]]]]; [auto|].
      exfalso.
      pose proof (walk_gen1 S0 t []) as Wg. rewrite app_nil_r, <- Ef, <- Eh in Wg.
      rewrite Wg in Wk. injection Wk as <- _ _.
      rewrite Ehs, <- app_assoc in Eh'. apply app_inv_head in Eh'.
      cbn in Eh'. injection Eh' as E _. contradiction.
  Qed.
End WithHash.
