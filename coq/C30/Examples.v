(* C30 — the hypotheses of the theorems are satisfiable by non-trivial values
   (H := SHA3-256, three transaction ids, two of them related). *)
From Coq Require Import List NArith Bool.
From Verif Require Import Outcome Cmp Sha3.
From C30 Require Import Model Proofs Sha3Len.
Import ListNotations.
Open Scope N_scope.

Definition ex_ids : list bytes := [[1;1;1]; [2;2]; [3]].
Definition ex_rel : list bytes := [[1;1;1]; [3]].

Example ex_nodup : NoDup ex_ids.
Proof. repeat constructor; cbn; intuition discriminate. Qed.

Example ex_sublist : sublist ex_rel ex_ids.
Proof. unfold ex_rel, ex_ids. constructor. constructor. constructor. constructor. Qed.

(* the generated proof has three hashes and five flags [1;1;2;0;2]: every position of
   the tamper theorems exists, and the proof validates *)
Example ex_proof :
  exists r hs fs, merkle_root sha3_256 ex_ids = Some r /\
    gen_proof sha3_256 ex_ids ex_rel = Ok (hs, fs) /\
    length hs = 3%nat /\ fs = [1;1;2;0;2] /\ Forall len32 hs /\
    validate sha3_256 hs fs ex_rel r = Some true.
Proof.
  destruct (merkle_root sha3_256 ex_ids) as [r|] eqn:R; [|vm_compute in R; discriminate].
  destruct (gen_proof sha3_256 ex_ids ex_rel) as [[hs fs]| |] eqn:G; [|vm_compute in G; discriminate ..].
  exists r, hs, fs. split; auto. split; auto.
  vm_compute in R. vm_compute in G. injection R as <-. injection G as <- <-.
  split; [reflexivity|]. split; [reflexivity|].
  split; [repeat constructor|]. vm_compute. reflexivity.
Qed.

Example ex_hash_len : forall x, length (sha3_256 x) = 32%nat.
Proof. exact sha3_256_len. Qed.
