(* C30 — the hypotheses of the theorems are satisfiable by non-trivial values
   (H := SHA3-256, three transaction ids, two of them related). *)
From Coq Require Import List NArith Bool.
From Verif Require Import Outcome Cmp Sha3.
From C30 Require Import Model Proofs Sha3Len.
Import ListNotations.
Open Scope N_scope.

Definition ex_ids : list bytes := [[1;1;1]; [2;2]; [3]].
Definition ex_rel : list bytes := [[1;1;1]; [3]].

Example ex_nodup : NoDup ex_ids.
Proof. repeat constructor; cbn; intuition discriminate. Qed.

Example ex_sublist : sublist ex_rel ex_ids.
Proof. unfold ex_rel, ex_ids. constructor. constructor. constructor. constructor. Qed.

(* the generated proof has three hashes and five flags [1;1;2;0;2]: every position of
   the tamper theorems exists, and the proof validates *)
Definition ex_root := Eval vm_compute in merkle_root sha3_256 ex_ids.
Definition ex_gen := Eval vm_compute in gen_proof sha3_256 ex_ids ex_rel.

Example ex_proof :
  exists r hs fs, merkle_root sha3_256 ex_ids = Some r /\
    gen_proof sha3_256 ex_ids ex_rel = Ok (hs, fs) /\
    length hs = 3%nat /\ fs = [1;1;2;0;2] /\ Forall len32 hs /\
    validate sha3_256 hs fs ex_rel r = Some true.
Proof.
  assert (R : merkle_root sha3_256 ex_ids = ex_root) by (vm_compute; reflexivity).
  assert (G : gen_proof sha3_256 ex_ids ex_rel = ex_gen) by (vm_compute; reflexivity).
  unfold ex_root in R. unfold ex_gen in G.
  eexists. eexists. eexists. split; [exact R|]. split; [exact G|].
  split; [reflexivity|]. split; [reflexivity|].
  split; [repeat constructor|]. vm_compute. reflexivity.
Qed.

Example ex_hash_len : forall x, length (sha3_256 x) = 32%nat.
Proof. exact sha3_256_len. Qed.
