(* C30 — proofs, part 4: a single changed flag in a generated proof.
   The walk over the tree is re-expressed iteratively over a stack of pending
   subtrees ([walkS]), so that "the state at flag position i" is a value
   ([adv]) shared by the original and the tampered run. *)
From Coq Require Import List NArith Arith Bool Lia.
From Verif Require Import Outcome Cmp.
From C30 Require Import Model Proofs Sound Main.
Import ListNotations.

Definition wres := option (list hash * list hash * list N).

Definition pp (h c : list hash) (x : wres) : wres :=
  match x with Some (h', c', r) => Some (h ++ h', c ++ c', r) | None => None end.

Lemma pp_pp a b a' b' x : pp a b (pp a' b' x) = pp (a ++ a') (b ++ b') x.
Proof. destruct x as [[[h c] r]|]; cbn; [rewrite !app_assoc|]; reflexivity. Qed.

Lemma pp_nil x : pp [] [] x = x.
Proof. destruct x as [[[h c] r]|]; reflexivity. Qed.

Lemma pp_inv a b x h c r : pp a b x = Some (h, c, r) ->
  exists h' c', x = Some (h', c', r) /\ h = a ++ h' /\ c = b ++ c'.
Proof. destruct x as [[[h' c'] r']|]; cbn; [|discriminate]. intros E. injection E as <- <- <-. eauto. Qed.

Fixpoint walkS (fs : list N) (ts : list tree) {struct fs} : wres :=
  match ts with
  | [] => Some ([], [], fs)
  | t :: ts' =>
    match fs with
    | [] => None
    | f :: fs' =>
      if N.eqb f FlagAssist then pp [thash t] [] (walkS fs' ts')
      else if N.eqb f FlagTxLeaf then
        match t with Leaf h => pp [h] [h] (walkS fs' ts') | Node _ _ _ => None end
      else if N.eqb f FlagTxParent then
        match t with Leaf _ => None | Node _ l r => walkS fs' (l :: r :: ts') end
      else None
    end
  end.

Lemma walkS_nil fs : walkS fs [] = Some ([], [], fs).
Proof. destruct fs; reflexivity. Qed.

Lemma walkS_walk : forall t fs ts,
  walkS fs (t :: ts) =
  match walk t fs with None => None | Some (h, c, r) => pp h c (walkS r ts) end.
Proof.
  induction t as [h0 | h0 l IHl r0 IHr]; intros fs ts; (destruct fs as [|f fs']; [reflexivity|]);
    rewrite walk_cons; cbn [walkS].
  - destruct (N.eqb f FlagAssist); [reflexivity|].
    destruct (N.eqb f FlagTxLeaf); [reflexivity|].
    destruct (N.eqb f FlagTxParent); reflexivity.
  - destruct (N.eqb f FlagAssist); [reflexivity|].
    destruct (N.eqb f FlagTxLeaf); [reflexivity|].
    destruct (N.eqb f FlagTxParent); [|reflexivity].
    rewrite IHl. destruct (walk l fs') as [[[h1 c1] r1]|]; [|reflexivity].
    rewrite IHr. destruct (walk r0 r1) as [[[h2 c2] r2]|]; [|reflexivity].
    apply pp_pp.
Qed.

Definition leavesS (ts : list tree) : list hash := flat_map leaves ts.
Definition flagsS (S : list hash) (ts : list tree) : list N := flat_map (fun t => snd (gen1 S t)) ts.

Lemma walkS_sublist : forall ts fs h c r, walkS fs ts = Some (h, c, r) -> sublist c (leavesS ts).
Proof.
  induction ts as [|t ts IH]; intros fs h c r W.
  - rewrite walkS_nil in W. injection W as <- <- <-. constructor.
  - rewrite walkS_walk in W. destruct (walk t fs) as [[[h1 c1] r1]|] eqn:W1; [|discriminate].
    apply pp_inv in W. destruct W as [h' [c' [W [-> ->]]]].
    cbn. apply sublist_app; [|eapply IH; eauto].
    destruct (walk_props _ _ _ _ _ W1) as [_ [_ Sl]]. exact Sl.
Qed.

Lemma walkS_gen S : forall ts rest,
  exists hh, walkS (flagsS S ts ++ rest) ts = Some (hh, filter (fun h => mem h S) (leavesS ts), rest).
Proof.
  induction ts as [|t ts IH]; intros rest.
  - cbn. rewrite walkS_nil. eauto.
  - cbn [flagsS leavesS flat_map]. rewrite <- app_assoc, walkS_walk, walk_gen1.
    destruct (IH rest) as [hh E]. unfold flagsS in E. rewrite E. cbn [pp].
    rewrite filter_app. eauto.
Qed.

(* more pending subtrees need more flags *)
Lemma more_trees : forall fs ts h c, walkS fs ts = Some (h, c, []) ->
  forall ts2, length ts < length ts2 -> walkS fs ts2 = None.
Proof.
  induction fs as [|f fs IH]; intros ts h c W ts2 L.
  - destruct ts2; [cbn in L; lia | reflexivity].
  - destruct ts as [|t ts]; [cbn in W; discriminate|].
    destruct ts2 as [|t2 ts2]; [cbn in L; lia|]. cbn [length] in L.
    cbn [walkS] in *.
    destruct (N.eqb f FlagAssist).
    { apply pp_inv in W. destruct W as [h' [c' [W _]]]. rewrite (IH _ _ _ W); [reflexivity | lia]. }
    destruct (N.eqb f FlagTxLeaf).
    { destruct t; [|discriminate]. apply pp_inv in W. destruct W as [h' [c' [W _]]].
      destruct t2; [|reflexivity]. rewrite (IH _ _ _ W); [reflexivity | lia]. }
    destruct (N.eqb f FlagTxParent); [|reflexivity].
    destruct t; [discriminate|]. destruct t2; [reflexivity|].
    apply (IH _ _ _ W). cbn [length]. lia.
Qed.

(* ------------------------------------------ the state at a flag position *)

Definition ares := option (list tree * list hash * list hash).
Definition ppa (h c : list hash) (x : ares) : ares :=
  match x with Some (ts, h', c') => Some (ts, h ++ h', c ++ c') | None => None end.

Lemma ppa_inv a b x ts h c : ppa a b x = Some (ts, h, c) ->
  exists h' c', x = Some (ts, h', c') /\ h = a ++ h' /\ c = b ++ c'.
Proof. destruct x as [[[ts' h'] c']|]; cbn; [|discriminate]. intros E. injection E as <- <- <-. eauto. Qed.

Fixpoint adv (pre : list N) (ts : list tree) : ares :=
  match pre with
  | [] => Some (ts, [], [])
  | f :: pre' =>
    match ts with
    | [] => None
    | t :: ts' =>
      if N.eqb f FlagAssist then ppa [thash t] [] (adv pre' ts')
      else if N.eqb f FlagTxLeaf then
        match t with Leaf h => ppa [h] [h] (adv pre' ts') | Node _ _ _ => None end
      else if N.eqb f FlagTxParent then
        match t with Leaf _ => None | Node _ l r => adv pre' (l :: r :: ts') end
      else None
    end
  end.

Lemma adv_walkS : forall pre ts ts' hp cp, adv pre ts = Some (ts', hp, cp) ->
  forall rest, walkS (pre ++ rest) ts = pp hp cp (walkS rest ts').
Proof.
  induction pre as [|f pre IH]; intros ts ts' hp cp A rest.
  - cbn in A. injection A as <- <- <-. rewrite pp_nil. reflexivity.
  - destruct ts as [|t ts]; [discriminate|]. cbn [adv] in A. cbn [app walkS].
    destruct (N.eqb f FlagAssist).
    { apply ppa_inv in A. destruct A as [h' [c' [A [-> ->]]]]. rewrite (IH _ _ _ _ A), pp_pp. reflexivity. }
    destruct (N.eqb f FlagTxLeaf).
    { destruct t; [|discriminate]. apply ppa_inv in A. destruct A as [h' [c' [A [-> ->]]]].
      rewrite (IH _ _ _ _ A), pp_pp. reflexivity. }
    destruct (N.eqb f FlagTxParent); [|discriminate].
    destruct t; [discriminate|]. apply (IH _ _ _ _ A).
Qed.

Lemma adv_some : forall pre ts rest h c, walkS (pre ++ rest) ts = Some (h, c, []) -> rest <> [] ->
  exists ts' hp cp, adv pre ts = Some (ts', hp, cp).
Proof.
  induction pre as [|f pre IH]; intros ts rest h c W Hr.
  - cbn. eauto.
  - destruct ts as [|t ts].
    { cbn in W. discriminate. }
    cbn [app walkS] in W. cbn [adv].
    destruct (N.eqb f FlagAssist).
    { apply pp_inv in W. destruct W as [h' [c' [W _]]].
      destruct (IH _ _ _ _ W Hr) as [ts' [hp [cp ->]]]. cbn. eauto. }
    destruct (N.eqb f FlagTxLeaf).
    { destruct t; [|discriminate]. apply pp_inv in W. destruct W as [h' [c' [W _]]].
      destruct (IH _ _ _ _ W Hr) as [ts' [hp [cp ->]]]. cbn. eauto. }
    destruct (N.eqb f FlagTxParent); [|discriminate].
    destruct t; [discriminate|]. apply (IH _ _ _ _ W Hr).
Qed.

Lemma adv_leaves : forall pre ts ts' hp cp, adv pre ts = Some (ts', hp, cp) ->
  exists p, leavesS ts = p ++ leavesS ts'.
Proof.
  induction pre as [|f pre IH]; intros ts ts' hp cp A.
  - cbn in A. injection A as <- <- <-. exists []. reflexivity.
  - destruct ts as [|t ts]; [discriminate|]. cbn [adv] in A.
    destruct (N.eqb f FlagAssist).
    { apply ppa_inv in A. destruct A as [h' [c' [A _]]]. destruct (IH _ _ _ _ A) as [p E].
      exists (leaves t ++ p). change (leavesS (t :: ts)) with (leaves t ++ leavesS ts).
      rewrite E, app_assoc. reflexivity. }
    destruct (N.eqb f FlagTxLeaf).
    { destruct t; [|discriminate]. apply ppa_inv in A. destruct A as [h' [c' [A _]]].
      destruct (IH _ _ _ _ A) as [p E]. exists (leaves (Leaf h) ++ p).
      change (leavesS (Leaf h :: ts)) with (leaves (Leaf h) ++ leavesS ts).
      rewrite E, app_assoc. reflexivity. }
    destruct (N.eqb f FlagTxParent); [|discriminate].
    destruct t as [|h0 l r]; [discriminate|]. destruct (IH _ _ _ _ A) as [p E].
    exists p. rewrite <- E.
    change (leavesS (Node h0 l r :: ts)) with ((leaves l ++ leaves r) ++ leavesS ts).
    change (leavesS (l :: r :: ts)) with (leaves l ++ leaves r ++ leavesS ts).
    rewrite app_assoc. reflexivity.
Qed.

Lemma adv_flags S : forall pre ts ts' hp cp rest, adv pre ts = Some (ts', hp, cp) ->
  flagsS S ts = pre ++ rest -> flagsS S ts' = rest.
Proof.
  induction pre as [|f pre IH]; intros ts ts' hp cp rest A F.
  - cbn in A. injection A as <- <- <-. exact F.
  - destruct ts as [|t ts]; [discriminate|]. cbn [adv] in A.
    cbn [flagsS flat_map] in F. fold (flagsS S ts) in F.
    destruct (gen1_cases S t) as [[_ G] | [[_ [h [Et [_ G]]]] | [_ [h [l [r [Et G]]]]]]];
      rewrite G in F; cbn [snd app] in F; injection F as <- F.
    + change (N.eqb FlagAssist FlagAssist) with true in A. cbn iota in A.
      apply ppa_inv in A. destruct A as [h' [c' [A _]]]. eapply IH; eauto.
    + subst t. change (N.eqb FlagTxLeaf FlagAssist) with false in A.
      change (N.eqb FlagTxLeaf FlagTxLeaf) with true in A. cbn iota in A.
      apply ppa_inv in A. destruct A as [h' [c' [A _]]]. eapply IH; eauto.
    + subst t. change (N.eqb FlagTxParent FlagAssist) with false in A.
      change (N.eqb FlagTxParent FlagTxLeaf) with false in A.
      change (N.eqb FlagTxParent FlagTxParent) with true in A. cbn iota in A.
      eapply IH; eauto. cbn [flagsS flat_map]. rewrite <- F, <- !app_assoc. reflexivity.
Qed.

Lemma NoDup_app_disjoint {A} (a b : list A) x : NoDup (a ++ b) -> In x a -> In x b -> False.
Proof.
  induction a as [|y a IH]; cbn; intros ND Ia Ib; [contradiction|].
  inversion ND as [|? ? Hn ND']; subst. destruct Ia as [->|Ia].
  - apply Hn. apply in_or_app. auto.
  - eauto.
Qed.

Lemma NoDup_app_r {A} (a b : list A) : NoDup (a ++ b) -> NoDup b.
Proof. induction a; cbn; auto. inversion 1; auto. Qed.

(* ---------------------- the step at the tampered position cannot be repaired *)

Lemma flag_key S ts a post b h2 c2 r2 :
  flagsS S ts = a :: post -> NoDup (leavesS ts) -> b <> a ->
  walkS (b :: post) ts = Some (h2, c2, r2) ->
  c2 = filter (fun h => mem h S) (leavesS ts) -> False.
Proof.
  intros F ND Hb W Ec.
  destruct ts as [|u st]; [discriminate|].
  cbn [flagsS flat_map] in F. fold (flagsS S st) in F.
  cbn [leavesS flat_map] in Ec, ND. fold (leavesS st) in Ec, ND.
  rewrite filter_app in Ec.
  destruct (walkS_gen S st []) as [hst Wst]. rewrite app_nil_r in Wst.
  set (cst := filter (fun h => mem h S) (leavesS st)) in *.
  cbn [walkS] in W.
  destruct (gen1_cases S u) as [[Fu G] | [[Fu [h [Eu [M G]]]] | [Fu [h [l [r [Eu G]]]]]]];
    rewrite G in F; cbn [snd app] in F; injection F as <- F.
  - (* Assist in the generated proof *)
    rewrite <- F in W. unfold found in Fu. rewrite (filter_nil_existsb _ _ Fu) in Ec. cbn [app] in Ec.
    destruct (N.eqb_spec b FlagAssist) as [->|_]; [contradiction|].
    destruct (N.eqb b FlagTxLeaf).
    { destruct u as [h|]; [|discriminate]. rewrite Wst in W. cbn in W. injection W as <- <- <-.
      apply (f_equal (@length hash)) in Ec. cbn in Ec. lia. }
    destruct (N.eqb b FlagTxParent); [|discriminate].
    destruct u as [|h l r]; [discriminate|].
    rewrite (more_trees _ _ _ _ Wst) in W; [discriminate | cbn; lia].
  - (* TxLeaf in the generated proof *)
    subst u. rewrite <- F in W. cbn [leaves filter] in Ec. rewrite M in Ec. cbn [app] in Ec.
    destruct (N.eqb b FlagAssist).
    { rewrite Wst in W. cbn in W. injection W as <- <- <-.
      apply (f_equal (@length hash)) in Ec. cbn in Ec. lia. }
    destruct (N.eqb_spec b FlagTxLeaf) as [->|_]; [contradiction|].
    destruct (N.eqb b FlagTxParent); discriminate.
  - (* TxParent in the generated proof: the subtree holds a related leaf *)
    subst u.
    destruct (N.eqb b FlagAssist).
    { apply pp_inv in W. destruct W as [h' [c' [W [_ Ec']]]]. cbn [app] in Ec'. subst c'.
      apply walkS_sublist in W.
      unfold found in Fu. apply existsb_exists in Fu. destruct Fu as [x [Hx Mx]].
      assert (Hin : In x c2).
      { rewrite Ec. apply in_or_app. left. apply filter_In. auto. }
      eapply NoDup_app_disjoint; eauto. eapply sublist_in; eauto. }
    destruct (N.eqb b FlagTxLeaf); [discriminate|].
    destruct (N.eqb_spec b FlagTxParent) as [->|_]; [contradiction | discriminate].
Qed.

(* ------------------------------------------------------------ the theorem *)

Section WithHash.
  Variable H : bytes -> bytes.
  Hypothesis H_len : forall x, length (H x) = 32.

  Notation leaf_hash := (leaf_hash H).
  Notation Collision := (Collision H).

  Theorem tamper_flag l s r hs fs pre a post b :
    NoDup l -> sublist s l ->
    merkle_root H l = Some r -> gen_proof H l s = Ok (hs, fs) ->
    fs = pre ++ a :: post -> b <> a ->
    validate H hs (pre ++ b :: post) s r = Some false \/ Collision.
  Proof.
    intros Hnd Hs R G Efs Hb.
    destruct (validate_total H H_len hs (pre ++ b :: post) s r) as [[|] V]; [|left; auto].
    right. destruct l as [|x0 l0].
    - cbn in G. injection G as <- <-. destruct pre; discriminate.
    - destruct (build_nonempty H H_len (x0 :: l0)) as [t [B [W [L R']]]]; [discriminate|].
      rewrite R' in R. injection R as <-.
      rewrite (gen_proof_sub H _ _ _ B L Hs) in G.
      set (S0 := map leaf_hash s) in *.
      assert (Eh : hs = fst (gen1 S0 t)) by (destruct (gen1 S0 t); injection G as <- <-; reflexivity).
      assert (Ef : fs = snd (gen1 S0 t)) by (destruct (gen1 S0 t); injection G as <- <-; reflexivity).
      destruct (nodup_leaves H _ Hnd) as [ND|C]; [|auto].
      destruct (validate_true H _ _ _ _ V) as [hs1 [fs1 Rb]].
      assert (Fh : Forall len32 hs) by (rewrite Eh; apply (gen1_len32 H H_len); auto).
      destruct (sync H H_len _ _ _ _ _ _ _ _ Rb Fh (Forall_isleaf_map H s) t W eq_refl)
        as [C | [hsc [c [Wk [_ Ec]]]]]; [auto|].
      exfalso. rewrite app_nil_r in Ec. fold S0 in Ec. subst c.
      (* both runs over the stack [t] *)
      assert (W1 : walkS (pre ++ b :: post) [t] = Some (hsc ++ [], S0 ++ [], fs1)).
      { rewrite walkS_walk, Wk, walkS_nil. reflexivity. }
      assert (F0 : filter (fun h => mem h S0) (leaves t) = S0).
      { rewrite L. apply filter_sublist; auto. apply sublist_map; auto. }
      destruct (walkS_gen S0 [t] []) as [hh W0].
      cbn [flagsS leavesS flat_map] in W0. rewrite !app_nil_r in W0. rewrite <- Ef, Efs, F0 in W0.
      destruct (adv_some _ _ _ _ _ W0) as [ts' [hp [cp A]]]; [discriminate|].
      rewrite (adv_walkS _ _ _ _ _ A) in W0, W1.
      apply pp_inv in W0. destruct W0 as [h1 [c1 [W0 [_ E0]]]].
      apply pp_inv in W1. destruct W1 as [h2 [c2 [W1 [_ E1]]]].
      rewrite app_nil_r in E1. rewrite E0 in E1 at 1. apply app_inv_head in E1. subst c2.
      assert (Ff : flagsS S0 ts' = a :: post).
      { eapply adv_flags; eauto. cbn [flagsS flat_map]. rewrite app_nil_r, <- Ef. exact Efs. }
      destruct (adv_leaves _ _ _ _ _ A) as [p El].
      assert (ND' : NoDup (leavesS ts')).
      { cbn [leavesS flat_map] in El. rewrite app_nil_r, L in El. rewrite El in ND.
        eapply NoDup_app_r; eauto. }
      destruct (walkS_gen S0 ts' []) as [hh' Wg]. rewrite Ff in Wg. cbn [app] in Wg.
      rewrite app_nil_r in Wg. rewrite Wg in W0. injection W0 as _ Ec1.
      eapply flag_key; eauto.
  Qed.
End WithHash.
