(* C30 — proofs, part 2: getMerkleRootByProof (rbp) against the tree walk;
   completeness, wrong root, soundness, tampered hash. *)
From Coq Require Import List NArith Arith Bool Lia ZifyBool ZifyN ZifyNat.
From Verif Require Import Outcome Cmp.
From C30 Require Import Model Proofs.
Import ListNotations.

Section WithHash.
  Variable H : bytes -> bytes.
  Hypothesis H_len : forall x, length (H x) = 32.

  Notation leaf_hash := (leaf_hash H).
  Notation interior_hash := (interior_hash H).
  Notation empty_hash := (empty_hash H).
  Notation Collision := (Collision H).
  Notation wf := (wf H).
  Notation isleaf := (isleaf H).
  Notation rbp := (rbp H).

  (* ---------------------------------------------------------- rbp basics *)

  Ltac inv4 R := injection R as <- <- <- <-.
  Ltac inv2 R := injection R as <- <-.

  Lemma rbp_total : forall fuel hs fs ms, length fs < fuel ->
    exists r hs1 fs1 ms1, rbp fuel hs fs ms = Some (r, (hs1, fs1, ms1)) /\ length fs1 <= length fs.
  Proof.
    induction fuel as [|f IH]; intros hs fs ms Hl; [lia|].
    destruct fs as [|flag fs']; [cbn; eauto 8|].
    destruct hs as [|h hs']; [cbn; eauto 8|].
    cbn [rbp Model.rbp].
    destruct (N.eqb flag FlagAssist); [cbn; eauto 8|].
    destruct (N.eqb flag FlagTxLeaf).
    { destruct ms as [|m ms']; [cbn; eauto 8|]. destruct (bytes_eqb h m); cbn; eauto 8. }
    destruct (N.eqb flag FlagTxParent); [|cbn; eauto 8].
    cbn [length] in Hl.
    destruct (IH (h :: hs') fs' ms) as [r1 [hs1 [fs1 [ms1 [E1 L1]]]]]; [lia|].
    rewrite E1.
    destruct (IH hs1 fs1 ms1) as [r2 [hs2 [fs2 [ms2 [E2 L2]]]]]; [lia|].
    rewrite E2. exists (interior_hash r1 r2), hs2, fs2, ms2. split; auto. cbn. lia.
  Qed.

  Lemma rbp_suffix : forall fuel hs fs ms r hs1 fs1 ms1,
    rbp fuel hs fs ms = Some (r, (hs1, fs1, ms1)) ->
    (exists a, hs = a ++ hs1) /\ (exists c, ms = c ++ ms1).
  Proof.
    induction fuel as [|f IH]; intros hs fs ms r hs1 fs1 ms1 R; [discriminate|].
    destruct fs as [|flag fs']; [cbn in R; inv4 R; split; exists []; auto|].
    destruct hs as [|h hs']; [cbn in R; inv4 R; split; exists []; auto|].
    cbn [rbp Model.rbp] in R.
    destruct (N.eqb flag FlagAssist).
    { inv4 R. split; [exists [h] | exists []]; auto. }
    destruct (N.eqb flag FlagTxLeaf).
    { destruct ms as [|m ms']; [inv4 R; split; exists []; auto|].
      destruct (bytes_eqb h m); inv4 R.
      - split; [exists [h] | exists [m]]; auto.
      - split; exists []; auto. }
    destruct (N.eqb flag FlagTxParent); [|inv4 R; split; exists []; auto].
    destruct (Model.rbp H f (h :: hs') fs' ms) as [[lh [[hsa fsa] msa]]|] eqn:R1; [|discriminate].
    destruct (Model.rbp H f hsa fsa msa) as [[rh [[hsb fsb] msb]]|] eqn:R2; [|discriminate].
    inv4 R.
    destruct (IH _ _ _ _ _ _ _ R1) as [[a1 A1] [c1 C1]].
    destruct (IH _ _ _ _ _ _ _ R2) as [[a2 A2] [c2 C2]].
    split.
    - exists (a1 ++ a2). rewrite A1, A2, app_assoc. reflexivity.
    - exists (c1 ++ c2). rewrite C1, C2, app_assoc. reflexivity.
  Qed.

  Lemma Forall_suffix {A} (P : A -> Prop) (a b : list A) : Forall P (a ++ b) -> Forall P b.
  Proof. intros F. apply Forall_app in F. tauto. Qed.

  Lemma rbp_len32 : forall fuel hs fs ms r st,
    rbp fuel hs fs ms = Some (r, st) -> Forall (len32) hs -> Forall isleaf ms -> len32 r.
  Proof.
    intros fuel hs fs ms r st R Fh Fm. destruct fuel as [|f]; [discriminate|].
    destruct fs as [|flag fs']; [cbn in R; inv2 R; apply H_len|].
    destruct hs as [|h hs']; [cbn in R; inv2 R; apply H_len|].
    cbn [rbp Model.rbp] in R.
    destruct (N.eqb flag FlagAssist).
    { inv2 R. inversion Fh; auto. }
    destruct (N.eqb flag FlagTxLeaf).
    { destruct ms as [|m ms']; [inv2 R; apply H_len|].
      destruct (bytes_eqb h m); inv2 R; [inversion Fh; auto | apply H_len]. }
    destruct (N.eqb flag FlagTxParent); [|inv2 R; apply H_len].
    destruct (Model.rbp H f (h :: hs') fs' ms) as [[lh [[hsa fsa] msa]]|]; [|discriminate].
    destruct (Model.rbp H f hsa fsa msa) as [[rh st2]|]; [|discriminate].
    inv2 R. apply H_len.
  Qed.

  (* either nothing was consumed from the related list, or the result is the
     hash of a non-empty string *)
  Lemma rbp_consumed : forall fuel hs fs ms r hs1 fs1 ms1,
    rbp fuel hs fs ms = Some (r, (hs1, fs1, ms1)) -> Forall isleaf ms ->
    ms1 = ms \/ exists z, z <> [] /\ r = H z.
  Proof.
    intros fuel hs fs ms r hs1 fs1 ms1 R Fm. destruct fuel as [|f]; [discriminate|].
    destruct fs as [|flag fs']; [cbn in R; inv4 R; auto|].
    destruct hs as [|h hs']; [cbn in R; inv4 R; auto|].
    cbn [rbp Model.rbp] in R.
    destruct (N.eqb flag FlagAssist); [inv4 R; auto|].
    destruct (N.eqb flag FlagTxLeaf).
    { destruct ms as [|m ms']; [inv4 R; auto|].
      destruct (bytes_eqb h m) eqn:E; inv4 R; auto.
      apply bytes_eqb_eq in E. subst m. inversion Fm as [|? ? [x Hx] _]. subst h.
      right. eexists. split; [|reflexivity]. discriminate. }
    destruct (N.eqb flag FlagTxParent); [|inv4 R; auto].
    destruct (Model.rbp H f (h :: hs') fs' ms) as [[lh [[hsa fsa] msa]]|]; [|discriminate].
    destruct (Model.rbp H f hsa fsa msa) as [[rh [[hsb fsb] msb]]|]; [|discriminate].
    inv4 R. right. eexists. split; [|reflexivity]. discriminate.
  Qed.

  (* --------------------------------- rbp follows a successful walk exactly *)

  Lemma rbp_walk : forall t, wf t -> forall fs hsc c fs1, walk t fs = Some (hsc, c, fs1) ->
    forall fuel hs1 ms1, length fs < fuel ->
    rbp fuel (hsc ++ hs1) fs (c ++ ms1) = Some (thash t, (hs1, fs1, ms1)).
  Proof.
    induction t as [h0 | h0 l IHl r0 IHr]; intros W fs hsc c fs1 Wk fuel hs1 ms1 Hl;
      (destruct fuel as [|f]; [lia|]); destruct fs as [|flag fs']; cbn [walk] in Wk; try discriminate.
    - destruct (N.eqb flag FlagAssist) eqn:E0.
      { injection Wk as <- <- <-. cbn [app rbp Model.rbp thash]. rewrite E0. reflexivity. }
      destruct (N.eqb flag FlagTxLeaf) eqn:E2.
      { injection Wk as <- <- <-. cbn [app rbp Model.rbp thash]. rewrite E0, E2, bytes_eqb_refl. reflexivity. }
      destruct (N.eqb flag FlagTxParent); discriminate.
    - destruct (N.eqb flag FlagAssist) eqn:E0.
      { injection Wk as <- <- <-. cbn [app rbp Model.rbp thash]. rewrite E0. reflexivity. }
      destruct (N.eqb flag FlagTxLeaf) eqn:E2; [discriminate|].
      destruct (N.eqb flag FlagTxParent) eqn:E1; [|discriminate].
      destruct (walk l fs') as [[[h1 c1] r1]|] eqn:W1; [|discriminate].
      destruct (walk r0 r1) as [[[h2 c2] r2]|] eqn:W2; [|discriminate].
      injection Wk as <- <- <-. cbn in W. destruct W as [Hh [Wl Wr]].
      destruct (walk_props l _ _ _ _ W1) as [Hne [Hlen _]].
      destruct (walk_props r0 _ _ _ _ W2) as [_ [Hlen2 _]].
      destruct h1 as [|a h1']; [contradiction|].
      cbn [length] in Hl.
      pose proof (IHl Wl _ _ _ _ W1 f (h2 ++ hs1) (c2 ++ ms1)) as R1.
      pose proof (IHr Wr _ _ _ _ W2 f hs1 ms1) as R2.
      rewrite <- !app_assoc.
      change ((a :: h1') ++ h2 ++ hs1) with (a :: (h1' ++ h2 ++ hs1)) in *.
      cbn [rbp Model.rbp thash]. rewrite E0, E2, E1.
      rewrite R1 by lia. rewrite R2 by lia. rewrite Hh. reflexivity.
  Qed.

  (* ------------------ a run of rbp that returns the hash of a tree walked it *)

  Lemma sync : forall fuel hs fs ms r hs1 fs1 ms1,
    rbp fuel hs fs ms = Some (r, (hs1, fs1, ms1)) ->
    Forall len32 hs -> Forall isleaf ms ->
    forall t, wf t -> thash t = r ->
    Collision \/ exists hsc c, walk t fs = Some (hsc, c, fs1) /\ hs = hsc ++ hs1 /\ ms = c ++ ms1.
  Proof.
    induction fuel as [|f IH]; intros hs fs ms r hs1 fs1 ms1 R Fh Fm t W Et; [discriminate|].
    assert (Hempty : r = empty_hash -> Collision).
    { intros ->. eapply wf_not_empty_hash; eauto. }
    destruct fs as [|flag fs']; [cbn in R; left; apply Hempty; injection R as <- _; reflexivity|].
    destruct hs as [|h hs']; [cbn in R; left; apply Hempty; injection R as <- _; reflexivity|].
    cbn [rbp Model.rbp] in R. rewrite walk_cons.
    destruct (N.eqb flag FlagAssist) eqn:E0.
    { inv4 R. right. exists [thash t], []. rewrite Et. auto. }
    destruct (N.eqb flag FlagTxLeaf) eqn:E2.
    { destruct ms as [|m ms']; [left; apply Hempty; injection R as <- _; reflexivity|].
      destruct (bytes_eqb h m) eqn:E; [|left; apply Hempty; injection R as <- _; reflexivity].
      inv4 R. apply bytes_eqb_eq in E. subst m.
      destruct t as [h0 | h0 l r0]; cbn in Et; subst h0.
      - right. exists [h], [h]. auto.
      - left. inversion Fm as [|? ? [x Hx] _]. cbn in W. destruct W as [Hh _].
        rewrite Hh in Hx. unfold Model.interior_hash, Model.leaf_hash in Hx.
        eapply coll_of; eauto. discriminate. }
    destruct (N.eqb flag FlagTxParent) eqn:E1; [|left; apply Hempty; injection R as <- _; reflexivity].
    destruct (Model.rbp H f (h :: hs') fs' ms) as [[lh [[hsa fsa] msa]]|] eqn:R1; [|discriminate].
    destruct (Model.rbp H f hsa fsa msa) as [[rh [[hsb fsb] msb]]|] eqn:R2; [|discriminate].
    inv4 R. clear Hempty.
    destruct t as [h0 | h0 l r0]; cbn in Et.
    - left. cbn in W. destruct W as [x Hx]. subst h0.
      unfold Model.interior_hash, Model.leaf_hash in Et. eapply coll_of; eauto. discriminate.
    - cbn in W. destruct W as [Hh [Wl Wr]]. subst h0.
      unfold Model.interior_hash in Et.
      destruct (hash_inj_or H _ _ Et) as [Eq | C]; [|left; auto].
      injection Eq as Eq.
      destruct (rbp_suffix _ _ _ _ _ _ _ _ R1) as [[a1 A1] [c1 C1]].
      assert (Fa : Forall len32 hsa) by (rewrite A1 in Fh; eapply Forall_suffix; eauto).
      assert (Fma : Forall isleaf msa) by (rewrite C1 in Fm; eapply Forall_suffix; eauto).
      assert (L1 : length lh = 32) by (eapply rbp_len32; eauto).
      assert (L2 : length (thash l) = 32) by (apply (wf_len32 H H_len); auto).
      assert (Eqs : thash l = lh /\ thash r0 = rh).
      { apply app_eq_len in Eq; [tauto | lia]. }
      destruct Eqs as [El Er].
      destruct (IH _ _ _ _ _ _ _ R1 Fh Fm l Wl El) as [C | [hA [cA [WA [HA MA]]]]]; [left; auto|].
      destruct (IH _ _ _ _ _ _ _ R2 Fa Fma r0 Wr Er) as [C | [hB [cB [WB [HB MB]]]]]; [left; auto|].
      right. exists (hA ++ hB), (cA ++ cB). rewrite WA, WB. repeat split.
      + rewrite HA, HB, app_assoc. reflexivity.
      + rewrite MA, MB, app_assoc. reflexivity.
  Qed.
End WithHash.
