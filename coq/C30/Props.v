(* C30 — Merkle inclusion proofs are sound and complete.  PROPERTY THEOREMS ONLY.

   Model: C30/Model.v mirrors protocol/bc/types/merkle.go
     merkle_root  = TxMerkleRoot            gen_proof = GetTxMerkleTreeProof
     validate     = ValidateTxMerkleTreeProof   (rbp = getMerkleRootByProof)
   A transaction id / hash is its byte string; [H] is the hash function (SHA3-256
   in the code), an arbitrary function with 32-byte results.  Every theorem holds
   for EVERY such H and every list length; where the code's correctness rests on
   collision resistance the conclusion is "... \/ Collision H", the colliding pair
   being constructed from the inputs (Collision H := exists x y, x <> y /\ H x = H y).

   [sublist s l]: s is obtained from l by deleting elements (list order kept) - the
   "subset of the transaction list" of the property; [NoDup l]: transaction ids of
   a block are distinct.  A tampering is written by splitting the generated list at
   the tampered position:  hs = pre ++ a :: post  |->  pre ++ h' :: post.

   Results are [Some _] / [Ok _]: [None], [Err OutOfFuel] (model fuel exhausted) and
   [Panic NilDeref] (nil tree node dereferenced) are shown unreachable (c30_total). *)
From Coq Require Import List NArith.
From Verif Require Import Outcome Cmp Sha3.
From C30 Require Import Model Proofs Sound Main Tamper Sha3Len.
Import ListNotations.

(* the three entry points always return a value *)
Theorem c30_total : forall (H : bytes -> bytes), (forall x, length (H x) = 32) ->
  forall l s,
    (exists r p, merkle_root H l = Some r /\ gen_proof H l s = Ok p) /\
    (forall hs fs rel root, exists b, validate H hs fs rel root = Some b).
Proof. exact total. Qed.
Print Assumptions c30_total.

(* completeness: for every duplicate-free id list l (any length) and every sub-list s,
   the generated proof validates against the transaction root *)
Theorem c30_complete : forall (H : bytes -> bytes), (forall x, length (H x) = 32) ->
  forall l s, NoDup l -> sublist s l ->
  exists r hs fs, merkle_root H l = Some r /\ gen_proof H l s = Ok (hs, fs) /\
                  (validate H hs fs s r = Some true \/ Collision H).
Proof. exact complete. Qed.
Print Assumptions c30_complete.

(* a proof that validates against one root validates against no other root *)
Theorem c30_wrong_root : forall (H : bytes -> bytes) hs fs s r r',
  validate H hs fs s r = Some true -> r' <> r -> validate H hs fs s r' = Some false.
Proof. exact wrong_root. Qed.
Print Assumptions c30_wrong_root.

(* soundness: ANY proof (hashes, flags) that validates a related list s against the
   root of l shows that s is a sub-list of l - or exhibits a collision of H *)
Theorem c30_sound : forall (H : bytes -> bytes), (forall x, length (H x) = 32) ->
  forall l s hs fs r, merkle_root H l = Some r -> Forall len32 hs ->
  validate H hs fs s r = Some true -> sublist s l \/ Collision H.
Proof. exact sound. Qed.
Print Assumptions c30_sound.

(* ... in the words of the property: validation fails for a hash that is not in the list *)
Theorem c30_sound_not_in : forall (H : bytes -> bytes), (forall x, length (H x) = 32) ->
  forall l s hs fs r x, merkle_root H l = Some r -> Forall len32 hs ->
  In x s -> ~ In x l -> validate H hs fs s r = Some false \/ Collision H.
Proof. exact sound_not_in. Qed.
Print Assumptions c30_sound_not_in.

(* one hash of a generated proof replaced by any other hash: validation fails *)
Theorem c30_tamper_hash : forall (H : bytes -> bytes), (forall x, length (H x) = 32) ->
  forall l s r hs fs pre a post h',
  merkle_root H l = Some r -> gen_proof H l s = Ok (hs, fs) ->
  hs = pre ++ a :: post -> h' <> a -> len32 h' ->
  validate H (pre ++ h' :: post) fs s r = Some false \/ Collision H.
Proof. exact tamper_hash. Qed.
Print Assumptions c30_tamper_hash.

(* one flag of a generated proof replaced by any other value (0..255 and beyond):
   validation fails *)
Theorem c30_tamper_flag : forall (H : bytes -> bytes), (forall x, length (H x) = 32) ->
  forall l s r hs fs pre a post b,
  NoDup l -> sublist s l ->
  merkle_root H l = Some r -> gen_proof H l s = Ok (hs, fs) ->
  fs = pre ++ a :: post -> b <> a ->
  validate H hs (pre ++ b :: post) s r = Some false \/ Collision H.
Proof. exact tamper_flag. Qed.
Print Assumptions c30_tamper_flag.

(* the hypothesis on H holds for the function the model is run with *)
Theorem c30_sha3_256_length : forall x, length (sha3_256 x) = 32.
Proof. exact sha3_256_len. Qed.
Print Assumptions c30_sha3_256_length.
