(* C30 — executable model of /repo/protocol/bc/types/merkle.go
   (merkleRoot, buildMerkleTree, getMerkleTreeProof, getMerkleRootByProof,
   validateMerkleTreeProof, prevPowerOfTwo).  NO PROOFS HERE.

   A hash (bc.Hash) is its 32-byte serialisation, a [bytes] value; transaction
   ids are [bytes] too.  The hash function (SHA3-256 in the code) is the Section
   variable [H]; the correspondence run instantiates it with Verif.Sha3.sha3_256.

   Recursion that is not structural in Go (splitting a slice at prevPowerOfTwo,
   consuming three shared lists) is on explicit fuel; [None] / [Err OutOfFuel]
   is the out-of-fuel result and is shown unreachable for the fuel the entry
   points pass.  [Panic NilDeref] stands where the Go code would dereference a
   nil *merkleTreeNode (left.hash with left == nil). *)
From Coq Require Import List NArith Arith Bool.
From Verif Require Import Outcome Cmp.
Import ListNotations.

Definition hash := bytes.

Inductive fuel_err := OutOfFuel.

Inductive tree :=
| Leaf (h : hash)
| Node (h : hash) (l r : tree).

Definition thash (t : tree) : hash :=
  match t with Leaf h => h | Node h _ _ => h end.

Definition is_nil {A} (l : list A) : bool :=
  match l with [] => true | _ => false end.

(* prevPowerOfTwo(n): n&(n-1)==0 ? n/2 : 1 << uint(math.Log2(float64(n))).
   math.Log2 is taken as exact floor(log2 n) (true for every slice length that
   fits in memory: the float result is exact below 2^47). *)
Definition prev_pow2 (n : N) : N :=
  if N.eqb (N.land n (n - 1)) 0 then N.div n 2 else N.pow 2 (N.log2 n).

Definition split_at (A : Type) (xs : list A) : nat :=
  N.to_nat (prev_pow2 (N.of_nat (length xs))).
Arguments split_at {A} xs.

(* merkleHashSet.Has(node.hash.String()): the set is keyed by the hex string of
   the hash, i.e. by the hash value *)
Definition mem (h : hash) (S : list hash) : bool := existsb (bytes_eqb h) S.

(* flags *)
Definition FlagAssist : N := 0.
Definition FlagTxParent : N := 1.
Definition FlagTxLeaf : N := 2.

Section Merkle.
  Variable H : bytes -> bytes.

  Definition empty_hash : hash := H [].                        (* bc.EmptyStringHash *)
  Definition leaf_hash (x : bytes) : hash := H (0%N :: x).      (* leafMerkleHash *)
  Definition interior_hash (l r : hash) : hash := H (1%N :: l ++ r).  (* interiorMerkleHash *)

  (* merkleRoot (the err result of the Go function is always nil) *)
  Fixpoint root_f (fuel : nat) (xs : list bytes) : option hash :=
    match fuel with
    | O => None
    | S f =>
      match xs with
      | [] => Some empty_hash
      | [x] => Some (leaf_hash x)
      | _ =>
        let k := split_at xs in
        match root_f f (firstn k xs) with
        | None => None
        | Some l =>
          match root_f f (skipn k xs) with
          | None => None
          | Some r => Some (interior_hash l r)
          end
        end
      end
    end.

  (* TxMerkleRoot *)
  Definition merkle_root (xs : list bytes) : option hash := root_f (S (length xs)) xs.

  (* buildMerkleTree; [Ok None] is the nil tree *)
  Fixpoint build_f (fuel : nat) (xs : list bytes) : outcome fuel_err (option tree) :=
    match fuel with
    | O => Err OutOfFuel
    | S f =>
      match xs with
      | [] => Ok None
      | [x] => Ok (Some (Leaf (leaf_hash x)))
      | _ =>
        let k := split_at xs in
        match build_f f (firstn k xs) with
        | Ok ol =>
          match build_f f (skipn k xs) with
          | Ok or =>
            match ol, or with
            | Some l, Some r => Ok (Some (Node (interior_hash (thash l) (thash r)) l r))
            | _, _ => Panic NilDeref      (* left.hash / right.hash on nil *)
            end
          | Err e => Err e
          | Panic p => Panic p
          end
        | Err e => Err e
        | Panic p => Panic p
        end
      end
    end.

  Definition build (xs : list bytes) := build_f (S (length xs)) xs.

  (* method getMerkleTreeProof of merkleTreeNode *)
  Fixpoint gen (S : list hash) (t : tree) : list hash * list N :=
    match t with
    | Leaf h => if mem h S then ([h], [FlagTxLeaf]) else ([], [])
    | Node h l r =>
      let (lh, lf) := gen S l in
      let (rh, rf) := gen S r in
      let leftFind := negb (is_nil lh) in
      let rightFind := negb (is_nil rh) in
      if leftFind || rightFind then
        let (h1, f1) := if leftFind then (lh, lf) else ([thash l], [FlagAssist]) in
        let (h2, f2) := if rightFind then (rh, rf) else ([thash r], [FlagAssist]) in
        (h1 ++ h2, FlagTxParent :: f1 ++ f2)
      else ([], [])
    end.

  (* getMerkleTreeProof / GetTxMerkleTreeProof *)
  Definition gen_proof (xs rel : list bytes) : outcome fuel_err (list hash * list N) :=
    match build xs with
    | Ok None => Ok ([], [])
    | Ok (Some t) =>
      let S := map leaf_hash rel in
      if is_nil S then Ok ([thash t], [FlagAssist]) else Ok (gen S t)
    | Err e => Err e
    | Panic p => Panic p
    end.

  (* getMerkleRootByProof over the three shared lists (hashList, flagList,
     merkleHashes); returns the hash and the lists as they are left *)
  Fixpoint rbp (fuel : nat) (hs : list hash) (fs : list N) (ms : list hash)
    : option (hash * (list hash * list N * list hash)) :=
    match fuel with
    | O => None
    | S f =>
      match fs, hs with
      | [], _ => Some (empty_hash, (hs, fs, ms))
      | _, [] => Some (empty_hash, (hs, fs, ms))
      | flag :: fs', h :: hs' =>
        if N.eqb flag FlagAssist then Some (h, (hs', fs', ms))
        else if N.eqb flag FlagTxLeaf then
          match ms with
          | [] => Some (empty_hash, (hs, fs', ms))
          | m :: ms' =>
            if bytes_eqb h m then Some (h, (hs', fs', ms'))
            else Some (empty_hash, (hs, fs', ms))
          end
        else if N.eqb flag FlagTxParent then
          match rbp f hs fs' ms with
          | None => None
          | Some (lh, (hs1, fs1, ms1)) =>
            match rbp f hs1 fs1 ms1 with
            | None => None
            | Some (rh, st2) => Some (interior_hash lh rh, st2)
            end
          end
        else Some (empty_hash, (hs, fs', ms))
      end
    end.

  (* validateMerkleTreeProof, after merkleHashes has been filled with the leaf
     hashes of the related nodes: root == merkleRoot && merkleHashes.Len() == 0 *)
  Definition validate_ms (hs : list hash) (fs : list N) (ms : list hash) (root : hash) : option bool :=
    match rbp (S (length fs)) hs fs ms with
    | None => None
    | Some (r, (_, _, ms')) => Some (bytes_eqb r root && is_nil ms')
    end.

  (* validateMerkleTreeProof / ValidateTxMerkleTreeProof *)
  Definition validate (hs : list hash) (fs : list N) (rel : list bytes) (root : hash) : option bool :=
    validate_ms hs fs (map leaf_hash rel) root.
End Merkle.
