(* C30 — the executable SHA3-256 of coq/lib/Sha3.v always returns 32 bytes, so the
   Section hypothesis H_len of the C30 theorems holds for the function the model is
   run with.  (Nothing else about SHA3 is proved or needed.) *)
From Coq Require Import List Arith NArith Lia.
From Verif Require Import Sha3.
Import ListNotations.
Open Scope nat_scope.

Lemma iota_len (g : N -> N) (s2 : list N) :
  length (match s2 with a0 :: rest => g a0 :: rest | [] => [] end) = length s2.
Proof. destruct s2; reflexivity. Qed.

Lemma round_len s rcv : length (round s rcv) = 25.
Proof.
  unfold round. cbv zeta.
  etransitivity; [apply (iota_len (fun a0 => N.lxor a0 rcv))|].
  rewrite map_length. reflexivity.
Qed.

Lemma keccak_f_len s : length (keccak_f s) = 25.
Proof. unfold keccak_f, rc. cbn [fold_left]. apply round_len. Qed.

Lemma absorb_len : forall fuel s bs, length s = 25 -> length (absorb fuel s bs) = 25.
Proof.
  induction fuel as [|f IH]; intros s bs L; cbn [absorb]; auto.
  destruct bs; [exact L|]. apply IH. unfold absorb_block. apply keccak_f_len.
Qed.

Lemma n_to_le_len : forall k x, length (n_to_le k x) = k.
Proof. induction k; intros; cbn [n_to_le length]; auto. Qed.

Lemma flat_map_len {A B} (f : A -> list B) k : (forall x, length (f x) = k) ->
  forall l, length (flat_map f l) = k * length l.
Proof.
  intros Hf. induction l as [|x l IH]; cbn [flat_map length]; [lia|].
  rewrite app_length, Hf, IH. lia.
Qed.

Theorem sha3_256_len : forall x, length (sha3_256 x) = 32.
Proof.
  intros x. unfold sha3_256. cbv zeta.
  rewrite firstn_length, (flat_map_len _ 8 (n_to_le_len 8)), firstn_length, absorb_len.
  - reflexivity.
  - apply repeat_length.
Qed.
