(* C30 — proofs about the model of protocol/bc/types/merkle.go (C30/Model.v).
   Part 1: basic facts, tree construction, walking a tree along a flag list,
   completeness of validation for generated proofs. *)
From Coq Require Import List NArith Arith Bool Lia ZifyBool ZifyN ZifyNat.
From Verif Require Import Outcome Cmp.
From C30 Require Import Model.
Import ListNotations.

(* ------------------------------------------------------------------ lists *)

Inductive sublist {A : Type} : list A -> list A -> Prop :=
| sl_nil : forall l, sublist [] l
| sl_cons : forall x s l, sublist s l -> sublist (x :: s) (x :: l)
| sl_skip : forall x s l, sublist s l -> sublist s (x :: l).

Lemma sublist_refl {A} (l : list A) : sublist l l.
Proof. induction l; constructor; auto. Qed.

Lemma sublist_in {A} (s l : list A) : sublist s l -> forall x, In x s -> In x l.
Proof.
  induction 1; intros y Hy; cbn in *; auto.
  - contradiction.
  - destruct Hy; auto.
Qed.

Lemma sublist_app {A} (a b c d : list A) : sublist a b -> sublist c d -> sublist (a ++ c) (b ++ d).
Proof.
  induction 1; intros Hc; cbn.
  - induction l; cbn; auto. constructor; auto.
  - constructor; auto.
  - constructor; auto.
Qed.

Lemma sublist_nil_r {A} (s : list A) : sublist s [] -> s = [].
Proof. inversion 1; auto. Qed.

Lemma sublist_length {A} (s l : list A) : sublist s l -> length s <= length l.
Proof. induction 1; cbn; lia. Qed.

Lemma filter_nil_existsb {A} (f : A -> bool) (l : list A) : existsb f l = false -> filter f l = [].
Proof.
  induction l as [|x l IH]; cbn; auto. destruct (f x); cbn; [discriminate|auto].
Qed.

Lemma app_eq_len {A} (a b c d : list A) : length a = length b -> a ++ c = b ++ d -> a = b /\ c = d.
Proof.
  revert b. induction a as [|x a IH]; intros [|y b] L E; cbn in *; try discriminate; auto.
  injection E as -> E. injection L as L. destruct (IH _ L E) as [-> ->]. auto.
Qed.

Lemma bytes_eqb_refl (a : bytes) : bytes_eqb a a = true.
Proof. apply bytes_eqb_eq. reflexivity. Qed.

Lemma bytes_eq_dec (a b : bytes) : {a = b} + {a <> b}.
Proof. apply list_eq_dec. apply N.eq_dec. Qed.

Lemma mem_In h S : mem h S = true <-> In h S.
Proof.
  unfold mem. rewrite existsb_exists. split.
  - intros [x [Hx E]]. apply bytes_eqb_eq in E. subst. auto.
  - intros Hx. exists h. split; auto. apply bytes_eqb_refl.
Qed.

(* filtering a duplicate-free list by membership in a sub-list gives the sub-list *)
Lemma filter_sublist (s l : list hash) :
  sublist s l -> NoDup l -> filter (fun x => mem x s) l = s.
Proof.
  induction 1 as [l | x s l Hs IH | x s l Hs IH]; intros Hnd.
  - induction l as [|y l IHl]; cbn; auto. inversion Hnd; subst. auto.
  - inversion Hnd as [|? ? Hnot Hnd']; subst. cbn [filter].
    assert (E : mem x (x :: s) = true) by (apply mem_In; left; auto).
    rewrite E. f_equal. transitivity (filter (fun y => mem y s) l); [|apply IH; auto].
    apply filter_ext_in. intros y Hy. unfold mem. cbn [existsb].
    destruct (bytes_eqb y x) eqn:Eyx; auto.
    apply bytes_eqb_eq in Eyx. subst. contradiction.
  - inversion Hnd as [|? ? Hnot Hnd']; subst. cbn [filter].
    destruct (mem x s) eqn:E.
    + apply mem_In in E. exfalso. apply Hnot. eapply sublist_in; eauto.
    + auto.
Qed.

(* ------------------------------------------------------------ prev_pow2 *)

Lemma land_pow2_pred k : N.land (2 ^ k) (2 ^ k - 1) = 0%N.
Proof.
  rewrite N.sub_1_r, <- N.ones_equiv, N.land_ones.
  apply N.mod_same. apply N.pow_nonzero. discriminate.
Qed.

Lemma prev_pow2_bounds n : (2 <= n)%N -> (0 < prev_pow2 n < n)%N.
Proof.
  intros Hn. unfold prev_pow2.
  destruct (N.eqb (N.land n (n - 1)) 0) eqn:E.
  - split.
    + apply N.div_str_pos. lia.
    + apply N.div_lt; lia.
  - assert (Hpos : (0 < n)%N) by lia.
    destruct (N.log2_spec n Hpos) as [Hlo Hhi].
    split.
    + apply N.neq_0_lt_0. apply N.pow_nonzero. discriminate.
    + destruct (N.eq_dec (2 ^ N.log2 n) n) as [Heq|Hne]; [|lia].
      exfalso. rewrite <- Heq in E. rewrite land_pow2_pred in E. discriminate.
Qed.

Lemma split_at_bounds {A} (xs : list A) : 2 <= length xs -> 0 < split_at xs < length xs.
Proof.
  intros Hl. unfold split_at.
  pose proof (prev_pow2_bounds (N.of_nat (length xs))) as Hb.
  lia.
Qed.

(* ------------------------------------------ trees, walks, generated proofs *)

  Fixpoint leaves (t : tree) : list hash :=
    match t with
    | Leaf h => [h]
    | Node _ l r => leaves l ++ leaves r
    end.

  (* -------------------------------------------- walking a tree along flags *)

  (* [walk t fs]: follow the flags over the tree t the way getMerkleRootByProof
     does when every step succeeds; returns the hashes such a proof must carry,
     the leaf hashes it consumes from the related list, and the unused flags *)
  Fixpoint walk (t : tree) (fs : list N) : option (list hash * list hash * list N) :=
    match fs with
    | [] => None
    | f :: fs' =>
      if N.eqb f FlagAssist then Some ([thash t], [], fs')
      else if N.eqb f FlagTxLeaf then
        match t with Leaf h => Some ([h], [h], fs') | Node _ _ _ => None end
      else if N.eqb f FlagTxParent then
        match t with
        | Leaf _ => None
        | Node _ l r =>
          match walk l fs' with
          | None => None
          | Some (h1, c1, r1) =>
            match walk r r1 with
            | None => None
            | Some (h2, c2, r2) => Some (h1 ++ h2, c1 ++ c2, r2)
            end
          end
        end
      else None
    end.

  Lemma walk_cons t f fs' :
    walk t (f :: fs') =
      if N.eqb f FlagAssist then Some ([thash t], [], fs')
      else if N.eqb f FlagTxLeaf then
        match t with Leaf h => Some ([h], [h], fs') | Node _ _ _ => None end
      else if N.eqb f FlagTxParent then
        match t with
        | Leaf _ => None
        | Node _ l r =>
          match walk l fs' with
          | None => None
          | Some (h1, c1, r1) =>
            match walk r r1 with
            | None => None
            | Some (h2, c2, r2) => Some (h1 ++ h2, c1 ++ c2, r2)
            end
          end
        end
      else None.
  Proof. destruct t; reflexivity. Qed.

  Lemma walk_props t : forall fs h c r, walk t fs = Some (h, c, r) ->
    h <> [] /\ length r < length fs /\ sublist c (leaves t).
  Proof.
    induction t as [h0 | h0 l IHl r0 IHr]; intros fs h c r W; destruct fs as [|f fs']; cbn in W; try discriminate.
    - destruct (N.eqb f FlagAssist); [inversion W; subst; cbn; repeat split; try discriminate; try lia; constructor|].
      destruct (N.eqb f FlagTxLeaf); [inversion W; subst; cbn; repeat split; try discriminate; try lia; apply sublist_refl|].
      destruct (N.eqb f FlagTxParent); discriminate.
    - destruct (N.eqb f FlagAssist); [inversion W; subst; cbn; repeat split; try discriminate; try lia; constructor|].
      destruct (N.eqb f FlagTxLeaf); [discriminate|].
      destruct (N.eqb f FlagTxParent); [|discriminate].
      destruct (walk l fs') as [[[h1 c1] r1]|] eqn:W1; [|discriminate].
      destruct (walk r0 r1) as [[[h2 c2] r2]|] eqn:W2; [|discriminate].
      inversion W; subst.
      destruct (IHl _ _ _ _ W1) as [A1 [B1 C1]]. destruct (IHr _ _ _ _ W2) as [A2 [B2 C2]].
      repeat split.
      + destruct h1; [contradiction|discriminate].
      + cbn. lia.
      + cbn. apply sublist_app; auto.
  Qed.

  (* --------------------------------------------------- generated proofs *)

  Definition found (S : list hash) (t : tree) : bool := existsb (fun h => mem h S) (leaves t).

  (* what the parent emits for a child: the child's own proof, or Assist *)
  Definition gen1 (S : list hash) (t : tree) : list hash * list N :=
    if found S t then gen S t else ([thash t], [FlagAssist]).

  Lemma gen_found S t : is_nil (fst (gen S t)) = negb (found S t).
  Proof.
    induction t as [h | h l IHl r IHr]; unfold found in *; cbn [gen leaves existsb].
    - destruct (mem h S); reflexivity.
    - rewrite existsb_app.
      destruct (gen S l) as [lh lf]. destruct (gen S r) as [rh rf]. cbn [fst] in *.
      rewrite IHl, IHr, !negb_involutive.
      destruct (existsb (fun h0 => mem h0 S) (leaves l)), (existsb (fun h0 => mem h0 S) (leaves r)); cbn;
        try reflexivity.
      + destruct lh; [discriminate|reflexivity].
      + destruct lh; [discriminate|reflexivity].
  Qed.

  Lemma gen_node S h l r :
    gen S (Node h l r) =
    if found S l || found S r
    then (fst (gen1 S l) ++ fst (gen1 S r), FlagTxParent :: snd (gen1 S l) ++ snd (gen1 S r))
    else ([], []).
  Proof.
    unfold gen1. pose proof (gen_found S l) as Fl. pose proof (gen_found S r) as Fr.
    cbn [gen]. destruct (gen S l) as [lh lf]. destruct (gen S r) as [rh rf]. cbn [fst] in *.
    rewrite Fl, Fr, !negb_involutive.
    destruct (found S l), (found S r); reflexivity.
  Qed.

  Lemma found_node S h l r : found S (Node h l r) = found S l || found S r.
  Proof. unfold found. cbn [leaves]. apply existsb_app. Qed.

  Lemma gen1_cases S t :
    (found S t = false /\ gen1 S t = ([thash t], [FlagAssist])) \/
    (found S t = true /\ exists h, t = Leaf h /\ mem h S = true /\ gen1 S t = ([h], [FlagTxLeaf])) \/
    (found S t = true /\ exists h l r, t = Node h l r /\
       gen1 S t = (fst (gen1 S l) ++ fst (gen1 S r), FlagTxParent :: snd (gen1 S l) ++ snd (gen1 S r))).
  Proof.
    unfold gen1 at 1 2 3. destruct (found S t) eqn:F.
    - right. destruct t as [h | h l r].
      + left. split; auto. exists h. unfold found in F. cbn in F. rewrite orb_false_r in F.
        cbn. rewrite F. auto.
      + right. split; auto. exists h, l, r. split; auto.
        rewrite gen_node. rewrite found_node in F. rewrite F. reflexivity.
    - left. auto.
  Qed.

  (* the generated flags walk the tree, need exactly the generated hashes and
     consume exactly the leaves that are in the set *)
  Lemma walk_gen1 S t : forall rest,
    walk t (snd (gen1 S t) ++ rest) =
    Some (fst (gen1 S t), filter (fun h => mem h S) (leaves t), rest).
  Proof.
    induction t as [h | h l IHl r IHr]; intros rest.
    - destruct (gen1_cases S (Leaf h)) as [[F ->] | [[F [h' [E [M ->]]]] | [F [h' [l [r [E _]]]]]]].
      + unfold found in F. cbn in F. rewrite orb_false_r in F. cbn. rewrite F. reflexivity.
      + inversion E; subst. cbn. rewrite M. reflexivity.
      + discriminate.
    - destruct (gen1_cases S (Node h l r)) as [[F ->] | [[F [h' [E _]]] | [F [h' [l' [r' [E ->]]]]]]].
      + cbn [snd fst app walk N.eqb FlagAssist]. cbn.
        unfold found in F. cbn [leaves] in F.
        rewrite (filter_nil_existsb _ _ F). reflexivity.
      + discriminate.
      + inversion E; subst l' r' h'. cbn [snd fst].
        change ((FlagTxParent :: snd (gen1 S l) ++ snd (gen1 S r)) ++ rest)
          with (FlagTxParent :: (snd (gen1 S l) ++ snd (gen1 S r)) ++ rest).
        cbn [walk]. change (N.eqb FlagTxParent FlagAssist) with false.
        change (N.eqb FlagTxParent FlagTxLeaf) with false.
        change (N.eqb FlagTxParent FlagTxParent) with true. cbn iota.
        rewrite <- app_assoc, IHl, IHr. cbn [leaves]. rewrite filter_app. reflexivity.
  Qed.

(* ------------------------------------------------------- the hash function *)

Section WithHash.
  Variable H : bytes -> bytes.
  (* the digest is 32 bytes (bc.Hash is a fixed 32-byte value) *)
  Hypothesis H_len : forall x, length (H x) = 32.

  Notation leaf_hash := (leaf_hash H).
  Notation interior_hash := (interior_hash H).
  Notation empty_hash := (empty_hash H).

  Definition Collision : Prop := exists x y : bytes, x <> y /\ H x = H y.

  Lemma coll_of (a b : bytes) : H a = H b -> a <> b -> Collision.
  Proof. intros E N. exists a, b. auto. Qed.

  Lemma hash_inj_or (a b : bytes) : H a = H b -> a = b \/ Collision.
  Proof.
    intros E. destruct (bytes_eq_dec a b) as [|N]; [left; auto | right; eapply coll_of; eauto].
  Qed.

  Definition len32 (h : hash) : Prop := length h = 32.
  Definition isleaf (h : hash) : Prop := exists x, h = leaf_hash x.

  Lemma isleaf_len32 h : isleaf h -> len32 h.
  Proof. intros [x ->]. apply H_len. Qed.

  (* ------------------------------------------------------------- trees *)

  Fixpoint wf (t : tree) : Prop :=
    match t with
    | Leaf h => isleaf h
    | Node h l r => h = interior_hash (thash l) (thash r) /\ wf l /\ wf r
    end.

  Lemma wf_len32 t : wf t -> len32 (thash t).
  Proof. destruct t; cbn; intros W. - apply isleaf_len32; auto. - destruct W as [-> _]. apply H_len. Qed.

  Lemma wf_hash_nonempty t : wf t -> exists z, z <> [] /\ thash t = H z.
  Proof.
    destruct t; cbn; intros W.
    - destruct W as [x ->]. eexists. split; [|reflexivity]. discriminate.
    - destruct W as [-> _]. eexists. split; [|reflexivity]. discriminate.
  Qed.

  Lemma wf_not_empty_hash t : wf t -> thash t = empty_hash -> Collision.
  Proof.
    intros W E. destruct (wf_hash_nonempty t W) as [z [Hz Ez]].
    rewrite Ez in E. eapply coll_of; eauto.
  Qed.

  (* build_f / root_f with enough fuel: a well-formed tree over the leaf hashes,
     whose root hash is the merkle root; never out of fuel, never a nil dereference *)
  Lemma build_ok : forall fuel xs, length xs < fuel ->
    match xs with
    | [] => build_f H fuel xs = Ok None /\ root_f H fuel xs = Some empty_hash
    | _ => exists t, build_f H fuel xs = Ok (Some t) /\ wf t /\
                     leaves t = map leaf_hash xs /\ root_f H fuel xs = Some (thash t)
    end.
  Proof.
    induction fuel as [|f IH]; intros xs Hl; [lia|].
    destruct xs as [|x [|y xs']].
    - cbn. auto.
    - cbn. eexists. repeat split; try reflexivity. exists x. reflexivity.
    - set (l := x :: y :: xs') in *.
      assert (Hlen : 2 <= length l) by (cbn; lia).
      pose proof (split_at_bounds l Hlen) as Hk.
      assert (Hf : length (firstn (split_at l) l) = split_at l) by (apply firstn_length_le; lia).
      assert (Hs : length (skipn (split_at l) l) = length l - split_at l) by apply skipn_length.
      assert (Hll : length l <= f) by (unfold l in *; cbn [length] in *; lia).
      pose proof (IH (firstn (split_at l) l)) as IHl.
      pose proof (IH (skipn (split_at l) l)) as IHr.
      remember (firstn (split_at l) l) as la eqn:Ef.
      remember (skipn (split_at l) l) as lb eqn:Es.
      destruct la as [|a la]; [cbn [length] in Hf; lia|].
      destruct lb as [|b lb]; [cbn [length] in Hs; lia|].
      destruct IHl as [tl [Bl [Wl [Ll Rl]]]]; [lia|].
      destruct IHr as [tr [Br [Wr [Lr Rr]]]]; [lia|].
      exists (Node (interior_hash (thash tl) (thash tr)) tl tr).
      assert (Hbuild : build_f H (S f) l = Ok (Some (Node (interior_hash (thash tl) (thash tr)) tl tr))).
      { unfold l. cbn [build_f]. fold l. rewrite <- Ef, Bl, <- Es, Br. reflexivity. }
      assert (Hroot : root_f H (S f) l = Some (interior_hash (thash tl) (thash tr))).
      { unfold l. cbn [root_f]. fold l. rewrite <- Ef, Rl, <- Es, Rr. reflexivity. }
      repeat split; auto.
      cbn [leaves]. rewrite Ll, Lr, <- map_app, Ef, Es, firstn_skipn. reflexivity.
  Qed.

  Lemma build_nonempty xs : xs <> [] ->
    exists t, build H xs = Ok (Some t) /\ wf t /\ leaves t = map leaf_hash xs /\
              merkle_root H xs = Some (thash t).
  Proof.
    intros Hne. unfold build, merkle_root.
    pose proof (build_ok (S (length xs)) xs (Nat.lt_succ_diag_r _)) as B.
    destruct xs; [contradiction|]. exact B.
  Qed.

  Lemma build_nil : build H [] = Ok None /\ merkle_root H [] = Some empty_hash.
  Proof. cbn. auto. Qed.

End WithHash.
