(* C21 — helpers used by the generated case files: short constructors for the
   operations of a case and the projection of results that is compared with
   the implementation.  Every result is encoded as a list of lists of numbers:
     error [[0]], Save* ok [[1]], header [[2;height;witness];suplinks],
     transactions [[3];txs], height index [[4];hashes], main-chain hash [[5;h]],
     checkpoint [[6;height;hash;status;var];suplinks],
     checkpoint list [7] :: (fields; suplinks per checkpoint),
     block [[8;height;witness];suplinks;txs], BlockExist [[9;0/1]]. *)
From Coq Require Import List NArith Bool.
From Verif Require Import Cmp.
From C21 Require Import Model.
Import ListNotations.
Local Open Scope N_scope.

Definition SB (h ht wit : N) (sup txs : list N) : op := OSaveBlock h (mkH ht wit sup) txs.
Definition SH (h ht wit : N) (sup : list N) : op := OSaveHeader h (mkH ht wit sup).
Definition SC (l : list (N * N)) : op := OSaveChainStatus l.
Definition CP (ht h st var : N) (sup : list N) : cpoint := mkC ht h st var sup.
Definition SP (l : list cpoint) : op := OSaveCheckpoints l.
Definition GH := OGetHeader.
Definition BE := OBlockExist.
Definition GT := OGetTxs.
Definition GB := OGetBlock.
Definition GS := OGetHashes.
Definition GM := OGetMain.
Definition GC := OGetCheckpoint.
Definition GL := OGetCheckpointsByHeight.
Definition GF := OCheckpointsFromNode.

Definition enc_cp (c : cpoint) : list (list N) := [[cheight c; chash c; cstatus c; cvar c]; csup c].

Definition enc (r : res) : list (list N) :=
  match r with
  | RErr => [[0]]
  | RUnit => [[1]]
  | RHeader hd => [[2; hheight hd; hwit hd]; hsup hd]
  | RTxs l => [[3]; l]
  | RHashes l => [[4]; l]
  | RMain h => [[5; h]]
  | RCp c => [[6; cheight c; chash c; cstatus c; cvar c]; csup c]
  | RCps l => [7] :: flat_map enc_cp l
  | RBlock hd l => [[8; hheight hd; hwit hd]; hsup hd; l]
  | RBool b => [[9; if b then 1 else 0]]
  end.

Definition cres := list (list (list N)).

Definition mkcaps (c : list N) : caps :=
  match map N.to_nat c with
  | [a; b; c; d; e] => mkCaps a b c d e
  | _ => default_caps
  end.

(* a case: the five cache capacities and the operations, run on the repaired
   store over an empty database *)
Definition rc (c : list N) (ops : list op) : cres :=
  map enc (snd (run_fixed (mkcaps c) (new_store empty_db) ops)).

Definition cres_eqb : cres -> cres -> bool := list_eqb (list_eqb (list_eqb N.eqb)).
