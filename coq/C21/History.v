(* C21 — the behaviour of the pinned tree (before the repairs in
   Store.GetCheckpoint and Store.SaveBlock), [run_pinned] = [run _ false].
   Not a proof obligation of the property; kept to show that the repairs are
   needed and that the refinement proof does not hold vacuously. *)
From Coq Require Import List NArith Bool.
From C21 Require Import Model Proofs.
Import ListNotations.
Local Open Scope N_scope.

(* GetCheckpoint appends the header's suplinks to the cached checkpoint object:
   the n-th read returns them n times *)
Definition witness_checkpoint : list op :=
  [ OSaveBlock 1 (mkH 7 1 [5]) []; OSaveCheckpoints [mkC 7 1 1 3 []];
    OGetCheckpoint 1; OGetCheckpoint 1; OGetCheckpoint 1 ].

Theorem pinned_checkpoint_reads :
  snd (run_pinned default_caps (new_store empty_db) witness_checkpoint) =
    [RUnit; RUnit; RCp (mkC 7 1 1 3 [5]); RCp (mkC 7 1 1 3 [5; 5]); RCp (mkC 7 1 1 3 [5; 5; 5])] /\
  snd (spec_run empty_db witness_checkpoint) =
    [RUnit; RUnit; RCp (mkC 7 1 1 3 [5]); RCp (mkC 7 1 1 3 [5]); RCp (mkC 7 1 1 3 [5])].
Proof. split; vm_compute; reflexivity. Qed.

Theorem pinned_refuted_checkpoint :
  exists cp d ops, snd (run_pinned cp (new_store d) ops) <> snd (spec_run d ops).
Proof.
  exists default_caps, empty_db, witness_checkpoint.
  destruct pinned_checkpoint_reads as [-> ->]. discriminate.
Qed.

(* SaveBlock of a block whose hash is already cached (the hash does not commit
   to the witness, the suplinks or the transaction witnesses) leaves the old
   header and transactions in the caches *)
Definition witness_saveblock : list op :=
  [ OSaveBlock 1 (mkH 7 1 [5]) [10]; OGetHeader 1; OGetTxs 1;
    OSaveBlock 1 (mkH 7 2 []) [11]; OGetHeader 1; OGetTxs 1 ].

Theorem pinned_saveblock_reads :
  snd (run_pinned default_caps (new_store empty_db) witness_saveblock) =
    [RUnit; RHeader (mkH 7 1 [5]); RTxs [10]; RUnit; RHeader (mkH 7 1 [5]); RTxs [10]] /\
  snd (spec_run empty_db witness_saveblock) =
    [RUnit; RHeader (mkH 7 1 [5]); RTxs [10]; RUnit; RHeader (mkH 7 2 []); RTxs [11]].
Proof. split; vm_compute; reflexivity. Qed.

Theorem pinned_refuted_saveblock :
  exists cp d ops, snd (run_pinned cp (new_store d) ops) <> snd (spec_run d ops).
Proof.
  exists default_caps, empty_db, witness_saveblock.
  destruct pinned_saveblock_reads as [-> ->]. discriminate.
Qed.

(* with the repairs both histories are transparent (instances of the general theorem) *)
Lemma repaired_same_runs :
  snd (run_fixed default_caps (new_store empty_db) witness_checkpoint) = snd (spec_run empty_db witness_checkpoint) /\
  snd (run_fixed default_caps (new_store empty_db) witness_saveblock) = snd (spec_run empty_db witness_saveblock).
Proof. split; apply transparent. Qed.
