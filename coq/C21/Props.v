(* C21 — store caches are transparent.  PROPERTY THEOREMS ONLY.

   Model: C21/Model.v mirrors /repo/database (cache.go, store.go,
   store_checkpoint.go, store_geter.go) with the repairs of Store.GetCheckpoint
   and Store.SaveBlock in place ([run_fixed cp] = [run cp true]).  A store is
   a database (one table per key prefix) plus five LRU caches whose capacities
   [cp : caps] are arbitrary (0 = unlimited), so eviction at any point is
   covered.  A history is any list of
     OSaveBlock / OSaveHeader / OSaveChainStatus / OSaveCheckpoints   (writes)
     OGetHeader / OBlockExist / OGetTxs / OGetBlock / OGetHashes / OGetMain /
     OGetCheckpoint / OGetCheckpointsByHeight / OCheckpointsFromNode   (reads)
   over arbitrary hashes, heights, headers, transaction lists and checkpoints.
   [spec_run d ops] is the same history on a store without caches: every getter
   is the package-level getter of store_geter.go (resp. getCheckpointFromDB plus
   the block header's suplinks) applied to the database. *)
From Coq Require Import List NArith.
From C21 Require Import Model Proofs.
Import ListNotations.

(* The property, first half: after ANY interleaving of saves and reads, starting
   from any database and an empty cache, with any cache capacities, every
   operation returns what the cache-free store returns, and the databases agree. *)
Theorem c21_transparent :
  forall (cp : caps) (d : db) (ops : list op),
    snd (run_fixed cp (new_store d) ops) = snd (spec_run d ops) /\
    s_db (fst (run_fixed cp (new_store d) ops)) = fst (spec_run d ops).
Proof. exact transparent. Qed.
Print Assumptions c21_transparent.

(* The property, second half: reads inserted anywhere in a history (any number,
   any kind, repeated or not) change no result of the operations before or
   after them. *)
Theorem c21_idempotent_reads :
  forall (cp : caps) (d : db) (ops1 rs ops2 : list op),
    Forall (fun o => is_read o = true) rs ->
    firstn (length ops1) (snd (run_fixed cp (new_store d) (ops1 ++ rs ++ ops2))) =
      snd (run_fixed cp (new_store d) ops1) /\
    skipn (length ops1 + length rs) (snd (run_fixed cp (new_store d) (ops1 ++ rs ++ ops2))) =
      skipn (length ops1) (snd (run_fixed cp (new_store d) (ops1 ++ ops2))).
Proof. exact inserted_reads. Qed.
Print Assumptions c21_idempotent_reads.

(* A read repeated immediately returns the same value. *)
Theorem c21_read_repeat :
  forall (cp : caps) (s : state) (o : op),
    inv s -> is_read o = true ->
    snd (step_fixed cp (fst (step_fixed cp s o)) o) = snd (step_fixed cp s o).
Proof. exact read_repeat. Qed.
Print Assumptions c21_read_repeat.

(* The inductive invariant behind both: every entry of every cache equals the
   fill function (the uncached getter) on the current database.  It holds for a
   new store, every operation preserves it, and in any state that satisfies it
   one operation returns the cache-free result and writes the cache-free database. *)
Theorem c21_inv_init : forall d, inv (new_store d).
Proof. exact inv_new_store. Qed.
Print Assumptions c21_inv_init.

Theorem c21_inv_step : forall cp s o, inv s -> inv (fst (step_fixed cp s o)).
Proof. exact step_inv. Qed.
Print Assumptions c21_inv_step.

Theorem c21_step_transparent :
  forall cp s o, inv s ->
    snd (step_fixed cp s o) = spec_read (s_db s) o /\
    s_db (fst (step_fixed cp s o)) = spec_write (s_db s) o.
Proof. exact step_transparent. Qed.
Print Assumptions c21_step_transparent.

(* Transparency and read-insensitivity from any state that satisfies the invariant
   (e.g. any reachable state), not only from an empty cache. *)
Theorem c21_transparent_from_inv :
  forall cp s ops, inv s ->
    snd (run_fixed cp s ops) = snd (spec_run (s_db s) ops) /\
    s_db (fst (run_fixed cp s ops)) = fst (spec_run (s_db s) ops) /\
    inv (fst (run_fixed cp s ops)).
Proof. exact transparent_from_inv. Qed.
Print Assumptions c21_transparent_from_inv.

Theorem c21_reads_change_nothing :
  forall cp s rs rest, inv s -> Forall (fun o => is_read o = true) rs ->
    snd (run_fixed cp (fst (run_fixed cp s rs)) rest) = snd (run_fixed cp s rest) /\
    s_db (fst (run_fixed cp s rs)) = s_db s.
Proof. exact reads_change_nothing_and_keep_db. Qed.
Print Assumptions c21_reads_change_nothing.

(* The LRU bound: no cache ever holds more entries than its (non-zero) capacity. *)
Theorem c21_caches_bounded :
  forall cp d ops, caches_bounded cp (fst (run_fixed cp (new_store d) ops)).
Proof. exact reachable_bounded. Qed.
Print Assumptions c21_caches_bounded.
