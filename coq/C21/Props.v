(* C21 — store caches are transparent.  PROPERTY THEOREMS ONLY.

   Model: C21/Model.v mirrors /repo/database (cache.go, store.go,
   store_checkpoint.go, store_geter.go) with the repairs of Store.GetCheckpoint
   and Store.SaveBlock in place ([run_fixed cp] = [run cp true]).  A store is
   a database (one table per key prefix) plus five LRU caches whose capacities
   [cp : caps] are arbitrary (0 = unlimited), so eviction at any point is
   covered.  A history is any list of
     OSaveBlock / OSaveHeader / OSaveChainStatus / OSaveCheckpoints   (writes)
     OGetHeader / OBlockExist / OGetTxs / OGetBlock / OGetHashes / OGetMain /
     OGetCheckpoint / OGetCheckpointsByHeight / OCheckpointsFromNode   (reads)
   over arbitrary hashes, heights, headers, transaction lists and checkpoints.
   [spec_run d ops] is the same history on a store without caches: every getter
   is the package-level getter of store_geter.go (resp. getCheckpointFromDB plus
   the block header's suplinks) applied to the database. *)
From Coq Require Import List NArith.
From C21 Require Import Model Proofs.
Import ListNotations.

(* The property, first half: after ANY interleaving of saves and reads, starting
   from any database and an empty cache, with any cache capacities, every
   operation returns what the cache-free store returns, and the databases agree. *)
Theorem c21_transparent :
  forall (cp : caps) (d : db) (ops : list op),
    snd (run_fixed cp (new_store d) ops) = snd (spec_run d ops) /\
    s_db (fst (run_fixed cp (new_store d) ops)) = fst (spec_run d ops).
Proof. exact transparent. Qed.
Print Assumptions c21_transparent.

(* The property, second half: reads inserted anywhere in a history (any number,
   any kind, repeated or not) change no result of the operations before or
   after them. *)
Theorem c21_idempotent_reads :
  forall (cp : caps) (d : db) (ops1 rs ops2 : list op),
    Forall (fun o => is_read o = true) rs ->
    firstn (length ops1) (snd (run_fixed cp (new_store d) (ops1 ++ rs ++ ops2))) =
      snd (run_fixed cp (new_store d) ops1) /\
    skipn (length ops1 + length rs) (snd (run_fixed cp (new_store d) (ops1 ++ rs ++ ops2))) =
      skipn (length ops1) (snd (run_fixed cp (new_store d) (ops1 ++ ops2))).
Proof. exact inserted_reads. Qed.
Print Assumptions c21_idempotent_reads.

(* A read repeated immediately returns the same value. *)
Theorem c21_read_repeat :
  forall (cp : caps) (s : state) (o : op),
    inv s -> is_read o = true ->
    snd (step_fixed cp (fst (step_fixed cp s o)) o) = snd (step_fixed cp s o).
Proof. exact read_repeat. Qed.
Print Assumptions c21_read_repeat.

(* The inductive invariant behind both: every entry of every cache equals the
   fill function (the uncached getter) on the current database.  It holds for a
   new store, every operation preserves it, and in any state that satisfies it
   one operation returns the cache-free result and writes the cache-free database. *)
Theorem c21_inv_init : forall d, inv (new_store d).
Proof. exact inv_new_store. Qed.
Print Assumptions c21_inv_init.

Theorem c21_inv_step : forall cp s o, inv s -> inv (fst (step_fixed cp s o)).
Proof. exact step_inv. Qed.
Print Assumptions c21_inv_step.

Theorem c21_step_transparent :
  forall cp s o, inv s ->
    snd (step_fixed cp s o) = spec_read (s_db s) o /\
    s_db (fst (step_fixed cp s o)) = spec_write (s_db s) o.
Proof. exact step_transparent. Qed.
Print Assumptions c21_step_transparent.

(* Transparency and read-insensitivity from any state that satisfies the invariant
   (e.g. any reachable state), not only from an empty cache. *)
Theorem c21_transparent_from_inv :
  forall cp s ops, inv s ->
    snd (run_fixed cp s ops) = snd (spec_run (s_db s) ops) /\
    s_db (fst (run_fixed cp s ops)) = fst (spec_run (s_db s) ops) /\
    inv (fst (run_fixed cp s ops)).
Proof. exact transparent_from_inv. Qed.
Print Assumptions c21_transparent_from_inv.

Theorem c21_reads_change_nothing :
  forall cp s rs rest, inv s -> Forall (fun o => is_read o = true) rs ->
    snd (run_fixed cp (fst (run_fixed cp s rs)) rest) = snd (run_fixed cp s rest) /\
    s_db (fst (run_fixed cp s rs)) = s_db s.
Proof. exact reads_change_nothing_and_keep_db. Qed.
Print Assumptions c21_reads_change_nothing.

(* The LRU bound: no cache ever holds more entries than its (non-zero) capacity. *)
Theorem c21_caches_bounded :
  forall cp d ops, caches_bounded cp (fst (run_fixed cp (new_store d) ops)).
Proof. exact reachable_bounded. Qed.
Print Assumptions c21_caches_bounded.

(* ---- concurrent use (open finding C21-stale-fill-across-write) ------------------------------

   The theorems above are about whole operations one after the other.  Under
   concurrent use the steps of a cache fill (db.Get, then lru.Add) and of a save
   (database write, then cache removal) of different goroutines interleave;
   C21/Conc.v models exactly these four steps for any number of goroutines and
   keys ([crun], schedules are arbitrary lists of steps). *)
From C21 Require Import Conc ConcProofs.

(* The property does NOT hold for every schedule: a fill that has fetched the old
   value, a complete save (database write and invalidation) going by, then the
   fill's lru.Add -- all operations have returned ([c_pend], [c_fills] empty) and
   the cache holds a value the database does not. *)
Theorem C21_refuted_stale_fill :
  exists (d : ckey -> cval) (l : list cstep),
    let s := crun (cinit d) l in
    c_pend s = [] /\ c_fills s = [] /\ exists k, ~ key_transparent s k.
Proof. exact refuted_stale_fill. Qed.
Print Assumptions C21_refuted_stale_fill.

(* Outside that class it holds: for EVERY schedule in which no cache invalidation
   finds a fill of its key still in flight that was already in flight at the same
   writer's database write ([guarded]: no complete write inside a fill; any other
   overlap of fills and writes is allowed), once no invalidation is owed any more
   every cached value is the database value. *)
Theorem C21_holds_outside :
  forall (d : ckey -> cval) (l : list cstep),
    guarded (cinit d) l = true ->
    c_pend (crun (cinit d) l) = [] ->
    forall k v, c_cache (crun (cinit d) l) k = Some v -> v = c_db (crun (cinit d) l) k.
Proof. exact holds_outside. Qed.
Print Assumptions C21_holds_outside.

(* In particular for every schedule in which no database write of a key happens
   between the db.Get and the lru.Add of a fill of that key. *)
Theorem C21_holds_outside_nonoverlapping :
  forall (d : ckey -> cval) (l : list cstep),
    disjoint_fills (cinit d) l = true ->
    c_pend (crun (cinit d) l) = [] ->
    forall k v, c_cache (crun (cinit d) l) k = Some v -> v = c_db (crun (cinit d) l) k.
Proof. exact holds_nonoverlapping. Qed.
Print Assumptions C21_holds_outside_nonoverlapping.

(* The invariant behind it, from any state that satisfies it: a cached value is the
   database value or an invalidation of its key is owed; a value held by a fill in
   flight is the database value or a writer that crossed the fill owes its invalidation. *)
Theorem C21_conc_inv_step :
  forall s x, cinv s -> cstep_ok s x = true -> cinv (cstep_run s x).
Proof. exact cinv_step. Qed.
Print Assumptions C21_conc_inv_step.
