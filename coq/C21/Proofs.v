(* C21 — proofs: the cache invariant (every cache entry equals the fill function
   on the current database), its preservation by every Store method, and the
   refinement "cached store = cache-free store" for all operation sequences. *)
From Coq Require Import List NArith Bool PeanoNat Lia.
From C21 Require Import Model.
Import ListNotations.

Lemma filter_len_le {A} (f : A -> bool) (l : list A) : length (filter f l) <= length l.
Proof. induction l as [| a l IH]; cbn; [lia |]. destruct (f a); cbn; lia. Qed.

(* ---- association lists and the LRU, generic in the key ------------------------ *)
Section Generic.
  Context {K V : Type}.
  Variable keqb : K -> K -> bool.
  Hypothesis keqb_eq : forall a b, keqb a b = true <-> a = b.

  Lemma keqb_refl k : keqb k k = true.
  Proof. apply keqb_eq. reflexivity. Qed.

  Lemma keqb_neq a b : a <> b -> keqb a b = false.
  Proof.
    intros H. destruct (keqb a b) eqn:E; [| reflexivity].
    apply keqb_eq in E. contradiction.
  Qed.

  Lemma alookup_ainsert_same (kltb : K -> K -> bool) k (v : V) l :
    alookup keqb k (ainsert keqb kltb k v l) = Some v.
  Proof.
    induction l as [| [k1 v1] l IH]; cbn.
    - rewrite keqb_refl. reflexivity.
    - destruct (keqb k k1) eqn:E; cbn.
      + rewrite keqb_refl. reflexivity.
      + destruct (kltb k k1); cbn.
        * rewrite keqb_refl. reflexivity.
        * rewrite E. exact IH.
  Qed.

  Lemma alookup_ainsert_other (kltb : K -> K -> bool) k k' (v : V) l :
    k' <> k -> alookup keqb k' (ainsert keqb kltb k v l) = alookup keqb k' l.
  Proof.
    intros N. induction l as [| [k1 v1] l IH]; cbn.
    - rewrite (keqb_neq _ _ N). reflexivity.
    - destruct (keqb k k1) eqn:E; cbn.
      + apply keqb_eq in E. subst k1. rewrite (keqb_neq _ _ N). reflexivity.
      + destruct (kltb k k1); cbn.
        * rewrite (keqb_neq _ _ N). reflexivity.
        * rewrite IH. reflexivity.
  Qed.

  Lemma alookup_in k l (v : V) : alookup keqb k l = Some v -> In (k, v) l.
  Proof.
    induction l as [| [k1 v1] l IH]; cbn; [discriminate |].
    destruct (keqb k k1) eqn:E.
    - intros H. inversion H; subst. apply keqb_eq in E. subst. left. reflexivity.
    - intros H. right. apply IH. exact H.
  Qed.

  Lemma alookup_some_remove_shorter k l (v : V) :
    alookup keqb k l = Some v -> length (lru_remove keqb k l) < length l.
  Proof.
    induction l as [| [k1 v1] l IH]; cbn; [discriminate |].
    destruct (keqb k k1) eqn:E; cbn.
    - intros _. pose proof (filter_len_le (fun e : K * V => negb (keqb k (fst e))) l). lia.
    - intros H. specialize (IH H). unfold lru_remove in IH. lia.
  Qed.

  (* folding Set over a list of writes touches only the written keys *)
  Lemma alookup_fold_insert (kltb : K -> K -> bool) {E} (f : E -> K) (g : E -> V) (es : list E) : forall m k',
    ~ In k' (map f es) ->
    alookup keqb k' (fold_left (fun m e => ainsert keqb kltb (f e) (g e) m) es m) = alookup keqb k' m.
  Proof.
    induction es as [| e es IH]; intros m k' H; cbn; [reflexivity |].
    rewrite IH.
    - apply alookup_ainsert_other. intros ->. apply H. left. reflexivity.
    - intros HI. apply H. right. exact HI.
  Qed.

  (* the invariant of one cache: every entry is what the fill function returns *)
  Definition cache_ok (fill : K -> option V) (l : list (K * V)) : Prop :=
    forall k v, In (k, v) l -> fill k = Some v.

  Lemma cache_ok_nil fill : cache_ok fill [].
  Proof. intros k v []. Qed.

  Lemma cache_ok_incl fill l l' :
    (forall x, In x l' -> In x l) -> cache_ok fill l -> cache_ok fill l'.
  Proof. intros HI H k v Hin. apply H. apply HI. exact Hin. Qed.

  Lemma lru_remove_in k x (l : list (K * V)) : In x (lru_remove keqb k l) -> In x l /\ fst x <> k.
  Proof.
    unfold lru_remove. intros H. apply filter_In in H. destruct H as [H1 H2]. split; [exact H1 |].
    intros Ek. rewrite Ek, keqb_refl in H2. discriminate.
  Qed.

  Lemma removelast_in {A} (x : A) l : In x (removelast l) -> In x l.
  Proof.
    induction l as [| a l IH]; cbn; [tauto |].
    destruct l as [| b l]; [intros [] |].
    intros [H | H]; [left; exact H | right; apply IH; exact H].
  Qed.

  Lemma cache_ok_cons fill k v l : fill k = Some v -> cache_ok fill l -> cache_ok fill ((k, v) :: l).
  Proof.
    intros F H k' v' [E | Hin]; [inversion E; subst; exact F | apply H; exact Hin].
  Qed.

  Lemma cache_ok_remove fill k l : cache_ok fill l -> cache_ok fill (lru_remove keqb k l).
  Proof. apply cache_ok_incl. intros x H. apply lru_remove_in in H. tauto. Qed.

  Lemma cache_ok_add fill cap k v l :
    fill k = Some v -> cache_ok fill l -> cache_ok fill (lru_add keqb cap k v l).
  Proof.
    intros F H. unfold lru_add. destruct (alookup keqb k l).
    - apply cache_ok_cons; [exact F | apply cache_ok_remove; exact H].
    - destruct (negb (cap =? 0) && (cap <? length ((k, v) :: l))).
      + eapply cache_ok_incl; [intros x; apply removelast_in | apply cache_ok_cons; assumption].
      + apply cache_ok_cons; assumption.
  Qed.

  (* a lookup through the cache returns what the fill function returns, and keeps the invariant *)
  Lemma cached_lookup_ok cap fill k l l' r :
    cache_ok fill l -> cached_lookup keqb cap fill k l = (l', r) ->
    r = fill k /\ cache_ok fill l'.
  Proof.
    intros H. unfold cached_lookup, lru_get. destruct (alookup keqb k l) eqn:E.
    - intros X. inversion X; subst. pose proof (H _ _ (alookup_in _ _ _ E)) as F. split.
      + symmetry. exact F.
      + apply cache_ok_cons; [exact F | apply cache_ok_remove; exact H].
    - destruct (fill k) eqn:F; intros X; inversion X; subst.
      + split; [reflexivity | apply cache_ok_add; assumption].
      + split; [reflexivity | exact H].
  Qed.

  (* the database changed at key k only, and k was invalidated *)
  Lemma cache_ok_change fill fill' k l :
    (forall k', k' <> k -> fill' k' = fill k') -> cache_ok fill l -> cache_ok fill' (lru_remove keqb k l).
  Proof.
    intros HF H k' v Hin. apply lru_remove_in in Hin. destruct Hin as [Hin Hne]. cbn in Hne.
    rewrite HF; [apply H; exact Hin | exact Hne].
  Qed.

  Lemma fold_remove_in {E} (f : E -> K) (es : list E) : forall (l : list (K * V)) x,
    In x (fold_left (fun c e => lru_remove keqb (f e) c) es l) -> In x l /\ ~ In (fst x) (map f es).
  Proof.
    induction es as [| e es IH]; intros l x H; cbn in *; [tauto |].
    apply IH in H. destruct H as [H1 H2]. apply lru_remove_in in H1. destruct H1 as [H1 H3].
    split; [exact H1 |]. intros [Eq | HI]; [apply H3; symmetry; exact Eq | apply H2; exact HI].
  Qed.

  (* the database changed at the keys of a batch only, all of them invalidated afterwards *)
  Lemma cache_ok_change_list {E} (f : E -> K) (es : list E) fill fill' l :
    (forall k', ~ In k' (map f es) -> fill' k' = fill k') -> cache_ok fill l ->
    cache_ok fill' (fold_left (fun c e => lru_remove keqb (f e) c) es l).
  Proof.
    intros HF H k v Hin. apply fold_remove_in in Hin. destruct Hin as [Hin Hne]. cbn in Hne.
    rewrite HF; [apply H; exact Hin | exact Hne].
  Qed.

  (* ---- the LRU bound ---------------------------------------------------------- *)
  Definition bounded (cap : nat) (l : list (K * V)) : Prop := cap <> 0 -> length l <= cap.

  Lemma lru_remove_length k (l : list (K * V)) : length (lru_remove keqb k l) <= length l.
  Proof. apply filter_len_le. Qed.

  Lemma bounded_remove cap k l : bounded cap l -> bounded cap (lru_remove keqb k l).
  Proof. intros H Hc. pose proof (lru_remove_length k l). specialize (H Hc). lia. Qed.

  Lemma bounded_fold_remove {E} (f : E -> K) (es : list E) cap : forall l,
    bounded cap l -> bounded cap (fold_left (fun c e => lru_remove keqb (f e) c) es l).
  Proof.
    induction es as [| e es IH]; intros l H; cbn; [exact H |]. apply IH. apply bounded_remove. exact H.
  Qed.

  Lemma removelast_length {A} (l : list A) : length (removelast l) = pred (length l).
  Proof.
    induction l as [| a l IH]; cbn; [reflexivity |].
    destruct l as [| b l]; [reflexivity |]. cbn in *. rewrite IH. reflexivity.
  Qed.

  Lemma bounded_add cap k v l : bounded cap l -> bounded cap (lru_add keqb cap k v l).
  Proof.
    intros H Hc. specialize (H Hc). unfold lru_add. destruct (alookup keqb k l) eqn:E.
    - apply alookup_some_remove_shorter in E. cbn. lia.
    - destruct (cap =? 0) eqn:E0; [apply Nat.eqb_eq in E0; contradiction |]. cbn [negb andb].
      destruct (cap <? length ((k, v) :: l)) eqn:E1.
      + rewrite removelast_length. cbn. exact H.
      + apply Nat.ltb_ge in E1. exact E1.
  Qed.

  Lemma bounded_lookup cap fill k l l' r :
    bounded cap l -> cached_lookup keqb cap fill k l = (l', r) -> bounded cap l'.
  Proof.
    intros H. unfold cached_lookup, lru_get. destruct (alookup keqb k l) eqn:E.
    - intros X. inversion X; subst. intros Hc. specialize (H Hc).
      apply alookup_some_remove_shorter in E. cbn. lia.
    - destruct (fill k); intros X; inversion X; subst; [apply bounded_add; exact H | exact H].
  Qed.
End Generic.

(* ---- keys of the five tables ---------------------------------------------------- *)
Lemma Neqb_eq : forall a b : N, N.eqb a b = true <-> a = b.
Proof. exact N.eqb_eq. Qed.

Lemma cpkey_eqb_eq : forall a b : cpkey, cpkey_eqb a b = true <-> a = b.
Proof.
  intros [a1 a2] [b1 b2]. unfold cpkey_eqb. cbn. rewrite andb_true_iff, !N.eqb_eq. split.
  - intros [-> ->]. reflexivity.
  - intros H. inversion H. split; reflexivity.
Qed.

(* ---- the store invariant --------------------------------------------------------- *)
Definition inv (s : state) : Prop :=
  cache_ok (fill_hdr (s_db s)) (c_hdr s) /\
  cache_ok (fill_txs (s_db s)) (c_txs s) /\
  cache_ok (fill_hashes (s_db s)) (c_hashes s) /\
  cache_ok (fill_main (s_db s)) (c_main s) /\
  cache_ok (fill_cp (s_db s)) (c_cp s).

Lemma inv_new_store d : inv (new_store d).
Proof. repeat split; apply cache_ok_nil. Qed.

Ltac fin := repeat match goal with |- _ /\ _ => split end; try reflexivity; try assumption.

Section Lookups.
  Variable cp : caps.

  Lemma lk_hdr_ok s h s' r :
    inv s -> lk_hdr cp s h = (s', r) -> r = fill_hdr (s_db s) h /\ inv s' /\ s_db s' = s_db s.
  Proof.
    intros (H1 & H2 & H3 & H4 & H5). unfold lk_hdr.
    destruct (cached_lookup _ _ _ _ _) as [c r0] eqn:E. intros X. inversion X; subst.
    destruct (cached_lookup_ok N.eqb Neqb_eq _ _ _ _ _ _ H1 E) as [-> Hc].
    split; [reflexivity |]. split; [| reflexivity]. repeat split; assumption.
  Qed.

  Lemma lk_txs_ok s h s' r :
    inv s -> lk_txs cp s h = (s', r) -> r = fill_txs (s_db s) h /\ inv s' /\ s_db s' = s_db s.
  Proof.
    intros (H1 & H2 & H3 & H4 & H5). unfold lk_txs.
    destruct (cached_lookup _ _ _ _ _) as [c r0] eqn:E. intros X. inversion X; subst.
    destruct (cached_lookup_ok N.eqb Neqb_eq _ _ _ _ _ _ H2 E) as [-> Hc].
    split; [reflexivity |]. split; [| reflexivity]. repeat split; assumption.
  Qed.

  Lemma lk_hashes_ok s h s' r :
    inv s -> lk_hashes cp s h = (s', r) -> r = fill_hashes (s_db s) h /\ inv s' /\ s_db s' = s_db s.
  Proof.
    intros (H1 & H2 & H3 & H4 & H5). unfold lk_hashes.
    destruct (cached_lookup _ _ _ _ _) as [c r0] eqn:E. intros X. inversion X; subst.
    destruct (cached_lookup_ok N.eqb Neqb_eq _ _ _ _ _ _ H3 E) as [-> Hc].
    split; [reflexivity |]. split; [| reflexivity]. repeat split; assumption.
  Qed.

  Lemma lk_main_ok s h s' r :
    inv s -> lk_main cp s h = (s', r) -> r = fill_main (s_db s) h /\ inv s' /\ s_db s' = s_db s.
  Proof.
    intros (H1 & H2 & H3 & H4 & H5). unfold lk_main.
    destruct (cached_lookup _ _ _ _ _) as [c r0] eqn:E. intros X. inversion X; subst.
    destruct (cached_lookup_ok N.eqb Neqb_eq _ _ _ _ _ _ H4 E) as [-> Hc].
    split; [reflexivity |]. split; [| reflexivity]. repeat split; assumption.
  Qed.

  Lemma lk_cp_ok s k s' r :
    inv s -> lk_cp cp s k = (s', r) -> r = fill_cp (s_db s) k /\ inv s' /\ s_db s' = s_db s.
  Proof.
    intros (H1 & H2 & H3 & H4 & H5). unfold lk_cp.
    destruct (cached_lookup _ _ _ _ _) as [c r0] eqn:E. intros X. inversion X; subst.
    destruct (cached_lookup_ok cpkey_eqb cpkey_eqb_eq _ _ _ _ _ _ H5 E) as [-> Hc].
    split; [reflexivity |]. split; [| reflexivity]. repeat split; assumption.
  Qed.

  Lemma load_ok l : forall s s' r,
    inv s -> load_checkpoints cp s l = (s', r) ->
    r = spec_load (s_db s) l /\ inv s' /\ s_db s' = s_db s.
  Proof.
    induction l as [| c l IH]; intros s s' r Hi; cbn.
    - intros X. inversion X; subst. fin.
    - destruct (lk_hdr cp s (chash c)) as [s1 ohd] eqn:E1.
      destruct (lk_hdr_ok _ _ _ _ Hi E1) as (-> & Hi1 & D1).
      destruct (fill_hdr (s_db s) (chash c)) as [hd |].
      + destruct (load_checkpoints cp s1 l) as [s2 r2] eqn:E2.
        destruct (IH _ _ _ Hi1 E2) as (-> & Hi2 & D2). rewrite D1 in *.
        destruct (spec_load (s_db s) l); intros X; inversion X; subst; fin.
      + intros X. inversion X; subst. fin.
  Qed.

  (* ---- one operation of the repaired store refines the cache-free store ---------- *)
  Lemma step_ok s o s' r :
    inv s -> step cp true s o = (s', r) ->
    r = spec_read (s_db s) o /\ s_db s' = spec_write (s_db s) o /\ inv s'.
  Proof.
    intros Hi. destruct o; cbn [step spec_read spec_write].
    - (* SaveBlock *)
      unfold save_block.
      destruct (lk_hashes cp s (hheight hd)) as [s1 ohs] eqn:E1.
      destruct (lk_hashes_ok _ _ _ _ Hi E1) as (-> & Hi1 & D1).
      rewrite D1.
      destruct Hi1 as (H1 & H2 & H3 & H4 & H5).
      destruct (fill_hashes (s_db s) (hheight hd)) as [hs |] eqn:Ehs;
        [| unfold fill_hashes in Ehs; destruct (look (hheight hd) (d_hashes (s_db s))); discriminate].
      intros X. inversion X; subst s' r. clear X.
      split; [reflexivity |]. split; [reflexivity |].
      destruct s1 as [d ch ct chs cm cc]. cbn in *. subst d.
      repeat split; cbn.
      + apply (cache_ok_change N.eqb Neqb_eq) with (fill := fill_hdr (s_db s)); [| exact H1].
        intros k' Hk. unfold fill_hdr, look, ins. cbn. apply (alookup_ainsert_other N.eqb Neqb_eq N.ltb). exact Hk.
      + apply (cache_ok_change N.eqb Neqb_eq) with (fill := fill_txs (s_db s)); [| exact H2].
        intros k' Hk. unfold fill_txs, look, ins. cbn. apply (alookup_ainsert_other N.eqb Neqb_eq N.ltb). exact Hk.
      + apply (cache_ok_change N.eqb Neqb_eq) with (fill := fill_hashes (s_db s)); [| exact H3].
        intros k' Hk. unfold fill_hashes, look, ins. cbn.
        rewrite (alookup_ainsert_other N.eqb Neqb_eq N.ltb) by exact Hk. reflexivity.
      + exact H4.
      + exact H5.
    - (* SaveBlockHeader *)
      unfold save_header. intros X. inversion X; subst s' r. clear X.
      split; [reflexivity |]. split; [reflexivity |].
      destruct Hi as (H1 & H2 & H3 & H4 & H5). destruct s as [d ch ct chs cm cc]. cbn in *.
      repeat split; cbn; try assumption.
      apply (cache_ok_change N.eqb Neqb_eq) with (fill := fill_hdr d); [| exact H1].
      intros k' Hk. unfold fill_hdr, look, ins. cbn. apply (alookup_ainsert_other N.eqb Neqb_eq N.ltb). exact Hk.
    - (* SaveChainStatus *)
      unfold save_chain_status. intros X. inversion X; subst s' r. clear X.
      split; [reflexivity |]. split; [reflexivity |].
      destruct Hi as (H1 & H2 & H3 & H4 & H5). destruct s as [d ch ct chs cm cc]. cbn in *.
      repeat split; cbn; try assumption.
      apply (cache_ok_change_list N.eqb Neqb_eq fst l) with (fill := fill_main d); [| exact H4].
      intros k' Hk. unfold fill_main, look, ins. cbn.
      apply (alookup_fold_insert N.eqb Neqb_eq N.ltb fst snd). exact Hk.
    - (* SaveCheckpoints *)
      unfold save_checkpoints. intros X. inversion X; subst s' r. clear X.
      split; [reflexivity |]. split; [reflexivity |].
      destruct Hi as (H1 & H2 & H3 & H4 & H5). destruct s as [d ch ct chs cm cc]. cbn in *.
      repeat split; cbn; try assumption.
      apply (cache_ok_change_list cpkey_eqb cpkey_eqb_eq (fun c => (cheight c, chash c)) l)
        with (fill := fill_cp d); [| exact H5].
      intros k' Hk. unfold fill_cp. cbn.
      apply (alookup_fold_insert cpkey_eqb cpkey_eqb_eq cpkey_ltb (fun c => (cheight c, chash c)) strip). exact Hk.
    - (* GetBlockHeader *)
      destruct (lk_hdr cp s h) as [s1 o] eqn:E1.
      destruct (lk_hdr_ok _ _ _ _ Hi E1) as (-> & Hi1 & D1).
      intros X. inversion X; subst. fin.
    - (* BlockExist *)
      destruct (lk_hdr cp s h) as [s1 o] eqn:E1.
      destruct (lk_hdr_ok _ _ _ _ Hi E1) as (-> & Hi1 & D1).
      intros X. inversion X; subst. fin.
    - (* GetBlockTransactions *)
      destruct (lk_txs cp s h) as [s1 o] eqn:E1.
      destruct (lk_txs_ok _ _ _ _ Hi E1) as (-> & Hi1 & D1).
      intros X. inversion X; subst. fin.
    - (* GetBlock *)
      unfold get_block.
      destruct (lk_hdr cp s h) as [s1 o] eqn:E1.
      destruct (lk_hdr_ok _ _ _ _ Hi E1) as (-> & Hi1 & D1).
      destruct (fill_hdr (s_db s) h) as [hd |].
      + destruct (lk_txs cp s1 h) as [s2 o2] eqn:E2.
        destruct (lk_txs_ok _ _ _ _ Hi1 E2) as (-> & Hi2 & D2). rewrite D1 in *.
        destruct (fill_txs (s_db s) h); intros X; inversion X; subst; fin.
      + intros X. inversion X; subst. fin.
    - (* GetBlockHashesByHeight *)
      destruct (lk_hashes cp s ht) as [s1 o] eqn:E1.
      destruct (lk_hashes_ok _ _ _ _ Hi E1) as (-> & Hi1 & D1).
      intros X. inversion X; subst. fin.
    - (* GetMainChainHash *)
      destruct (lk_main cp s ht) as [s1 o] eqn:E1.
      destruct (lk_main_ok _ _ _ _ Hi E1) as (-> & Hi1 & D1).
      intros X. inversion X; subst. fin.
    - (* GetCheckpoint *)
      unfold get_checkpoint, spec_checkpoint.
      destruct (lk_hdr cp s h) as [s1 o] eqn:E1.
      destruct (lk_hdr_ok _ _ _ _ Hi E1) as (-> & Hi1 & D1).
      destruct (fill_hdr (s_db s) h) as [hd |].
      + destruct (lk_cp cp s1 (hheight hd, h)) as [s2 o2] eqn:E2.
        destruct (lk_cp_ok _ _ _ _ Hi1 E2) as (-> & Hi2 & D2). rewrite D1 in *.
        destruct (fill_cp (s_db s) (hheight hd, h)); intros X; inversion X; subst; fin.
      + intros X. inversion X; subst. fin.
    - (* GetCheckpointsByHeight *)
      unfold get_checkpoints_by_height.
      destruct (load_checkpoints cp s (cps_at_height (s_db s) ht)) as [s1 o] eqn:E1.
      destruct (load_ok _ _ _ _ Hi E1) as (-> & Hi1 & D1).
      intros X. inversion X; subst. fin.
    - (* CheckpointsFromNode *)
      unfold checkpoints_from_node.
      destruct (cps_from (s_db s) (ht, h)) as [| c0 l].
      + intros X. inversion X; subst. fin.
      + destruct (load_checkpoints cp s l) as [s1 o] eqn:E1.
        destruct (load_ok _ _ _ _ Hi E1) as (-> & Hi1 & D1).
        intros X. inversion X; subst. fin.
  Qed.

  Lemma run_ok ops : forall s s' rs,
    inv s -> run cp true s ops = (s', rs) ->
    rs = snd (spec_run (s_db s) ops) /\ s_db s' = fst (spec_run (s_db s) ops) /\ inv s'.
  Proof.
    induction ops as [| o ops IH]; intros s s' rs Hi; cbn.
    - intros X. inversion X; subst. fin.
    - destruct (step cp true s o) as [s1 r] eqn:E1.
      destruct (step_ok _ _ _ _ Hi E1) as (-> & D1 & Hi1).
      destruct (run cp true s1 ops) as [s2 rs2] eqn:E2.
      destruct (IH _ _ _ Hi1 E2) as (-> & D2 & Hi2).
      unfold spec_step. rewrite D1 in *.
      destruct (spec_run (spec_write (s_db s) o) ops) as [d2 rs2] eqn:E3. cbn in *.
      intros X. inversion X; subst. fin.
  Qed.

  (* ---- statements ------------------------------------------------------------------ *)

  (* every getter returns what the cache-free store returns, after any history *)
  Lemma transparent_from_inv s ops :
    inv s ->
    snd (run_fixed cp s ops) = snd (spec_run (s_db s) ops) /\
    s_db (fst (run_fixed cp s ops)) = fst (spec_run (s_db s) ops) /\
    inv (fst (run_fixed cp s ops)).
  Proof.
    intros Hi. unfold run_fixed. destruct (run cp true s ops) as [s' rs] eqn:E.
    exact (run_ok _ _ _ _ Hi E).
  Qed.

  Lemma transparent d ops :
    snd (run_fixed cp (new_store d) ops) = snd (spec_run d ops) /\
    s_db (fst (run_fixed cp (new_store d) ops)) = fst (spec_run d ops).
  Proof.
    destruct (transparent_from_inv (new_store d) ops (inv_new_store d)) as (H1 & H2 & _).
    split; assumption.
  Qed.

  Lemma step_inv s o : inv s -> inv (fst (step_fixed cp s o)).
  Proof.
    intros Hi. unfold step_fixed. destruct (step cp true s o) as [s' r] eqn:E.
    exact (proj2 (proj2 (step_ok _ _ _ _ Hi E))).
  Qed.

  Lemma step_transparent s o :
    inv s -> snd (step_fixed cp s o) = spec_read (s_db s) o /\
             s_db (fst (step_fixed cp s o)) = spec_write (s_db s) o.
  Proof.
    intros Hi. unfold step_fixed. destruct (step cp true s o) as [s' r] eqn:E.
    destruct (step_ok _ _ _ _ Hi E) as (H1 & H2 & _). split; assumption.
  Qed.

  Lemma read_keeps_db d o : is_read o = true -> spec_write d o = d.
  Proof. destruct o; cbn; intros H; try discriminate; reflexivity. Qed.

  Lemma reads_keep_db rs : forall d, Forall (fun o => is_read o = true) rs -> fst (spec_run d rs) = d.
  Proof.
    induction rs as [| o rs IH]; intros d H; cbn; [reflexivity |].
    inversion H; subst. unfold spec_step. rewrite (read_keeps_db _ _ H2).
    specialize (IH d H3). destruct (spec_run d rs) as [d2 r2]. cbn in *. exact IH.
  Qed.

  (* reads do not write the database *)
  Lemma reads_keep_store_db s rs :
    inv s -> Forall (fun o => is_read o = true) rs -> s_db (fst (run_fixed cp s rs)) = s_db s.
  Proof.
    intros Hi H. destruct (transparent_from_inv s rs Hi) as (_ & D & _). rewrite D.
    apply reads_keep_db. exact H.
  Qed.

  (* any number of reads, of any kind, change no later result *)
  Lemma reads_change_nothing s rs rest :
    inv s -> Forall (fun o => is_read o = true) rs ->
    snd (run_fixed cp (fst (run_fixed cp s rs)) rest) = snd (run_fixed cp s rest).
  Proof.
    intros Hi H.
    destruct (transparent_from_inv s rs Hi) as (_ & D & Hi').
    destruct (transparent_from_inv _ rest Hi') as (R1 & _ & _).
    destruct (transparent_from_inv s rest Hi) as (R2 & _ & _).
    rewrite R1, R2, D, (reads_keep_db rs _ H). reflexivity.
  Qed.

  (* a read repeated immediately returns the same value *)
  Lemma read_repeat s o :
    inv s -> is_read o = true ->
    snd (step_fixed cp (fst (step_fixed cp s o)) o) = snd (step_fixed cp s o).
  Proof.
    intros Hi H.
    destruct (step_transparent s o Hi) as (R1 & D1).
    destruct (step_transparent _ o (step_inv s o Hi)) as (R2 & _).
    rewrite R2, R1, D1, (read_keeps_db _ _ H). reflexivity.
  Qed.

  Lemma run_app ops1 : forall fx s ops2,
    run cp fx s (ops1 ++ ops2) =
    (fst (run cp fx (fst (run cp fx s ops1)) ops2),
     snd (run cp fx s ops1) ++ snd (run cp fx (fst (run cp fx s ops1)) ops2)).
  Proof.
    induction ops1 as [| o ops1 IH]; intros fx s ops2; cbn.
    - destruct (run cp fx s ops2); reflexivity.
    - destruct (step cp fx s o) as [s1 r]. rewrite IH.
      destruct (run cp fx s1 ops1) as [s2 rs]. cbn. reflexivity.
  Qed.

  Lemma run_length ops : forall fx s, length (snd (run cp fx s ops)) = length ops.
  Proof.
    induction ops as [| o ops IH]; intros fx s; cbn; [reflexivity |].
    destruct (step cp fx s o) as [s1 r]. specialize (IH fx s1).
    destruct (run cp fx s1 ops) as [s2 rs]. cbn in *. rewrite IH. reflexivity.
  Qed.

  (* the history form: inserting reads anywhere into a history changes no result
     of the operations around them *)
  Lemma inserted_reads d ops1 rs ops2 :
    Forall (fun o => is_read o = true) rs ->
    firstn (length ops1) (snd (run_fixed cp (new_store d) (ops1 ++ rs ++ ops2))) =
      snd (run_fixed cp (new_store d) ops1) /\
    skipn (length ops1 + length rs) (snd (run_fixed cp (new_store d) (ops1 ++ rs ++ ops2))) =
      skipn (length ops1) (snd (run_fixed cp (new_store d) (ops1 ++ ops2))).
  Proof.
    intros H. unfold run_fixed.
    rewrite (run_app ops1 true (new_store d) (rs ++ ops2)).
    rewrite (run_app ops1 true (new_store d) ops2). cbn [snd].
    set (s1 := fst (run cp true (new_store d) ops1)).
    assert (Hi1 : inv s1).
    { destruct (transparent_from_inv (new_store d) ops1 (inv_new_store d)) as (_ & _ & X). exact X. }
    pose proof (run_length ops1 true (new_store d)) as L1.
    split.
    - rewrite firstn_app, L1, Nat.sub_diag. cbn. rewrite app_nil_r.
      rewrite <- L1 at 1. apply firstn_all.
    - rewrite (run_app rs true s1 ops2). cbn [snd].
      rewrite skipn_app, L1.
      replace (length ops1 + length rs - length ops1) with (length rs) by lia.
      rewrite (skipn_all2 (n := length ops1 + length rs)) by (rewrite L1; lia). cbn [app].
      rewrite skipn_app, (run_length rs true s1), Nat.sub_diag. cbn [skipn].
      rewrite (skipn_all2 (n := length rs)) by (rewrite run_length; lia). cbn [app].
      rewrite skipn_app, L1, Nat.sub_diag. cbn [skipn].
      rewrite (skipn_all2 (n := length ops1)) by (rewrite L1; lia). cbn [app].
      exact (reads_change_nothing s1 rs ops2 Hi1 H).
  Qed.

  (* ---- LRU bound: no cache ever holds more entries than its capacity --------------- *)
  Definition caches_bounded (s : state) : Prop :=
    bounded (cap_hdr cp) (c_hdr s) /\ bounded (cap_txs cp) (c_txs s) /\
    bounded (cap_hashes cp) (c_hashes s) /\ bounded (cap_main cp) (c_main s) /\
    bounded (cap_cp cp) (c_cp s).

  Lemma bounded_nil {K V} cap : @bounded K V cap [].
  Proof. intros _. cbn. lia. Qed.

  Lemma lk_hdr_bounded s h s' r : caches_bounded s -> lk_hdr cp s h = (s', r) -> caches_bounded s'.
  Proof.
    intros (H1 & H2 & H3 & H4 & H5). unfold lk_hdr.
    destruct (cached_lookup _ _ _ _ _) as [c r0] eqn:E. intros X. inversion X; subst.
    pose proof (bounded_lookup N.eqb _ _ _ _ _ _ H1 E). repeat split; assumption.
  Qed.
  Lemma lk_txs_bounded s h s' r : caches_bounded s -> lk_txs cp s h = (s', r) -> caches_bounded s'.
  Proof.
    intros (H1 & H2 & H3 & H4 & H5). unfold lk_txs.
    destruct (cached_lookup _ _ _ _ _) as [c r0] eqn:E. intros X. inversion X; subst.
    pose proof (bounded_lookup N.eqb _ _ _ _ _ _ H2 E). repeat split; assumption.
  Qed.
  Lemma lk_hashes_bounded s h s' r : caches_bounded s -> lk_hashes cp s h = (s', r) -> caches_bounded s'.
  Proof.
    intros (H1 & H2 & H3 & H4 & H5). unfold lk_hashes.
    destruct (cached_lookup _ _ _ _ _) as [c r0] eqn:E. intros X. inversion X; subst.
    pose proof (bounded_lookup N.eqb _ _ _ _ _ _ H3 E). repeat split; assumption.
  Qed.
  Lemma lk_main_bounded s h s' r : caches_bounded s -> lk_main cp s h = (s', r) -> caches_bounded s'.
  Proof.
    intros (H1 & H2 & H3 & H4 & H5). unfold lk_main.
    destruct (cached_lookup _ _ _ _ _) as [c r0] eqn:E. intros X. inversion X; subst.
    pose proof (bounded_lookup N.eqb _ _ _ _ _ _ H4 E). repeat split; assumption.
  Qed.
  Lemma lk_cp_bounded s h s' r : caches_bounded s -> lk_cp cp s h = (s', r) -> caches_bounded s'.
  Proof.
    intros (H1 & H2 & H3 & H4 & H5). unfold lk_cp.
    destruct (cached_lookup _ _ _ _ _) as [c r0] eqn:E. intros X. inversion X; subst.
    pose proof (bounded_lookup cpkey_eqb _ _ _ _ _ _ H5 E). repeat split; assumption.
  Qed.

  Lemma load_bounded l : forall s s' r,
    caches_bounded s -> load_checkpoints cp s l = (s', r) -> caches_bounded s'.
  Proof.
    induction l as [| c l IH]; intros s s' r Hb; cbn.
    - intros X. inversion X; subst. exact Hb.
    - destruct (lk_hdr cp s (chash c)) as [s1 ohd] eqn:E1.
      pose proof (lk_hdr_bounded _ _ _ _ Hb E1) as Hb1.
      destruct ohd.
      + destruct (load_checkpoints cp s1 l) as [s2 r2] eqn:E2.
        pose proof (IH _ _ _ Hb1 E2). destruct r2; intros X; inversion X; subst; assumption.
      + intros X. inversion X; subst. assumption.
  Qed.

  Lemma step_bounded s o : caches_bounded s -> caches_bounded (fst (step_fixed cp s o)).
  Proof.
    intros Hb. unfold step_fixed. destruct o; cbn [step].
    - unfold save_block. destruct (lk_hashes cp s (hheight hd)) as [s1 ohs] eqn:E1.
      pose proof (lk_hashes_bounded _ _ _ _ Hb E1) as (H1 & H2 & H3 & H4 & H5).
      destruct ohs; cbn; [| repeat split; assumption].
      repeat split; cbn; try assumption; apply bounded_remove; assumption.
    - destruct Hb as (H1 & H2 & H3 & H4 & H5). cbn.
      repeat split; cbn; try assumption. apply bounded_remove; assumption.
    - destruct Hb as (H1 & H2 & H3 & H4 & H5). cbn.
      repeat split; cbn; try assumption. apply (bounded_fold_remove N.eqb fst). assumption.
    - destruct Hb as (H1 & H2 & H3 & H4 & H5). cbn.
      repeat split; cbn; try assumption.
      apply (bounded_fold_remove cpkey_eqb (fun c => (cheight c, chash c))). assumption.
    - destruct (lk_hdr cp s h) as [s1 r] eqn:E. cbn. eapply lk_hdr_bounded; eassumption.
    - destruct (lk_hdr cp s h) as [s1 r] eqn:E. cbn. eapply lk_hdr_bounded; eassumption.
    - destruct (lk_txs cp s h) as [s1 r] eqn:E. cbn. eapply lk_txs_bounded; eassumption.
    - unfold get_block. destruct (lk_hdr cp s h) as [s1 r] eqn:E.
      pose proof (lk_hdr_bounded _ _ _ _ Hb E) as Hb1. destruct r; [| exact Hb1].
      destruct (lk_txs cp s1 h) as [s2 r2] eqn:E2.
      pose proof (lk_txs_bounded _ _ _ _ Hb1 E2). destruct r2; assumption.
    - destruct (lk_hashes cp s ht) as [s1 r] eqn:E. cbn. eapply lk_hashes_bounded; eassumption.
    - destruct (lk_main cp s ht) as [s1 r] eqn:E. cbn. eapply lk_main_bounded; eassumption.
    - unfold get_checkpoint. destruct (lk_hdr cp s h) as [s1 r] eqn:E.
      pose proof (lk_hdr_bounded _ _ _ _ Hb E) as Hb1. destruct r as [hd |]; [| exact Hb1].
      destruct (lk_cp cp s1 (hheight hd, h)) as [s2 r2] eqn:E2.
      pose proof (lk_cp_bounded _ _ _ _ Hb1 E2). destruct r2; assumption.
    - unfold get_checkpoints_by_height.
      destruct (load_checkpoints cp s (cps_at_height (s_db s) ht)) as [s1 r] eqn:E. cbn.
      eapply load_bounded; eassumption.
    - unfold checkpoints_from_node. destruct (cps_from (s_db s) (ht, h)) as [| c0 l]; [exact Hb |].
      destruct (load_checkpoints cp s l) as [s1 r] eqn:E. cbn. eapply load_bounded; eassumption.
  Qed.

  Lemma run_bounded ops : forall s, caches_bounded s -> caches_bounded (fst (run_fixed cp s ops)).
  Proof.
    unfold run_fixed. induction ops as [| o ops IH]; intros s Hb; cbn; [exact Hb |].
    pose proof (step_bounded s o Hb) as Hb1. unfold step_fixed in Hb1.
    destruct (step cp true s o) as [s1 r]. specialize (IH s1 Hb1).
    destruct (run cp true s1 ops) as [s2 rs]. exact IH.
  Qed.

  Lemma new_store_bounded d : caches_bounded (new_store d).
  Proof. repeat split; apply bounded_nil. Qed.

  Lemma reachable_bounded d ops : caches_bounded (fst (run_fixed cp (new_store d) ops)).
  Proof. apply run_bounded. apply new_store_bounded. Qed.

  Lemma reads_change_nothing_and_keep_db s rs rest :
    inv s -> Forall (fun o => is_read o = true) rs ->
    snd (run_fixed cp (fst (run_fixed cp s rs)) rest) = snd (run_fixed cp s rest) /\
    s_db (fst (run_fixed cp s rs)) = s_db s.
  Proof.
    intros Hi H. split; [exact (reads_change_nothing s rs rest Hi H) | exact (reads_keep_store_db s rs Hi H)].
  Qed.
End Lookups.

(* ---- the statements are not vacuous -------------------------------------------------
   A history with capacity 1 everywhere (every second lookup evicts), a header
   rewritten while cached, a height re-pointed while cached, a checkpoint
   rewritten while cached and a checkpoint read three times. *)
Definition ex_caps : caps := mkCaps 1 1 1 1 1.
Local Open Scope N_scope.
Definition ex_ops : list op :=
  [ OSaveBlock 1 (mkH 7 1 [5]) [10; 11]; OSaveBlock 2 (mkH 7 2 []) [12];
    OSaveCheckpoints [mkC 7 1 1 3 [9]]; OGetHeader 1; OGetHeader 2; OGetHeader 1;
    OGetCheckpoint 1; OGetCheckpoint 1; OGetCheckpoint 1;
    OSaveHeader 1 (mkH 7 4 [5; 6]); OGetHeader 1; OGetCheckpoint 1;
    OSaveChainStatus [(7, 1)]; OGetMain 7; OSaveChainStatus [(7, 2)]; OGetMain 7;
    OSaveCheckpoints [mkC 7 1 2 3 []]; OGetCheckpoint 1; OGetCheckpointsByHeight 7;
    OSaveBlock 1 (mkH 7 8 []) [13]; OGetBlock 1; OGetHashes 7; OCheckpointsFromNode 7 1 ].

Example ex_run :
  snd (run_fixed ex_caps (new_store empty_db) ex_ops) =
  [ RUnit; RUnit; RUnit; RHeader (mkH 7 1 [5]); RHeader (mkH 7 2 []); RHeader (mkH 7 1 [5]);
    RCp (mkC 7 1 1 3 [5]); RCp (mkC 7 1 1 3 [5]); RCp (mkC 7 1 1 3 [5]);
    RUnit; RHeader (mkH 7 4 [5; 6]); RCp (mkC 7 1 1 3 [5; 6]);
    RUnit; RMain 1; RUnit; RMain 2;
    RUnit; RCp (mkC 7 1 2 3 [5; 6]); RCps [mkC 7 1 2 3 [5; 6]];
    RUnit; RBlock (mkH 7 8 []) [13]; RHashes [1; 2; 1]; RCps [mkC 7 1 2 3 []] ].
Proof. vm_compute. reflexivity. Qed.
