(* C21 — proofs about the fill / invalidate protocol of C21/Conc.v. *)
From Coq Require Import List NArith Bool.
From C21 Require Import Conc.
Import ListNotations.
Local Open Scope N_scope.

(* ---- the invariant ------------------------------------------------------------------------

   (1) a cached value is the database value, or an invalidation of its key is still owed;
   (2) the value held by a fill in flight is the database value, or a writer whose database
       write of that key went by during the fill still owes its invalidation. *)

Definition pend_on (s : cst) (k : ckey) : Prop := exists t, In (t, k) (c_pend s).

Definition cinv (s : cst) : Prop :=
  (forall k v, c_cache s k = Some v -> v = c_db s k \/ pend_on s k) /\
  (forall f, In f (c_fills s) ->
     f_v f = c_db s (f_k f) \/ exists t, In t (f_crossed f) /\ In (t, f_k f) (c_pend s)).

Lemma take_fill_spec : forall t l f r,
  take_fill t l = Some (f, r) -> In f l /\ (forall g, In g r -> In g l).
Proof.
  induction l as [|a l IH]; intros f r H; simpl in H.
  - discriminate.
  - destruct (f_t a =? t).
    + injection H as <- <-. split; [left; reflexivity | intros g Hg; right; exact Hg].
    + destruct (take_fill t l) as [[g r']|] eqn:E; [|discriminate].
      injection H as <- <-. destruct (IH g r' eq_refl) as [Hin Hincl]. split.
      * right; exact Hin.
      * intros h [Hh|Hh]; [left; exact Hh | right; apply Hincl; exact Hh].
Qed.

Lemma mem_tid_in : forall t l, In t l -> mem_tid t l = true.
Proof.
  intros t l H. unfold mem_tid. apply existsb_exists. exists t. split; [exact H | apply N.eqb_refl].
Qed.

Lemma cinv_init : forall d, cinv (cinit d).
Proof.
  intros d. split.
  - intros k v H. discriminate.
  - intros f [].
Qed.

Lemma cinv_step : forall s x, cinv s -> cstep_ok s x = true -> cinv (cstep_run s x).
Proof.
  intros s x [H1 H2] Hok. destruct x as [t k | t | t k v | t k].
  - (* RB *) split; simpl.
    + exact H1.
    + intros f [<-|Hf]; [left; reflexivity | apply H2; exact Hf].
  - (* RE *) unfold cstep_run. destruct (take_fill t (c_fills s)) as [[f rest]|] eqn:E; [|split; assumption].
    destruct (take_fill_spec _ _ _ _ E) as [Hin Hincl]. split; simpl.
    + intros k v Hc. destruct (f_v f =? 0).
      * apply H1; exact Hc.
      * unfold upd in Hc. destruct (k =? f_k f) eqn:Ek.
        -- apply N.eqb_eq in Ek. subst k. injection Hc as <-.
           destruct (H2 f Hin) as [L|[t' [A B]]]; [left; exact L | right; exists t'; exact B].
        -- apply H1; exact Hc.
    + intros g Hg. apply H2. apply Hincl. exact Hg.
  - (* WS *) split; simpl.
    + intros k0 v0 Hc. unfold upd. destruct (k0 =? k) eqn:Ek.
      * right. exists t. left. apply N.eqb_eq in Ek. subst k0. reflexivity.
      * destruct (H1 k0 v0 Hc) as [L|[t' Hp]]; [left; exact L | right; exists t'; right; exact Hp].
    + intros g Hg. apply in_map_iff in Hg. destruct Hg as [f [Hfg Hf]]. unfold cross in Hfg.
      destruct (f_k f =? k) eqn:Ek.
      * subst g. simpl. right. exists t. split; [left; reflexivity|]. left.
        apply N.eqb_eq in Ek. rewrite Ek. reflexivity.
      * subst g. unfold upd. rewrite Ek.
        destruct (H2 f Hf) as [L|[t' [A B]]]; [left; exact L | right; exists t'; split; [exact A | right; exact B]].
  - (* WR *) simpl in Hok. split; simpl.
    + intros k0 v0 Hc. unfold upd in Hc. destruct (k0 =? k) eqn:Ek; [discriminate|].
      destruct (H1 k0 v0 Hc) as [L|[t' Hp]]; [left; exact L|]. right. exists t'.
      apply filter_In. split; [exact Hp|]. unfold is_pend. simpl. rewrite Ek. rewrite andb_false_r. reflexivity.
    + intros f Hf. destruct (H2 f Hf) as [L|[t' [A B]]]; [left; exact L|]. right. exists t'.
      split; [exact A|]. apply filter_In. split; [exact B|]. unfold is_pend. simpl.
      destruct (t' =? t) eqn:Et; [|reflexivity]. destruct (f_k f =? k) eqn:Ek; [|reflexivity].
      apply N.eqb_eq in Et. subst t'.
      assert (Hs : negb (straddles t k f) = true) by (apply (proj1 (forallb_forall _ _) Hok); exact Hf).
      unfold straddles in Hs. rewrite Ek, (mem_tid_in _ _ A) in Hs. discriminate.
Qed.

Lemma cinv_run : forall l s, cinv s -> guarded s l = true -> cinv (crun s l).
Proof.
  induction l as [|x l IH]; intros s Hi Hg; simpl in *.
  - exact Hi.
  - apply andb_prop in Hg. destruct Hg as [Hx Hl]. apply IH; [apply cinv_step; assumption | exact Hl].
Qed.

(* when no invalidation is owed any more, the invariant is transparency of every key *)
Lemma cinv_quiescent : forall s, cinv s -> c_pend s = [] -> forall k, key_transparent s k.
Proof.
  intros s [H1 _] Hp k v Hc. destruct (H1 k v Hc) as [L|[t Ht]]; [exact L|]. rewrite Hp in Ht. destruct Ht.
Qed.

Lemma holds_outside_from : forall s l, cinv s -> guarded s l = true -> c_pend (crun s l) = [] ->
  forall k, key_transparent (crun s l) k.
Proof. intros s l Hi Hg Hp. apply cinv_quiescent; [apply cinv_run; assumption | exact Hp]. Qed.

Lemma holds_outside : forall d l, guarded (cinit d) l = true -> c_pend (crun (cinit d) l) = [] ->
  forall k, key_transparent (crun (cinit d) l) k.
Proof. intros d l. apply holds_outside_from. apply cinv_init. Qed.

(* ---- fills that overlap no write of their key are a special case of the guard ------------ *)

Definition uncrossed (s : cst) : Prop := forall f, In f (c_fills s) -> f_crossed f = [].

Lemma uncrossed_step : forall s x, uncrossed s -> cstep_disjoint s x = true -> uncrossed (cstep_run s x).
Proof.
  intros s x Hu Hd. destruct x as [t k | t | t k v | t k]; unfold uncrossed; simpl.
  - intros f [<-|Hf]; [reflexivity | apply Hu; exact Hf].
  - destruct (take_fill t (c_fills s)) as [[f rest]|] eqn:E; [|exact Hu].
    destruct (take_fill_spec _ _ _ _ E) as [_ Hincl]. simpl. intros g Hg. apply Hu. apply Hincl. exact Hg.
  - simpl in Hd. intros g Hg. apply in_map_iff in Hg. destruct Hg as [f [Hfg Hf]]. unfold cross in Hfg.
    assert (Hk : negb (f_k f =? k) = true) by (apply (proj1 (forallb_forall _ _) Hd); exact Hf).
    destruct (f_k f =? k); [discriminate|]. subst g. apply Hu. exact Hf.
  - exact Hu.
Qed.

Lemma uncrossed_ok : forall s x, uncrossed s -> cstep_ok s x = true.
Proof.
  intros s x Hu. destruct x as [t k | t | t k v | t k]; try reflexivity. simpl.
  apply forallb_forall. intros f Hf. unfold straddles. rewrite (Hu f Hf). simpl. rewrite andb_false_r. reflexivity.
Qed.

Lemma disjoint_guarded : forall l s, uncrossed s -> disjoint_fills s l = true -> guarded s l = true.
Proof.
  induction l as [|x l IH]; intros s Hu Hd; simpl in *.
  - reflexivity.
  - apply andb_prop in Hd. destruct Hd as [Hx Hl]. rewrite (uncrossed_ok s x Hu). simpl.
    apply IH; [apply uncrossed_step; assumption | exact Hl].
Qed.

Lemma holds_nonoverlapping : forall d l, disjoint_fills (cinit d) l = true -> c_pend (crun (cinit d) l) = [] ->
  forall k, key_transparent (crun (cinit d) l) k.
Proof.
  intros d l Hd. apply holds_outside. apply disjoint_guarded; [intros f [] | exact Hd].
Qed.

(* ---- the finding: a complete write inside a fill ------------------------------------------- *)

Lemma stale_fill_run :
  let s := crun (cinit db_one) sched_stale_fill in
  c_pend s = [] /\ c_fills s = [] /\ c_cache s 7 = Some 1 /\ c_db s 7 = 2.
Proof. vm_compute. repeat split; reflexivity. Qed.

Lemma refuted_stale_fill :
  exists d l, let s := crun (cinit d) l in
    c_pend s = [] /\ c_fills s = [] /\ exists k, ~ key_transparent s k.
Proof.
  exists db_one, sched_stale_fill. destruct stale_fill_run as [Hp [Hf [Hc Hd]]].
  split; [exact Hp|]. split; [exact Hf|]. exists 7. intros H. specialize (H 1 Hc). rewrite Hd in H. discriminate.
Qed.

(* the guard excludes exactly that schedule, and not its harmless neighbours (the hypotheses of
   [holds_outside] are satisfiable by schedules with genuine overlap) *)
Example stale_fill_not_guarded : guarded (cinit db_one) sched_stale_fill = false.
Proof. vm_compute. reflexivity. Qed.

Example write_ends_after_fill_guarded :
  guarded (cinit db_one) sched_write_ends_after_fill = true /\
  disjoint_fills (cinit db_one) sched_write_ends_after_fill = false /\
  c_pend (crun (cinit db_one) sched_write_ends_after_fill) = [] /\
  c_cache (crun (cinit db_one) sched_write_ends_after_fill) 7 = None.
Proof. vm_compute. repeat split; reflexivity. Qed.

Example fill_inside_write_guarded :
  guarded (cinit db_one) sched_fill_inside_write = true /\
  c_pend (crun (cinit db_one) sched_fill_inside_write) = [] /\
  c_cache (crun (cinit db_one) sched_fill_inside_write) 7 = None /\
  c_db (crun (cinit db_one) sched_fill_inside_write) 7 = 2.
Proof. vm_compute. repeat split; reflexivity. Qed.

(* why the order "database write, then invalidation" matters: a writer that invalidates first
   leaves a stale entry with no complete write inside any fill (the guard holds); such a writer
   never reaches a state without an owed invalidation, which is how the theorem excludes it *)
Example invalidate_first_is_stale :
  let s := crun (cinit db_one) sched_invalidate_first in
  guarded (cinit db_one) sched_invalidate_first = true /\
  c_cache s 7 = Some 1 /\ c_db s 7 = 2 /\ c_pend s = [(1, 7)].
Proof. vm_compute. repeat split; reflexivity. Qed.
