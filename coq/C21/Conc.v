(* C21 — concurrent use of the store caches: the fill / invalidate protocol of
   database/cache.go and store.go as an interleaving model.  NO PROOFS HERE
   (C21/ConcProofs.v).

   Every cache of the Store follows one protocol per database key [k]:

     reader (lookupX, cache miss)          writer (SaveBlockHeader, SaveBlock,
       RB: v := db.Get k   (fill begins)     SaveChainStatus, SaveCheckpoints)
       RE: lru.Add k v     (fill ends;       WS: db.Set k v / batch.Write
           nothing is added when the         WR: cache remove k
           fill failed: v = absent)

   The Go code takes no lock across RB..RE or WS..WR: the four steps of any
   number of goroutines interleave freely.  A cache hit is the absence of a
   step; singleflight only merges fills of one key (it removes behaviours, it
   orders nothing against a writer), so it is not modelled: the model has every
   behaviour of the code and the theorem about all guarded schedules covers it.

   State: the database, the cache (one optional value per key: LRU eviction
   only removes entries, which can make no cached value wrong), the fills in
   flight -- each holding the value it read and the writers whose database
   write of the same key went by since -- and the invalidations still owed
   (database written, cache entry not yet removed).

   Values are labels of byte strings; [0] is "absent": a fill that finds no
   value fails and adds nothing. *)
From Coq Require Import List NArith Bool.
Import ListNotations.
Local Open Scope N_scope.

Definition ckey := N.
Definition cval := N.
Definition ctid := N.

Inductive cstep :=
| RB (t : ctid) (k : ckey)              (* fill begins: db.Get k *)
| RE (t : ctid)                         (* fill ends: lru.Add *)
| WS (t : ctid) (k : ckey) (v : cval)   (* db.Set k v (one key of a batch.Write) *)
| WR (t : ctid) (k : ckey).             (* cache remove k *)

Record cfill := mkFill { f_t : ctid; f_k : ckey; f_v : cval; f_crossed : list ctid }.

Record cst := mkCst {
  c_db : ckey -> cval;
  c_cache : ckey -> option cval;
  c_fills : list cfill;
  c_pend : list (ctid * ckey) }.

Definition cinit (d : ckey -> cval) : cst := mkCst d (fun _ => None) [] [].

Definition upd {A} (f : ckey -> A) (k : ckey) (a : A) : ckey -> A :=
  fun x => if x =? k then a else f x.

(* the fill of thread t (a thread runs one fill at a time) *)
Fixpoint take_fill (t : ctid) (l : list cfill) : option (cfill * list cfill) :=
  match l with
  | [] => None
  | f :: r =>
      if f_t f =? t then Some (f, r)
      else match take_fill t r with
           | Some (g, r') => Some (g, f :: r')
           | None => None
           end
  end.

Definition mem_tid (t : ctid) (l : list ctid) : bool := existsb (N.eqb t) l.

Definition cross (t : ctid) (k : ckey) (f : cfill) : cfill :=
  if f_k f =? k then mkFill (f_t f) (f_k f) (f_v f) (t :: f_crossed f) else f.

Definition is_pend (t : ctid) (k : ckey) (p : ctid * ckey) : bool := (fst p =? t) && (snd p =? k).

Definition cstep_run (s : cst) (x : cstep) : cst :=
  match x with
  | RB t k => mkCst (c_db s) (c_cache s) (mkFill t k (c_db s k) [] :: c_fills s) (c_pend s)
  | RE t =>
      match take_fill t (c_fills s) with
      | Some (f, rest) =>
          mkCst (c_db s)
                (if f_v f =? 0 then c_cache s else upd (c_cache s) (f_k f) (Some (f_v f)))
                rest (c_pend s)
      | None => s
      end
  | WS t k v => mkCst (upd (c_db s) k v) (c_cache s) (map (cross t k) (c_fills s)) ((t, k) :: c_pend s)
  | WR t k => mkCst (c_db s) (upd (c_cache s) k None) (c_fills s)
                    (filter (fun p => negb (is_pend t k p)) (c_pend s))
  end.

Definition crun (s : cst) (l : list cstep) : cst := fold_left cstep_run l s.

(* The guard.  A schedule is excluded when a cache invalidation [WR t k] finds a
   fill of [k] still in flight that was already in flight at [t]'s database
   write of [k]: a complete write (database write and invalidation) went by
   inside one fill.  Everything else is allowed: fills that overlap other
   fills, writes that overlap writes, a write that begins inside a fill and
   invalidates after it, a fill that runs between a writer's two steps. *)
Definition straddles (t : ctid) (k : ckey) (f : cfill) : bool := (f_k f =? k) && mem_tid t (f_crossed f).

Definition cstep_ok (s : cst) (x : cstep) : bool :=
  match x with
  | WR t k => forallb (fun f => negb (straddles t k f)) (c_fills s)
  | _ => true
  end.

Fixpoint guarded (s : cst) (l : list cstep) : bool :=
  match l with
  | [] => true
  | x :: r => cstep_ok s x && guarded (cstep_run s x) r
  end.

(* the stronger, simpler exclusion: no database write of a key while a fill of that key is in flight *)
Definition cstep_disjoint (s : cst) (x : cstep) : bool :=
  match x with
  | WS t k v => forallb (fun f => negb (f_k f =? k)) (c_fills s)
  | _ => true
  end.

Fixpoint disjoint_fills (s : cst) (l : list cstep) : bool :=
  match l with
  | [] => true
  | x :: r => cstep_disjoint s x && disjoint_fills (cstep_run s x) r
  end.

(* the transparency of one key in a state: what is cached is what the database holds *)
Definition key_transparent (s : cst) (k : ckey) : Prop :=
  forall v, c_cache s k = Some v -> v = c_db s k.

Definition stale_key (s : cst) (k : ckey) : bool :=
  match c_cache s k with
  | Some v => negb (v =? c_db s k)
  | None => false
  end.

(* ---- the schedule of the finding and its neighbours ---------------------------------- *)

(* a header with value 1 is stored, nothing is cached; goroutine 0 reads it, goroutine 1 saves value 2 *)
Definition db_one : ckey -> cval := fun _ => 1.

(* the reader has fetched the old value; the whole save goes by; the reader adds the old value *)
Definition sched_stale_fill : list cstep := [RB 0 7; WS 1 7 2; WR 1 7; RE 0].
(* the save begins inside the fill and invalidates after it: harmless *)
Definition sched_write_ends_after_fill : list cstep := [RB 0 7; WS 1 7 2; RE 0; WR 1 7].
(* the fill runs between the two steps of the save: harmless *)
Definition sched_fill_inside_write : list cstep := [WS 1 7 2; RB 0 7; RE 0; WR 1 7].
(* a writer that invalidates BEFORE it writes (not what the code does): a fill between its two steps is stale *)
Definition sched_invalidate_first : list cstep := [WR 1 7; RB 0 7; RE 0; WS 1 7 2].

(* ---- evaluation of a harness case ------------------------------------------------------- *)

Fixpoint assoc_val (k : ckey) (l : list (ckey * cval)) : cval :=
  match l with
  | [] => 0
  | (k', v) :: r => if k' =? k then v else assoc_val k r
  end.

(* the keys among [probes] whose cached value differs from the database after the schedule,
   starting from the database [init] (key, value label) and empty caches *)
Definition cstale (init : list (ckey * cval)) (l : list cstep) (probes : list ckey) : list ckey :=
  let s := crun (cinit (fun k => assoc_val k init)) l in
  filter (stale_key s) probes.

Fixpoint nlist_eqb (a b : list N) : bool :=
  match a, b with
  | [], [] => true
  | x :: a', y :: b' => (x =? y) && nlist_eqb a' b'
  | _, _ => false
  end.
