(* C21 — store caches are transparent.  EXECUTABLE MODEL ONLY (no proofs).

   Mirrors /repo/database: cache.go (five LRU caches in front of five fill
   functions; github.com/golang/groupcache/lru semantics: Get moves the entry
   to the front, Add of a present key moves it to the front and replaces the
   value, Add of a new key pushes it to the front and evicts the oldest entry
   when the capacity is exceeded, capacity 0 = no limit), store.go (SaveBlock,
   SaveBlockHeader, SaveChainStatus, the getters), store_checkpoint.go
   (GetCheckpoint, GetCheckpointsByHeight, CheckpointsFromNode,
   SaveCheckpoints) and store_geter.go (the package-level getters = the fill
   functions = "reading fresh from the database").

   Hashes are opaque labels (N); the harness numbers the hashes of a case by
   the rank of their byte strings, so the key order of the checkpoint table
   (8-byte big-endian height, then the hash bytes) is the lexicographic order
   on (height, label).  The database is one association list per key prefix
   (the prefixes are distinct bytes, so keys of different tables never meet).

   Cached values are references: one object per cache entry, handed out to
   every reader.  A mutation of such an object is modelled as the replacement
   of the entry's value in place ([lru_update]); its position in the LRU order
   does not change.  [fixed = false] is the pinned tree (GetCheckpoint appends
   the header's suplinks to the cached object; SaveBlock does not invalidate
   the header / transactions it overwrites), [fixed = true] the repaired tree,
   which is what /repo's working tree contains and what the theorems are about. *)
From Coq Require Import List NArith Bool PeanoNat.
Import ListNotations.

(* ---- association lists ------------------------------------------------------ *)
Section AList.
  Context {K V : Type}.
  Variable keqb : K -> K -> bool.
  Variable kltb : K -> K -> bool.

  Fixpoint alookup (k : K) (l : list (K * V)) : option V :=
    match l with
    | [] => None
    | (k1, v1) :: l' => if keqb k k1 then Some v1 else alookup k l'
    end.

  (* Set: replace the value of a present key, else insert in key order (the
     order matters only for iteration over the checkpoint table) *)
  Fixpoint ainsert (k : K) (v : V) (l : list (K * V)) : list (K * V) :=
    match l with
    | [] => [(k, v)]
    | (k1, v1) :: l' =>
      if keqb k k1 then (k, v) :: l'
      else if kltb k k1 then (k, v) :: (k1, v1) :: l'
      else (k1, v1) :: ainsert k v l'
    end.

  (* ---- groupcache/lru ------------------------------------------------------- *)
  Definition lru_remove (k : K) (l : list (K * V)) : list (K * V) :=
    filter (fun e => negb (keqb k (fst e))) l.

  Definition lru_get (k : K) (l : list (K * V)) : option (V * list (K * V)) :=
    match alookup k l with
    | Some v => Some (v, (k, v) :: lru_remove k l)
    | None => None
    end.

  Definition lru_add (cap : nat) (k : K) (v : V) (l : list (K * V)) : list (K * V) :=
    match alookup k l with
    | Some _ => (k, v) :: lru_remove k l
    | None =>
      let l' := (k, v) :: l in
      if negb (cap =? 0) && (cap <? length l') then removelast l' else l'
    end.

  (* mutation of the cached object of key k (no LRU movement) *)
  Fixpoint lru_update (k : K) (v : V) (l : list (K * V)) : list (K * V) :=
    match l with
    | [] => []
    | (k1, v1) :: l' => if keqb k k1 then (k1, v) :: l' else (k1, v1) :: lru_update k v l'
    end.

  (* cache.lookupXxx: hit, or fill from the database and Add; a fill error is
     returned and nothing is cached *)
  Definition cached_lookup (cap : nat) (fill : K -> option V) (k : K) (l : list (K * V))
    : list (K * V) * option V :=
    match lru_get k l with
    | Some (v, l') => (l', Some v)
    | None =>
      match fill k with
      | None => (l, None)
      | Some v => (lru_add cap k v l, Some v)
      end
    end.
End AList.

(* ---- values ----------------------------------------------------------------- *)
(* block header: the fields the store's behaviour depends on (height: checkpoint
   key) and the part not committed to by the hash (witness, suplinks) *)
Record header := mkH { hheight : N; hwit : N; hsup : list N }.

(* checkpoint: height, hash, status, a label for the other persisted fields
   (parent hash, timestamp, rewards, votes), and the in-memory suplinks, which
   the JSON encoding drops *)
Record cpoint := mkC { cheight : N; chash : N; cstatus : N; cvar : N; csup : list N }.

Definition cpkey := (N * N)%type.
Definition cpkey_eqb (a b : cpkey) : bool := N.eqb (fst a) (fst b) && N.eqb (snd a) (snd b).
Definition cpkey_ltb (a b : cpkey) : bool :=
  N.ltb (fst a) (fst b) || (N.eqb (fst a) (fst b) && N.ltb (snd a) (snd b)).

Record db := mkDB {
  d_hdr : list (N * header);       (* blockHeader:hash          *)
  d_txs : list (N * list N);       (* blockTransactions:hash    *)
  d_hashes : list (N * list N);    (* blockHashes:height        *)
  d_main : list (N * N);           (* mainChainIndex:height     *)
  d_cp : list (cpkey * cpoint)     (* checkpoint:height:hash    *)
}.

Definition empty_db : db := mkDB [] [] [] [] [].

Definition look {V} := @alookup N V N.eqb.
Definition ins {V} := @ainsert N V N.eqb N.ltb.

(* ---- reading fresh from the database (store_geter.go, getCheckpointFromDB) --- *)
Definition fill_hdr (d : db) (h : N) : option header := look h (d_hdr d).
Definition fill_txs (d : db) (h : N) : option (list N) := look h (d_txs d).
(* a missing height index reads as the empty list, not as an error *)
Definition fill_hashes (d : db) (ht : N) : option (list N) :=
  match look ht (d_hashes d) with Some l => Some l | None => Some [] end.
Definition fill_main (d : db) (ht : N) : option N := look ht (d_main d).
Definition fill_cp (d : db) (k : cpkey) : option cpoint := alookup cpkey_eqb k (d_cp d).

Definition strip (c : cpoint) : cpoint := mkC (cheight c) (chash c) (cstatus c) (cvar c) [].
Definition with_sup (c : cpoint) (hd : header) : cpoint :=
  mkC (cheight c) (chash c) (cstatus c) (cvar c) (csup c ++ hsup hd).

(* ---- the store ---------------------------------------------------------------- *)
Record caps := mkCaps { cap_hdr : nat; cap_txs : nat; cap_hashes : nat; cap_main : nat; cap_cp : nat }.

(* the constants of cache.go *)
Definition default_caps : caps := mkCaps 2048 1024 1024 1024 256.

Record state := mkSt {
  s_db : db;
  c_hdr : list (N * header);
  c_txs : list (N * list N);
  c_hashes : list (N * list N);
  c_main : list (N * N);
  c_cp : list (cpkey * cpoint)
}.

Definition new_store (d : db) : state := mkSt d [] [] [] [] [].

Definition set_db (s : state) (d : db) : state := mkSt d (c_hdr s) (c_txs s) (c_hashes s) (c_main s) (c_cp s).
Definition set_c_hdr (s : state) x : state := mkSt (s_db s) x (c_txs s) (c_hashes s) (c_main s) (c_cp s).
Definition set_c_txs (s : state) x : state := mkSt (s_db s) (c_hdr s) x (c_hashes s) (c_main s) (c_cp s).
Definition set_c_hashes (s : state) x : state := mkSt (s_db s) (c_hdr s) (c_txs s) x (c_main s) (c_cp s).
Definition set_c_main (s : state) x : state := mkSt (s_db s) (c_hdr s) (c_txs s) (c_hashes s) x (c_cp s).
Definition set_c_cp (s : state) x : state := mkSt (s_db s) (c_hdr s) (c_txs s) (c_hashes s) (c_main s) x.

(* ---- results -------------------------------------------------------------- *)
Inductive res :=
| RUnit                                   (* a Save* returned nil *)
| RErr                                    (* a getter returned an error *)
| RHeader (hd : header)
| RBool (b : bool)
| RTxs (l : list N)
| RBlock (hd : header) (l : list N)
| RHashes (l : list N)
| RMain (h : N)
| RCp (c : cpoint)
| RCps (l : list cpoint).

Inductive op :=
| OSaveBlock (h : N) (hd : header) (txs : list N)   (* h = hash of the block *)
| OSaveHeader (h : N) (hd : header)
| OSaveChainStatus (l : list (N * N))               (* (height, hash) of mainBlockHeaders, in order *)
| OSaveCheckpoints (l : list cpoint)
| OGetHeader (h : N)
| OBlockExist (h : N)
| OGetTxs (h : N)
| OGetBlock (h : N)
| OGetHashes (ht : N)
| OGetMain (ht : N)
| OGetCheckpoint (h : N)
| OGetCheckpointsByHeight (ht : N)
| OCheckpointsFromNode (ht : N) (h : N).

Definition is_read (o : op) : bool :=
  match o with
  | OSaveBlock _ _ _ | OSaveHeader _ _ | OSaveChainStatus _ | OSaveCheckpoints _ => false
  | _ => true
  end.

Section Store.
  Variable cp : caps.

  (* cache.lookupBlockHeader etc. *)
  Definition lk_hdr (s : state) (h : N) : state * option header :=
    let (c, r) := cached_lookup N.eqb (cap_hdr cp) (fill_hdr (s_db s)) h (c_hdr s) in (set_c_hdr s c, r).
  Definition lk_txs (s : state) (h : N) : state * option (list N) :=
    let (c, r) := cached_lookup N.eqb (cap_txs cp) (fill_txs (s_db s)) h (c_txs s) in (set_c_txs s c, r).
  Definition lk_hashes (s : state) (ht : N) : state * option (list N) :=
    let (c, r) := cached_lookup N.eqb (cap_hashes cp) (fill_hashes (s_db s)) ht (c_hashes s) in (set_c_hashes s c, r).
  Definition lk_main (s : state) (ht : N) : state * option N :=
    let (c, r) := cached_lookup N.eqb (cap_main cp) (fill_main (s_db s)) ht (c_main s) in (set_c_main s c, r).
  Definition lk_cp (s : state) (k : cpkey) : state * option cpoint :=
    let (c, r) := cached_lookup cpkey_eqb (cap_cp cp) (fill_cp (s_db s)) k (c_cp s) in (set_c_cp s c, r).

  (* ---- Store methods ---------------------------------------------------------- *)
  Variable fixed : bool.

  (* SaveBlock: read the height index through the cache, write index, header and
     transactions in one batch, then invalidate the height index (repaired:
     also the header and the transactions written) *)
  Definition save_block (s : state) (h : N) (hd : header) (txs : list N) : state * res :=
    let ht := hheight hd in
    let (s1, ohs) := lk_hashes s ht in
    match ohs with
    | None => (s1, RErr)
    | Some hs =>
      let d := s_db s1 in
      let d' := mkDB (ins h hd (d_hdr d)) (ins h txs (d_txs d)) (ins ht (hs ++ [h]) (d_hashes d)) (d_main d) (d_cp d) in
      let s2 := set_c_hashes (set_db s1 d') (lru_remove N.eqb ht (c_hashes s1)) in
      if fixed
      then (set_c_txs (set_c_hdr s2 (lru_remove N.eqb h (c_hdr s2))) (lru_remove N.eqb h (c_txs s2)), RUnit)
      else (s2, RUnit)
    end.

  Definition save_header (s : state) (h : N) (hd : header) : state * res :=
    let d := s_db s in
    let d' := mkDB (ins h hd (d_hdr d)) (d_txs d) (d_hashes d) (d_main d) (d_cp d) in
    (set_c_hdr (set_db s d') (lru_remove N.eqb h (c_hdr s)), RUnit).

  (* SaveChainStatus: all index writes in one batch, then all invalidations *)
  Definition save_chain_status (s : state) (l : list (N * N)) : state * res :=
    let d := s_db s in
    let m := fold_left (fun m e => ins (fst e) (snd e) m) l (d_main d) in
    let d' := mkDB (d_hdr d) (d_txs d) (d_hashes d) m (d_cp d) in
    (set_c_main (set_db s d') (fold_left (fun c e => lru_remove N.eqb (fst e) c) l (c_main s)), RUnit).

  Definition save_checkpoints (s : state) (l : list cpoint) : state * res :=
    let d := s_db s in
    let t := fold_left (fun t c => ainsert cpkey_eqb cpkey_ltb (cheight c, chash c) (strip c) t) l (d_cp d) in
    let d' := mkDB (d_hdr d) (d_txs d) (d_hashes d) (d_main d) t in
    (set_c_cp (set_db s d') (fold_left (fun c x => lru_remove cpkey_eqb (cheight x, chash x) c) l (c_cp s)), RUnit).

  Definition get_block (s : state) (h : N) : state * res :=
    let (s1, ohd) := lk_hdr s h in
    match ohd with
    | None => (s1, RErr)
    | Some hd =>
      let (s2, otx) := lk_txs s1 h in
      match otx with
      | None => (s2, RErr)
      | Some txs => (s2, RBlock hd txs)
      end
    end.

  (* GetCheckpoint: header through the cache, checkpoint through the cache under
     the key (header.Height, hash), suplinks of the header attached — pinned
     tree: to the cached object itself; repaired: to a copy *)
  Definition get_checkpoint (s : state) (h : N) : state * res :=
    let (s1, ohd) := lk_hdr s h in
    match ohd with
    | None => (s1, RErr)
    | Some hd =>
      let k := (hheight hd, h) in
      let (s2, oc) := lk_cp s1 k in
      match oc with
      | None => (s2, RErr)
      | Some c =>
        let c' := with_sup c hd in
        if fixed then (s2, RCp c')
        else (set_c_cp s2 (lru_update cpkey_eqb k c' (c_cp s2)), RCp c')
      end
    end.

  (* loadCheckpointsFromIter: every checkpoint decoded from the iterator gets the
     suplinks of its block header (through the header cache); the first missing
     header aborts the whole call *)
  Fixpoint load_checkpoints (s : state) (l : list cpoint) : state * option (list cpoint) :=
    match l with
    | [] => (s, Some [])
    | c :: l' =>
      let (s1, ohd) := lk_hdr s (chash c) in
      match ohd with
      | None => (s1, None)
      | Some hd =>
        let (s2, r) := load_checkpoints s1 l' in
        match r with
        | None => (s2, None)
        | Some cs => (s2, Some (with_sup c hd :: cs))
        end
      end
    end.

  Definition cps_at_height (d : db) (ht : N) : list cpoint :=
    map snd (filter (fun e => N.eqb (fst (fst e)) ht) (d_cp d)).
  Definition cps_from (d : db) (k : cpkey) : list cpoint :=
    map snd (filter (fun e => negb (cpkey_ltb (fst e) k)) (d_cp d)).

  Definition get_checkpoints_by_height (s : state) (ht : N) : state * res :=
    let (s1, r) := load_checkpoints s (cps_at_height (s_db s) ht) in
    (s1, match r with Some cs => RCps cs | None => RErr end).

  (* CheckpointsFromNode: the checkpoint the iterator is positioned at is
     returned as decoded (no suplinks), the following ones go through
     loadCheckpointsFromIter; no key at or after the start key: decoding the
     empty value fails *)
  Definition checkpoints_from_node (s : state) (ht h : N) : state * res :=
    match cps_from (s_db s) (ht, h) with
    | [] => (s, RErr)
    | c0 :: l =>
      let (s1, r) := load_checkpoints s l in
      (s1, match r with Some cs => RCps (c0 :: cs) | None => RErr end)
    end.

  Definition step (s : state) (o : op) : state * res :=
    match o with
    | OSaveBlock h hd txs => save_block s h hd txs
    | OSaveHeader h hd => save_header s h hd
    | OSaveChainStatus l => save_chain_status s l
    | OSaveCheckpoints l => save_checkpoints s l
    | OGetHeader h =>
      let (s1, r) := lk_hdr s h in (s1, match r with Some hd => RHeader hd | None => RErr end)
    | OBlockExist h =>
      let (s1, r) := lk_hdr s h in (s1, RBool (match r with Some _ => true | None => false end))
    | OGetTxs h =>
      let (s1, r) := lk_txs s h in (s1, match r with Some l => RTxs l | None => RErr end)
    | OGetBlock h => get_block s h
    | OGetHashes ht =>
      let (s1, r) := lk_hashes s ht in (s1, match r with Some l => RHashes l | None => RErr end)
    | OGetMain ht =>
      let (s1, r) := lk_main s ht in (s1, match r with Some h => RMain h | None => RErr end)
    | OGetCheckpoint h => get_checkpoint s h
    | OGetCheckpointsByHeight ht => get_checkpoints_by_height s ht
    | OCheckpointsFromNode ht h => checkpoints_from_node s ht h
    end.

  Fixpoint run (s : state) (ops : list op) : state * list res :=
    match ops with
    | [] => (s, [])
    | o :: ops' =>
      let (s1, r) := step s o in
      let (s2, rs) := run s1 ops' in
      (s2, r :: rs)
    end.
End Store.

(* ---- the reference: a store without caches ------------------------------------
   Every getter is the package-level function of store_geter.go /
   getCheckpointFromDB applied to the database; the Save* methods write the
   same keys. *)
Definition spec_checkpoint (d : db) (h : N) : res :=
  match fill_hdr d h with
  | None => RErr
  | Some hd =>
    match fill_cp d (hheight hd, h) with
    | None => RErr
    | Some c => RCp (with_sup c hd)
    end
  end.

Fixpoint spec_load (d : db) (l : list cpoint) : option (list cpoint) :=
  match l with
  | [] => Some []
  | c :: l' =>
    match fill_hdr d (chash c) with
    | None => None
    | Some hd =>
      match spec_load d l' with
      | None => None
      | Some cs => Some (with_sup c hd :: cs)
      end
    end
  end.

Definition spec_read (d : db) (o : op) : res :=
  match o with
  | OGetHeader h => match fill_hdr d h with Some hd => RHeader hd | None => RErr end
  | OBlockExist h => RBool (match fill_hdr d h with Some _ => true | None => false end)
  | OGetTxs h => match fill_txs d h with Some l => RTxs l | None => RErr end
  | OGetBlock h =>
    match fill_hdr d h, fill_txs d h with
    | Some hd, Some l => RBlock hd l
    | _, _ => RErr
    end
  | OGetHashes ht => match fill_hashes d ht with Some l => RHashes l | None => RErr end
  | OGetMain ht => match fill_main d ht with Some h => RMain h | None => RErr end
  | OGetCheckpoint h => spec_checkpoint d h
  | OGetCheckpointsByHeight ht =>
    match spec_load d (cps_at_height d ht) with Some cs => RCps cs | None => RErr end
  | OCheckpointsFromNode ht h =>
    match cps_from d (ht, h) with
    | [] => RErr
    | c0 :: l => match spec_load d l with Some cs => RCps (c0 :: cs) | None => RErr end
    end
  | _ => RUnit
  end.

Definition spec_write (d : db) (o : op) : db :=
  match o with
  | OSaveBlock h hd txs =>
    let ht := hheight hd in
    match fill_hashes d ht with
    | Some hs => mkDB (ins h hd (d_hdr d)) (ins h txs (d_txs d)) (ins ht (hs ++ [h]) (d_hashes d)) (d_main d) (d_cp d)
    | None => d
    end
  | OSaveHeader h hd => mkDB (ins h hd (d_hdr d)) (d_txs d) (d_hashes d) (d_main d) (d_cp d)
  | OSaveChainStatus l =>
    mkDB (d_hdr d) (d_txs d) (d_hashes d) (fold_left (fun m e => ins (fst e) (snd e) m) l (d_main d)) (d_cp d)
  | OSaveCheckpoints l =>
    mkDB (d_hdr d) (d_txs d) (d_hashes d) (d_main d)
         (fold_left (fun t c => ainsert cpkey_eqb cpkey_ltb (cheight c, chash c) (strip c) t) l (d_cp d))
  | _ => d
  end.

Definition spec_step (d : db) (o : op) : db * res := (spec_write d o, spec_read d o).

Fixpoint spec_run (d : db) (ops : list op) : db * list res :=
  match ops with
  | [] => (d, [])
  | o :: ops' =>
    let (d1, r) := spec_step d o in
    let (d2, rs) := spec_run d1 ops' in
    (d2, r :: rs)
  end.

(* the repaired store (what the theorems are about) and the pinned one *)
Definition step_fixed (cp : caps) := step cp true.
Definition run_fixed (cp : caps) := run cp true.
Definition run_pinned (cp : caps) := run cp false.
