(* C33 — header/block sync responses.  EXECUTABLE MODEL ONLY (no proofs).

   Mirrors netsync/chainmgr/block_keeper.go: locateHeaders, locateBlocks and the
   two request handlers of handle.go, over the view of the chain that the sync
   code uses (protocol.Chain: a header store keyed by hash plus the main-chain
   index height -> hash).

   Hashes are opaque labels (N); only equality is observed.  Heights, skip and the
   maximum are Go uint64 values, written as Z with every arithmetic step wrapped
   explicitly (wrap64); the model never relies on the absence of overflow — that
   is what Proofs.v shows.  The loop is the one of the repaired code
   (skip >= stop-index-1 is tested before index += skip+1). *)
From Coq Require Import ZArith NArith List Bool.
From Verif Require Import Outcome.
Import ListNotations.
Open Scope Z_scope.

Definition wrap64 (x : Z) : Z := x mod 2^64.

Definition header := (N * Z)%type.        (* hash label, height *)

Record chain := mkChain {
  store   : list (N * Z);   (* header store: hash label -> height (main and side chains) *)
  mainidx : list N;         (* main-chain index: position = height, value = hash label *)
  noblock : list N          (* headers whose block body cannot be loaded *)
}.

Inductive err := NotFound.
Definition res := outcome err (list header).

Fixpoint lookup (s : list (N * Z)) (l : N) : option Z :=
  match s with
  | [] => None
  | (k, h) :: t => if N.eqb k l then Some h else lookup t l
  end.

(* element at a uint64 position, without going through nat *)
Fixpoint nth_at (m : list N) (i : Z) : option N :=
  match m with
  | [] => None
  | x :: t => if i =? 0 then Some x else nth_at t (i - 1)
  end.

(* chain.GetHeaderByHash *)
Definition header_by_hash (c : chain) (l : N) : option header :=
  match lookup (store c) l with
  | Some h => Some (l, h)
  | None => None
  end.

(* chain.GetHeaderByHeight: main-chain hash at that height, then the stored header *)
Definition header_by_height (c : chain) (i : Z) : option header :=
  match nth_at (mainidx c) i with
  | Some l => header_by_hash c l
  | None => None
  end.

(* chain.InMainChain *)
Definition in_main (c : chain) (l : N) : bool :=
  match lookup (store c) l with
  | Some h => match nth_at (mainidx c) h with
              | Some l' => N.eqb l' l
              | None => false
              end
  | None => false
  end.

(* the locator loop: the first entry that is stored and on the main chain *)
Fixpoint find_start (c : chain) (locator : list N) (dflt : header) : header :=
  match locator with
  | [] => dflt
  | l :: t =>
      match header_by_hash c l with
      | Some hd => if in_main c (fst hd) then hd else find_start c t dflt
      | None => find_start c t dflt
      end
  end.

(* for num := 0; num < maxNum-1; num++ { ... }   (fuel = maxNum-1 iterations) *)
Fixpoint locate_loop (c : chain) (fuel : nat) (index skip : Z) (stop : header)
  : res :=
  match fuel with
  | O => Ok []
  | S f =>
      if skip >=? wrap64 (wrap64 (snd stop - index) - 1) then Ok [stop]
      else
        let index' := wrap64 (index + wrap64 (skip + 1)) in
        match header_by_height c index' with
        | None => Err NotFound
        | Some hd =>
            match locate_loop c f index' skip stop with
            | Ok t => Ok (hd :: t)
            | Err e => Err e
            | Panic p => Panic p
            end
        end
  end.

Definition locate_headers (c : chain) (locator : list N) (stop : N) (skip max : Z) : res :=
  match header_by_height c 0 with
  | None => Err NotFound
  | Some genesis =>
      let start := find_start c locator genesis in
      match header_by_hash c stop with
      | None => Err NotFound
      | Some sh =>
          if negb (in_main c stop) || (snd sh <? snd start) then Ok []
          else if snd sh =? snd start then Ok [start]
          else
            match locate_loop c (Z.to_nat (wrap64 (max - 1))) (snd start) skip sh with
            | Ok t => Ok (start :: t)
            | Err e => Err e
            | Panic p => Panic p
            end
      end
  end.

(* chain.GetBlockByHash for a header of the response (observed as the block's header) *)
Definition block_by_hash (c : chain) (hd : header) : option header :=
  if existsb (N.eqb (fst hd)) (noblock c) then None else header_by_hash c (fst hd).

(* isTimeout() is a function argument: its successive answers are a list (false afterwards) *)
Fixpoint collect_blocks (c : chain) (hs : list header) (timeouts : list bool) : res :=
  match hs with
  | [] => Ok []
  | hd :: t =>
      match block_by_hash c hd with
      | None => Err NotFound
      | Some b =>
          let '(now, later) := match timeouts with [] => (false, []) | x :: r => (x, r) end in
          if now then Ok [b]
          else match collect_blocks c t later with
               | Ok bs => Ok (b :: bs)
               | Err e => Err e
               | Panic p => Panic p
               end
      end
  end.

Definition locate_blocks (c : chain) (locator : list N) (stop : N) (maxblocks : Z)
           (timeouts : list bool) : res :=
  match locate_headers c locator stop 0 maxblocks with
  | Ok hs => collect_blocks c hs timeouts
  | Err e => Err e
  | Panic p => Panic p
  end.

(* handleGetHeadersMsg: what is sent to the peer (None = nothing) *)
Definition handle_get_headers (c : chain) (locator : list N) (stop : N) (skip maxheaders : Z)
  : option (list header) :=
  match locate_headers c locator stop skip maxheaders with
  | Ok (x :: t) => Some (x :: t)
  | _ => None
  end.

(* handleGetBlocksMsg: the located blocks, cut to the first [fit] that fit the size limit *)
Definition handle_get_blocks (c : chain) (locator : list N) (stop : N) (maxblocks : Z)
           (timeouts : list bool) (fit : nat) : option (list header) :=
  match locate_blocks c locator stop maxblocks timeouts with
  | Ok (x :: t) => Some (firstn fit (x :: t))
  | _ => None
  end.
