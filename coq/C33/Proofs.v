(* C33 — header/block sync responses: specification predicates, lemmas, proofs. *)
From Coq Require Import ZArith NArith List Bool Lia Sorted.
From Verif Require Import Outcome.
From C33 Require Import Model.
Import ListNotations.
Open Scope Z_scope.

(* ------------------------------------------------------------------ *)
(* Specification vocabulary                                            *)
(* ------------------------------------------------------------------ *)

(* The chain view is consistent: stored heights are uint64 values, and the header
   stored under the main-chain hash of height i has height i.  (protocol.Chain
   maintains both; the harness builds its mock chains this way.) *)
Definition wf_chain (c : chain) : Prop :=
  (forall l h, lookup (store c) l = Some h -> 0 <= h < 2^64) /\
  (forall i l, nth_at (mainidx c) i = Some l -> lookup (store c) l = Some i).

(* a response item is the stored header of the main-chain block at its height *)
Definition on_main (c : chain) (hd : header) : Prop :=
  nth_at (mainidx c) (snd hd) = Some (fst hd) /\ lookup (store c) (fst hd) = Some (snd hd).

(* the start rule of the code: the first locator entry that is on the main chain,
   else the genesis header *)
Definition start_spec (c : chain) (locator : list N) : option header :=
  match find (in_main c) locator with
  | Some l => header_by_hash c l
  | None => header_by_height c 0
  end.

(* heights of the locator entries that are stored at all (unknown hashes carry no height) *)
Definition known_heights (c : chain) (locator : list N) : list Z :=
  flat_map (fun l => match lookup (store c) l with Some h => [h] | None => [] end) locator.

(* a locator as honest peers build it: heights do not increase along the list *)
Definition descending (c : chain) (locator : list N) : Prop :=
  StronglySorted Z.ge (known_heights c locator).

(* the whole property for one response *)
Definition well_formed (c : chain) (locator : list N) (stop : N) (max : Z) (resp : list header) : Prop :=
  Z.of_nat (length resp) <= max /\
  Forall (on_main c) resp /\
  StronglySorted Z.lt (map snd resp) /\
  (forall x t, resp = x :: t -> start_spec c locator = Some x) /\
  (forall hs, lookup (store c) stop = Some hs -> Forall (fun hd => snd hd <= hs) resp) /\
  (resp <> [] -> in_main c stop = true).

(* ------------------------------------------------------------------ *)
(* Basic lemmas                                                        *)
(* ------------------------------------------------------------------ *)

Lemma wrap64_small x : 0 <= x < 2^64 -> wrap64 x = x.
Proof. intros H; unfold wrap64; apply Z.mod_small; exact H. Qed.

Lemma nth_at_range m : forall i l, nth_at m i = Some l -> 0 <= i < Z.of_nat (length m).
Proof.
  induction m as [|x t IH]; cbn [nth_at length]; intros i l H; [discriminate|].
  destruct (i =? 0) eqn:E.
  - apply Z.eqb_eq in E. lia.
  - apply Z.eqb_neq in E. apply IH in H. lia.
Qed.

Lemma nth_at_some m : forall i, 0 <= i < Z.of_nat (length m) -> exists l, nth_at m i = Some l.
Proof.
  induction m as [|x t IH]; cbn [nth_at length]; intros i H; [lia|].
  destruct (i =? 0) eqn:E; [eauto|].
  apply Z.eqb_neq in E. apply IH. lia.
Qed.

Lemma header_by_hash_some c l hd :
  header_by_hash c l = Some hd -> fst hd = l /\ lookup (store c) l = Some (snd hd).
Proof.
  unfold header_by_hash. destruct (lookup (store c) l) eqn:E; [|discriminate].
  intros H; inversion H; subst; cbn; auto.
Qed.

Lemma header_by_hash_none c l : header_by_hash c l = None -> lookup (store c) l = None.
Proof. unfold header_by_hash. destruct (lookup (store c) l); [discriminate|auto]. Qed.

Lemma in_main_on_main c l :
  in_main c l = true -> exists h, lookup (store c) l = Some h /\ on_main c (l, h).
Proof.
  unfold in_main, on_main. destruct (lookup (store c) l) as [h|] eqn:E; [|discriminate].
  destruct (nth_at (mainidx c) h) as [l'|] eqn:E2; [|discriminate].
  intros H. apply N.eqb_eq in H. subst l'. exists h. cbn. auto.
Qed.

Lemma in_main_false_unknown c l : lookup (store c) l = None -> in_main c l = false.
Proof. unfold in_main. intros ->. reflexivity. Qed.

(* every height up to a main-chain height has a main-chain header, stored with that height *)
Lemma header_by_height_main c (W : wf_chain c) i hs ls :
  nth_at (mainidx c) hs = Some ls -> 0 <= i <= hs ->
  exists l, header_by_height c i = Some (l, i) /\ on_main c (l, i).
Proof.
  intros Hs Hi. apply nth_at_range in Hs.
  destruct (nth_at_some (mainidx c) i) as [l Hl]; [lia|].
  exists l. pose proof (proj2 W _ _ Hl) as Hst.
  unfold header_by_height, header_by_hash, on_main. rewrite Hl, Hst. cbn. auto.
Qed.

Lemma genesis_spec c (W : wf_chain c) g :
  header_by_height c 0 = Some g -> on_main c g /\ snd g = 0.
Proof.
  unfold header_by_height. destruct (nth_at (mainidx c) 0) as [l|] eqn:E; [|discriminate].
  intros H. apply header_by_hash_some in H. destruct H as [H1 H2].
  pose proof (proj2 W _ _ E) as Hst. rewrite Hst in H2. inversion H2 as [H3].
  destruct g as [gl gh]; cbn in *. subst. unfold on_main; cbn. auto.
Qed.

Lemma no_genesis c (W : wf_chain c) : header_by_height c 0 = None -> mainidx c = [].
Proof.
  unfold header_by_height. destruct (mainidx c) as [|x t] eqn:Em; [auto|].
  intros H. exfalso.
  assert (Hn : nth_at (mainidx c) 0 = Some x) by (rewrite Em; reflexivity).
  pose proof (proj2 W _ _ Hn) as Hst. rewrite Em in Hn. rewrite Hn in H.
  unfold header_by_hash in H. rewrite Hst in H. discriminate.
Qed.

(* ------------------------------------------------------------------ *)
(* The locator loop                                                    *)
(* ------------------------------------------------------------------ *)

Lemma find_start_spec c loc g :
  header_by_height c 0 = Some g -> start_spec c loc = Some (find_start c loc g).
Proof.
  intros Hg. unfold start_spec. induction loc as [|l t IH]; cbn [find find_start]; [exact Hg|].
  destruct (header_by_hash c l) as [hd|] eqn:E.
  - destruct (header_by_hash_some _ _ _ E) as [H1 _]. rewrite H1.
    destruct (in_main c l); [exact E | exact IH].
  - apply header_by_hash_none in E. rewrite (in_main_false_unknown _ _ E). exact IH.
Qed.

Lemma find_start_on_main c loc g : on_main c g -> on_main c (find_start c loc g).
Proof.
  intros Hg. induction loc as [|l t IH]; cbn [find_start]; [exact Hg|].
  destruct (header_by_hash c l) as [hd|] eqn:E; [|exact IH].
  destruct (header_by_hash_some _ _ _ E) as [H1 H2]. rewrite H1.
  destruct (in_main c l) eqn:Em; [|exact IH].
  destruct (in_main_on_main _ _ Em) as [h [Hh Hon]].
  rewrite H2 in Hh. inversion Hh. destruct hd as [a b]; cbn in *. subst. exact Hon.
Qed.

(* ------------------------------------------------------------------ *)
(* The stepping loop: no wrap-around for any skip                      *)
(* ------------------------------------------------------------------ *)

Lemma loop_ok c (W : wf_chain c) stop (Hs : on_main c stop) skip (Hk : 0 <= skip < 2^64) :
  forall fuel index, 0 <= index < snd stop ->
  exists t, locate_loop c fuel index skip stop = Ok t /\
    (length t <= fuel)%nat /\
    Forall (on_main c) t /\
    Forall (fun hd => index < snd hd <= snd stop) t /\
    StronglySorted Z.lt (map snd t).
Proof.
  pose proof (proj1 W _ _ (proj2 Hs)) as Hsh.
  induction fuel as [|f IH]; intros index Hi.
  - exists []. cbn. repeat split; try constructor.
  - cbn [locate_loop].
    assert (Hw : wrap64 (wrap64 (snd stop - index) - 1) = snd stop - index - 1).
    { rewrite (wrap64_small (snd stop - index)) by lia. apply wrap64_small. lia. }
    rewrite Hw. rewrite Z.geb_leb.
    destruct (snd stop - index - 1 <=? skip) eqn:E.
    + exists [stop]. split; [reflexivity|]. cbn [length map].
      repeat split; try (repeat constructor; fail); try lia.
      * constructor; [exact Hs|constructor].
      * constructor; [lia|constructor].
    + apply Z.leb_gt in E.
      assert (Hi' : wrap64 (index + wrap64 (skip + 1)) = index + skip + 1).
      { rewrite (wrap64_small (skip + 1)) by lia. rewrite wrap64_small by lia. lia. }
      rewrite Hi'.
      destruct (header_by_height_main c W (index + skip + 1) (snd stop) (fst stop) (proj1 Hs))
        as [l [Hl Hon]]; [lia|].
      rewrite Hl.
      destruct (IH (index + skip + 1)) as [t [Ht [Hlen [Hm [Hr Hso]]]]]; [lia|].
      rewrite Ht. exists ((l, index + skip + 1) :: t). split; [reflexivity|].
      cbn [length map snd]. repeat split.
      * lia.
      * constructor; assumption.
      * constructor; [cbn; lia|].
        eapply Forall_impl; [|exact Hr]. cbn. intros a Ha. lia.
      * constructor; [exact Hso|].
        apply Forall_forall. intros z Hz. apply in_map_iff in Hz.
        destruct Hz as [hd [Hz1 Hz2]]. subst z.
        rewrite Forall_forall in Hr. specialize (Hr _ Hz2). cbn in Hr. lia.
Qed.

(* ------------------------------------------------------------------ *)
(* locateHeaders                                                       *)
(* ------------------------------------------------------------------ *)

Definition headers_post (c : chain) (loc : list N) (stop : N) (max : Z) (r : res) : Prop :=
  match r with
  | Ok resp => well_formed c loc stop max resp
  | Err _ => mainidx c = [] \/ lookup (store c) stop = None
  | Panic _ => False
  end.

Lemma locate_headers_post c (W : wf_chain c) loc stop skip max
      (Hk : 0 <= skip < 2^64) (Hm : 1 <= max < 2^64) :
  headers_post c loc stop max (locate_headers c loc stop skip max).
Proof.
  unfold locate_headers.
  destruct (header_by_height c 0) as [g|] eqn:Eg.
  2:{ cbn. left. apply no_genesis; assumption. }
  destruct (genesis_spec c W g Eg) as [Hg Hg0].
  pose proof (find_start_spec c loc g Eg) as Hspec.
  pose proof (find_start_on_main c loc g Hg) as Hstart.
  set (start := find_start c loc g) in *.
  destruct (header_by_hash c stop) as [sh|] eqn:Es.
  2:{ cbn. right. apply header_by_hash_none. exact Es. }
  destruct (header_by_hash_some _ _ _ Es) as [Hs1 Hs2].
  destruct (negb (in_main c stop) || (snd sh <? snd start)) eqn:E1.
  { cbn. unfold well_formed. cbn. repeat split; try constructor; try lia.
    - intros x t H; discriminate.
    - intros H; contradiction H; reflexivity. }
  apply orb_false_iff in E1. destruct E1 as [E1 E1'].
  apply negb_false_iff in E1. apply Z.ltb_ge in E1'.
  destruct (in_main_on_main _ _ E1) as [hs [Hhs Hon]].
  rewrite Hs2 in Hhs. inversion Hhs as [Hhs']. clear Hhs.
  assert (Hsh : sh = (stop, hs)) by (destruct sh; cbn in *; subst; reflexivity).
  pose proof (proj1 W _ _ (proj2 Hstart)) as Hstart_rng.
  destruct (snd sh =? snd start) eqn:E2.
  { apply Z.eqb_eq in E2. cbn. unfold well_formed. cbn [length map].
    repeat split.
    - lia.
    - constructor; [exact Hstart|constructor].
    - repeat constructor.
    - intros x t H. inversion H; subst. exact Hspec.
    - intros hs' Hl. rewrite Hs2 in Hl. inversion Hl. constructor; [lia|constructor].
    - intros _. exact E1. }
  apply Z.eqb_neq in E2.
  assert (Hsm : on_main c sh) by (rewrite Hsh; exact Hon).
  destruct (loop_ok c W sh Hsm skip Hk (Z.to_nat (wrap64 (max - 1))) (snd start))
    as [t [Ht [Hlen [Hmn [Hr Hso]]]]]; [lia|].
  rewrite Ht. cbn. unfold well_formed. cbn [length map].
  rewrite wrap64_small in Hlen by lia.
  repeat split.
  - lia.
  - constructor; assumption.
  - constructor; [exact Hso|].
    apply Forall_forall. intros z Hz. apply in_map_iff in Hz.
    destruct Hz as [hd [Hz1 Hz2]]. subst z.
    rewrite Forall_forall in Hr. specialize (Hr _ Hz2). cbn in Hr. lia.
  - intros x t' H. inversion H; subst. exact Hspec.
  - intros hs' Hl. rewrite Hs2 in Hl. inversion Hl as [Hl']. constructor; [lia|].
    eapply Forall_impl; [|exact Hr]. cbn. intros a Ha. lia.
  - intros _. exact E1.
Qed.

Lemma loop_no_panic c skip stop : forall fuel index,
  is_panic (locate_loop c fuel index skip stop) = false.
Proof.
  induction fuel as [|f IH]; intros index; cbn [locate_loop]; [reflexivity|].
  destruct (skip >=? _); [reflexivity|].
  destruct (header_by_height c _); [|reflexivity].
  specialize (IH (wrap64 (index + wrap64 (skip + 1)))).
  destruct (locate_loop c f _ skip stop); cbn in *; congruence.
Qed.

Lemma locate_headers_no_panic c loc stop skip max :
  is_panic (locate_headers c loc stop skip max) = false.
Proof.
  unfold locate_headers.
  destruct (header_by_height c 0); [|reflexivity].
  destruct (header_by_hash c stop) as [sh|]; [|reflexivity].
  destruct (_ || _); [reflexivity|].
  destruct (_ =? _); [reflexivity|].
  match goal with |- context [locate_loop ?c ?f ?i ?k ?s] =>
    pose proof (loop_no_panic c k s f i) as H; destruct (locate_loop c f i k s) end;
    cbn in *; congruence.
Qed.

(* ------------------------------------------------------------------ *)
(* Prefixes of a well-formed response; locateBlocks; handlers          *)
(* ------------------------------------------------------------------ *)

Lemma In_firstn_incl {A} (y : A) n : forall l, In y (firstn n l) -> In y l.
Proof.
  induction n as [|n IH]; intros [|x t] H; cbn [firstn] in H; try contradiction.
  destruct H as [H|H]; [left; exact H|right; apply IH; exact H].
Qed.

Lemma StronglySorted_firstn {A} (R : A -> A -> Prop) n : forall l,
  StronglySorted R l -> StronglySorted R (firstn n l).
Proof.
  induction n as [|n IH]; intros l H; [constructor|].
  destruct l as [|x t]; [constructor|]. cbn [firstn].
  inversion H; subst. constructor; [apply IH; assumption|].
  apply Forall_forall. intros y Hy. rewrite Forall_forall in H3. apply H3.
  eapply In_firstn_incl. exact Hy.
Qed.

Lemma Forall_firstn' {A} (P : A -> Prop) n l : Forall P l -> Forall P (firstn n l).
Proof.
  intros H. apply Forall_forall. intros y Hy. rewrite Forall_forall in H. apply H.
  eapply In_firstn_incl. exact Hy.
Qed.

Lemma firstn_map' {A B} (f : A -> B) n : forall l, firstn n (map f l) = map f (firstn n l).
Proof. induction n; intros [|x t]; cbn; try reflexivity. rewrite IHn. reflexivity. Qed.

Lemma well_formed_firstn c loc stop max resp n :
  well_formed c loc stop max resp -> well_formed c loc stop max (firstn n resp).
Proof.
  intros (H1 & H2 & H3 & H4 & H5 & H6). unfold well_formed. repeat split.
  - rewrite firstn_length. lia.
  - apply Forall_firstn'. exact H2.
  - rewrite <- firstn_map'. apply StronglySorted_firstn. exact H3.
  - intros x t E. destruct n; [discriminate|]. destruct resp as [|y r]; [discriminate|].
    cbn in E. inversion E; subst. eapply H4. reflexivity.
  - intros hs Hl. apply Forall_firstn'. apply H5. exact Hl.
  - intros E. apply H6. intros ->. apply E. destruct n; reflexivity.
Qed.

Lemma collect_blocks_prefix c : forall hs tmo bs,
  Forall (on_main c) hs -> collect_blocks c hs tmo = Ok bs ->
  exists n, bs = firstn n hs /\ (hs <> [] -> bs <> []).
Proof.
  induction hs as [|hd t IH]; intros tmo bs Hf H; cbn [collect_blocks] in H.
  - inversion H. exists 0%nat. split; [reflexivity|intros E; contradiction E; reflexivity].
  - inversion Hf as [|? ? Hhd Ht]; subst.
    unfold block_by_hash in H. destruct (existsb _ _); [discriminate|].
    unfold header_by_hash in H. rewrite (proj2 Hhd) in H.
    replace (fst hd, snd hd) with hd in H by (destruct hd; reflexivity).
    destruct (match tmo with [] => (false, []) | x :: r => (x, r) end) as [now later].
    destruct now.
    + inversion H. exists 1%nat. split; [reflexivity|intros _; discriminate].
    + destruct (collect_blocks c t later) as [bs'| |] eqn:E; try discriminate.
      inversion H. destruct (IH later bs' Ht E) as [n [Hn _]].
      exists (S n). cbn [firstn]. rewrite <- Hn. split; [reflexivity|intros _; discriminate].
Qed.

Lemma collect_blocks_no_panic c : forall hs tmo, is_panic (collect_blocks c hs tmo) = false.
Proof.
  induction hs as [|hd t IH]; intros tmo; cbn [collect_blocks]; [reflexivity|].
  destruct (block_by_hash c hd); [|reflexivity].
  destruct (match tmo with [] => (false, []) | x :: r => (x, r) end) as [now later].
  destruct now; [reflexivity|].
  specialize (IH later). destruct (collect_blocks c t later); cbn in *; congruence.
Qed.

Lemma locate_blocks_post c (W : wf_chain c) loc stop maxb tmo (Hm : 1 <= maxb < 2^64) bs :
  locate_blocks c loc stop maxb tmo = Ok bs ->
  well_formed c loc stop maxb bs /\
  exists hs n, locate_headers c loc stop 0 maxb = Ok hs /\ bs = firstn n hs /\ (hs <> [] -> bs <> []).
Proof.
  unfold locate_blocks. intros H.
  pose proof (locate_headers_post c W loc stop 0 maxb ltac:(lia) Hm) as P.
  destruct (locate_headers c loc stop 0 maxb) as [hs| |]; try discriminate.
  cbn in P. destruct (collect_blocks_prefix c hs tmo bs (proj1 (proj2 P)) H) as [n [Hn Hne]].
  split.
  - rewrite Hn. apply well_formed_firstn. exact P.
  - exists hs, n. auto.
Qed.

Lemma locate_blocks_no_panic c loc stop maxb tmo :
  is_panic (locate_blocks c loc stop maxb tmo) = false.
Proof.
  unfold locate_blocks. pose proof (locate_headers_no_panic c loc stop 0 maxb) as H.
  destruct (locate_headers c loc stop 0 maxb); cbn in *; try congruence.
  apply collect_blocks_no_panic.
Qed.

(* ------------------------------------------------------------------ *)
(* Statements used by Props.v                                          *)
(* ------------------------------------------------------------------ *)

Section Headers.
  Variables (c : chain) (loc : list N) (stop : N) (skip max : Z) (resp : list header).
  Hypothesis W : wf_chain c.
  Hypothesis Hk : 0 <= skip < 2^64.
  Hypothesis Hm : 1 <= max < 2^64.
  Hypothesis R : locate_headers c loc stop skip max = Ok resp.

  Lemma headers_wf : well_formed c loc stop max resp.
  Proof. pose proof (locate_headers_post c W loc stop skip max Hk Hm) as P. rewrite R in P. exact P. Qed.

  Lemma headers_len : Z.of_nat (length resp) <= max.
  Proof. exact (proj1 headers_wf). Qed.
  Lemma headers_main : Forall (on_main c) resp.
  Proof. exact (proj1 (proj2 headers_wf)). Qed.
  Lemma headers_increasing : StronglySorted Z.lt (map snd resp).
  Proof. exact (proj1 (proj2 (proj2 headers_wf))). Qed.
  Lemma headers_stop :
    (forall hs, lookup (store c) stop = Some hs -> Forall (fun hd => snd hd <= hs) resp) /\
    (resp <> [] -> in_main c stop = true).
  Proof. exact (proj2 (proj2 (proj2 (proj2 headers_wf)))). Qed.
End Headers.

(* start rule: needs no hypothesis on the chain *)
Lemma headers_start c loc stop skip max x t :
  locate_headers c loc stop skip max = Ok (x :: t) -> start_spec c loc = Some x.
Proof.
  unfold locate_headers.
  destruct (header_by_height c 0) as [g|] eqn:Eg; [|discriminate].
  pose proof (find_start_spec c loc g Eg) as Hspec.
  destruct (header_by_hash c stop) as [sh|]; [|discriminate].
  destruct (_ || _); [discriminate|].
  destruct (_ =? _).
  - intros H; inversion H; subst. exact Hspec.
  - destruct (locate_loop _ _ _ _ _); try discriminate.
    intros H; inversion H; subst. exact Hspec.
Qed.

(* for a descending locator the first main-chain entry is the highest one *)
Lemma find_first_highest c : forall loc l,
  descending c loc -> find (in_main c) loc = Some l ->
  in_main c l = true /\ In l loc /\
  forall l' h h', In l' loc -> in_main c l' = true ->
    lookup (store c) l' = Some h' -> lookup (store c) l = Some h -> h' <= h.
Proof.
  unfold descending, known_heights.
  induction loc as [|a t IH]; intros l D F; cbn [find] in F; [discriminate|].
  cbn [flat_map] in D.
  destruct (in_main c a) eqn:Ea.
  - inversion F; subst a. split; [exact Ea|]. split; [left; reflexivity|].
    intros l' h h' Hin Hm' Hl' Hl. destruct Hin as [->|Hin].
    + rewrite Hl in Hl'. inversion Hl'. lia.
    + rewrite Hl in D. cbn [app] in D. inversion D as [|? ? D1 D2]; subst.
      rewrite Forall_forall in D2.
      assert (Hin' : In h' (flat_map (fun l0 => match lookup (store c) l0 with Some h0 => [h0] | None => [] end) t)).
      { apply in_flat_map. exists l'. split; [exact Hin|]. rewrite Hl'. left; reflexivity. }
      specialize (D2 _ Hin'). lia.
  - assert (D' : StronglySorted Z.ge (flat_map (fun l0 => match lookup (store c) l0 with Some h0 => [h0] | None => [] end) t)).
    { destruct (lookup (store c) a); cbn [app] in D; [inversion D; assumption|exact D]. }
    destruct (IH l D' F) as [H1 [H2 H3]]. split; [exact H1|]. split; [right; exact H2|].
    intros l' h h' Hin Hm' Hl' Hl. destruct Hin as [->|Hin].
    + rewrite Hm' in Ea. discriminate.
    + eapply H3; eassumption.
Qed.

Lemma headers_start_sorted c loc stop skip max x t :
  descending c loc ->
  locate_headers c loc stop skip max = Ok (x :: t) ->
  (forall l, In l loc -> in_main c l = true ->
     In (fst x) loc /\ in_main c (fst x) = true /\
     forall h, lookup (store c) l = Some h -> h <= snd x) /\
  ((forall l, In l loc -> in_main c l = false) -> header_by_height c 0 = Some x).
Proof.
  intros D R. apply headers_start in R. unfold start_spec in R.
  destruct (find (in_main c) loc) as [l1|] eqn:F.
  - destruct (find_first_highest c loc l1 D F) as [H1 [H2 H3]].
    destruct (header_by_hash_some _ _ _ R) as [Hx1 Hx2]. split.
    + intros l Hin Hm'. rewrite Hx1. split; [exact H2|]. split; [exact H1|].
      intros h Hl. eapply H3; eassumption.
    + intros Hno. apply find_some in F. destruct F as [F1 F2].
      rewrite (Hno _ F1) in F2. discriminate.
  - split.
    + intros l Hin Hm'. exfalso. eapply find_none in F; [|exact Hin]. congruence.
    + intros _. exact R.
Qed.

(* totality *)
Lemma headers_answered c loc stop skip max :
  wf_chain c -> 0 <= skip < 2^64 -> 1 <= max < 2^64 ->
  mainidx c <> [] -> lookup (store c) stop <> None ->
  is_ok (locate_headers c loc stop skip max) = true.
Proof.
  intros W Hk Hm H1 H2. pose proof (locate_headers_post c W loc stop skip max Hk Hm) as P.
  destruct (locate_headers c loc stop skip max); cbn in *; [reflexivity| |contradiction].
  destruct P; contradiction.
Qed.

(* handlers *)
Lemma handle_headers_wf c (W : wf_chain c) loc stop skip maxh
      (Hk : 0 <= skip < 2^64) (Hm : 1 <= maxh < 2^64) sent :
  handle_get_headers c loc stop skip maxh = Some sent ->
  sent <> [] /\ well_formed c loc stop maxh sent.
Proof.
  unfold handle_get_headers. intros H.
  pose proof (locate_headers_post c W loc stop skip maxh Hk Hm) as P.
  destruct (locate_headers c loc stop skip maxh) as [[|x t]| |]; try discriminate.
  inversion H; subst. split; [discriminate|exact P].
Qed.

Lemma handle_blocks_wf c (W : wf_chain c) loc stop maxb (Hm : 1 <= maxb < 2^64) tmo fit sent :
  handle_get_blocks c loc stop maxb tmo fit = Some sent ->
  well_formed c loc stop maxb sent.
Proof.
  unfold handle_get_blocks. intros H.
  destruct (locate_blocks c loc stop maxb tmo) as [[|x t]| |] eqn:E; try discriminate.
  inversion H; subst. apply well_formed_firstn.
  exact (proj1 (locate_blocks_post c W loc stop maxb tmo Hm _ E)).
Qed.

(* statements in the argument order used by Props.v *)
Lemma no_panic_all c loc stop skip max tmo :
  is_panic (locate_headers c loc stop skip max) = false /\
  is_panic (locate_blocks c loc stop max tmo) = false.
Proof. split; [apply locate_headers_no_panic | apply locate_blocks_no_panic]. Qed.

Lemma blocks_wf c loc stop maxb tmo bs :
  wf_chain c -> 1 <= maxb < 2^64 ->
  locate_blocks c loc stop maxb tmo = Ok bs ->
  well_formed c loc stop maxb bs /\
  exists hs n, locate_headers c loc stop 0 maxb = Ok hs /\ bs = firstn n hs /\ (hs <> [] -> bs <> []).
Proof. intros W Hm. exact (locate_blocks_post c W loc stop maxb tmo Hm bs). Qed.

Lemma handle_headers_wf' c loc stop skip maxh sent :
  wf_chain c -> 0 <= skip < 2^64 -> 1 <= maxh < 2^64 ->
  handle_get_headers c loc stop skip maxh = Some sent ->
  sent <> [] /\ well_formed c loc stop maxh sent.
Proof. intros W Hk Hm. exact (handle_headers_wf c W loc stop skip maxh Hk Hm sent). Qed.

Lemma handle_blocks_wf' c loc stop maxb tmo fit sent :
  wf_chain c -> 1 <= maxb < 2^64 ->
  handle_get_blocks c loc stop maxb tmo fit = Some sent ->
  well_formed c loc stop maxb sent.
Proof. intros W Hm. exact (handle_blocks_wf c W loc stop maxb Hm tmo fit sent). Qed.

(* ------------------------------------------------------------------ *)
(* A decidable check of wf_chain, and examples that the hypotheses are *)
(* satisfiable and the conclusions non-vacuous                         *)
(* ------------------------------------------------------------------ *)

Fixpoint check_main (s : list (N * Z)) (m : list N) (k : Z) : bool :=
  match m with
  | [] => true
  | l :: t => match lookup s l with Some h => h =? k | None => false end && check_main s t (k + 1)
  end.

Definition wf_chainb (c : chain) : bool :=
  forallb (fun e => (0 <=? snd e) && (snd e <? 2^64)) (store c) && check_main (store c) (mainidx c) 0.

Lemma lookup_in s l h : lookup s l = Some h -> In (l, h) s.
Proof.
  induction s as [|[k v] t IH]; cbn [lookup]; [discriminate|].
  destruct (N.eqb k l) eqn:E.
  - apply N.eqb_eq in E. intros H; inversion H; subst. left; reflexivity.
  - intros H. right. apply IH. exact H.
Qed.

Lemma check_main_spec s : forall m k i l,
  check_main s m k = true -> nth_at m i = Some l -> lookup s l = Some (i + k).
Proof.
  induction m as [|x t IH]; intros k i l H Hn; cbn [nth_at check_main] in *; [discriminate|].
  apply andb_prop in H. destruct H as [H1 H2].
  destruct (i =? 0) eqn:E.
  - apply Z.eqb_eq in E. inversion Hn; subst.
    destruct (lookup s l); [|discriminate]. apply Z.eqb_eq in H1. subst. reflexivity.
  - rewrite (IH _ _ _ H2 Hn). f_equal. lia.
Qed.

Lemma wf_chainb_sound c : wf_chainb c = true -> wf_chain c.
Proof.
  unfold wf_chainb, wf_chain. intros H. apply andb_prop in H. destruct H as [H1 H2]. split.
  - intros l h Hl. apply lookup_in in Hl. rewrite forallb_forall in H1.
    specialize (H1 _ Hl). cbn in H1. apply andb_prop in H1. destruct H1 as [A B].
    apply Z.leb_le in A. apply Z.ltb_lt in B. lia.
  - intros i l Hn. rewrite (check_main_spec _ _ _ _ _ H2 Hn). f_equal. lia.
Qed.

(* main chain 10,11,12,13,14 (heights 0..4), one side header 20 at height 2 *)
Definition ex_chain : chain :=
  mkChain [(12%N, 2); (20%N, 2); (10%N, 0); (14%N, 4); (11%N, 1); (13%N, 3)]
          [10; 11; 12; 13; 14]%N [].

Example ex_chain_wf : wf_chain ex_chain.
Proof. apply wf_chainb_sound. vm_compute. reflexivity. Qed.

(* locator: unknown hash, side-chain hash, main-chain heights 1 and 0 -> starts at height 1 *)
Example ex_locator_descending : descending ex_chain [99; 20; 11; 10]%N.
Proof.
  assert (E : known_heights ex_chain [99; 20; 11; 10]%N = [2; 1; 0]) by (vm_compute; reflexivity).
  unfold descending. rewrite E. repeat constructor; lia.
Qed.

Example ex_response_skip0 :
  locate_headers ex_chain [99; 20; 11; 10]%N 14%N 0 1000
  = Ok [(11%N, 1); (12%N, 2); (13%N, 3); (14%N, 4)].
Proof. vm_compute. reflexivity. Qed.

Example ex_response_skip1 :
  locate_headers ex_chain [99; 20; 11; 10]%N 14%N 1 1000 = Ok [(11%N, 1); (13%N, 3); (14%N, 4)].
Proof. vm_compute. reflexivity. Qed.

(* the skips that made the original code repeat or go backwards *)
Example ex_response_skip_max :
  locate_headers ex_chain [11]%N 14%N (2^64 - 1) 6 = Ok [(11%N, 1); (14%N, 4)] /\
  locate_headers ex_chain [11]%N 14%N (2^64 - 2) 6 = Ok [(11%N, 1); (14%N, 4)].
Proof. split; vm_compute; reflexivity. Qed.

Example ex_response_max :
  locate_headers ex_chain []%N 14%N 0 3 = Ok [(10%N, 0); (11%N, 1); (12%N, 2)].
Proof. vm_compute. reflexivity. Qed.

Example ex_blocks_timeout :
  locate_blocks ex_chain [11]%N 14%N 64 [false; true] = Ok [(11%N, 1); (12%N, 2)].
Proof. vm_compute. reflexivity. Qed.
