(* C33 — helpers used by the generated case files (correspondence). *)
From Coq Require Import ZArith NArith List Bool.
From Verif Require Import Outcome Cmp.
From C33 Require Import Model.
Import ListNotations.
Open Scope Z_scope.

(* projected observable: 0 = response, 1 = error, 2 = nothing sent, 3 = panic;
   the items are (hash label, height) *)
Definition obs := (nat * list (N * Z))%type.

Definition item_eqb (a b : N * Z) : bool := N.eqb (fst a) (fst b) && Z.eqb (snd a) (snd b).
Definition obs_eqb (a b : obs) : bool :=
  Nat.eqb (fst a) (fst b) && list_eqb item_eqb (snd a) (snd b).

Definition obs_of_res (r : res) : obs :=
  match r with
  | Ok l => (0%nat, l)
  | Err _ => (1%nat, [])
  | Panic _ => (3%nat, [])
  end.

Definition obs_of_sent (r : option (list header)) : obs :=
  match r with
  | Some l => (0%nat, l)
  | None => (2%nat, [])
  end.

Definition run_headers (c : chain) (loc : list N) (stop : N) (skip max : Z) : obs :=
  obs_of_res (locate_headers c loc stop skip max).
Definition run_blocks (c : chain) (loc : list N) (stop : N) (max : Z) (tmo : list bool) : obs :=
  obs_of_res (locate_blocks c loc stop max tmo).
Definition run_handle_headers (c : chain) (loc : list N) (stop : N) (skip max : Z) : obs :=
  obs_of_sent (handle_get_headers c loc stop skip max).

(* compact description of a long mock chain: the main-chain header of height h has label h+1;
   [side] are the stored side-chain headers *)
Definition seq_chain (n : nat) (side : list (N * Z)) : chain :=
  mkChain (side ++ map (fun i => (N.of_nat i + 1, Z.of_nat i)%N) (seq 0 n))
          (map (fun i => (N.of_nat i + 1)%N) (seq 0 n)) [].
