(* C33 — Header and block sync responses are well-formed.  PROPERTY THEOREMS ONLY.

   Model (C33/Model.v): locate_headers / locate_blocks / handle_get_headers /
   handle_get_blocks mirror netsync/chainmgr (block_keeper.go, handle.go) over the
   chain view the sync code uses: a header store (hash -> height) and the
   main-chain index (height -> hash).  All uint64 arithmetic of the stepping loop
   is wrapped explicitly (wrap64); the theorems hold for EVERY skip in
   [0, 2^64-1], every locator (unknown and side-chain hashes included), every stop
   hash and every consistent chain, of any length.

   Vocabulary (C33/Proofs.v):
     wf_chain c      stored heights are uint64 values and the header stored under the
                     main-chain hash of height i has height i;
     on_main c hd    hd = (hash, height) is the stored header of the main-chain block
                     at that height;
     start_spec      the code's start rule: first locator entry on the main chain,
                     else genesis;
     descending      the locator's known entries have non-increasing heights (what
                     honest peers send);
     well_formed     the conjunction of all clauses of the property for one response.
   A response item is a pair (hash label, height). *)
From Coq Require Import ZArith NArith List Bool Sorted.
From Verif Require Import Outcome.
From C33 Require Import Model Proofs.
Import ListNotations.
Open Scope Z_scope.

(* at most the protocol maximum items *)
Theorem c33_len : forall c loc stop skip max resp,
  wf_chain c -> 0 <= skip < 2^64 -> 1 <= max < 2^64 ->
  locate_headers c loc stop skip max = Ok resp ->
  Z.of_nat (length resp) <= max.
Proof. exact headers_len. Qed.
Print Assumptions c33_len.

(* every item is on the main chain *)
Theorem c33_main_chain : forall c loc stop skip max resp,
  wf_chain c -> 0 <= skip < 2^64 -> 1 <= max < 2^64 ->
  locate_headers c loc stop skip max = Ok resp ->
  Forall (on_main c) resp.
Proof. exact headers_main. Qed.
Print Assumptions c33_main_chain.

(* heights strictly increase — for all skips up to 2^64-1 *)
Theorem c33_increasing : forall c loc stop skip max resp,
  wf_chain c -> 0 <= skip < 2^64 -> 1 <= max < 2^64 ->
  locate_headers c loc stop skip max = Ok resp ->
  StronglySorted Z.lt (map snd resp).
Proof. exact headers_increasing. Qed.
Print Assumptions c33_increasing.

(* the response starts at the first main-chain locator entry, or at genesis *)
Theorem c33_start : forall c loc stop skip max x t,
  locate_headers c loc stop skip max = Ok (x :: t) ->
  start_spec c loc = Some x.
Proof. exact headers_start. Qed.
Print Assumptions c33_start.

(* for a descending locator that is the HIGHEST main-chain locator entry; and genesis
   when the locator has no main-chain entry *)
Theorem c33_start_sorted : forall c loc stop skip max x t,
  descending c loc ->
  locate_headers c loc stop skip max = Ok (x :: t) ->
  (forall l, In l loc -> in_main c l = true ->
     In (fst x) loc /\ in_main c (fst x) = true /\
     forall h, lookup (store c) l = Some h -> h <= snd x) /\
  ((forall l, In l loc -> in_main c l = false) -> header_by_height c 0 = Some x).
Proof. exact headers_start_sorted. Qed.
Print Assumptions c33_start_sorted.

(* the response does not pass the stop block (and is empty unless the stop block is on the
   main chain) *)
Theorem c33_stop : forall c loc stop skip max resp,
  wf_chain c -> 0 <= skip < 2^64 -> 1 <= max < 2^64 ->
  locate_headers c loc stop skip max = Ok resp ->
  (forall hs, lookup (store c) stop = Some hs -> Forall (fun hd => snd hd <= hs) resp) /\
  (resp <> [] -> in_main c stop = true).
Proof. exact headers_stop. Qed.
Print Assumptions c33_stop.

(* handling never panics: no hypothesis at all on chain, locator, stop, skip, max, timeouts *)
Theorem c33_total : forall c loc stop skip max tmo,
  is_panic (locate_headers c loc stop skip max) = false /\
  is_panic (locate_blocks c loc stop max tmo) = false.
Proof. exact no_panic_all. Qed.
Print Assumptions c33_total.

(* and on a consistent, non-empty chain a request with a known stop hash is always answered:
   the stepping never leaves the main chain (no lookup error), whatever the skip *)
Theorem c33_answered : forall c loc stop skip max,
  wf_chain c -> 0 <= skip < 2^64 -> 1 <= max < 2^64 ->
  mainidx c <> [] -> lookup (store c) stop <> None ->
  is_ok (locate_headers c loc stop skip max) = true.
Proof. exact headers_answered. Qed.
Print Assumptions c33_answered.

(* block responses: all clauses at once, for every timeout behaviour; the blocks are a
   non-empty prefix of the header response computed with skip 0 *)
Theorem c33_blocks : forall c loc stop maxb tmo bs,
  wf_chain c -> 1 <= maxb < 2^64 ->
  locate_blocks c loc stop maxb tmo = Ok bs ->
  well_formed c loc stop maxb bs /\
  exists hs n, locate_headers c loc stop 0 maxb = Ok hs /\ bs = firstn n hs /\ (hs <> [] -> bs <> []).
Proof. exact blocks_wf. Qed.
Print Assumptions c33_blocks.

(* what handleGetHeadersMsg sends: never an empty message, always a well-formed response *)
Theorem c33_handle_headers : forall c loc stop skip maxh sent,
  wf_chain c -> 0 <= skip < 2^64 -> 1 <= maxh < 2^64 ->
  handle_get_headers c loc stop skip maxh = Some sent ->
  sent <> [] /\ well_formed c loc stop maxh sent.
Proof. exact handle_headers_wf'. Qed.
Print Assumptions c33_handle_headers.

(* what handleGetBlocksMsg sends, for every timeout behaviour and every size cut *)
Theorem c33_handle_blocks : forall c loc stop maxb tmo fit sent,
  wf_chain c -> 1 <= maxb < 2^64 ->
  handle_get_blocks c loc stop maxb tmo fit = Some sent ->
  well_formed c loc stop maxb sent.
Proof. exact handle_blocks_wf'. Qed.
Print Assumptions c33_handle_blocks.
