(* C08 — splice opcodes 0x7e–0x82, 0x89 refine the reference semantics. *)
From Coq Require Import List ZArith NArith Bool Lia ZifyN ZifyNat ZifyBool.
From Verif Require Import Cmp VM.
From C08 Require Import Spec Base.
Import ListNotations.
Open Scope Z_scope.

Lemma push_instr_eq d : push_data_bytes d = push_instr d.
Proof.
  unfold push_data_bytes, push_instr, OP_DATA_1, OP_PUSHDATA1, OP_PUSHDATA2, OP_PUSHDATA4, le_bytes.
  set (l := N.of_nat (length d)).
  destruct (N.eqb_spec l 0); [reflexivity|].
  destruct (N.leb_spec l 75); [f_equal; lia|].
  destruct (N.ltb_spec l 256); [reflexivity|].
  cbn [seq map N.of_nat Pos.of_succ_nat Pos.succ app].
  rewrite N.pow_0_r, N.div_1_r, N.pow_1_r.
  destruct (N.ltb_spec l 65536).
  - f_equal. f_equal. f_equal. rewrite N.mod_small; [reflexivity|]. apply N.div_lt_upper_bound; lia.
  - reflexivity.
Qed.

Ltac splice_parts :=
  repeat match goal with
  | |- inr _ = inr _ => apply f_equal
  | |- (_, _) = (_, _) => apply f_equal2
  | |- _ :: _ = _ :: _ => apply f_equal2
  | |- encode _ = encode _ => apply f_equal
  | |- firstn _ _ = firstn _ _ => apply f_equal2
  | |- skipn _ _ = skipn _ _ => apply f_equal2
  end; try reflexivity; try lia.
Ltac splice_final :=
  first [ reflexivity | unfold two32, sub_bytes; cbn [mem]; len_norm; rewrite ?firstn_length, ?skipn_length; splice_parts ].

Section Splice.
  Variable cr : crypto.
  Variable cx : context.
  Variable rc : vmst -> child_result.

  Definition splice_ops : list N := [126; 127; 128; 129; 137]%N.

  Lemma splice_ok : forall i s, In (i_op i) splice_ops -> refines_at cr cx rc i s.
  Proof.
    intros [op il idata] [pg pc0 npc rl df er vd ds als] Hop. cbn [i_op] in Hop. facts.
    unfold splice_ops in Hop.
    repeat (destruct Hop as [<-|Hop];
      [ time "op" (op_start; op_run_with ltac:(rewrite ?push_instr_eq; unfold sub_bytes in *; cbn [N.eqb Pos.eqb] in * ); try splice_final) |]).
    all: try contradiction.
  Qed.

  (* SIZE pushes a length: needs the length to be a Go int *)
  Lemma size_ok : forall i s, sane s -> i_op i = 130%N -> refines_at cr cx rc i s.
  Proof.
    intros [op il idata] [pg pc0 npc rl df er vd ds als] [_ Hs] Hop. cbn [i_op] in Hop. subst op. facts.
    cbn [dstack] in Hs. unfold go_len in Hs.
    destruct ds as [|x ds]; [op_proof|].
    inversion Hs as [|? ? Hx _]; subst. clear Hs.
    op_proof.
  Qed.
End Splice.
