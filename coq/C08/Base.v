(* C08 — proof infrastructure: observable outcome of one instruction of the executable
   model (VM.step after a successful parse), the reference outcome built from
   Spec.spec_op + the cost table, the codec lemmas relating the two number
   representations, and the tactic library used by the per-class proofs. *)
From Coq Require Import List ZArith NArith Bool Lia ZifyN ZifyNat ZifyBool.
From Verif Require Import Cmp VM.
From C08 Require Import Spec.
Import ListNotations.
Open Scope Z_scope.

(* ------------------------------------------------------------ observables *)

Definition obs := (stack * stack * N * Z * item * bool)%type.
Definition outcome (r : res unit) : vmerr + obs :=
  match r with
  | RErr e _ => inl e
  | ROk _ s => inr (dstack s, astack s, pc s, runlimit s, prog s, expres s)
  end.

Section Instr.
  Variable cr : crypto.
  Variable cx : context.
  Variable rc : vmst -> child_result.

  (* VM.step after ParseOp succeeded *)
  Definition exec_instr (i : inst) (s : vmst) : res unit :=
    let s1 := set_nextpc s ((pc s + i_len i) mod two32)%N in
    if is_expansion (i_op i) then
      if expres s1 then RErr EDisallowedOpcode s1
      else apply_cost 1 (set_pc s1 (nextpc s1))
    else
      let s2 := set_vdata (set_deferred s1 0) (i_data i) in
      match exec_op cr cx rc (i_op i) s2 with
      | RErr e s3 => RErr e s3
      | ROk _ s3 =>
          match apply_cost (deferred s3) s3 with
          | RErr e s4 => RErr e (set_astack (set_dstack s4 []) [])
          | ROk _ s4 => ROk tt (set_pc s4 (nextpc s4))
          end
      end.

  Lemma step_exec_instr s :
    step cr cx rc s = match parse_op (prog s) (pc s) with
                      | inl e => RErr e s
                      | inr i => exec_instr i s
                      end.
  Proof. reflexivity. Qed.

  (* the child VM of CHECKPREDICATE as the reference semantics sees it *)
  Definition child_of : child_run :=
    fun predicate args limit =>
      let '(okc, cs) := rc {| prog := predicate; pc := 0; nextpc := 0; runlimit := limit; deferred := 0;
                              expres := false; vdata := []; dstack := args; astack := [] |} in
      (okc, runlimit cs, dstack cs, astack cs).

  Definition spec_sem (i : inst) (s : vmst) : sem :=
    spec_op cr cx child_of (i_op i) (i_data i) (expres s) (runlimit s) (dstack s) (astack s).

  (* reference outcome of one instruction *)
  Definition spec_instr (i : inst) (s : vmst) : vmerr + obs :=
    match spec_sem i s with
    | inl e => inl e
    | inr e =>
        inr (e_data e, e_alt e,
             match e_jump e with Some t => t | None => ((pc s + i_len i) mod 2 ^ 32)%N end,
             gas_after (runlimit s) (spec_cost child_of (runlimit s) (i_op i) (dstack s)) (dstack s) (astack s) e,
             prog s, expres s)
    end.

  Definition enough_gas (i : inst) (s : vmst) : Prop :=
    gas_needed (spec_cost child_of (runlimit s) (i_op i) (dstack s)) (spec_sem i s) <= runlimit s.

  Definition refines_at (i : inst) (s : vmst) : Prop :=
    enough_gas i s -> outcome (exec_instr i s) = spec_instr i s.
End Instr.

(* lengths are Go ints: every item length and the stack depth fit an int64 *)
Definition go_len (n : nat) : Prop := (N.of_nat n < lim63)%N.
Definition sane (s : vmst) : Prop :=
  go_len (length (dstack s)) /\ Forall (fun x => go_len (length x)) (dstack s).

(* the numbers of the transaction context are uint64 *)
Definition opt_u64 (x : option N) : Prop := match x with Some v => (v < lim64)%N | None => True end.
Definition ctx_sane (cx : context) : Prop :=
  opt_u64 (cx_amount cx) /\ opt_u64 (cx_destpos cx) /\ opt_u64 (cx_blockheight cx).

(* ------------------------------------------------------------ codec lemmas *)

Open Scope N_scope.

Lemma weighted_le_decode : forall b i, weighted i b = 256 ^ i * le_decode b.
Proof.
  induction b as [|x b IH]; intros i; cbn [weighted le_decode]; [lia|].
  rewrite IH, N.pow_add_r, N.pow_1_r. lia.
Qed.

Lemma num_value_eq b : num_value b = le_decode b.
Proof. unfold num_value. rewrite weighted_le_decode, N.pow_0_r. lia. Qed.

Lemma lim255_eq : lim255 = two255. Proof. reflexivity. Qed.
Lemma lim256_eq : lim256 = two256. Proof. reflexivity. Qed.
Lemma lim63_eq : lim63 = two63. Proof. reflexivity. Qed.
Lemma lim64_eq : lim64 = two64. Proof. reflexivity. Qed.
Lemma lim256_255 : lim256 = 2 * lim255.
Proof. unfold lim256, lim255. change 256 with (N.succ 255). rewrite N.pow_succ_r'. reflexivity. Qed.
Lemma lim64_63 : lim64 = 2 * lim63.
Proof. reflexivity. Qed.
Lemma lim255_pos : 0 < lim255. Proof. reflexivity. Qed.
Lemma lim63_val : lim63 = 9223372036854775808. Proof. reflexivity. Qed.
Lemma lim63_255 : lim63 < lim255. Proof. reflexivity. Qed.

Global Opaque lim255 lim256 two255 two256.

Lemma decode_eq b : as_bigint b = decode b.
Proof.
  unfold as_bigint, decode. rewrite num_value_eq, lim255_eq.
  destruct (32 <? length b)%nat; [reflexivity|].
  destruct (N.leb_spec two255 (le_decode b)), (N.ltb_spec (le_decode b) two255); try reflexivity; lia.
Qed.

Lemma decode_bound b n : decode b = inr n -> n < lim255.
Proof.
  unfold decode. destruct (32 <? length b)%nat; [discriminate|].
  destruct (N.ltb_spec (num_value b) lim255); [|discriminate]. intros E; inversion E; subst; assumption.
Qed.

Definition bytesk (k : nat) (n : N) : item := map (fun i => (n / 256 ^ N.of_nat i) mod 256) (seq 0 k).

Lemma bytesk_S k n : bytesk (S k) n = n mod 256 :: bytesk k (n / 256).
Proof.
  unfold bytesk. cbn [seq map]. f_equal.
  - cbn [N.of_nat]. rewrite N.pow_0_r, N.div_1_r. reflexivity.
  - rewrite <- seq_shift, map_map. apply map_ext. intros i.
    rewrite Nat2N.inj_succ, N.pow_succ_r', N.div_div by (try apply N.pow_nonzero; lia). reflexivity.
Qed.

Lemma le_encode_fuel_0 f : le_encode_fuel f 0 = [].
Proof. destruct f; reflexivity. Qed.

Lemma enc_strip : forall k f n, (k <= f)%nat -> n < 256 ^ N.of_nat k ->
  le_encode_fuel f n = strip (bytesk k n).
Proof.
  induction k as [|k IH]; intros f n Hk Hn.
  - cbn in Hn. assert (n = 0) by lia. subst. rewrite le_encode_fuel_0. reflexivity.
  - destruct f as [|f]; [lia|].
    rewrite bytesk_S. cbn [strip le_encode_fuel].
    assert (Hd : n / 256 < 256 ^ N.of_nat k).
    { rewrite Nat2N.inj_succ, N.pow_succ_r' in Hn. apply N.div_lt_upper_bound; lia. }
    rewrite <- (IH f (n / 256)) by (try lia; assumption).
    destruct (N.eqb_spec n 0) as [E|E].
    + subst. change (0 / 256) with 0. change (0 mod 256) with 0. rewrite le_encode_fuel_0. reflexivity.
    + destruct (le_encode_fuel f (n / 256)) eqn:E2; [|reflexivity].
      assert (n / 256 = 0) as Hz.
      { destruct f; [assert (k = 0%nat) by lia; subst; cbn in Hd; lia|].
        cbn [le_encode_fuel] in E2. destruct (N.eqb_spec (n / 256) 0); [assumption|discriminate]. }
      pose proof (N.div_mod n 256 ltac:(lia)) as Hm.
      destruct (N.eqb_spec (n mod 256) 0); [lia|reflexivity].
Qed.

Lemma pow256_32 : 256 ^ N.of_nat 32 = lim256.
Proof. Transparent lim256. reflexivity. Qed.
Global Opaque lim256.

Lemma encode_eq n : n < lim256 -> le_encode n = encode n.
Proof.
  intros H. unfold le_encode, encode, bytes32. apply (enc_strip 32 40 n); [lia|].
  rewrite pow256_32. assumption.
Qed.

Lemma le_decode_zero b : (le_decode b =? 0) = negb (as_bool b).
Proof.
  induction b as [|x b IH]; [reflexivity|].
  cbn [le_decode as_bool existsb]. fold (as_bool b).
  destruct (N.eqb_spec x 0) as [E|E]; cbn [negb orb].
  - subst. rewrite <- IH. destruct (N.eqb_spec (le_decode b) 0), (N.eqb_spec (0 + 256 * le_decode b) 0); try reflexivity; lia.
  - destruct (N.eqb_spec (x + 256 * le_decode b) 0); [lia|reflexivity].
Qed.

Lemma truthy_eq b : as_bool b = truthy b.
Proof. unfold truthy. rewrite num_value_eq, le_decode_zero, negb_involutive. reflexivity. Qed.

Lemma bool_item_eq b : bool_bytes b = bool_item b.
Proof. reflexivity. Qed.

Open Scope Z_scope.

Lemma mem_eq st : stack_cost st = mem st.
Proof.
  induction st as [|x st IH]; [reflexivity|].
  unfold stack_cost in *. cbn [fold_right mem]. rewrite IH. unfold item_cost, len. lia.
Qed.

Lemma mem_nonneg st : 0 <= mem st.
Proof. induction st as [|x st IH]; cbn [mem]; unfold len; lia. Qed.

Lemma len_nonneg b : 0 <= len b.
Proof. unfold len. lia. Qed.

Lemma size_operand_nonneg b : 0 <= size_operand b.
Proof. unfold size_operand. destruct (decode b); [lia|]. destruct (_ <? _)%N; lia. Qed.
Lemma size_operand_val b n : decode b = inr n -> (n <? lim63)%N = true -> size_operand b = Z.of_N n.
Proof. intros D E. unfold size_operand. rewrite D, E. reflexivity. Qed.

(* ------------------------------------------------------------ tactics *)

(* unfold the state monad and the record updates, keep arithmetic folded *)
Ltac vm_unfold :=
  cbv beta iota zeta delta
    [exec_instr exec_op bind ret fail lift get apply_cost defer_cost push push_alt push_bool push_bigint
     pop pop_bigint top num1 num2 cmp2 range_chk do_equal do_hash n_dup n_dup_go rot_n
     set_runlimit set_deferred set_dstack set_astack set_nextpc set_pc set_vdata
     prog pc nextpc runlimit deferred expres vdata dstack astack
     i_op i_len i_data outcome bigint_int64 jump_target low64_signed].

Ltac spec_unfold :=
  cbv beta iota zeta delta
    [refines_at enough_gas spec_instr spec_sem spec_op spec_cost gas_needed gas_after charge cost
     c_base c_size c_transient c_prepaid un_num un_pred bin_gen bin_num bin_pred two_items ok jump sbind
     in_range small take opt_ctx e_data e_alt e_jump top0 top1
     prog pc nextpc runlimit deferred expres vdata dstack astack i_op i_len i_data].

Ltac len_norm :=
  change (bool_item false) with (@nil N) in *; change (bool_item true) with [1%N] in *;
  unfold item_cost, nlen, len in *; cbn [mem length] in *; unfold len in *;
  rewrite ?map_length, ?app_length, ?firstn_length, ?skipn_length in *.
Ltac arith := len_norm; lia.

(* the scrutinee on which evaluation of a term is blocked *)
Ltac find_stuck t :=
  lazymatch t with
  | if ?c then _ else _ => find_stuck c
  | (if ?c then _ else _) _ => find_stuck c
  | match ?x with inl _ => _ | inr _ => _ end => find_stuck x
  | (match ?x with inl _ => _ | inr _ => _ end) _ => find_stuck x
  | match ?x with ROk _ _ => _ | RErr _ _ => _ end => find_stuck x
  | match ?x with [] => _ | _ :: _ => _ end => find_stuck x
  | (match ?x with [] => _ | _ :: _ => _ end) _ => find_stuck x
  | match ?x with Some _ => _ | None => _ end => find_stuck x
  | (match ?x with Some _ => _ | None => _ end) _ => find_stuck x
  | match ?x with pair _ _ => _ end => find_stuck x
  | (match ?x with pair _ _ => _ end) _ => find_stuck x
  | _ => t
  end.

(* phase 1: case analysis driven by the reference semantics (right-hand side of the goal
   [enough gas -> model outcome = reference outcome]) *)
Ltac spec_step :=
  lazymatch goal with
  | |- _ -> _ = ?r =>
      let x := find_stuck r in
      lazymatch x with
      | inl _ => fail
      | inr _ => fail
      | decode ?b => let D := fresh "D" in let n := fresh "n" in
                     destruct (decode b) as [?|n] eqn:D; [| pose proof (decode_bound _ _ D)]
      | _ => first [ is_var x; destruct x | let E := fresh "E" in destruct x eqn:E ]
      end; cbv beta iota
  end.

Ltac known_decode b := match goal with H : decode b = _ |- _ => rewrite H end.
Ltac known_truthy b := match goal with H : truthy b = _ |- _ => rewrite H end.

(* phase 2: run the model; every test is decided by the context *)
Ltac model_step :=
  lazymatch goal with
  | |- ?l = _ =>
      let x := find_stuck l in
      lazymatch x with
      | ROk _ _ => fail
      | RErr _ _ => fail
      | inl _ => fail
      | inr _ => fail
      | is_expansion _ => let v := eval vm_compute in x in change x with v
      | as_bigint ?b => rewrite (decode_eq b); try known_decode b
      | as_bool ?b => rewrite (truthy_eq b); try known_truthy b
      | _ => first [ match goal with H : x = _ |- _ => rewrite H end
                   | let E := fresh "E" in assert (E : x = false) by arith; rewrite E; clear E
                   | let E := fresh "E" in assert (E : x = true) by arith; rewrite E; clear E ]
      end; cbv beta iota
  end.

(* last resort inside phase 2: a genuine case split of the model (e.g. MIN/MAX) *)
Ltac model_split :=
  lazymatch goal with
  | |- ?l = _ => let x := find_stuck l in
                 lazymatch type of x with bool => let E := fresh "E" in destruct x eqn:E; cbv beta iota end
  end.

Ltac facts :=
  pose proof lim256_255; pose proof lim255_pos; pose proof lim63_val; pose proof lim64_63; pose proof lim63_255;
  pose proof lim255_eq; pose proof lim256_eq; pose proof lim63_eq; pose proof lim64_eq.

Ltac mem_facts := repeat match goal with
  | H : context [mem ?x] |- _ =>
      lazymatch goal with | _ : 0 <= mem x |- _ => fail | _ => pose proof (mem_nonneg x) end
  end.

Ltac final_parts :=
  repeat match goal with
  | |- inr _ = inr _ => apply f_equal
  | |- (_, _) = (_, _) => apply f_equal2
  | |- _ :: _ = _ :: _ => apply f_equal2
  | |- encode _ = encode _ => apply f_equal
  | |- bool_item _ = bool_item _ => apply f_equal
  end; try reflexivity; try lia.

Ltac final :=
  first [ reflexivity
        | rewrite ?truthy_eq; unfold two32; cbn [mem nth tl]; len_norm; final_parts ].

Ltac size_facts :=
  repeat match goal with
  | H : context [size_operand ?b] |- _ =>
      first [ match goal with
              | D : decode b = inr ?n, E : (?n <? lim63)%N = true |- _ => rewrite (size_operand_val b n D E) in H
              end
            | lazymatch goal with
              | _ : 0 <= size_operand b |- _ => fail
              | _ => pose proof (size_operand_nonneg b)
              end ]
  end.

Ltac op_run_with tac :=
  repeat first [ model_step | rewrite encode_eq by arith | rewrite truthy_eq | progress tac ].
Ltac op_run := op_run_with fail.

Ltac op_start :=
  spec_unfold; vm_unfold; change bool_bytes with bool_item;
  cbn [nth tl]; repeat spec_step;
  let Hgas := fresh "Hgas" in intros Hgas;
  cbv beta iota delta [e_data e_alt e_jump] in Hgas |- *; cbn [mem nth tl] in Hgas; mem_facts; size_facts.

Ltac op_proof := op_start; op_run; try final.
