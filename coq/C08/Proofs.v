(* C08 — lemmas about the VM model's number codec (coq/lib/VM.v). *)
From Coq Require Import List ZArith NArith Bool Lia ZifyN ZifyNat ZifyBool.
From Verif Require Import Cmp VM.
Import ListNotations.
Open Scope N_scope.

Lemma le_decode_encode_fuel : forall f n, n < 256 ^ N.of_nat f -> le_decode (le_encode_fuel f n) = n.
Proof.
  induction f as [|f IH]; intros n Hn.
  - cbn in *. lia.
  - cbn [le_encode_fuel]. destruct (n =? 0) eqn:E.
    + apply N.eqb_eq in E. subst. reflexivity.
    + cbn [le_decode]. rewrite IH.
      * pose proof (N.div_mod n 256 ltac:(lia)). lia.
      * rewrite Nat2N.inj_succ, N.pow_succ_r' in Hn.
        apply N.div_lt_upper_bound; lia.
Qed.

Lemma two256_lt : 2 ^ 256 < 256 ^ N.of_nat 40.
Proof. vm_compute. reflexivity. Qed.

Lemma le_decode_encode n : n < 2 ^ 256 -> le_decode (le_encode n) = n.
Proof.
  intros H. unfold le_encode. apply le_decode_encode_fuel.
  pose proof two256_lt. lia.
Qed.

Lemma le_encode_fuel_bytes : forall f n, Forall (fun b => b < 256) (le_encode_fuel f n).
Proof.
  induction f as [|f IH]; intros n; cbn [le_encode_fuel]; [constructor|].
  destruct (n =? 0); constructor; [|apply IH].
  apply N.mod_lt. lia.
Qed.
