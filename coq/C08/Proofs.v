(* C08 — assembly: the executable model's step refines the reference semantics for every
   opcode class proved in Numeric / Bitwise / Splice / StackOps / Control / Crypto /
   Introspect; codec theorems; coverage of the opcode space. *)
From Coq Require Import List ZArith NArith Bool Lia ZifyN ZifyNat ZifyBool.
From Verif Require Import Cmp VM.
From C08 Require Import Spec Base Numeric Bitwise Splice StackOps Control Crypto Introspect Predicate.
Import ListNotations.
Open Scope N_scope.

(* ---------- the VM model's number codec (kept from the first version) ---------- *)

Lemma le_decode_encode_fuel : forall f n, n < 256 ^ N.of_nat f -> le_decode (le_encode_fuel f n) = n.
Proof.
  induction f as [|f IH]; intros n Hn.
  - cbn in *. lia.
  - cbn [le_encode_fuel]. destruct (n =? 0) eqn:E.
    + apply N.eqb_eq in E. subst. reflexivity.
    + cbn [le_decode]. rewrite IH.
      * pose proof (N.div_mod n 256 ltac:(lia)). lia.
      * rewrite Nat2N.inj_succ, N.pow_succ_r' in Hn.
        apply N.div_lt_upper_bound; lia.
Qed.

Lemma two256_lt : 2 ^ 256 < 256 ^ N.of_nat 40.
Proof. vm_compute. reflexivity. Qed.

Lemma le_decode_encode n : n < 2 ^ 256 -> le_decode (le_encode n) = n.
Proof.
  intros H. unfold le_encode. apply le_decode_encode_fuel.
  pose proof two256_lt. lia.
Qed.

Lemma le_encode_fuel_bytes : forall f n, Forall (fun b => b < 256) (le_encode_fuel f n).
Proof.
  induction f as [|f IH]; intros n; cbn [le_encode_fuel]; [constructor|].
  destruct (n =? 0); constructor; [|apply IH].
  apply N.mod_lt. lia.
Qed.

(* ---------- the reference codec ---------- *)

Lemma lim256_lt40 : lim256 < 256 ^ N.of_nat 40.
Proof. rewrite <- pow256_32. apply N.pow_lt_mono_r; lia. Qed.

Lemma strip_length : forall b, (length (strip b) <= length b)%nat.
Proof.
  induction b as [|x b IH]; [cbn; lia|]. cbn [strip].
  destruct (strip b); [destruct (x =? 0)|]; cbn [length] in *; lia.
Qed.

Lemma bytesk_length k n : length (bytesk k n) = k.
Proof. unfold bytesk. rewrite map_length, seq_length. reflexivity. Qed.

Lemma num_value_encode n : n < lim256 -> num_value (encode n) = n.
Proof.
  intros H. rewrite <- encode_eq by assumption. rewrite num_value_eq.
  unfold le_encode. apply le_decode_encode_fuel. pose proof lim256_lt40. lia.
Qed.

Lemma decode_encode n : n < lim255 -> decode (encode n) = inr n.
Proof.
  intros H. pose proof lim256_255. unfold decode.
  assert (L : (length (encode n) <= 32)%nat).
  { unfold encode. etransitivity; [apply strip_length|]. change (bytes32 n) with (bytesk 32 n). rewrite bytesk_length. lia. }
  destruct (Nat.ltb_spec 32 (length (encode n))); [lia|].
  rewrite num_value_encode by lia.
  destruct (N.ltb_spec n lim255); [reflexivity|lia].
Qed.

Lemma bytesk_zero : forall k, strip (bytesk k 0) = [].
Proof.
  induction k as [|k IH]; [reflexivity|].
  rewrite bytesk_S. change (0 / 256) with 0. change (0 mod 256) with 0. cbn [strip]. rewrite IH. reflexivity.
Qed.

Lemma strip_bytesk : forall b k, Forall (fun x => x < 256) b -> (length b <= k)%nat ->
  strip (bytesk k (le_decode b)) = strip b.
Proof.
  induction b as [|x b IH]; intros k Hb Hk.
  - cbn [le_decode]. apply bytesk_zero.
  - destruct k as [|k]; [cbn in Hk; lia|]. inversion Hb as [|? ? Hx Hb']; subst.
    rewrite bytesk_S. cbn [le_decode].
    replace (x + 256 * le_decode b) with (x + le_decode b * 256) by lia.
    rewrite N.mod_add, N.div_add by lia. rewrite N.mod_small, N.div_small by assumption.
    rewrite N.add_0_l.
    cbn [strip]. rewrite IH by (try assumption; cbn in Hk; lia). reflexivity.
Qed.

Lemma encode_num_value b : Forall (fun x => x < 256) b -> (length b <= 32)%nat ->
  encode (num_value b) = strip b.
Proof.
  intros Hb Hl. rewrite num_value_eq. unfold encode, bytes32. apply (strip_bytesk b 32 Hb Hl).
Qed.

Lemma truthy_spec b : truthy b = true <-> num_value b <> 0.
Proof. unfold truthy. rewrite negb_true_iff, N.eqb_neq. reflexivity. Qed.

(* ---------- ParseOp supplies the number of OP_1 … OP_16 as instruction data ---------- *)

Lemma const_in_range op : In op const_ops -> 81 <= op <= 96.
Proof. unfold const_ops. cbn [In]. lia. Qed.

Lemma parse_op_const p pcv i : parse_op p pcv = inr i -> In (i_op i) const_ops -> i_data i = [i_op i - 80].
Proof.
  intros H Hin. apply const_in_range in Hin. unfold parse_op in H.
  unfold OP_1, OP_16, OP_DATA_1, OP_DATA_75, OP_PUSHDATA1, OP_PUSHDATA2, OP_PUSHDATA4, OP_JUMP, OP_JUMPIF in H.
  set (opc := byte_at p pcv) in *.
  destruct (2147483647 <? N.of_nat (length p)); [discriminate|].
  destruct (N.of_nat (length p) <=? pcv); [discriminate|].
  destruct ((81 <=? opc) && (opc <=? 96)) eqn:E.
  - inversion H; subst; cbn [i_op i_data] in *. f_equal. lia.
  - exfalso.
    assert (Hop : i_op i = opc).
    { repeat match type of H with
             | (if ?c then _ else _) = _ => destruct c
             | match ?x with Some _ => _ | None => _ end = _ => destruct x
             end; try discriminate; inversion H; reflexivity. }
    rewrite Hop in Hin. lia.
Qed.

(* ---------- main theorem ---------- *)

Open Scope Z_scope.

Definition covered_ops : list N :=
  numeric_ops ++ bitwise_ops ++ splice_ops ++ [130%N] ++ stack_simple ++ [116; 121; 122]%N ++
  control_ops ++ pushdata_ops ++ const_ops ++ expansion_ops ++ crypto_simple ++ [173%N] ++ introspect_ops.

Section Main.
  Variable cr : crypto.
  Variable cx : context.
  Variable rc : vmst -> child_result.

  Lemma instr_refines : forall i s, sane s -> ctx_sane cx ->
    In (i_op i) covered_ops -> (In (i_op i) const_ops -> i_data i = [(i_op i - 80)%N]) ->
    refines_at cr cx rc i s.
  Proof.
    intros i s Hs Hc Hin Hconst. unfold covered_ops in Hin.
    apply in_app_or in Hin; destruct Hin as [Hin|Hin]; [apply numeric_ok; assumption|].
    apply in_app_or in Hin; destruct Hin as [Hin|Hin]; [apply bitwise_ok; assumption|].
    apply in_app_or in Hin; destruct Hin as [Hin|Hin]; [apply splice_ok; assumption|].
    apply in_app_or in Hin; destruct Hin as [Hin|Hin];
      [apply size_ok; [assumption|]; cbn [In] in Hin; destruct Hin as [Hin|[]]; symmetry; exact Hin|].
    apply in_app_or in Hin; destruct Hin as [Hin|Hin]; [apply stack_simple_ok; assumption|].
    apply in_app_or in Hin; destruct Hin as [Hin|Hin].
    { cbn [In] in Hin. destruct Hin as [Hin|Hin].
      - apply depth_ok; [assumption|]. symmetry; assumption.
      - apply pickroll_ok. exact Hin. }
    apply in_app_or in Hin; destruct Hin as [Hin|Hin]; [apply control_ok; assumption|].
    apply in_app_or in Hin; destruct Hin as [Hin|Hin]; [apply pushdata_ok; assumption|].
    apply in_app_or in Hin; destruct Hin as [Hin|Hin]; [apply const_ok; [assumption|]; apply Hconst; assumption|].
    apply in_app_or in Hin; destruct Hin as [Hin|Hin]; [apply expansion_ok; assumption|].
    apply in_app_or in Hin; destruct Hin as [Hin|Hin]; [apply crypto_simple_ok; assumption|].
    apply in_app_or in Hin; destruct Hin as [Hin|Hin];
      [apply multisig_ok; cbn [In] in Hin; destruct Hin as [Hin|[]]; symmetry; exact Hin|].
    apply introspect_ok; assumption.
  Qed.

  Theorem step_refines_spec : forall s i, sane s -> ctx_sane cx ->
    parse_op (prog s) (pc s) = inr i ->
    In (i_op i) covered_ops ->
    enough_gas cr cx rc i s ->
    outcome (step cr cx rc s) = spec_instr cr cx rc i s.
  Proof.
    intros s i Hs Hc Hp Hin Hg. rewrite step_exec_instr, Hp.
    apply instr_refines; try assumption.
    intros Hk. apply (parse_op_const _ _ _ Hp Hk).
  Qed.

  (* CHECKPREDICATE, gas included *)
  Theorem step_checkpredicate : forall s i, child_nonneg rc ->
    parse_op (prog s) (pc s) = inr i -> i_op i = 192%N ->
    enough_gas cr cx rc i s ->
    outcome (step cr cx rc s) = spec_instr cr cx rc i s.
  Proof.
    intros s i Hrc Hp Hop Hg. rewrite step_exec_instr, Hp. apply checkpredicate_ok; assumption.
  Qed.
End Main.

(* every opcode byte except CHECKPREDICATE (0xc0 = 192) is covered *)
Lemma covered_all_but_192 : forall op, (op < 256)%N -> op <> 192%N -> In op covered_ops.
Proof.
  assert (H : forallb (fun op => (op =? 192)%N || existsb (N.eqb op) covered_ops) (map N.of_nat (seq 0 256)) = true)
    by (vm_compute; reflexivity).
  intros op Hlt Hne. rewrite forallb_forall in H.
  specialize (H op). rewrite orb_true_iff, existsb_exists in H.
  destruct H as [H|[x [Hx He]]].
  - apply in_map_iff. exists (N.to_nat op). split; [lia|]. apply in_seq. lia.
  - apply N.eqb_eq in H. contradiction.
  - apply N.eqb_eq in He. subst. assumption.
Qed.

(* all 256 opcode bytes *)
Theorem step_refines_spec_full : forall cr cx rc s i, sane s -> ctx_sane cx -> child_nonneg rc ->
  parse_op (prog s) (pc s) = inr i -> (i_op i < 256)%N ->
  enough_gas cr cx rc i s ->
  outcome (step cr cx rc s) = spec_instr cr cx rc i s.
Proof.
  intros cr cx rc s i Hs Hc Hrc Hp Hlt Hg.
  destruct (N.eq_dec (i_op i) 192) as [E|E].
  - apply step_checkpredicate; assumption.
  - apply step_refines_spec; try assumption. apply covered_all_but_192; assumption.
Qed.

(* hypotheses are satisfiable by a non-trivial state: ADD on (3, 4) with 100 gas *)
Example add_example :
  let s := {| prog := [147%N]; pc := 0; nextpc := 0; runlimit := 100; deferred := 0; expres := true;
              vdata := []; dstack := [[4%N]; [3%N]]; astack := [] |} in
  let cr := {| h_sha256 := fun x => x; h_sha3 := fun x => x; h_ripemd160 := fun x => x;
               sig_verify := fun _ _ _ => false |} in
  let cx := {| cx_vmversion := 1; cx_code := []; cx_entryid := []; cx_txversion := None; cx_blockheight := None;
               cx_assetid := None; cx_amount := None; cx_destpos := None; cx_spentoutputid := None;
               cx_txsighash := None; cx_checkoutput := None |} in
  outcome (step cr cx (fun c => (true, c)) s) = inr ([[7%N]], [], 1%N, 107, [147%N], true)
  /\ sane s /\ ctx_sane cx /\ In 147%N covered_ops
  /\ enough_gas cr cx (fun c => (true, c)) {| i_op := 147; i_len := 1; i_data := [] |} s.
Proof.
  cbv zeta. split; [vm_compute; reflexivity|]. split.
  { split; [vm_compute; reflexivity|]. repeat constructor. }
  split; [repeat split|]. split; [vm_compute; tauto|].
  unfold enough_gas. vm_compute. discriminate.
Qed.
