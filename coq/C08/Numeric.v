(* C08 — numeric opcodes 0x8b–0xa5 refine the reference semantics. *)
From Coq Require Import List ZArith NArith Bool Lia ZifyN ZifyNat ZifyBool.
From Verif Require Import Cmp VM.
From C08 Require Import Spec Base.
Import ListNotations.
Open Scope Z_scope.

Definition numeric_linear : list N :=
  [139; 140; 141; 145; 146; 147; 148; 154; 155; 156; 157; 158; 159; 160; 161; 162; 165]%N.

Ltac minmax_fix :=
  repeat match goal with
  | |- context [if (?a <? ?b)%N then ?a else ?b] =>
      replace (if (a <? b)%N then a else b) with (N.min b a) by (destruct (N.ltb_spec a b); lia)
  | |- context [if (?a <? ?b)%N then ?b else ?a] =>
      replace (if (a <? b)%N then b else a) with (N.max a b) by (destruct (N.ltb_spec a b); lia)
  end.

Ltac div_facts :=
  rewrite ?lim256_eq in *; pose proof lim256_eq;
  repeat match goal with
  | H : context [(?a / ?b)%N] |- _ =>
      lazymatch goal with
      | _ : (a / b <= a)%N |- _ => fail
      | _ => assert (b <> 0)%N by (first [lia | apply N.pow_nonzero; lia]);
             assert (a / b <= a)%N by (apply N.div_le_upper_bound; [assumption | nia])
      end
  | H : context [(?a mod two256)%N] |- _ =>
      lazymatch goal with
      | _ : (a mod two256 < two256)%N |- _ => fail
      | _ => assert (a mod two256 < two256)%N by (apply N.mod_lt; lia)
      end
  end.

Section Numeric.
  Variable cr : crypto.
  Variable cx : context.
  Variable rc : vmst -> child_result.

  Lemma numeric_linear_ok : forall i s, In (i_op i) numeric_linear -> refines_at cr cx rc i s.
  Proof.
    intros [op il idata] [pg pc0 npc rl df er vd ds als] Hop. cbn [i_op] in Hop. facts.
    unfold numeric_linear in Hop.
    repeat (destruct Hop as [<-|Hop]; [ time "op" op_proof |]). 
    all: try contradiction.
  Qed.

  Lemma numeric_minmax_ok : forall i s, In (i_op i) [142; 163; 164]%N -> refines_at cr cx rc i s.
  Proof.
    intros [op il idata] [pg pc0 npc rl df er vd ds als] Hop. cbn [i_op] in Hop. facts.
    repeat (destruct Hop as [<-|Hop]; [ (op_start; op_run; minmax_fix; op_run; try final) |]).
    all: try contradiction.
  Qed.

  Lemma numeric_mul_ok : forall i s, In (i_op i) [149; 150; 151; 152; 153]%N -> refines_at cr cx rc i s.
  Proof.
    intros [op il idata] [pg pc0 npc rl df er vd ds als] Hop. cbn [i_op] in Hop. facts.
    repeat (destruct Hop as [<-|Hop]; [ (op_start; div_facts; op_run; repeat (model_split; op_run); try final) |]).
    all: try contradiction.
  Qed.

  Definition numeric_ops : list N := numeric_linear ++ [142; 163; 164; 149; 150; 151; 152; 153]%N.
  Lemma numeric_ok : forall i s, In (i_op i) numeric_ops -> refines_at cr cx rc i s.
  Proof.
    intros i s H. unfold numeric_ops in H. apply in_app_or in H. destruct H as [H|H].
    - apply numeric_linear_ok; assumption.
    - cbn [In] in H.
      destruct H as [H|[H|[H|H]]];
        [apply numeric_minmax_ok; cbn [In]; tauto .. | apply numeric_mul_ok; exact H].
  Qed.
End Numeric.
