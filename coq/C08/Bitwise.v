(* C08 — bitwise and equality opcodes 0x83–0x88 refine the reference semantics. *)
From Coq Require Import List ZArith NArith Bool Lia ZifyN ZifyNat ZifyBool.
From Verif Require Import Cmp VM.
From C08 Require Import Spec Base.
Import ListNotations.
Open Scope Z_scope.

Lemma and_bytes_eq a b : and_bytes a b = bit_and a b.
Proof.
  unfold and_bytes, bit_and, zip. rewrite <- combine_firstn.
  rewrite firstn_all2; [reflexivity|]. rewrite combine_length. lia.
Qed.

Lemma zip_repeat_l f b : zip f (repeat 0%N (length b)) b = map (f 0%N) b.
Proof. induction b as [|y b IH]; [reflexivity|]. cbn. unfold zip in IH. rewrite IH. reflexivity. Qed.
Lemma zip_repeat_r f a : zip f a (repeat 0%N (length a)) = map (fun x => f x 0%N) a.
Proof. induction a as [|y a IH]; [reflexivity|]. cbn. unfold zip in IH. rewrite IH. reflexivity. Qed.

Lemma orx_nil_r f a : orx_bytes f a [] = map (fun x => f x 0%N) a.
Proof. induction a as [|x a IH]; [reflexivity|]. cbn. rewrite IH. reflexivity. Qed.

Lemma orx_bytes_eq f : forall a b, orx_bytes f a b = bit_ext f a b.
Proof.
  induction a as [|x a IH]; intros b.
  - unfold bit_ext, pad. cbn [orx_bytes length Nat.max Nat.sub app].
    rewrite Nat.sub_0_r, Nat.sub_diag. cbn [repeat]. rewrite app_nil_r. symmetry. apply zip_repeat_l.
  - destruct b as [|y b].
    + rewrite orx_nil_r. unfold bit_ext, pad. cbn [length Nat.max].
      rewrite Nat.sub_diag, Nat.sub_0_r. cbn [repeat app]. rewrite app_nil_r.
      symmetry. apply (zip_repeat_r f (x :: a)).
    + cbn [orx_bytes]. rewrite IH. unfold bit_ext, pad, zip. cbn [length Nat.max Nat.sub app combine map fst snd].
      reflexivity.
Qed.

Lemma item_eqb_eq : forall a b, bytes_eqb a b = item_eqb a b.
Proof.
  induction a as [|x a IH]; destruct b as [|y b]; try reflexivity.
  cbn. unfold bytes_eqb in IH. rewrite IH. reflexivity.
Qed.

Section Bitwise.
  Variable cr : crypto.
  Variable cx : context.
  Variable rc : vmst -> child_result.

  Definition bitwise_ops : list N := [131; 132; 133; 134; 135; 136]%N.

  Lemma bitwise_ok : forall i s, In (i_op i) bitwise_ops -> refines_at cr cx rc i s.
  Proof.
    intros [op il idata] [pg pc0 npc rl df er vd ds als] Hop. cbn [i_op] in Hop. facts.
    unfold bitwise_ops in Hop.
    repeat (destruct Hop as [<-|Hop];
      [ (op_start; op_run_with ltac:(rewrite ?and_bytes_eq, ?orx_bytes_eq, ?item_eqb_eq); try final) |]).
    all: try contradiction. Show.
  Qed.
End Bitwise.
