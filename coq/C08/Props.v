(* C08 — Every VM opcode matches the reference semantics. PROPERTY THEOREMS ONLY.

   Reading guide.  [Spec.spec_op] is the independent reference semantics (stacks as lists
   of byte strings, numbers as naturals, error classes) and [Spec.spec_cost] the reference
   cost table; [Base.spec_instr] packages them as the expected observable outcome of one
   instruction: new data stack, new alt stack, next pc, gas left
   ( = gas - (base + size-dependent cost + change of stack memory) ), program, expansion flag,
   or the error class.  [Base.outcome (VM.step …)] is the same observable of the executable
   model coq/lib/VM.v, which the harness ties to protocol/vm on every run.
   [enough_gas]: the run limit covers the instruction's charges and the memory of the
   stacks it leaves, so that "out of gas" does not pre-empt the semantic result (C07 treats
   running out of gas).  [sane]: item lengths and stack depth are Go ints; [ctx_sane]:
   the context's amount / index / height are uint64.

   [c08_exec_refines_spec_full] covers all 256 opcode bytes: numeric 0x8b–0xa5,
   bitwise/equality 0x83–0x88, splice 0x7e–0x82 0x89, stack 0x6b–0x7d, control 0x61 0x63 0x64
   0x69 0x6a 0xc0 (CHECKPREDICATE, with the child's consumption in the cost), push data /
   constants 0x00–0x4e 0x51–0x60, crypto 0xa8 0xaa–0xae, introspection 0xc1–0xc4 0xc9–0xcb
   0xcd, and all undefined ("expansion") bytes. *)
From Coq Require Import List ZArith NArith Bool.
From Verif Require Import VM.
From C08 Require Import Spec Base Control Crypto Predicate Proofs Runs.
From C08 Require OpTie.
Import ListNotations.

(* ---- every opcode byte ---- *)

(* [child_nonneg rc]: the child VM (CHECKPREDICATE) never turns a non-negative run limit into a
   negative one; VM.run satisfies it (C07).  For CHECKPREDICATE the reference charge is
   64 + (child limit − child's remaining run limit − memory of the child's final stacks
   + memory of the arguments handed over) + the change of stack memory ([Spec.cp_consumption]). *)
Theorem c08_exec_refines_spec_full : forall cr cx rc s i, sane s -> ctx_sane cx -> child_nonneg rc ->
  parse_op (prog s) (pc s) = inr i -> (i_op i < 256)%N ->
  enough_gas cr cx rc i s ->
  outcome (step cr cx rc s) = spec_instr cr cx rc i s.
Proof. exact step_refines_spec_full. Qed.
Print Assumptions c08_exec_refines_spec_full.

(* the same without any hypothesis on the child function, for every opcode but CHECKPREDICATE *)
Theorem c08_exec_refines_spec_partial : forall cr cx rc s i, sane s -> ctx_sane cx ->
  parse_op (prog s) (pc s) = inr i ->
  In (i_op i) covered_ops ->
  enough_gas cr cx rc i s ->
  outcome (step cr cx rc s) = spec_instr cr cx rc i s.
Proof. exact step_refines_spec. Qed.
Print Assumptions c08_exec_refines_spec_partial.

Theorem c08_covered_all_but_checkpredicate :
  forall op, (op < 256)%N -> op <> 192%N -> In op covered_ops.
Proof. exact covered_all_but_192. Qed.
Print Assumptions c08_covered_all_but_checkpredicate.

(* ---- whole runs ----
   [spec_run] (Runs.v) iterates the reference step over a program; CHECKPREDICATE runs its
   child by [spec_run] itself.  It answers [SUnspec] when fuel runs out, when an instruction
   lacks [enough gas], when a length stops being a Go int, or when a CHECKPREDICATE child does
   not finish normally.  Whenever it answers, VM.run (the real recursion, children
   included) gives that answer: same final program counter, gas, stacks — or same error. *)
Theorem c08_run_refines_spec_run : forall cr cx, ctx_sane cx ->
  forall fuel s,
    match spec_run cr cx fuel (abs s) with
    | SDone st => exists s', run cr cx fuel s = ROk tt s' /\ abs s' = st
    | SFail e => exists s', run cr cx fuel s = RErr e s'
    | SUnspec => True
    end.
Proof. exact run_refines_spec_run. Qed.
Print Assumptions c08_run_refines_spec_run.

(* the bytes treated as undefined by the reference are exactly the model's expansion opcodes *)
Theorem c08_expansion_set : expansion_ops = filter is_expansion (map N.of_nat (seq 0 256)).
Proof. exact expansion_ops_complete. Qed.
Print Assumptions c08_expansion_set.

(* ---- numbers ---- *)

Open Scope N_scope.

Theorem c08_codec :
  (forall n, n < lim255 -> decode (encode n) = inr n) /\
  (forall b, Forall (fun x => x < 256) b -> (length b <= 32)%nat -> encode (num_value b) = strip b) /\
  (forall b, truthy b = true <-> num_value b <> 0).
Proof. exact (conj decode_encode (conj encode_num_value truthy_spec)). Qed.
Print Assumptions c08_codec.

(* the executable model's codec (AsBigInt / BigIntBytes / AsBool) is the reference codec *)
Theorem c08_model_codec :
  (forall b, as_bigint b = decode b) /\
  (forall n, n < lim256 -> le_encode n = encode n) /\
  (forall b, as_bool b = truthy b).
Proof. exact (conj decode_eq (conj encode_eq truthy_eq)). Qed.
Print Assumptions c08_model_codec.

Theorem c08_codec_decode_encode : forall n, n < 2 ^ 256 -> le_decode (le_encode n) = n.
Proof. exact le_decode_encode. Qed.
Print Assumptions c08_codec_decode_encode.

Theorem c08_codec_bytes : forall f n, Forall (fun b => b < 256) (le_encode_fuel f n).
Proof. exact le_encode_fuel_bytes. Qed.
Print Assumptions c08_codec_bytes.

(* ---- CHECKMULTISIG: the greedy scan decides "the signatures, in order, are verified by an
        order-preserving selection of the keys", for every number of keys and signatures ---- *)

Theorem c08_multisig_declarative : forall cr msg sigs keys,
  multisig_scan cr msg sigs keys = true <->
  ms_match (fun pk sg => sig_verify cr pk msg sg) sigs keys.
Proof.
  exact (fun cr msg sigs keys =>
    eq_ind_r (fun b => b = true <-> _) (ms_search_match _ keys sigs) (multisig_scan_eq cr msg keys sigs)).
Qed.
Print Assumptions c08_multisig_declarative.

(* ---- tie to the source: the opcode table translated from protocol/vm/ops.go on this run
        (tools/optable -> VerifGen.OpTable) assigns to every one of the 256 opcode bytes the Go
        handler that the corresponding branch of VM.exec_op models ([OpTie.model_handler]), marks
        exactly the bytes of VM.is_expansion as expansion opcodes, and has the DATA_n /
        small-integer ranges and the constants the model's parser uses ---- *)
Theorem c08_optable_tied_to_source :
  (forall b, (b < 256)%N -> C08.OpTie.model_handler b = C08.OpTie.gen_handler b)
  /\ (forall b, (b < 256)%N -> VM.is_expansion b = C08.OpTie.gen_is_expansion b)
  /\ C08.OpTie.table_well_formed = true.
Proof.
  exact (conj C08.OpTie.optable_handlers_lemma (conj C08.OpTie.optable_expansion_lemma C08.OpTie.table_well_formed_ok)).
Qed.
Print Assumptions c08_optable_tied_to_source.
