(* C08 — Every VM opcode matches the reference semantics. PROPERTY THEOREMS ONLY. *)
From Coq Require Import List NArith.
From Verif Require Import VM.
From C08 Require Import Proofs.
Open Scope N_scope.

(* numbers: the VM's encoding of a value below 2^256 decodes to that value *)
Theorem c08_codec_decode_encode : forall n, n < 2 ^ 256 -> le_decode (le_encode n) = n.
Proof. exact le_decode_encode. Qed.
Print Assumptions c08_codec_decode_encode.

Theorem c08_codec_bytes : forall f n, Forall (fun b => b < 256) (le_encode_fuel f n).
Proof. exact le_encode_fuel_bytes. Qed.
Print Assumptions c08_codec_bytes.
