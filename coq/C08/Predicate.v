(* C08 — CHECKPREDICATE (0xc0): stacks and error class refine the reference semantics.
   (Its gas contains the child VM's own consumption, which the reference cost table does
   not describe; gas accounting across CHECKPREDICATE is the subject of C07.) *)
From Coq Require Import List ZArith NArith Bool Lia ZifyN ZifyNat ZifyBool.
From Verif Require Import Cmp VM.
From C08 Require Import Spec Base.
Import ListNotations.
Open Scope Z_scope.

Definition stacks_of (o : vmerr + obs) : vmerr + (stack * stack) :=
  match o with inl e => inl e | inr (d, a, _, _, _, _) => inr (d, a) end.

Lemma ZofN_eqb0 v : (Z.of_N v =? 0) = (v =? 0)%N.
Proof. destruct (N.eqb_spec v 0), (Z.eqb_spec (Z.of_N v) 0); try reflexivity; lia. Qed.

Lemma Z2nat_ofN' n : Z.to_nat (Z.of_N n) = N.to_nat n.
Proof. lia. Qed.

Lemma bool_item_len b : 0 <= Z.of_nat (length (bool_item b)) <= 1.
Proof. destruct b; cbn; lia. Qed.

Ltac pred_fix Hrc :=
  rewrite ?ZofN_eqb0, ?Z2nat_ofN', ?Nat2Z.id, ?Nat2N.id in *; repeat rewrite mem_eq in *;
  repeat match goal with
  | E : (?v =? 0)%N = _ |- context [(?v =? 0)%N] => rewrite E
  end;
  repeat match goal with
  | E : ?rc ?st = (?b, ?v) |- _ =>
      is_var v; let Hv := fresh "Hv" in
      pose proof (Hrc st) as Hv; rewrite E in Hv; destruct v; cbn [snd runlimit] in Hv
  end;
  repeat rewrite mem_eq;
  repeat match goal with
  | |- context [bool_item ?b] =>
      lazymatch b with
      | true => fail | false => fail
      | _ => lazymatch goal with
             | _ : 0 <= Z.of_nat (length (bool_item b)) <= 1 |- _ => fail
             | _ => pose proof (bool_item_len b)
             end
      end
  end;
  repeat match goal with
  | |- context [mem ?x] =>
      lazymatch goal with | _ : 0 <= mem x |- _ => fail | _ => pose proof (mem_nonneg x) end
  end;
  cbv beta iota; repeat match goal with |- context [stack_cost ?x] => rewrite (mem_eq x) end;
  repeat match goal with
  | |- context [mem ?x] =>
      lazymatch goal with | _ : 0 <= mem x |- _ => fail | _ => pose proof (mem_nonneg x) end
  end.

Section Predicate.
  Variable cr : crypto.
  Variable cx : context.
  Variable rc : vmst -> child_result.

  Lemma checkpredicate_stacks : forall i s, i_op i = 192%N ->
    (forall c, 0 <= runlimit (snd (rc c))) ->
    256 + size_operand (top0 (dstack s)) <= runlimit s ->
    stacks_of (outcome (exec_instr cr cx rc i s)) = stacks_of (spec_instr cr cx rc i s).
  Proof.
    intros [op il idata] [pg pc0 npc rl df er vd ds als] Hop Hrc. cbn [i_op] in Hop. subst op. facts.
    unfold stacks_of. spec_unfold. vm_unfold. cbv beta iota delta [child_of]. change bool_bytes with bool_item.
    cbn [nth tl].
    repeat first [ match goal with
                   | |- context [if (?v =? 0)%N then _ else _] =>
                       is_var v; let E := fresh "E" in destruct (v =? 0)%N eqn:E; cbv beta iota
                   end
                 | spec_step ].
    all: intros Hgas; cbn [nth tl] in Hgas; size_facts; op_run_with ltac:(pred_fix Hrc).
    all: try reflexivity.
    all: try (exfalso; arith).
    all: cbn [VM.dstack]; match goal with |- context [match ?d with [] => true | _ => _ end] => destruct d end;
      rewrite ?truthy_eq, ?negb_involutive; reflexivity.
  Qed.
End Predicate.
