(* C08 — CHECKPREDICATE (0xc0) refines the reference semantics, gas included: the charge is
   64 + the child's consumption (limit handed over − run limit and stack memory that come
   back + memory of the arguments) + the usual change of stack memory.  The child VM is an
   arbitrary function [rc] that keeps a non-negative run limit non-negative. *)
From Coq Require Import List ZArith NArith Bool Lia ZifyN ZifyNat ZifyBool.
From Verif Require Import Cmp VM.
From C08 Require Import Spec Base.
Import ListNotations.
Open Scope Z_scope.

Definition stacks_of (o : vmerr + obs) : vmerr + (stack * stack) :=
  match o with inl e => inl e | inr (d, a, _, _, _, _) => inr (d, a) end.

Lemma ZofN_eqb0 v : (Z.of_N v =? 0) = (v =? 0)%N.
Proof. destruct (N.eqb_spec v 0), (Z.eqb_spec (Z.of_N v) 0); try reflexivity; lia. Qed.

Lemma Z2nat_ofN' n : Z.to_nat (Z.of_N n) = N.to_nat n.
Proof. lia. Qed.

Lemma bool_item_len b : 0 <= Z.of_nat (length (bool_item b)) <= 1.
Proof. destruct b; cbn; lia. Qed.

Ltac pred_fix Hrc :=
  rewrite ?ZofN_eqb0, ?Z2nat_ofN', ?Nat2Z.id, ?Nat2N.id in *; repeat rewrite mem_eq in *;
  repeat match goal with
  | E : (?v =? 0)%N = _ |- context [(?v =? 0)%N] => rewrite E
  end;
  repeat match goal with
  | E : ?rc ?st = (?b, ?v) |- _ =>
      is_var v; let Hv := fresh "Hv" in
      assert (Hv : 0 <= runlimit (snd (rc st))) by (apply Hrc; cbn [runlimit]; lia);
      rewrite E in Hv; destruct v; cbn [snd runlimit] in Hv
  end;
  repeat rewrite mem_eq;
  repeat match goal with
  | |- context [bool_item ?b] =>
      lazymatch b with
      | true => fail | false => fail
      | _ => lazymatch goal with
             | _ : 0 <= Z.of_nat (length (bool_item b)) <= 1 |- _ => fail
             | _ => pose proof (bool_item_len b)
             end
      end
  end;
  repeat match goal with
  | |- context [mem ?x] =>
      lazymatch goal with | _ : 0 <= mem x |- _ => fail | _ => pose proof (mem_nonneg x) end
  end;
  cbv beta iota; repeat match goal with |- context [stack_cost ?x] => rewrite (mem_eq x) end;
  repeat match goal with
  | |- context [mem ?x] =>
      lazymatch goal with | _ : 0 <= mem x |- _ => fail | _ => pose proof (mem_nonneg x) end
  end.

Definition child_nonneg (rc : vmst -> child_result) : Prop :=
  forall c, 0 <= runlimit c -> 0 <= runlimit (snd (rc c)).

Lemma cp_limit_val gas lb r n : decode lb = inr n -> (n <? lim63)%N = true ->
  cp_limit gas (lb :: r) = if (n =? 0)%N then gas - 256 else Z.of_N n.
Proof.
  intros D E. unfold cp_limit, top0. cbn [nth]. rewrite (size_operand_val _ _ D E), ZofN_eqb0. reflexivity.
Qed.

Lemma cp_args_val lb p nb d3 m : decode nb = inr m -> (m <? lim63)%N = true ->
  cp_args (lb :: p :: nb :: d3) = firstn (N.to_nat (if (m =? 0)%N then N.of_nat (length d3) else m)) d3.
Proof.
  intros D E. unfold cp_args. cbn [skipn nth]. rewrite (size_operand_val _ _ D E), ZofN_eqb0.
  destruct (m =? 0)%N; f_equal; lia.
Qed.

Lemma mem_split' k d : mem d = mem (firstn k d) + mem (skipn k d).
Proof.
  rewrite <- (firstn_skipn k d) at 1. induction (firstn k d) as [|x a IH]; cbn [app mem]; lia.
Qed.

Section Predicate.
  Variable cr : crypto.
  Variable cx : context.
  Variable rc : vmst -> child_result.

  Lemma checkpredicate_ok : forall i s, i_op i = 192%N -> child_nonneg rc -> refines_at cr cx rc i s.
  Proof.
    intros [op il idata] [pg pc0 npc rl df er vd ds als] Hop Hrc. cbn [i_op] in Hop. subst op. facts.
    spec_unfold. vm_unfold. cbv beta iota delta [child_of]. change bool_bytes with bool_item.
    cbn [nth tl].
    repeat first [ match goal with
                   | |- context [if (?v =? 0)%N then _ else _] =>
                       is_var v; let E := fresh "E" in destruct (v =? 0)%N eqn:E; cbv beta iota
                   end
                 | spec_step ].
    all: intros Hgas.
    all: match type of Hgas with
         | context [Z.max 0 ?l] =>
             assert (Hg : 256 + Z.max 0 l <= rl) by lia; clear Hgas;
             try (erewrite cp_limit_val in Hg by eassumption)
         end.
    all: repeat match goal with
         | E : (?v =? 0)%N = _, Hg : context [(?v =? 0)%N] |- _ => rewrite E in Hg
         end.
    all: op_run_with ltac:(pred_fix Hrc).
    all: try reflexivity.
    all: try (exfalso; arith).
    all: cbv beta iota delta [cp_consumption top1]; cbn [nth];
      erewrite cp_limit_val, cp_args_val by eassumption;
      repeat match goal with
      | E : (?v =? 0)%N = _ |- context [(?v =? 0)%N] => rewrite E
      end; rewrite ?Nat2N.id;
      match goal with E : rc _ = _ |- _ => rewrite E end;
      cbv beta iota; cbn [VM.dstack VM.astack VM.runlimit].
    all: match goal with |- context [match ?d with [] => true | _ => _ end] => destruct d end;
      rewrite ?truthy_eq, ?negb_involutive; cbn [negb].
    all: match goal with |- context [mem (firstn ?k ?d)] => pose proof (mem_split' k d) end.
    all: unfold two32; cbn [mem]; len_norm; final_parts.
  Qed.

  Corollary checkpredicate_stacks : forall i s, i_op i = 192%N -> child_nonneg rc ->
    enough_gas cr cx rc i s ->
    stacks_of (outcome (exec_instr cr cx rc i s)) = stacks_of (spec_instr cr cx rc i s).
  Proof. intros i s Hop Hrc Hg. rewrite (checkpredicate_ok i s Hop Hrc Hg). reflexivity. Qed.
End Predicate.
