(* C08 — from one instruction to whole runs.  [spec_run] iterates the reference step
   (Spec.spec_op + cost table) over a program; CHECKPREDICATE runs its child by [spec_run]
   itself, one fuel level down.  It is deliberately partial: it answers [SUnspec] when
   the fuel runs out, when an instruction does not have [enough gas] (running out of gas is
   C07's subject), when a length stops being a Go int, or when a CHECKPREDICATE child does
   not finish normally (the reference does not describe the gas residue of a failed child).
   Whenever it does answer, VM.run gives exactly that answer — for every program. *)
From Coq Require Import List ZArith NArith Bool Lia ZifyN ZifyNat ZifyBool.
From Verif Require Import Cmp VM.
From C07 Require Model Proofs.
From C08 Require Import Spec Base Predicate Proofs.
Import ListNotations.
Open Scope Z_scope.

Record sstate := {
  s_prog : item; s_pc : N; s_gas : Z; s_expres : bool; s_data : stack; s_alt : stack
}.

Definition abs (s : vmst) : sstate :=
  {| s_prog := prog s; s_pc := pc s; s_gas := runlimit s; s_expres := expres s;
     s_data := dstack s; s_alt := astack s |}.

Inductive sres := SDone (st : sstate) | SFail (e : vmerr) | SUnspec.

Definition saneb (d : stack) : bool :=
  (N.of_nat (length d) <? lim63)%N && forallb (fun x => (N.of_nat (length x) <? lim63)%N) d.

Definition no_child : child_run := fun _ _ _ => (false, 0, [], []).

Section Runs.
  Variable cr : crypto.
  Variable cx : context.

  Definition child_state (predicate : item) (args : stack) (limit : Z) : sstate :=
    {| s_prog := predicate; s_pc := 0; s_gas := limit; s_expres := false; s_data := args; s_alt := [] |}.

  Fixpoint spec_run (fuel : nat) (st : sstate) : sres :=
    match fuel with
    | O => SUnspec
    | S f =>
        if (s_pc st <? N.of_nat (length (s_prog st)))%N then
          match parse_op (s_prog st) (s_pc st) with
          | inl e => SFail e
          | inr i =>
              let d := s_data st in
              let a := s_alt st in
              let gas := s_gas st in
              if negb ((i_op i <? 256)%N && saneb d) then SUnspec
              else
                (* the child VM of CHECKPREDICATE, run by the reference itself *)
                let child_result :=
                  if (i_op i =? 192)%N then
                    match spec_run f (child_state (top1 d) (cp_args d) (cp_limit gas d)) with
                    | SDone c => Some (true, s_gas c, s_data c, s_alt c)
                    | _ => None
                    end
                  else Some (false, 0, [], []) in
                match child_result with
                | None => SUnspec
                | Some r =>
                    let child : child_run := fun _ _ _ => r in
                    let c := spec_cost child gas (i_op i) d in
                    let sem := spec_op cr cx child (i_op i) (i_data i) (s_expres st) gas d a in
                    if gas_needed c sem <=? gas then
                      match sem with
                      | inl e => SFail e
                      | inr e =>
                          spec_run f
                            {| s_prog := s_prog st;
                               s_pc := match e_jump e with Some t => t | None => ((s_pc st + i_len i) mod 2 ^ 32)%N end;
                               s_gas := gas_after gas c d a e;
                               s_expres := s_expres st;
                               s_data := e_data e; s_alt := e_alt e |}
                      end
                    else SUnspec
                end
          end
        else SDone st
    end.

  (* ---------- the reference uses the child only at one point ---------- *)

  Lemma spec_cost_ext c1 c2 gas op d :
    (op = 192%N -> c1 (top1 d) (cp_args d) (cp_limit gas d) = c2 (top1 d) (cp_args d) (cp_limit gas d)) ->
    spec_cost c1 gas op d = spec_cost c2 gas op d.
  Proof.
    intros H. destruct (N.eq_dec op 192) as [->|Hne].
    - cbv beta iota delta [spec_cost cp_consumption]. rewrite (H eq_refl). reflexivity.
    - clear H. destruct op as [|p]; [reflexivity|].
      do 8 (destruct p as [p|p|]; try reflexivity); try (exfalso; apply Hne; reflexivity); destruct p; reflexivity.
  Qed.

  Lemma spec_op_192_ext c1 c2 idata er gas d a :
    c1 (top1 d) (cp_args d) (cp_limit gas d) = c2 (top1 d) (cp_args d) (cp_limit gas d) ->
    spec_op cr cx c1 192 idata er gas d a = spec_op cr cx c2 192 idata er gas d a.
  Proof.
    intros H. cbv beta iota delta [spec_op sbind small take].
    destruct d as [|lb [|predicate [|nb d3]]]; try reflexivity;
      destruct (decode lb) as [?|l0] eqn:D1; try reflexivity;
      destruct (l0 <? lim63)%N eqn:E1; try reflexivity.
    destruct (decode nb) as [?|n0] eqn:D2; try reflexivity.
    destruct (n0 <? lim63)%N eqn:E2; try reflexivity.
    cbv beta iota zeta.
    rewrite (cp_limit_val gas lb _ l0 D1 E1), (cp_args_val lb predicate nb d3 n0 D2 E2) in H.
    unfold top1 in H. cbn [nth] in H.
    match goal with
    | |- context [if (N.of_nat (length d3) <? ?x)%N then _ else _] => destruct (N.of_nat (length d3) <? x)%N
    end; [reflexivity|]. cbv beta iota.
    rewrite H. reflexivity.
  Qed.

  Lemma spec_op_ext c1 c2 op idata er gas d a : (op < 256)%N ->
    (op = 192%N -> c1 (top1 d) (cp_args d) (cp_limit gas d) = c2 (top1 d) (cp_args d) (cp_limit gas d)) ->
    spec_op cr cx c1 op idata er gas d a = spec_op cr cx c2 op idata er gas d a.
  Proof.
    intros Hlt H. destruct (N.eq_dec op 192) as [->|Hne]; [apply spec_op_192_ext; auto|]. clear H.
    destruct op as [|p]; [reflexivity|].
    do 8 (destruct p as [p|p|]; try reflexivity; try (exfalso; apply Hne; reflexivity); try lia).
  Qed.

  (* ---------- whole runs ---------- *)

  Lemma saneb_sane s : saneb (dstack s) = true -> sane s.
  Proof.
    unfold saneb, sane, go_len. rewrite andb_true_iff, forallb_forall. intros [H1 H2]. split.
    - apply N.ltb_lt; assumption.
    - apply Forall_forall. intros x Hx. apply N.ltb_lt. apply H2; assumption.
  Qed.

  Lemma child_fn_nonneg f : child_nonneg (C07.Model.child_fn cr cx f).
  Proof. intros c Hc. apply (C07.Proofs.child_ok_run cr cx f c Hc). Qed.

  Lemma outcome_err r e : outcome r = inl e -> exists s', r = RErr e s'.
  Proof. destruct r as [[] s'|e' s']; cbn; intros H; inversion H; subst. eexists; reflexivity. Qed.

  Lemma outcome_ok r o : outcome r = inr o -> exists s', r = ROk tt s' /\
    o = (dstack s', astack s', pc s', runlimit s', prog s', expres s').
  Proof. destruct r as [[] s'|e' s']; cbn; intros H; inversion H; subst. eexists; split; reflexivity. Qed.

  Definition agrees (r : res unit) (sr : sres) : Prop :=
    match sr with
    | SDone st => exists s', r = ROk tt s' /\ abs s' = st
    | SFail e => exists s', r = RErr e s'
    | SUnspec => True
    end.

  Theorem run_refines_spec_run : ctx_sane cx ->
    forall fuel s, agrees (run cr cx fuel s) (spec_run fuel (abs s)).
  Proof.
    intros Hc. induction fuel as [|f IH]; intros s; [exact Logic.I|].
    rewrite C07.Proofs.run_S. cbn [spec_run]. cbn [abs s_prog s_pc s_gas s_expres s_data s_alt].
    destruct (pc s <? N.of_nat (length (prog s)))%N; [|eexists; split; reflexivity].
    rewrite step_exec_instr. destruct (parse_op (prog s) (pc s)) as [e|i] eqn:Hp; [eexists; reflexivity|].
    destruct ((i_op i <? 256)%N && saneb (dstack s)) eqn:Hb; cbn [negb]; [|exact Logic.I].
    apply andb_prop in Hb. destruct Hb as [Hlt Hs]. apply N.ltb_lt in Hlt. apply saneb_sane in Hs.
    set (rc := C07.Model.child_fn cr cx f).
    (* the child point *)
    set (p := top1 (dstack s)). set (ar := cp_args (dstack s)). set (lim := cp_limit (runlimit s) (dstack s)).
    match goal with |- agrees _ (match ?cr0 with Some _ => _ | None => _ end) => destruct cr0 as [r|] eqn:Hcr end;
      [|exact Logic.I].
    assert (Hext : i_op i = 192%N -> child_of rc p ar lim = r).
    { intros Hop. rewrite Hop in Hcr. cbn [N.eqb Pos.eqb] in Hcr.
      unfold child_of, rc, C07.Model.child_fn.
      set (c0 := {| prog := p; pc := 0; nextpc := 0; runlimit := lim; deferred := 0; expres := false;
                    vdata := []; dstack := ar; astack := [] |}).
      specialize (IH c0). change (abs c0) with (child_state p ar lim) in IH.
      destruct (spec_run f (child_state p ar lim)) as [st'| |]; try discriminate.
      destruct IH as [s' [Hr Ha]]. rewrite Hr. inversion Hcr; subst r. rewrite <- Ha. reflexivity. }
    set (child := fun (_ : item) (_ : stack) (_ : Z) => r).
    assert (Hcost : spec_cost (child_of rc) (runlimit s) (i_op i) (dstack s) = spec_cost child (runlimit s) (i_op i) (dstack s)).
    { apply spec_cost_ext. intros Hop. apply Hext; assumption. }
    assert (Hsem : spec_op cr cx (child_of rc) (i_op i) (i_data i) (expres s) (runlimit s) (dstack s) (astack s)
                 = spec_op cr cx child (i_op i) (i_data i) (expres s) (runlimit s) (dstack s) (astack s)).
    { apply spec_op_ext; [assumption|]. intros Hop. apply Hext; assumption. }
    destruct (Z.leb_spec (gas_needed (spec_cost child (runlimit s) (i_op i) (dstack s))
                (spec_op cr cx child (i_op i) (i_data i) (expres s) (runlimit s) (dstack s) (astack s))) (runlimit s))
      as [Hg|Hg]; [|exact Logic.I].
    assert (Hstep : outcome (exec_instr cr cx rc i s) = spec_instr cr cx rc i s).
    { pose proof (step_refines_spec_full cr cx rc s i Hs Hc (child_fn_nonneg f) Hp Hlt) as Hst.
      rewrite step_exec_instr, Hp in Hst. apply Hst.
      unfold enough_gas, spec_sem. rewrite Hcost, Hsem. exact Hg. }
    unfold spec_instr, spec_sem in Hstep. rewrite Hcost, Hsem in Hstep.
    destruct (spec_op cr cx child (i_op i) (i_data i) (expres s) (runlimit s) (dstack s) (astack s)) as [e|eff].
    - destruct (outcome_err _ _ Hstep) as [s' ->]. eexists; reflexivity.
    - destruct (outcome_ok _ _ Hstep) as [s' [-> Ho]]. inversion Ho as [[H1 H2 H3 H4 H5 H6]].
      specialize (IH s'). unfold abs in IH. rewrite <- H1, <- H2, <- H3, <- H4, <- H5, <- H6 in IH. exact IH.
  Qed.
End Runs.

(* the reference run is defined on real programs: 1 1 ADD, and a CHECKPREDICATE whose child
   (program TRUE) runs on the rest of the gas; both agree with VM.run by the theorem *)
Example spec_run_examples :
  let cr := {| h_sha256 := fun x => x; h_sha3 := fun x => x; h_ripemd160 := fun x => x;
               sig_verify := fun _ _ _ => false |} in
  let cx := {| cx_vmversion := 1; cx_code := []; cx_entryid := []; cx_txversion := None; cx_blockheight := None;
               cx_assetid := None; cx_amount := None; cx_destpos := None; cx_spentoutputid := None;
               cx_txsighash := None; cx_checkoutput := None |} in
  let st p := {| s_prog := p; s_pc := 0; s_gas := 1000; s_expres := true; s_data := []; s_alt := [] |} in
  (exists g, spec_run cr cx 10 (st [81; 81; 147]%N)
             = SDone {| s_prog := [81; 81; 147]%N; s_pc := 3; s_gas := g; s_expres := true; s_data := [[2%N]]; s_alt := [] |})
  /\ (exists g, spec_run cr cx 10 (st [0; 1; 81; 0; 192]%N)
             = SDone {| s_prog := [0; 1; 81; 0; 192]%N; s_pc := 5; s_gas := g; s_expres := true; s_data := [[1%N]]; s_alt := [] |}).
Proof. cbv zeta. split; eexists; vm_compute; reflexivity. Qed.
