(* C08 — REFERENCE SEMANTICS of the Bytom VM opcodes, written at the level of the
   documented behaviour and independently of the executable model coq/lib/VM.v:

   * no machine state, no monad, no run limit threading, no deferred costs:
     an opcode is a function
         (data stack, alt stack, instruction immediate, context)  ->  new stacks | error class
     (head of a list = top of the stack);
   * numbers are naturals: [decode] = little-endian value of at most 32 bytes
     (positional sum  Σ b_i·256^i ), more than 32 bytes -> BadValue, value ≥ 2^255 -> Range;
     [encode] = the 32-byte little-endian representation with trailing zero bytes removed;
   * arithmetic on the decoded naturals, "result ≥ 2^255 or negative -> Range";
   * a separate per-opcode COST TABLE (base, size-dependent part, transient charge);
     the memory part of the gas is the change of  Σ (8 + length)  over both stacks.

   Only the TYPES vmerr / item / crypto / context are shared with VM.v.
   Places where the reference follows a choice of the code that the documentation
   leaves open are marked  [code's choice].  No proofs in this file. *)
From Coq Require Import List ZArith NArith Bool.
From Verif Require Import VM.
Import ListNotations.
Open Scope N_scope.

Definition stack := list item.

(* ------------------------------------------------------------------ numbers *)

Fixpoint weighted (i : N) (b : item) : N :=
  match b with
  | [] => 0
  | x :: r => x * 256 ^ i + weighted (i + 1) r
  end.
Definition num_value (b : item) : N := weighted 0 b.

Definition lim255 : N := 2 ^ 255.
Definition lim256 : N := 2 ^ 256.
Definition lim63 : N := 2 ^ 63.
Definition lim64 : N := 2 ^ 64.

Definition decode (b : item) : vmerr + N :=
  if (32 <? length b)%nat then inl EBadValue
  else if num_value b <? lim255 then inr (num_value b) else inl ERange.

(* trailing zero bytes removed *)
Fixpoint strip (b : item) : item :=
  match b with
  | [] => []
  | x :: r => match strip r with
              | [] => if x =? 0 then [] else [x]
              | r' => x :: r'
              end
  end.
Definition bytes32 (n : N) : item := map (fun i => (n / 256 ^ N.of_nat i) mod 256) (seq 0 32).
Definition encode (n : N) : item := strip (bytes32 n).

Definition truthy (b : item) : bool := negb (num_value b =? 0).
Definition bool_item (b : bool) : item := if b then [1] else [].

(* a size / count / index operand: must fit a non-negative int64 *)
Definition small (n : N) : vmerr + N := if n <? lim63 then inr n else inl EBadValue.

(* ------------------------------------------------------------ result shape *)

Record effect := { e_data : stack; e_alt : stack; e_jump : option N }.
Definition sem := (vmerr + effect)%type.
Definition ok (d a : stack) : sem := inr {| e_data := d; e_alt := a; e_jump := None |}.
Definition jump (d a : stack) (t : N) : sem := inr {| e_data := d; e_alt := a; e_jump := Some t |}.

Definition sbind {A B} (x : vmerr + A) (f : A -> vmerr + B) : vmerr + B :=
  match x with inl e => inl e | inr a => f a end.
Notation "'do' x <- m ; f" := (sbind m (fun x => f))
  (at level 200, x name, m at level 100, f at level 200).

Definition in_range (v : N) : vmerr + N := if v <? lim255 then inr v else inl ERange.

(* operands are consumed top first; each is validated when it is consumed, so an
   invalid top operand is reported before a missing second operand *)
Definition un_num (f : N -> vmerr + N) (d a : stack) : sem :=
  match d with
  | [] => inl EDataStackUnderflow
  | xb :: r => do x <- decode xb; do v <- f x; ok (encode v :: r) a
  end.
Definition un_pred (f : N -> bool) (d a : stack) : sem :=
  match d with
  | [] => inl EDataStackUnderflow
  | xb :: r => do x <- decode xb; ok (bool_item (f x) :: r) a
  end.
(* [f x y]: y is the top item, x the one below it *)
Definition bin_gen {R} (f : N -> N -> vmerr + R) (k : R -> stack -> sem) (d : stack) : sem :=
  match d with
  | [] => inl EDataStackUnderflow
  | yb :: d1 =>
      do y <- decode yb;
      match d1 with
      | [] => inl EDataStackUnderflow
      | xb :: r => do x <- decode xb; do v <- f x y; k v r
      end
  end.
Definition bin_num (f : N -> N -> vmerr + N) (d a : stack) : sem :=
  bin_gen f (fun v r => ok (encode v :: r) a) d.
Definition bin_pred (f : N -> N -> bool) (d a : stack) : sem :=
  bin_gen (fun x y => inr (f x y)) (fun v r => ok (bool_item v :: r) a) d.

(* ------------------------------------------------------------------ bitwise *)

Definition pad (n : nat) (b : item) : item := b ++ repeat 0 (n - length b).
Definition zip (f : N -> N -> N) (a b : item) : item :=
  map (fun p => f (fst p) (snd p)) (combine a b).
(* AND truncates to the shorter operand; OR / XOR zero-extend to the longer *)
Definition bit_and (a b : item) : item :=
  let n := Nat.min (length a) (length b) in zip N.land (firstn n a) (firstn n b).
Definition bit_ext (f : N -> N -> N) (a b : item) : item :=
  let n := Nat.max (length a) (length b) in zip f (pad n a) (pad n b).

(* two byte-string operands, b on top *)
Definition two_items (k : item -> item -> stack -> sem) (d : stack) : sem :=
  match d with
  | b :: a :: r => k a b r
  | _ => inl EDataStackUnderflow
  end.

Fixpoint item_eqb (a b : item) : bool :=
  match a, b with
  | [], [] => true
  | x :: a', y :: b' => (x =? y) && item_eqb a' b'
  | _, _ => false
  end.

(* ------------------------------------------------------------------- splice *)

(* the canonical push instruction for a byte string (CATPUSHDATA) *)
Definition le_bytes (k : nat) (n : N) : item := map (fun i => (n / 256 ^ N.of_nat i) mod 256) (seq 0 k).
Definition push_instr (d : item) : item :=
  let l := N.of_nat (length d) in
  if l =? 0 then [0]
  else if l <=? 75 then l :: d
  else if l <? 256 then 76 :: l :: d
  else if l <? 65536 then 77 :: le_bytes 2 l ++ d
  else 78 :: le_bytes 4 l ++ d.

Definition sub_bytes (off size : N) (s : item) : item :=
  firstn (N.to_nat size) (skipn (N.to_nat off) s).

(* -------------------------------------------------------------------- crypto *)

(* the signatures, in order, are verified by an order-preserving selection of the keys:
   exhaustive search over all such selections *)
Fixpoint ms_search (ver : item -> item -> bool) (sigs keys : list item) {struct keys} : bool :=
  match keys with
  | [] => match sigs with [] => true | _ => false end
  | pk :: pks =>
      match sigs with
      | [] => true
      | sg :: sgs => (ver pk sg && ms_search ver sgs pks) || ms_search ver sigs pks
      end
  end.
(* the same as a relation *)
Inductive ms_match (ver : item -> item -> bool) : list item -> list item -> Prop :=
| ms_done : forall keys, ms_match ver [] keys
| ms_use : forall sg sgs pk pks, ver pk sg = true -> ms_match ver sgs pks -> ms_match ver (sg :: sgs) (pk :: pks)
| ms_skip : forall sgs pk pks, ms_match ver sgs pks -> ms_match ver sgs (pk :: pks).

(* take exactly n items from the stack *)
Definition take (n : N) (d : stack) : vmerr + (list item * stack) :=
  if N.of_nat (length d) <? n then inl EDataStackUnderflow
  else inr (firstn (N.to_nat n) d, skipn (N.to_nat n) d).

Definition opt_ctx {A} (x : option A) : vmerr + A :=
  match x with None => inl EContext | Some a => inr a end.

(* child VM of CHECKPREDICATE: predicate, arguments (top first), gas limit ->
   (ran without error, gas left, final data stack, final alt stack) *)
Definition child_run := item -> stack -> Z -> (bool * Z * stack * stack)%type.

Section Ops.
  Variable cr : crypto.
  Variable cx : context.

  (* [idata]: the immediate of the instruction (push data, jump target, or the number
     of OP_1..OP_16).  [expansion_reserved]: the transaction version reserves the
     undefined opcodes.  [gas]: run limit before the instruction (CHECKPREDICATE only). *)
  Definition spec_op (child : child_run) (op : N) (idata : item) (expansion_reserved : bool)
      (gas : Z) (d a : stack) : sem :=
    match op with
    (* ---- constants and push data ---- *)
    | 0 => ok ([] :: d) a
    | 76 | 77 | 78 => ok (idata :: d) a
    (* ---- control ---- *)
    | 97 => ok d a
    | 99 => jump d a (num_value idata)
    | 100 => match d with
             | [] => inl EDataStackUnderflow
             | p :: r => if truthy p then jump r a (num_value idata) else ok r a
             end
    | 105 => match d with
             | [] => inl EDataStackUnderflow
             | p :: r => if truthy p then ok r a else inl EVerifyFailed
             end
    | 106 => inl EReturn
    | 192 => (* CHECKPREDICATE: args… n predicate limit *)
        match d with
        | [] => inl EDataStackUnderflow
        | lb :: d1 =>
            do l0 <- decode lb; do l1 <- small l0;
            match d1 with
            | [] => inl EDataStackUnderflow
            | predicate :: d2 =>
                match d2 with
                | [] => inl EDataStackUnderflow
                | nb :: d3 =>
                    do n0 <- decode nb; do n1 <- small n0;
                    let n := if n1 =? 0 then N.of_nat (length d3) else n1 in
                    do tk <- take n d3;
                    let '(args, rest) := tk in
                    (* limit 0 = everything that is left after the base charge of 256 *)
                    let limit := if l1 =? 0 then (gas - 256)%Z else Z.of_N l1 in
                    let '(okc, _, cd, _) := child predicate args limit in
                    ok (bool_item (okc && match cd with [] => false | t :: _ => truthy t end) :: rest) a
                end
            end
        end
    (* ---- stack ---- *)
    | 107 => match d with [] => inl EDataStackUnderflow | x :: r => ok r (x :: a) end
    | 108 => match a with [] => inl EAltStackUnderflow | x :: r => ok (x :: d) r end
    | 109 => match d with _ :: _ :: r => ok r a | _ => inl EDataStackUnderflow end
    | 110 => match d with x :: y :: r => ok (x :: y :: x :: y :: r) a | _ => inl EDataStackUnderflow end
    | 111 => match d with x :: y :: z :: r => ok (x :: y :: z :: x :: y :: z :: r) a
             | _ => inl EDataStackUnderflow end
    | 112 => match d with x :: y :: z :: w :: r => ok (z :: w :: x :: y :: z :: w :: r) a
             | _ => inl EDataStackUnderflow end
    | 113 => match d with x :: y :: z :: w :: u :: v :: r => ok (u :: v :: x :: y :: z :: w :: r) a
             | _ => inl EDataStackUnderflow end
    | 114 => match d with x :: y :: z :: w :: r => ok (z :: w :: x :: y :: r) a
             | _ => inl EDataStackUnderflow end
    | 115 => match d with [] => inl EDataStackUnderflow
             | x :: r => if truthy x then ok (x :: x :: r) a else ok (x :: r) a end
    | 116 => ok (encode (N.of_nat (length d)) :: d) a
    | 117 => match d with [] => inl EDataStackUnderflow | _ :: r => ok r a end
    | 118 => match d with [] => inl EDataStackUnderflow | x :: r => ok (x :: x :: r) a end
    | 119 => match d with x :: _ :: r => ok (x :: r) a | _ => inl EDataStackUnderflow end
    | 120 => match d with x :: y :: r => ok (y :: x :: y :: r) a | _ => inl EDataStackUnderflow end
    | 121 => (* PICK: the index is the low 64 bits of the operand read as a signed
                int64 [code's choice]; index+1 overflowing -> BadValue; a negative index
                reaches an out-of-range slice access, recovered as Unexpected [code's choice] *)
        match d with
        | [] => inl EDataStackUnderflow
        | nb :: r =>
            do n <- decode nb;
            let i := n mod lim64 in
            if i =? lim63 - 1 then inl EBadValue
            else if lim63 <=? i then inl EUnexpected
            else if N.of_nat (length r) <=? i then inl EDataStackUnderflow
            else ok (nth (N.to_nat i) r [] :: r) a
        end
    | 122 => (* ROLL: same index rule; a negative index -> BadValue *)
        match d with
        | [] => inl EDataStackUnderflow
        | nb :: r =>
            do n <- decode nb;
            let i := n mod lim64 in
            if i =? lim63 - 1 then inl EBadValue
            else if lim63 <=? i then inl EBadValue
            else if N.of_nat (length r) <=? i then inl EDataStackUnderflow
            else ok (nth (N.to_nat i) r [] :: firstn (N.to_nat i) r ++ skipn (S (N.to_nat i)) r) a
        end
    | 123 => match d with x :: y :: z :: r => ok (z :: x :: y :: r) a | _ => inl EDataStackUnderflow end
    | 124 => match d with x :: y :: r => ok (y :: x :: r) a | _ => inl EDataStackUnderflow end
    | 125 => match d with x :: y :: r => ok (x :: y :: x :: r) a | _ => inl EDataStackUnderflow end
    (* ---- splice ---- *)
    | 126 => two_items (fun x y r => ok ((x ++ y) :: r) a) d
    | 127 => (* SUBSTR: string offset size *)
        match d with
        | [] => inl EDataStackUnderflow
        | sb :: d1 =>
            do s0 <- decode sb; do size <- small s0;
            match d1 with
            | [] => inl EDataStackUnderflow
            | ob :: d2 =>
                do o0 <- decode ob; do off <- small o0;
                match d2 with
                | [] => inl EDataStackUnderflow
                | str :: r =>
                    (* first disjunct: offset+size must itself fit an int64 *)
                    if (lim63 <=? off + size) || (N.of_nat (length str) <? off + size) then inl EBadValue
                    else ok (sub_bytes off size str :: r) a
                end
            end
        end
    | 128 | 129 => (* LEFT / RIGHT: string size *)
        match d with
        | [] => inl EDataStackUnderflow
        | sb :: d1 =>
            do s0 <- decode sb; do size <- small s0;
            match d1 with
            | [] => inl EDataStackUnderflow
            | str :: r =>
                let l := N.of_nat (length str) in
                if l <? size then inl EBadValue
                else ok ((if op =? 128 then firstn (N.to_nat size) str
                          else skipn (N.to_nat (l - size)) str) :: r) a
            end
        end
    | 130 => match d with [] => inl EDataStackUnderflow
             | x :: r => ok (encode (N.of_nat (length x)) :: x :: r) a end
    | 137 => two_items (fun x y r => ok ((x ++ push_instr y) :: r) a) d
    (* ---- bitwise ---- *)
    | 131 => match d with [] => inl EDataStackUnderflow
             | x :: r => ok (map (fun v => N.lxor v 255) x :: r) a end
    | 132 => two_items (fun x y r => ok (bit_and x y :: r) a) d
    | 133 => two_items (fun x y r => ok (bit_ext N.lor x y :: r) a) d
    | 134 => two_items (fun x y r => ok (bit_ext N.lxor x y :: r) a) d
    | 135 => two_items (fun x y r => ok (bool_item (item_eqb x y) :: r) a) d
    | 136 => two_items (fun x y r => if item_eqb x y then ok r a else inl EVerifyFailed) d
    (* ---- numeric ---- *)
    | 139 => un_num (fun x => in_range (x + 1)) d a
    | 140 => un_num (fun x => if 1 <=? x then inr (x - 1) else inl ERange) d a
    | 141 => un_num (fun x => in_range (2 * x)) d a
    | 142 => un_num (fun x => inr (x / 2)) d a
    | 145 => un_pred (fun x => x =? 0) d a
    | 146 => un_pred (fun x => negb (x =? 0)) d a
    | 147 => bin_num (fun x y => in_range (x + y)) d a
    | 148 => bin_num (fun x y => if y <=? x then inr (x - y) else inl ERange) d a
    | 149 => bin_num (fun x y => in_range (x * y)) d a
    | 150 => bin_num (fun x y => if y =? 0 then inl EDivZero else inr (x / y)) d a
    | 151 => bin_num (fun x y => if y =? 0 then inl EDivZero else inr (x mod y)) d a
    | 152 => (* LSHIFT: x·2^y reduced mod 2^256 BEFORE the range check [code's choice]:
                high bits shifted out are lost silently; y ≥ 256 gives 0 *)
        bin_num (fun x y => if 256 <=? y then inr 0 else in_range ((x * 2 ^ y) mod lim256)) d a
    | 153 => bin_num (fun x y => if 256 <=? y then inr 0 else inr (x / 2 ^ y)) d a
    | 154 => two_items (fun x y r => ok (bool_item (truthy x && truthy y) :: r) a) d
    | 155 => two_items (fun x y r => ok (bool_item (truthy x || truthy y) :: r) a) d
    | 156 => bin_pred N.eqb d a
    | 157 => bin_gen (fun x y => if x =? y then inr tt else inl EVerifyFailed) (fun _ r => ok r a) d
    | 158 => bin_pred (fun x y => negb (x =? y)) d a
    | 159 => bin_pred N.ltb d a
    | 160 => bin_pred (fun x y => y <? x) d a
    | 161 => bin_pred N.leb d a
    | 162 => bin_pred (fun x y => y <=? x) d a
    | 163 => bin_num (fun x y => inr (N.min x y)) d a
    | 164 => bin_num (fun x y => inr (N.max x y)) d a
    | 165 => (* WITHIN: x min max *)
        match d with
        | [] => inl EDataStackUnderflow
        | mxb :: d1 =>
            do mx <- decode mxb;
            match d1 with
            | [] => inl EDataStackUnderflow
            | mnb :: d2 =>
                do mn <- decode mnb;
                match d2 with
                | [] => inl EDataStackUnderflow
                | xb :: r => do x <- decode xb; ok (bool_item ((mn <=? x) && (x <? mx)) :: r) a
                end
            end
        end
    (* ---- crypto ---- *)
    | 168 => match d with [] => inl EDataStackUnderflow | x :: r => ok (h_sha256 cr x :: r) a end
    | 170 => match d with [] => inl EDataStackUnderflow | x :: r => ok (h_sha3 cr x :: r) a end
    | 171 => match d with [] => inl EDataStackUnderflow | x :: r => ok (h_ripemd160 cr x :: r) a end
    | 172 => (* CHECKSIG: sig msg pubkey *)
        match d with
        | pk :: msg :: sg :: r =>
            if negb (length msg =? 32)%nat then inl EBadValue
            else ok (bool_item ((length pk =? 32)%nat && sig_verify cr pk msg sg) :: r) a
        | _ => inl EDataStackUnderflow
        end
    | 173 => (* CHECKMULTISIG: sig… msg pubkey… nsigs nkeys *)
        match d with
        | [] => inl EDataStackUnderflow
        | nkb :: d1 =>
            do k0 <- decode nkb; do nk <- small k0;
            if lim63 <=? nk * 1024 then inl EBadValue
            else
              match d1 with
              | [] => inl EDataStackUnderflow
              | nsb :: d2 =>
                  do s0 <- decode nsb; do ns <- small s0;
                  if (nk <? ns) || ((0 <? nk) && (ns =? 0)) then inl EBadValue
                  else
                    do tk <- take nk d2;
                    let '(keys, d3) := tk in
                    match d3 with
                    | [] => inl EDataStackUnderflow
                    | msg :: d4 =>
                        if negb (length msg =? 32)%nat then inl EBadValue
                        else
                          do ts <- take ns d4;
                          let '(sigs, r) := ts in
                          ok (bool_item (forallb (fun p => (length p =? 32)%nat) keys
                                         && ms_search (fun pk sg => sig_verify cr pk msg sg) sigs keys) :: r) a
                    end
              end
        end
    | 174 => do h <- opt_ctx (cx_txsighash cx); ok (h :: d) a
    (* ---- introspection ---- *)
    | 193 => (* CHECKOUTPUT: index amount asset vmversion code *)
        match d with
        | [] => inl EDataStackUnderflow
        | code :: d1 =>
          match d1 with
          | [] => inl EDataStackUnderflow
          | vb :: d2 =>
            do vmv <- decode vb;
            match d2 with
            | [] => inl EDataStackUnderflow
            | asset :: d3 =>
              match d3 with
              | [] => inl EDataStackUnderflow
              | ab :: d4 =>
                do amt <- decode ab;
                if lim64 <=? amt then inl EBadValue
                else
                  match d4 with
                  | [] => inl EDataStackUnderflow
                  | ib :: r =>
                    do idx <- decode ib;
                    do f <- opt_ctx (cx_checkoutput cx);
                    (* index and vm version are truncated to 64 bits [code's choice] *)
                    do res <- f (idx mod lim64) amt asset (vmv mod lim64) code a expansion_reserved;
                    ok (bool_item res :: r) a
                  end
              end
            end
          end
        end
    | 194 => do x <- opt_ctx (cx_assetid cx); ok (x :: d) a
    | 195 => do x <- opt_ctx (cx_amount cx); ok (encode x :: d) a
    | 196 => ok (cx_code cx :: d) a
    | 201 => do x <- opt_ctx (cx_destpos cx); ok (encode x :: d) a
    | 202 => ok (cx_entryid cx :: d) a
    | 203 => do x <- opt_ctx (cx_spentoutputid cx); ok (x :: d) a
    | 205 => do x <- opt_ctx (cx_blockheight cx); ok (encode x :: d) a
    | _ =>
        if ((1 <=? op) && (op <=? 75)) then ok (idata :: d) a          (* OP_DATA_n *)
        else if ((81 <=? op) && (op <=? 96)) then ok ([op - 80] :: d) a   (* OP_1 … OP_16 *)
        else (* undefined opcode: a no-op unless the transaction version reserves it *)
          if expansion_reserved then inl EDisallowedOpcode else ok d a
    end.
End Ops.

(* ------------------------------------------------------------- cost table *)

Open Scope Z_scope.
Definition len (b : item) : Z := Z.of_nat (length b).
Fixpoint mem (st : stack) : Z :=          (* stack memory: 8 + length per item *)
  match st with [] => 0 | x :: r => 8 + len x + mem r end.

(* value of an operand used as a size / count in the cost (0 when it is not a valid one) *)
Definition size_operand (b : item) : Z :=
  match decode b with
  | inr v => if (v <? lim63)%N then Z.of_N v else 0
  | inl _ => 0
  end.

Record opcost := {
  c_base : Z;        (* charged first, before anything is inspected *)
  c_size : Z;        (* size-dependent part, charged and kept *)
  c_transient : Z;   (* charged while the operation runs and given back at its end *)
  c_prepaid : bool   (* the memory of the results needs no gas of its own (CHECKPREDICATE:
                        everything it leaves is paid for by what it consumed) *)
}.
Definition cost b s t := {| c_base := b; c_size := s; c_transient := t; c_prepaid := false |}.

Definition top0 (d : stack) : item := nth 0 d [].
Definition top1 (d : stack) : item := nth 1 d [].

(* CHECKPREDICATE  (args… n predicate limit):  the child VM gets [cp_limit] gas (an explicit
   limit of 0 = everything left after the base charge of 256) and the [cp_args] as its
   stack.  What the instruction costs beyond its net base of 64 is the child's own
   consumption: the gas handed over, minus what comes back — the child's remaining run
   limit and the memory of the stacks it leaves — plus the memory of the arguments, whose
   refund went to the child. *)
Definition cp_limit (gas : Z) (d : stack) : Z :=
  let l := size_operand (top0 d) in if l =? 0 then gas - 256 else l.
Definition cp_args (d : stack) : stack :=
  let d3 := skipn 3 d in
  let n := size_operand (nth 2 d []) in
  firstn (Z.to_nat (if n =? 0 then Z.of_nat (length d3) else n)) d3.
Definition cp_consumption (child : child_run) (gas : Z) (d : stack) : Z :=
  let '(_, back, cd, ca) := child (top1 d) (cp_args d) (cp_limit gas d) in
  cp_limit gas d - (back + mem cd + mem ca) + mem (cp_args d).

Definition spec_cost (child : child_run) (gas : Z) (op : N) (d : stack) : opcost :=
  match op with
  | 0%N | 76%N | 77%N | 78%N => cost 1 0 0
  | 97%N | 99%N | 100%N | 105%N | 106%N => cost 1 0 0
  | 192%N =>
      let used := cp_consumption child gas d in
      {| c_base := 64; c_size := used;
         (* peak: the base charge of 256 and the child's limit must be available at once *)
         c_transient := 256 + Z.max 0 (cp_limit gas d) - (64 + used);
         c_prepaid := true |}
  | 107%N | 108%N | 109%N | 110%N => cost 2 0 0
  | 111%N => cost 3 0 0
  | 112%N | 113%N | 114%N => cost 2 0 0
  | 115%N | 116%N | 117%N | 118%N | 119%N | 120%N => cost 1 0 0
  | 121%N | 122%N | 123%N => cost 2 0 0
  | 124%N | 125%N => cost 1 0 0
  | 126%N | 137%N => cost 4 0 (len (top0 d) + len (top1 d))
  | 127%N | 128%N | 129%N => cost 4 0 (size_operand (top0 d))
  | 130%N => cost 1 0 0
  | 131%N => cost 1 (len (top0 d)) 0
  | 132%N | 135%N | 136%N => cost 1 (Z.min (len (top0 d)) (len (top1 d))) 0
  | 133%N | 134%N => cost 1 (Z.max (len (top0 d)) (len (top1 d))) 0
  | 139%N | 140%N | 141%N | 142%N | 145%N | 146%N | 147%N | 148%N => cost 2 0 0
  | 149%N | 150%N | 151%N | 152%N | 153%N => cost 8 0 0
  | 154%N | 155%N | 156%N | 157%N | 158%N | 159%N | 160%N | 161%N | 162%N | 163%N | 164%N => cost 2 0 0
  | 165%N => cost 4 0 0
  | 168%N | 170%N => cost 0 (Z.max (len (top0 d)) 64) 0
  | 171%N => cost 0 (len (top0 d) + 64) 0
  | 172%N => cost 1024 0 0
  | 173%N => cost 0 (1024 * size_operand (top0 d)) 0
  | 174%N => cost 256 0 0
  | 193%N => cost 16 0 0
  | 194%N | 195%N | 196%N | 201%N | 202%N | 203%N | 205%N => cost 1 0 0
  | _ => cost 1 0 0     (* OP_DATA_n, OP_1…OP_16, undefined opcodes *)
  end.

Definition charge (c : opcost) : Z := c_base c + c_size c.

(* "enough gas": the run limit covers the operation's charges and the memory of the
   stacks it leaves (a generous, simple sufficient bound) *)
Definition gas_needed (c : opcost) (r : sem) : Z :=
  c_base c + c_size c + c_transient c +
  match r with
  | inr e => if c_prepaid c then 0 else mem (e_data e) + mem (e_alt e)
  | inl _ => 0
  end.

(* gas left after a successful instruction *)
Definition gas_after (gas : Z) (c : opcost) (d a : stack) (e : effect) : Z :=
  gas - (charge c + (mem (e_data e) + mem (e_alt e)) - (mem d + mem a)).
