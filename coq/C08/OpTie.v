(* C08 - tie between the opcode table of protocol/vm/ops.go (translated on every run by tools/optable
   into VerifGen.OpTable) and the executable VM model coq/lib/VM.v.

   [model_handler] is hand-written: for each opcode byte it names the Go handler whose semantics the
   corresponding branch of [VM.exec_op] models.  The theorems below are finite sweeps over the 256
   opcode bytes (vm_compute lifted by forallb_forall, the bound stated in the theorem):
   a change of ops.go that re-wires an opcode to another handler, adds, removes or renumbers an
   opcode, or moves the DATA_n / small-integer ranges breaks them. *)
From Coq Require Import NArith List String Bool Lia.
From Verif Require Import VM.
From VerifGen Require Import OpTable.
Import ListNotations.
Open Scope string_scope.
Open Scope N_scope.

Definition model_handler (op : N) : string :=
  if (OP_DATA_1 <=? op) && (op <=? OP_DATA_75) then "opPushdata"
  else if (OP_1 <=? op) && (op <=? OP_16) then "opPushdata"
  else match op with
    | 0 => "opFalse"  (* FALSE *)
    | 76 => "opPushdata"  (* PUSHDATA1 *)
    | 77 => "opPushdata"  (* PUSHDATA2 *)
    | 78 => "opPushdata"  (* PUSHDATA4 *)
    | 97 => "opNop"  (* NOP *)
    | 99 => "opJump"  (* JUMP *)
    | 100 => "opJumpIf"  (* JUMPIF *)
    | 105 => "opVerify"  (* VERIFY *)
    | 106 => "opFail"  (* FAIL *)
    | 107 => "opToAltStack"  (* TOALTSTACK *)
    | 108 => "opFromAltStack"  (* FROMALTSTACK *)
    | 109 => "op2Drop"  (* 2DROP *)
    | 110 => "op2Dup"  (* 2DUP *)
    | 111 => "op3Dup"  (* 3DUP *)
    | 112 => "op2Over"  (* 2OVER *)
    | 113 => "op2Rot"  (* 2ROT *)
    | 114 => "op2Swap"  (* 2SWAP *)
    | 115 => "opIfDup"  (* IFDUP *)
    | 116 => "opDepth"  (* DEPTH *)
    | 117 => "opDrop"  (* DROP *)
    | 118 => "opDup"  (* DUP *)
    | 119 => "opNip"  (* NIP *)
    | 120 => "opOver"  (* OVER *)
    | 121 => "opPick"  (* PICK *)
    | 122 => "opRoll"  (* ROLL *)
    | 123 => "opRot"  (* ROT *)
    | 124 => "opSwap"  (* SWAP *)
    | 125 => "opTuck"  (* TUCK *)
    | 126 => "opCat"  (* CAT *)
    | 127 => "opSubstr"  (* SUBSTR *)
    | 128 => "opLeft"  (* LEFT *)
    | 129 => "opRight"  (* RIGHT *)
    | 130 => "opSize"  (* SIZE *)
    | 137 => "opCatpushdata"  (* CATPUSHDATA *)
    | 131 => "opInvert"  (* INVERT *)
    | 132 => "opAnd"  (* AND *)
    | 133 => "opOr"  (* OR *)
    | 134 => "opXor"  (* XOR *)
    | 135 => "opEqual"  (* EQUAL *)
    | 136 => "opEqualVerify"  (* EQUALVERIFY *)
    | 139 => "op1Add"  (* 1ADD *)
    | 140 => "op1Sub"  (* 1SUB *)
    | 141 => "op2Mul"  (* 2MUL *)
    | 142 => "op2Div"  (* 2DIV *)
    | 145 => "opNot"  (* NOT *)
    | 146 => "op0NotEqual"  (* 0NOTEQUAL *)
    | 147 => "opAdd"  (* ADD *)
    | 148 => "opSub"  (* SUB *)
    | 149 => "opMul"  (* MUL *)
    | 150 => "opDiv"  (* DIV *)
    | 151 => "opMod"  (* MOD *)
    | 152 => "opLshift"  (* LSHIFT *)
    | 153 => "opRshift"  (* RSHIFT *)
    | 154 => "opBoolAnd"  (* BOOLAND *)
    | 155 => "opBoolOr"  (* BOOLOR *)
    | 156 => "opNumEqual"  (* NUMEQUAL *)
    | 157 => "opNumEqualVerify"  (* NUMEQUALVERIFY *)
    | 158 => "opNumNotEqual"  (* NUMNOTEQUAL *)
    | 159 => "opLessThan"  (* LESSTHAN *)
    | 160 => "opGreaterThan"  (* GREATERTHAN *)
    | 161 => "opLessThanOrEqual"  (* LESSTHANOREQUAL *)
    | 162 => "opGreaterThanOrEqual"  (* GREATERTHANOREQUAL *)
    | 163 => "opMin"  (* MIN *)
    | 164 => "opMax"  (* MAX *)
    | 165 => "opWithin"  (* WITHIN *)
    | 168 => "opSha256"  (* SHA256 *)
    | 170 => "opSha3"  (* SHA3 *)
    | 171 => "opHash160"  (* HASH160 *)
    | 172 => "opCheckSig"  (* CHECKSIG *)
    | 173 => "opCheckMultiSig"  (* CHECKMULTISIG *)
    | 174 => "opTxSigHash"  (* TXSIGHASH *)
    | 193 => "opCheckOutput"  (* CHECKOUTPUT *)
    | 194 => "opAsset"  (* ASSET *)
    | 195 => "opAmount"  (* AMOUNT *)
    | 196 => "opProgram"  (* PROGRAM *)
    | 201 => "opIndex"  (* INDEX *)
    | 202 => "opEntryID"  (* ENTRYID *)
    | 203 => "opOutputID"  (* OUTPUTID *)
    | 205 => "opBlockHeight"  (* BLOCKHEIGHT *)
    | 192 => "opCheckPredicate"  (* CHECKPREDICATE *)
    | _ => "opNop"
    end.

Fixpoint assoc_op (b : N) (t : list (N * (string * string))) : option (string * string) :=
  match t with
  | [] => None
  | (k, v) :: r => if k =? b then Some v else assoc_op b r
  end.

(* ops[b].fn after init(), computed from the translated table *)
Definition gen_handler (b : N) : string :=
  match assoc_op b op_table with
  | Some (_, h) => h
  | None =>
      if (data_lo <=? b) && (b <=? data_hi) then data_handler
      else if (small_base + small_lo <=? b) && (b <=? small_base + small_hi) then small_handler
      else nop_handler
  end.
(* isExpansion[b] after init() *)
Definition gen_is_expansion (b : N) : bool :=
  match assoc_op b op_table with
  | Some _ => false
  | None => negb (((data_lo <=? b) && (b <=? data_hi)) || ((small_base + small_lo <=? b) && (b <=? small_base + small_hi)))
  end.

Definition all_bytes : list N := map N.of_nat (seq 0 256).

Lemma all_bytes_complete b : b < 256 -> In b all_bytes.
Proof.
  intros H. unfold all_bytes. apply in_map_iff. exists (N.to_nat b). split; [apply Nnat.N2Nat.id|].
  apply in_seq. lia.
Qed.

Fixpoint assoc_const (n : string) (t : list (string * N)) : option N :=
  match t with
  | [] => None
  | (k, v) :: r => if String.eqb k n then Some v else assoc_const n r
  end.

(* no opcode is listed twice, and no listed opcode falls into the two generated ranges
   (otherwise init() would overwrite a literal entry and the literal would be dead) *)
Definition table_well_formed : bool :=
  forallb (fun b => Nat.leb (List.length (filter (fun e => fst e =? b) op_table)) 1) all_bytes
  && forallb (fun e => negb (((data_lo <=? fst e) && (fst e <=? data_hi))
                            || ((small_base + small_lo <=? fst e) && (fst e <=? small_base + small_hi)))
                      && (fst e <? 256)) op_table.

Lemma table_well_formed_ok : table_well_formed = true.
Proof. vm_compute. reflexivity. Qed.

Lemma handlers_sweep : forallb (fun b => String.eqb (model_handler b) (gen_handler b)) all_bytes = true.
Proof. vm_compute. reflexivity. Qed.

Lemma expansion_sweep : forallb (fun b => Bool.eqb (is_expansion b) (gen_is_expansion b)) all_bytes = true.
Proof. vm_compute. reflexivity. Qed.

Lemma optable_handlers_lemma b : b < 256 -> model_handler b = gen_handler b.
Proof.
  intros H. pose proof handlers_sweep as S. rewrite forallb_forall in S.
  apply String.eqb_eq. apply S. apply all_bytes_complete. exact H.
Qed.

Lemma optable_expansion_lemma b : b < 256 -> is_expansion b = gen_is_expansion b.
Proof.
  intros H. pose proof expansion_sweep as S. rewrite forallb_forall in S.
  apply Bool.eqb_prop. apply S. apply all_bytes_complete. exact H.
Qed.

Lemma optable_ranges_lemma :
  data_lo = OP_DATA_1 /\ data_hi = OP_DATA_75 /\ small_base + small_lo = OP_1 /\ small_base + small_hi = OP_16
  /\ assoc_const "OP_1" op_consts = Some OP_1 /\ assoc_const "OP_16" op_consts = Some OP_16
  /\ assoc_const "OP_DATA_1" op_consts = Some OP_DATA_1 /\ assoc_const "OP_DATA_75" op_consts = Some OP_DATA_75
  /\ assoc_const "OP_PUSHDATA1" op_consts = Some OP_PUSHDATA1 /\ assoc_const "OP_PUSHDATA2" op_consts = Some OP_PUSHDATA2
  /\ assoc_const "OP_PUSHDATA4" op_consts = Some OP_PUSHDATA4
  /\ assoc_const "OP_JUMP" op_consts = Some OP_JUMP /\ assoc_const "OP_JUMPIF" op_consts = Some OP_JUMPIF.
Proof. vm_compute. repeat split; reflexivity. Qed.
