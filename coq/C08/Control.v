(* C08 — control (NOP JUMP JUMPIF VERIFY FAIL), push-data / constant opcodes and the
   undefined ("expansion") opcodes refine the reference semantics. *)
From Coq Require Import List ZArith NArith Bool Lia ZifyN ZifyNat ZifyBool.
From Verif Require Import Cmp VM.
From C08 Require Import Spec Base.
Import ListNotations.
Open Scope Z_scope.

Definition control_ops : list N := [97; 99; 100; 105; 106]%N.
Definition pushdata_ops : list N := [0; 76; 77; 78; 1; 2; 3; 4; 5; 6; 7; 8; 9; 10; 11; 12; 13; 14; 15; 16; 17; 18; 19; 20; 21; 22; 23; 24; 25; 26; 27; 28; 29; 30; 31; 32; 33; 34; 35; 36; 37; 38; 39; 40; 41; 42; 43; 44; 45; 46; 47; 48; 49; 50; 51; 52; 53; 54; 55; 56; 57; 58; 59; 60; 61; 62; 63; 64; 65; 66; 67; 68; 69; 70; 71; 72; 73; 74; 75]%N.
Definition const_ops : list N := [81; 82; 83; 84; 85; 86; 87; 88; 89; 90; 91; 92; 93; 94; 95; 96]%N.
Definition expansion_ops : list N := [79; 80; 98; 101; 102; 103; 104; 138; 143; 144; 166; 167; 169; 175; 176; 177; 178; 179; 180; 181; 182; 183; 184; 185; 186; 187; 188; 189; 190; 191; 197; 198; 199; 200; 204; 206; 207; 208; 209; 210; 211; 212; 213; 214; 215; 216; 217; 218; 219; 220; 221; 222; 223; 224; 225; 226; 227; 228; 229; 230; 231; 232; 233; 234; 235; 236; 237; 238; 239; 240; 241; 242; 243; 244; 245; 246; 247; 248; 249; 250; 251; 252; 253; 254; 255]%N.

(* the list above is exactly the set of bytes the model treats as expansion opcodes *)
Lemma expansion_ops_complete :
  expansion_ops = filter is_expansion (map N.of_nat (seq 0 256)).
Proof. vm_compute. reflexivity. Qed.

Lemma jump_target_eq d : le_decode d = num_value d.
Proof. symmetry. apply num_value_eq. Qed.

Section Control.
  Variable cr : crypto.
  Variable cx : context.
  Variable rc : vmst -> child_result.

  Lemma control_ok : forall i s, In (i_op i) control_ops -> refines_at cr cx rc i s.
  Proof.
    intros [op il idata] [pg pc0 npc rl df er vd ds als] Hop. cbn [i_op] in Hop. facts.
    unfold control_ops in Hop.
    repeat (destruct Hop as [<-|Hop];
      [ (op_start; op_run; try final) |]).
    all: try contradiction.
    all: apply jump_target_eq.
  Qed.

  Lemma pushdata_ok : forall i s, In (i_op i) pushdata_ops -> refines_at cr cx rc i s.
  Proof.
    intros [op il idata] [pg pc0 npc rl df er vd ds als] Hop. cbn [i_op] in Hop.
    unfold pushdata_ops in Hop.
    repeat (destruct Hop as [<-|Hop]; [ (op_start; op_run; try final) |]).
    all: try contradiction.
  Qed.

  (* OP_1 … OP_16: ParseOp supplies the number as the instruction data *)
  Lemma const_ok : forall i s, In (i_op i) const_ops -> i_data i = [(i_op i - 80)%N] ->
    refines_at cr cx rc i s.
  Proof.
    intros [op il idata] [pg pc0 npc rl df er vd ds als] Hop Hd. cbn [i_op i_data] in Hop, Hd. subst idata.
    unfold const_ops in Hop.
    repeat (destruct Hop as [<-|Hop]; [ (op_start; op_run; try final) |]).
    all: try contradiction.
  Qed.

  Lemma expansion_ok : forall i s, In (i_op i) expansion_ops -> refines_at cr cx rc i s.
  Proof.
    intros [op il idata] [pg pc0 npc rl df er vd ds als] Hop. cbn [i_op] in Hop.
    unfold expansion_ops in Hop.
    repeat (destruct Hop as [<-|Hop]; [ (op_start; op_run; try final) |]).
    all: try contradiction.
  Qed.
End Control.
