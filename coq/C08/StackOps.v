(* C08 — stack manipulation opcodes 0x6b–0x7d refine the reference semantics. *)
From Coq Require Import List ZArith NArith Bool Lia ZifyN ZifyNat ZifyBool.
From Verif Require Import Cmp VM.
From C08 Require Import Spec Base.
Import ListNotations.
Open Scope Z_scope.

Ltac stack_tac :=
  cbn [length Nat.ltb Nat.leb Nat.sub nth tl firstn skipn app] in *;
  change (Z.to_nat (3 - 1)) with 2%nat in *;
  change (Z.of_nat 1) with 1 in *; change (Z.of_nat 2) with 2 in *; change (Z.of_nat 3) with 3 in *.

Ltac decide_bool c :=
  first [ match goal with H : c = _ |- _ => rewrite H end
        | let E := fresh "E" in assert (E : c = false) by arith; rewrite E; clear E
        | let E := fresh "E" in assert (E : c = true) by arith; rewrite E; clear E ].
Lemma mem_roll : forall ds k, (k < length ds)%nat ->
  8 + len (nth k ds []) + mem (firstn k ds ++ skipn (S k) ds) = mem ds.
Proof.
  induction ds as [|x ds IH]; intros k Hk; cbn [length] in Hk; [lia|].
  destruct k as [|k].
  - cbn [nth firstn skipn app mem]. lia.
  - cbn [nth firstn skipn app mem]. specialize (IH k ltac:(lia)). cbn [skipn] in IH. lia.
Qed.

Ltac pick_fix :=
  cbn [length nth tl] in *;
  repeat match goal with
  | |- context [(?a mod two64)%N] =>
      lazymatch goal with
      | _ : (a mod two64 < two64)%N |- _ => fail
      | _ => assert (a mod two64 < two64)%N by (apply N.mod_lt; lia)
      end
  end;
  try match goal with |- context [if (two63 <=? ?u)%N then _ else _] => decide_bool (two63 <=? u)%N end;
  repeat match goal with
  | |- context [Z.to_nat (Z.of_N ?u + 1 - 1)] => replace (Z.to_nat (Z.of_N u + 1 - 1)) with (N.to_nat u) by lia
  end.

Section StackOps.
  Variable cr : crypto.
  Variable cx : context.
  Variable rc : vmst -> child_result.

  Definition stack_simple : list N :=
    [107; 108; 109; 110; 111; 112; 113; 114; 115; 117; 118; 119; 120; 123; 124; 125]%N.

  Lemma stack_simple_ok : forall i s, In (i_op i) stack_simple -> refines_at cr cx rc i s.
  Proof.
    intros [op il idata] [pg pc0 npc rl df er vd ds als] Hop. cbn [i_op] in Hop. facts.
    unfold stack_simple in Hop.
    repeat (destruct Hop as [<-|Hop];
      [ time "op" (op_start; op_run_with ltac:(stack_tac); try final) |]).
    all: try contradiction.
  Qed.

  (* DEPTH pushes the stack depth: needs the depth to be a Go int *)
  Lemma depth_ok : forall i s, sane s -> i_op i = 116%N -> refines_at cr cx rc i s.
  Proof.
    intros [op il idata] [pg pc0 npc rl df er vd ds als] [Hs _] Hop. cbn [i_op] in Hop. subst op. facts.
    cbn [dstack] in Hs. unfold go_len in Hs.
    op_proof.
  Qed.

  Lemma pickroll_ok : forall i s, In (i_op i) [121; 122]%N -> refines_at cr cx rc i s.
  Proof.
    intros [op il idata] [pg pc0 npc rl df er vd ds als] Hop. cbn [i_op] in Hop. facts.
    repeat (destruct Hop as [<-|Hop];
      [ time "op" (op_start; rewrite ?lim64_eq, ?lim63_eq in *; pose proof lim64_eq; pose proof lim63_eq;
                   op_run_with ltac:(pick_fix); try final) |]).
    all: try contradiction.
    clear Hgas. generalize dependent (n mod two64)%N. intros u. intros.
    apply N.leb_gt in E1. assert (Hlt : (N.to_nat u < length ds)%nat) by (clear - E1; lia).
    pose proof (mem_roll ds (N.to_nat u) Hlt) as Hr. unfold len in Hr. unfold item in *. lia.
  Qed.
End StackOps.
