(* C08 — hash and signature opcodes refine the reference semantics; CHECKMULTISIG's
   greedy scan is equivalent, for every number of keys and signatures, to "the
   signatures are verified by an order-preserving selection of the keys". *)
From Coq Require Import List ZArith NArith Bool Lia ZifyN ZifyNat ZifyBool.
From Verif Require Import Cmp VM.
From C08 Require Import Spec Base.
Import ListNotations.
Open Scope Z_scope.

(* ---------- multisig: greedy = exhaustive = relational ---------- *)

Section Multisig.
  Variable ver : item -> item -> bool.

  Lemma ms_search_drop : forall keys sg sgs,
    ms_search ver (sg :: sgs) keys = true -> ms_search ver sgs keys = true.
  Proof.
    induction keys as [|pk pks IH]; intros sg sgs H; [discriminate|].
    cbn [ms_search] in H. destruct sgs as [|sg2 sgs2]; [reflexivity|].
    cbn [ms_search]. apply orb_true_iff. apply orb_true_iff in H. destruct H as [H|H].
    - apply andb_true_iff in H. destruct H as [_ H]. right. exact H.
    - right. apply (IH _ _ H).
  Qed.

  Lemma ms_search_match : forall keys sigs, ms_search ver sigs keys = true <-> ms_match ver sigs keys.
  Proof.
    induction keys as [|pk pks IH]; intros sigs.
    - destruct sigs; cbn [ms_search]; split; intros H; try constructor; try discriminate. inversion H.
    - destruct sigs as [|sg sgs]; cbn [ms_search].
      + split; intros; [constructor|reflexivity].
      + rewrite orb_true_iff, andb_true_iff. split.
        * intros [[Hv H]|H]; [apply ms_use; [exact Hv|apply IH; exact H] | apply ms_skip; apply IH; exact H].
        * intros H. inversion H; subst; [left; split; [assumption|apply IH; assumption] | right; apply IH; assumption].
  Qed.
End Multisig.

Lemma multisig_scan_eq cr msg : forall keys sigs,
  multisig_scan cr msg sigs keys = ms_search (fun pk sg => sig_verify cr pk msg sg) sigs keys.
Proof.
  induction keys as [|pk pks IH]; intros sigs; [destruct sigs; reflexivity|].
  destruct sigs as [|sg sgs]; [reflexivity|]. cbn [multisig_scan ms_search].
  destruct (sig_verify cr pk msg sg); cbn [andb orb].
  - rewrite IH. destruct (ms_search _ sgs pks) eqn:E1; [reflexivity|]. cbn [orb].
    destruct (ms_search _ (sg :: sgs) pks) eqn:E2; [|reflexivity].
    apply ms_search_drop in E2. congruence.
  - apply IH.
Qed.

Lemma existsb_negb {A} (f : A -> bool) l : existsb (fun x => negb (f x)) l = negb (forallb f l).
Proof. induction l as [|x l IH]; [reflexivity|]. cbn. rewrite IH. destruct (f x); reflexivity. Qed.

(* ---------- popping n items ---------- *)

Lemma mem_app a b : mem (a ++ b) = mem a + mem b.
Proof. induction a as [|x a IH]; cbn [app mem]; lia. Qed.

Lemma popn_ok : forall k pg pc0 npc rl df er vd ds als, (k <= length ds)%nat ->
  popn k true {| prog := pg; pc := pc0; nextpc := npc; runlimit := rl; deferred := df; expres := er;
                 vdata := vd; dstack := ds; astack := als |}
  = ROk (firstn k ds) {| prog := pg; pc := pc0; nextpc := npc; runlimit := rl;
                         deferred := df - mem (firstn k ds); expres := er;
                         vdata := vd; dstack := skipn k ds; astack := als |}.
Proof.
  induction k as [|k IH]; intros pg pc0 npc rl df er vd ds als Hk.
  - cbn [popn firstn skipn mem]. unfold ret. rewrite Z.sub_0_r. reflexivity.
  - destruct ds as [|x ds]; [cbn in Hk; lia|].
    cbn [popn]. cbv beta iota zeta delta [bind pop set_dstack set_deferred dstack deferred prog pc nextpc runlimit expres vdata astack].
    rewrite IH by (cbn in Hk; lia). cbv beta iota delta [ret]. cbn [firstn skipn mem].
    replace (df - item_cost x - mem (firstn k ds)) with (df - (8 + len x + mem (firstn k ds)))
      by (unfold item_cost, len; lia). reflexivity.
Qed.

Lemma popn_underflow : forall k pg pc0 npc rl df er vd ds als, (length ds < k)%nat ->
  exists s', popn k true {| prog := pg; pc := pc0; nextpc := npc; runlimit := rl; deferred := df; expres := er;
                            vdata := vd; dstack := ds; astack := als |} = RErr EDataStackUnderflow s'.
Proof.
  induction k as [|k IH]; intros pg pc0 npc rl df er vd ds als Hk; [lia|].
  destruct ds as [|x ds].
  - eexists. reflexivity.
  - cbn [popn]. cbv beta iota zeta delta [bind pop set_dstack set_deferred dstack deferred prog pc nextpc runlimit expres vdata astack].
    destruct (IH pg pc0 npc rl (df - item_cost x) er vd ds als ltac:(cbn in Hk; lia)) as [s' ->]. eexists. reflexivity.
Qed.

Ltac negb_fix :=
  repeat match goal with
  | E : negb _ = true |- _ => apply negb_true_iff in E
  | E : negb _ = false |- _ => apply negb_false_iff in E
  end;
  repeat match goal with
  | E : (length ?p =? 32)%nat = _ |- _ => rewrite E in *; clear E
  end; cbn [andb] in *.

Lemma Z2nat_ofN n : Z.to_nat (Z.of_N n) = N.to_nat n.
Proof. lia. Qed.

Ltac popn_step :=
  rewrite ?Z2nat_ofN in *;
  try match goal with
  | |- context [popn ?k true {| prog := ?a; pc := ?b; nextpc := ?c; runlimit := ?d; deferred := ?e;
                                expres := ?f; vdata := ?g; dstack := ?h; astack := ?j |}] =>
      first [ rewrite (popn_ok k a b c d e f g h j) by arith
            | let s' := fresh "s'" in let Hp := fresh "Hp" in
              destruct (popn_underflow k a b c d e f g h j ltac:(arith)) as [s' Hp]; rewrite Hp; clear Hp ]
  end; cbv beta iota;
  try match goal with
  | E : skipn ?k ?d = _ |- context [skipn ?k ?d] => rewrite E
  end; cbv beta iota.

Lemma mem_split k d : mem d = mem (firstn k d) + mem (skipn k d).
Proof. rewrite <- mem_app, firstn_skipn. reflexivity. Qed.

Ltac ms_fix :=
  rewrite ?existsb_negb in *;
  repeat match goal with
  | E : negb _ = true |- _ => apply negb_true_iff in E
  | E : negb _ = false |- _ => apply negb_false_iff in E
  end;
  repeat match goal with
  | E : forallb _ _ = _ |- _ => rewrite E in *; clear E
  end; cbn [andb] in *;
  rewrite ?multisig_scan_eq in *.

Ltac split_facts :=
  repeat match goal with
  | |- context [mem (firstn ?k ?d)] =>
      lazymatch goal with
      | _ : mem d = mem (firstn k d) + mem (skipn k d) |- _ => fail
      | _ => pose proof (mem_split k d); pose proof (mem_nonneg (firstn k d)); pose proof (mem_nonneg (skipn k d))
      end
  | H : context [mem (firstn ?k ?d)] |- _ =>
      lazymatch goal with
      | _ : mem d = mem (firstn k d) + mem (skipn k d) |- _ => fail
      | _ => pose proof (mem_split k d); pose proof (mem_nonneg (firstn k d)); pose proof (mem_nonneg (skipn k d))
      end
  end;
  repeat match goal with
  | E : skipn ?k ?d = _ :: _, M : context [mem (skipn ?k ?d)] |- _ => rewrite E in M; cbn [mem] in M
  end.

Section Crypto.
  Variable cr : crypto.
  Variable cx : context.
  Variable rc : vmst -> child_result.

  Definition crypto_simple : list N := [168; 170; 171; 172; 174]%N.

  Lemma crypto_simple_ok : forall i s, In (i_op i) crypto_simple -> refines_at cr cx rc i s.
  Proof.
    intros [op il idata] [pg pc0 npc rl df er vd ds als] Hop. cbn [i_op] in Hop. facts.
    unfold crypto_simple in Hop.
    repeat (destruct Hop as [<-|Hop];
      [ (op_start; op_run; repeat (model_split; negb_fix; op_run); try final) |]).
    all: try contradiction.
  Qed.

  Lemma multisig_ok : forall i s, i_op i = 173%N -> refines_at cr cx rc i s.
  Proof.
    intros [op il idata] [pg pc0 npc rl df er vd ds als] Hop. cbn [i_op] in Hop. subst op. facts.
    op_start; op_run_with ltac:(popn_step); repeat (model_split; negb_fix; ms_fix; op_run_with ltac:(popn_step));
      try final.
    all: rewrite ?(size_operand_val _ _ D E); split_facts; try final.
    all: exfalso; arith.
  Qed.
End Crypto.
