(* C08 — introspection opcodes (CHECKOUTPUT ASSET AMOUNT PROGRAM INDEX ENTRYID OUTPUTID
   BLOCKHEIGHT) refine the reference semantics. *)
From Coq Require Import List ZArith NArith Bool Lia ZifyN ZifyNat ZifyBool.
From Verif Require Import Cmp VM.
From C08 Require Import Spec Base.
Import ListNotations.
Open Scope Z_scope.

Section Introspect.
  Variable cr : crypto.
  Variable cx : context.
  Variable rc : vmst -> child_result.

  Definition introspect_ops : list N := [193; 194; 195; 196; 201; 202; 203; 205]%N.

  Lemma introspect_ok : forall i s, ctx_sane cx -> In (i_op i) introspect_ops -> refines_at cr cx rc i s.
  Proof.
    intros [op il idata] [pg pc0 npc rl df er vd ds als] (Ha & Hd & Hb) Hop. cbn [i_op] in Hop. facts.
    unfold introspect_ops in Hop. unfold opt_u64 in *.
    repeat (destruct Hop as [<-|Hop];
      [ time "op" (spec_unfold; rewrite ?lim64_eq in *; pose proof lim64_eq; op_start; op_run; try final) |]).
    all: try contradiction. Show.
  Qed.
End Introspect.
