(* C39 — helpers for the correspondence cases written by harness/c39.
   A case is a list of macro operations: a primitive operation, a batch of k
   posts with consecutive payloads, or a batch of k non-blocking receives.  A
   macro is expanded to primitive operations, run on the model (C39/Model.v), and
   its results are summarised the same way the harness summarises what the
   implementation returned (received events as maximal runs of consecutive
   payloads), so that a case filling the 65536-slot buffer stays small. *)
From Coq Require Import List NArith Bool Arith.
From C39 Require Import Model Proofs.
Import ListNotations.
Open Scope N_scope.

Inductive mop :=
| MP (o : op)
| MPostMany (t v0 k now : N)      (* Post t v0 now; Post t (v0+1) now; ... (k of them) *)
| MRecvMany (s : nat) (k : N).    (* k times Recv s *)

Inductive mres :=
| MR (r : res)
| MRPosts (ok closed other : N)
| MRRecvs (runs : list (N * N * N))   (* (type, first payload, length) *)
          (nempty nclosed nother : N)
          (gots_first : bool).        (* every received event precedes every non-event result *)

Definition expand (m : mop) : list op :=
  match m with
  | MP o => [o]
  | MPostMany t v0 k now =>
    snd (N.iter k (fun p : N * list op => (N.pred (fst p), Post t (v0 + N.pred (fst p)) now :: snd p)) (k, []))
  | MRecvMany s k => N.iter k (cons (Recv s)) []
  end.

Definition rle_cons (e : N * N) (runs : list (N * N * N)) : list (N * N * N) :=
  match runs with
  | (t', v', c) :: r =>
    if (fst e =? t') && (snd e + 1 =? v') then (fst e, snd e, c + 1) :: r
    else (fst e, snd e, 1) :: runs
  | [] => [(fst e, snd e, 1)]
  end.

Fixpoint gots (rs : list res) : list (N * N) :=
  match rs with
  | [] => []
  | RGot t v :: r => (t, v) :: gots r
  | _ :: r => gots r
  end.

Definition is_got (r : res) : bool := match r with RGot _ _ => true | _ => false end.

Fixpoint count_res (f : res -> bool) (rs : list res) (acc : N) : N :=
  match rs with
  | [] => acc
  | r :: rest => count_res f rest (if f r then acc + 1 else acc)
  end.

(* no event after the first non-event *)
Fixpoint gots_first_from (seen_other : bool) (rs : list res) : bool :=
  match rs with
  | [] => true
  | r :: rest =>
    if is_got r then (if seen_other then false else gots_first_from false rest)
    else gots_first_from true rest
  end.

Definition summarize (m : mop) (rs : list res) : mres :=
  match m with
  | MP _ => match rs with [x] => MR x | _ => MR RPanic end
  | MPostMany _ _ _ _ =>
    MRPosts (count_res (fun r => match r with RPostOk => true | _ => false end) rs 0)
            (count_res (fun r => match r with RPostClosed => true | _ => false end) rs 0)
            (count_res (fun r => match r with RPostOk => false | RPostClosed => false | _ => true end) rs 0)
  | MRecvMany _ _ =>
    MRRecvs (fold_right rle_cons [] (gots rs))
            (count_res (fun r => match r with REmpty => true | _ => false end) rs 0)
            (count_res (fun r => match r with RClosed => true | _ => false end) rs 0)
            (count_res (fun r => match r with REmpty => false | RClosed => false | RGot _ _ => false | _ => true end) rs 0)
            (gots_first_from false rs)
  end.

Fixpoint run_groups (cap : N) (st : disp) (ms : list mop) : list (mop * list res) :=
  match ms with
  | [] => []
  | m :: r =>
    let (st1, rs) := run_from cap st (expand m) in
    (m, rs) :: run_groups cap st1 r
  end.

Definition run_case (cap : N) (ms : list mop) : list mres :=
  map (fun p => summarize (fst p) (snd p)) (run_groups cap init ms).

(* the grouped run is the model's run on the flattened history *)
Lemma run_groups_flat : forall cap ms st,
  concat (map snd (run_groups cap st ms)) = snd (run_from cap st (flat_map expand ms)).
Proof.
  induction ms as [|m r]; intros st; [reflexivity|].
  simpl. rewrite run_from_app. simpl.
  destruct (run_from cap st (expand m)) as [st1 rs] eqn:E. simpl. now rewrite IHr.
Qed.

(* ---- boolean equality on summaries ---- *)

Definition res_eqb (a b : res) : bool :=
  match a, b with
  | RSub i, RSub j => Nat.eqb i j
  | RSubDup, RSubDup => true
  | RPostOk, RPostOk => true
  | RPostClosed, RPostClosed => true
  | RUnit, RUnit => true
  | RGot t v, RGot t' v' => (t =? t') && (v =? v')
  | REmpty, REmpty => true
  | RClosed, RClosed => true
  | RBool x, RBool y => Bool.eqb x y
  | RNil, RNil => true
  | RPanic, RPanic => true
  | _, _ => false
  end.

Fixpoint runs_eqb (a b : list (N * N * N)) : bool :=
  match a, b with
  | [], [] => true
  | (t, v, c) :: x, (t', v', c') :: y => (t =? t') && (v =? v') && (c =? c') && runs_eqb x y
  | _, _ => false
  end.

Definition mres_eqb (a b : mres) : bool :=
  match a, b with
  | MR x, MR y => res_eqb x y
  | MRPosts a1 a2 a3, MRPosts b1 b2 b3 => (a1 =? b1) && (a2 =? b2) && (a3 =? b3)
  | MRRecvs r1 e1 c1 o1 g1, MRRecvs r2 e2 c2 o2 g2 =>
    runs_eqb r1 r2 && (e1 =? e2) && (c1 =? c2) && (o1 =? o2) && Bool.eqb g1 g2
  | _, _ => false
  end.

Fixpoint mres_list_eqb (a b : list mres) : bool :=
  match a, b with
  | [], [] => true
  | x :: a', y :: b' => mres_eqb x y && mres_list_eqb a' b'
  | _, _ => false
  end.
