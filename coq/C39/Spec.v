(* C39 — history-level vocabulary of the property (definitions only, NO PROOFS).
   Everything here is a plain function of the operation list and of the list of
   results the model returned; nothing refers to the dispatcher's internals
   except [pending] (what is still in a subscription's buffer at the end). *)
From Coq Require Import List NArith Bool Arith.
From C39 Require Import Model.
Import ListNotations.
Open Scope N_scope.

Definition obs := (N * N)%type.          (* (type tag, payload) *)

(* number of Subscribe calls = the arena index the next Subscribe allocates *)
Fixpoint count_sub (ops : list op) : nat :=
  match ops with
  | [] => O
  | Subscribe _ _ :: r => S (count_sub r)
  | _ :: r => count_sub r
  end.

Fixpoint has_stop (ops : list op) : bool :=
  match ops with
  | [] => false
  | Stop :: _ => true
  | _ :: r => has_stop r
  end.

Definition memN (t : N) (tys : list N) : bool := existsb (N.eqb t) tys.

(* what the consumer of subscription s took out of its channel, in order *)
Fixpoint recvd (s : nat) (ops : list op) (rs : list res) : list obs :=
  match ops, rs with
  | Recv s' :: o, RGot t v :: r => if Nat.eqb s' s then (t, v) :: recvd s o r else recvd s o r
  | _ :: o, _ :: r => recvd s o r
  | _, _ => []
  end.

(* what is still buffered for s *)
Definition pending (s : nat) (st : disp) : list obs :=
  match nth_error (subs st) s with
  | Some x => map (fun e => (ety e, eval e)) (qlist (q x))
  | None => []
  end.

(* Reference monitor of ONE subscription over the operations that follow its
   Subscribe: [active] = still subscribed (no Unsubscribe s, no Stop so far),
   [npend] = events delivered to s and not yet received.  It lists the events s
   must get: every Post of one of its types while active, not stamped before
   the subscription was created, in order, once — except when npend = cap at
   that moment (buffer full). *)
Fixpoint expected (cap : N) (tys : list N) (cre : N) (s : nat)
         (active : bool) (npend : N) (ops : list op) : list obs :=
  match ops with
  | [] => []
  | Post t v now :: r =>
    if active && memN t tys && (cre <=? now) then
      if npend <? cap then (t, v) :: expected cap tys cre s active (npend + 1) r
      else expected cap tys cre s active npend r
    else expected cap tys cre s active npend r
  | Recv s' :: r =>
    if Nat.eqb s' s && (0 <? npend) then expected cap tys cre s active (npend - 1) r
    else expected cap tys cre s active npend r
  | Unsubscribe s' :: r =>
    if Nat.eqb s' s then expected cap tys cre s false npend r
    else expected cap tys cre s active npend r
  | Stop :: r => expected cap tys cre s false npend r
  | _ :: r => expected cap tys cre s active npend r
  end.

(* the operations after the Subscribe and before the first Unsubscribe s / Stop *)
Fixpoint window (s : nat) (ops : list op) : list op :=
  match ops with
  | [] => []
  | Stop :: _ => []
  | Unsubscribe s' :: r => if Nat.eqb s' s then [] else Unsubscribe s' :: window s r
  | o :: r => o :: window s r
  end.

Fixpoint count_post (ops : list op) : N :=
  match ops with
  | [] => 0
  | Post _ _ _ :: r => 1 + count_post r
  | _ :: r => count_post r
  end.

(* posts of the given types not stamped before [cre] *)
Fixpoint posts_for (tys : list N) (cre : N) (ops : list op) : list obs :=
  match ops with
  | [] => []
  | Post t v now :: r =>
    if memN t tys && (cre <=? now) then (t, v) :: posts_for tys cre r else posts_for tys cre r
  | _ :: r => posts_for tys cre r
  end.

(* posts of the given types *)
Fixpoint posts_of (tys : list N) (ops : list op) : list obs :=
  match ops with
  | [] => []
  | Post t v _ :: r => if memN t tys then (t, v) :: posts_of tys r else posts_of tys r
  | _ :: r => posts_of tys r
  end.

(* the clock readings in the history never go back (time.Now() carries a
   monotonic reading and Time.After compares those) *)
Fixpoint mono_from (t0 : N) (ops : list op) : Prop :=
  match ops with
  | [] => True
  | Subscribe _ now :: r => t0 <= now /\ mono_from now r
  | Post _ _ now :: r => t0 <= now /\ mono_from now r
  | _ :: r => mono_from t0 r
  end.

(* s is a usable handle after [ops]: some Subscribe in ops returned it *)
Definition valid_handle (cap : N) (ops : list op) (s : nat) : Prop :=
  In (RSub s) (snd (run cap ops)).
