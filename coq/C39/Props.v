(* C39 — Event subscribers see posted events in order, once each.
   PROPERTY THEOREMS ONLY.

   Vocabulary.  [run cap ops] (C39/Model.v) executes a sequence of dispatcher
   operations  Subscribe tys now | Post t v now | Unsubscribe s | Stop | Recv s |
   IsClosed s  on the sequential model of /repo/event/event.go, starting from
   NewDispatcher(), and returns the final state and the list of results, one per
   operation.  [cap] is the channel capacity (maxEventChSize, 65536 in the code;
   the theorems hold for every capacity).  The clock readings are inputs of
   Subscribe and Post.  Subscription number s is the one allocated by the s-th
   Subscribe call (counting from 0).

   For the subscription created by [Subscribe tys now] after the prefix [pre]:
     recvd s ops rs   = the events its consumer received (results of Recv s),
     pending s st     = the events still in its buffer at the end,
   so  recvd ++ pending  is everything that was delivered to it, in order.
   [window s post] is the part of the history after the Subscribe and before the
   first [Unsubscribe s] or [Stop]; [posts_of tys w] the Post operations in w
   whose type is in tys (type and payload, in order); [posts_for tys now w] the
   same restricted to events not stamped before the subscription's creation
   (deliver's staleness test); [expected] (C39/Spec.v) is the reference monitor
   that additionally skips an event exactly when the number of delivered and not
   yet received events equals cap at that moment (buffer full).
   The theorems quantify over ALL histories [pre], [post] (any length, any
   interleaving of operations on any number of subscriptions). *)
From Coq Require Import List NArith Bool.
From C39 Require Import Model Spec Main.
Import ListNotations.
Open Scope N_scope.

(* Exact delivery, full generality (arbitrary clock readings, overflow allowed):
   the Subscribe succeeds, and what s gets is exactly what the monitor lists —
   every post of its types between its Subscribe and its Unsubscribe / the Stop,
   once, in posting order, minus the posts made while its buffer held cap
   events (and minus events stamped before its creation).  If the dispatcher
   was already stopped the subscription gets nothing. *)
Theorem c39_exact : forall cap pre tys now post, NoDup tys ->
  let s := count_sub pre in
  let ops := pre ++ Subscribe tys now :: post in
  nth (length pre) (snd (run cap ops)) RPanic = RSub s /\
  recvd s ops (snd (run cap ops)) ++ pending s (fst (run cap ops)) =
  expected cap tys now s (negb (has_stop pre)) 0 post.
Proof. exact exact_general. Qed.
Print Assumptions c39_exact.

(* No overflow possible (at most cap posts in the window): s gets exactly the
   posts of its types in its window that are not stale. *)
Theorem c39_exact_nodrop : forall cap pre tys now post, NoDup tys -> has_stop pre = false ->
  let s := count_sub pre in
  let ops := pre ++ Subscribe tys now :: post in
  count_post (window s post) <= cap ->
  recvd s ops (snd (run cap ops)) ++ pending s (fst (run cap ops)) =
  posts_for tys now (window s post).
Proof. exact exact_nodrop. Qed.
Print Assumptions c39_exact_nodrop.

(* The statement of the property: with a clock that never goes back (as Go's
   monotonic clock reading does) and no overflow, s gets exactly the posts of
   its types made after its Subscribe and before its Unsubscribe / the Stop,
   each once, in posting order. *)
Theorem c39_exact_monotone : forall cap pre tys now post, NoDup tys -> has_stop pre = false ->
  let s := count_sub pre in
  let ops := pre ++ Subscribe tys now :: post in
  mono_from 0 ops ->
  count_post (window s post) <= cap ->
  recvd s ops (snd (run cap ops)) ++ pending s (fst (run cap ops)) =
  posts_of tys (window s post).
Proof. exact exact_monotone. Qed.
Print Assumptions c39_exact_monotone.

(* Subscribing on a stopped dispatcher yields a subscription that never gets anything. *)
Theorem c39_subscribe_after_stop : forall cap pre tys now post, NoDup tys -> has_stop pre = true ->
  let s := count_sub pre in
  let ops := pre ++ Subscribe tys now :: post in
  recvd s ops (snd (run cap ops)) ++ pending s (fst (run cap ops)) = [].
Proof. exact subscribe_after_stop. Qed.
Print Assumptions c39_subscribe_after_stop.

(* Posting after the dispatcher stopped fails (ErrMuxClosed) ... *)
Theorem c39_post_after_stop : forall cap pre t v now post, has_stop pre = true ->
  nth (length pre) (snd (run cap (pre ++ Post t v now :: post))) RPanic = RPostClosed.
Proof. exact post_after_stop. Qed.
Print Assumptions c39_post_after_stop.

(* ... and changes nothing; *)
Theorem c39_post_after_stop_no_effect : forall cap pre t v now, has_stop pre = true ->
  fst (run cap (pre ++ [Post t v now])) = fst (run cap pre).
Proof. exact post_after_stop_no_effect. Qed.
Print Assumptions c39_post_after_stop_no_effect.

(* before the Stop it succeeds. *)
Theorem c39_post_before_stop : forall cap pre t v now post, has_stop pre = false ->
  nth (length pre) (snd (run cap (pre ++ Post t v now :: post))) RPanic = RPostOk.
Proof. exact post_before_stop. Qed.
Print Assumptions c39_post_before_stop.

(* Unsubscribe on a handle some Subscribe returned always returns (the model is
   a total function: there is no state in which the sequential code waits), with
   no panic, whatever happened before (including a Stop or an earlier
   Unsubscribe of the same handle) ... *)
Theorem c39_unsubscribe_returns : forall cap pre s post, valid_handle cap pre s ->
  nth (length pre) (snd (run cap (pre ++ Unsubscribe s :: post))) RPanic = RUnit.
Proof. exact unsubscribe_returns. Qed.
Print Assumptions c39_unsubscribe_returns.

(* ... and leaves the subscription closed and registered for no type. *)
Theorem c39_unsubscribe_closes : forall cap pre s, valid_handle cap pre s ->
  let st := fst (run cap (pre ++ [Unsubscribe s])) in
  (exists x, nth_error (subs st) s = Some x /\ closed x = true) /\
  forall t, ~ In s (lookup t (subm st)).
Proof. exact unsubscribe_closes. Qed.
Print Assumptions c39_unsubscribe_closes.

(* No operation of any history panics on a send to a closed channel (the only
   panic of the code besides dereferencing the nil handle that
   ErrDuplicateSubscribe comes with, which is reported as RNil). *)
Theorem c39_no_panic : forall cap ops, ~ In RPanic (snd (run cap ops)).
Proof. exact no_panic. Qed.
Print Assumptions c39_no_panic.
