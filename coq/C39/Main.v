(* C39 — main theorems about the model of event/event.go. *)
From Coq Require Import List NArith Bool Arith Lia ZifyBool ZifyN ZifyNat.
From Verif Require Import Outcome.
From C39 Require Import Model Spec Proofs Sim.
Import ListNotations.
Open Scope N_scope.

Lemma run_sim : forall cap s tys cre ops st a n,
  G st -> P st s tys cre a n ->
  recvd s ops (snd (run_from cap st ops)) ++ pending s (fst (run_from cap st ops)) =
  pending s st ++ expected cap tys cre s a n ops.
Proof.
  induction ops as [|o r]; intros st a n HG HP.
  - simpl. now rewrite app_nil_r.
  - rewrite run_from_cons. simpl fst. simpl snd. rewrite recvd_cons, expected_step.
    destruct (step_sim cap st s tys cre a n o HG HP) as (HP1 & Hgot).
    rewrite <- app_assoc. rewrite (IHr _ _ _ (G_step cap st o HG) HP1).
    rewrite !app_assoc. now rewrite Hgot.
Qed.

(* no receive on s succeeds before s exists *)
Lemma recvd_before : forall cap s ops st, G st ->
  (length (subs st) + count_sub ops <= s)%nat ->
  recvd s ops (snd (run_from cap st ops)) = [].
Proof.
  induction ops as [|o r]; intros st HG Hle; [reflexivity|].
  rewrite run_from_cons. simpl snd. rewrite recvd_cons. rewrite count_sub_cons in Hle.
  rewrite IHr.
  - rewrite app_nil_r. destruct o; simpl; auto.
    unfold recv, handle. destruct (Nat.eqb_spec s0 s) as [->|Hne].
    + assert (E : nth_error (subs st) s = None) by (apply nth_error_None; simpl in Hle; lia).
      rewrite E. reflexivity.
    + destruct (nth_error (subs st) s0) as [y|]; auto. destruct (returned y); auto.
      destruct (qpop (q y)) as [[e q']|]; simpl; auto. destruct (postc y); auto.
  - now apply G_step.
  - rewrite step_subs_length by auto. lia.
Qed.

Lemma recvd_app : forall s a b ra rb, length ra = length a ->
  recvd s (a ++ b) (ra ++ rb) = recvd s a ra ++ recvd s b rb.
Proof.
  induction a as [|o a]; intros b ra rb Hl.
  - destruct ra; [reflexivity|discriminate].
  - destruct ra as [|x ra]; [discriminate|]. simpl in Hl. inversion Hl.
    rewrite <- !app_comm_cons. rewrite !recvd_cons. rewrite IHa by auto. now rewrite app_assoc.
Qed.

(* the state right after the Subscribe that creates s *)
Lemma subscribe_P : forall cap st tys now, G st -> NoDup tys ->
  let s := length (subs st) in
  P (fst (step cap st (Subscribe tys now))) s tys now (negb (stopped st)) 0 /\
  snd (step cap st (Subscribe tys now)) = RSub s /\
  pending s (fst (step cap st (Subscribe tys now))) = [].
Proof.
  intros cap st tys now HG ND s. pose proof HG as (G1 & G2 & G3 & G4).
  simpl step. unfold subscribe. fold s. destruct (stopped st) eqn:Hs.
  - simpl. split; [|split; auto].
    + eexists. split; [apply nth_app_new|]. simpl. repeat split; auto; try discriminate.
      intros _ t. rewrite G4 by auto. intros [].
    + unfold pending. simpl. unfold s. now rewrite nth_app_new.
  - assert (Hfresh : forall t, ~ In s (lookup t (subm st))).
    { intros t Ht. destruct (G3 _ _ Ht) as (x & Hx & _).
      assert ((s < length (subs st))%nat) by (apply nth_error_Some; congruence). unfold s in *. lia. }
    destruct (register_fresh s tys (subm st) ND Hfresh) as (m' & R & Hin).
    rewrite R. simpl. split; [|split; auto].
    + eexists. split; [apply nth_app_new|]. simpl. repeat split; auto; try discriminate; apply Hin.
    + unfold pending. simpl. unfold s. now rewrite nth_app_new.
Qed.

Lemma init_subs : length (subs init) = O.
Proof. reflexivity. Qed.

(* ------------------------------------------------------- the main theorem *)

Theorem exact_general : forall cap pre tys now post, NoDup tys ->
  let s := count_sub pre in
  let ops := pre ++ Subscribe tys now :: post in
  nth (length pre) (snd (run cap ops)) RPanic = RSub s /\
  recvd s ops (snd (run cap ops)) ++ pending s (fst (run cap ops)) =
  expected cap tys now s (negb (has_stop pre)) 0 post.
Proof.
  intros cap pre tys now post ND s ops. unfold ops, run.
  rewrite run_from_app. cbn [fst snd]. rewrite run_from_cons. cbn [fst snd].
  set (st0 := fst (run_from cap init pre)).
  assert (HG0 : G st0) by (apply G_run, G_init).
  assert (Hlen0 : length (subs st0) = s).
  { unfold st0. rewrite run_subs_length by apply G_init. simpl. reflexivity. }
  destruct (subscribe_P cap st0 tys now HG0 ND) as (HP & Hres & Hpend).
  rewrite Hlen0 in HP, Hres, Hpend.
  assert (Hst : stopped st0 = has_stop pre) by (unfold st0; now rewrite run_stopped).
  rewrite Hst in HP.
  split.
  - rewrite app_nth2 by (rewrite run_from_length; lia).
    rewrite run_from_length, Nat.sub_diag. simpl. exact Hres.
  - rewrite recvd_app by apply run_from_length.
    rewrite (recvd_before cap s pre init G_init) by (simpl; lia). simpl app.
    change (subscribe tys now st0) with (step cap st0 (Subscribe tys now)).
    rewrite (run_sim cap s tys now post _ _ _ (G_step cap st0 _ HG0) HP).
    now rewrite Hpend.
Qed.

(* --------------------------------------------------- no-overflow corollaries *)

Lemma expected_inactive : forall cap tys cre s ops n, expected cap tys cre s false n ops = [].
Proof.
  induction ops as [|o r]; intros n; simpl; auto.
  destruct o; simpl; auto.
  - destruct (Nat.eqb s0 s); auto.
  - destruct (Nat.eqb s0 s && (0 <? n)); auto.
Qed.

Lemma expected_nodrop : forall cap tys cre s ops n,
  n + count_post (window s ops) <= cap ->
  expected cap tys cre s true n ops = posts_for tys cre (window s ops).
Proof.
  induction ops as [|o r]; intros n H; [reflexivity|].
  destruct o as [tys' now|t v now|s'| |s'|s'];
    cbn [expected window count_post posts_for andb] in *.
  - apply IHr; auto.
  - destruct (memN t tys && (cre <=? now)).
    + assert (E : (n <? cap) = true) by lia. rewrite E. f_equal. apply IHr. lia.
    + apply IHr. lia.
  - destruct (Nat.eqb s' s).
    + apply expected_inactive.
    + cbn [count_post posts_for] in *. apply IHr; auto.
  - apply expected_inactive.
  - destruct (Nat.eqb s' s && (0 <? n)); apply IHr; lia.
  - apply IHr; auto.
Qed.

Lemma mono_weaken : forall ops t0 t1, t1 <= t0 -> mono_from t0 ops -> mono_from t1 ops.
Proof.
  induction ops as [|o r]; intros t0 t1 Hle H; simpl in *; auto.
  destruct o; simpl in *; try (eapply IHr; eauto; fail); destruct H; split; auto; lia.
Qed.

Lemma mono_window : forall s ops t0, mono_from t0 ops -> mono_from t0 (window s ops).
Proof.
  induction ops as [|o r]; intros t0 H; simpl in *; auto.
  destruct o; simpl in *; auto; try (destruct H; split; auto; fail).
  destruct (Nat.eqb s0 s); simpl; auto.
Qed.

Lemma posts_for_mono : forall tys cre ops t0, cre <= t0 -> mono_from t0 ops ->
  posts_for tys cre ops = posts_of tys ops.
Proof.
  induction ops as [|o r]; intros t0 Hle H; simpl in *; auto.
  destruct o; simpl in *; try (eapply IHr; eauto; fail).
  - destruct H. eapply IHr; [|eauto]. lia.
  - destruct H. assert (E : (cre <=? now) = true) by lia. rewrite E, andb_true_r.
    destruct (memN t tys); [f_equal|]; (eapply IHr; [|eauto]; lia).
Qed.

Lemma mono_suffix : forall pre t0 tys now post,
  mono_from t0 (pre ++ Subscribe tys now :: post) -> mono_from now post.
Proof.
  induction pre as [|o pre]; intros t0 tys now post H; simpl in *.
  - tauto.
  - destruct o; simpl in *; try (eapply IHpre; eauto; fail); destruct H; eapply IHpre; eauto.
Qed.

Theorem exact_nodrop : forall cap pre tys now post, NoDup tys -> has_stop pre = false ->
  let s := count_sub pre in
  let ops := pre ++ Subscribe tys now :: post in
  count_post (window s post) <= cap ->
  recvd s ops (snd (run cap ops)) ++ pending s (fst (run cap ops)) =
  posts_for tys now (window s post).
Proof.
  intros cap pre tys now post ND Hs s ops Hc.
  destruct (exact_general cap pre tys now post ND) as (_ & H). fold s ops in H. rewrite H, Hs.
  simpl negb. apply expected_nodrop. lia.
Qed.

Theorem exact_monotone : forall cap pre tys now post, NoDup tys -> has_stop pre = false ->
  let s := count_sub pre in
  let ops := pre ++ Subscribe tys now :: post in
  mono_from 0 ops ->
  count_post (window s post) <= cap ->
  recvd s ops (snd (run cap ops)) ++ pending s (fst (run cap ops)) =
  posts_of tys (window s post).
Proof.
  intros cap pre tys now post ND Hs s ops Hm Hc.
  pose proof (exact_nodrop cap pre tys now post ND Hs Hc) as H. cbv zeta in H.
  unfold ops, s. rewrite H.
  apply posts_for_mono with (t0 := now); [lia|].
  apply mono_window. eapply mono_suffix. exact Hm.
Qed.

(* a subscription created after Stop gets nothing *)
Theorem subscribe_after_stop : forall cap pre tys now post, NoDup tys -> has_stop pre = true ->
  let s := count_sub pre in
  let ops := pre ++ Subscribe tys now :: post in
  recvd s ops (snd (run cap ops)) ++ pending s (fst (run cap ops)) = [].
Proof.
  intros cap pre tys now post ND Hs s ops.
  destruct (exact_general cap pre tys now post ND) as (_ & H). fold s ops in H. rewrite H, Hs.
  apply expected_inactive.
Qed.

(* ---------------------------------------------------------- post and stop *)

Lemma nth_result : forall cap pre o post d,
  nth (length pre) (snd (run cap (pre ++ o :: post))) d =
  snd (step cap (fst (run_from cap init pre)) o).
Proof.
  intros. unfold run. rewrite run_from_app. cbn [fst snd].
  rewrite app_nth2 by (rewrite run_from_length; lia).
  rewrite run_from_length, Nat.sub_diag. rewrite run_from_cons. reflexivity.
Qed.

Theorem post_after_stop : forall cap pre t v now post, has_stop pre = true ->
  nth (length pre) (snd (run cap (pre ++ Post t v now :: post))) RPanic = RPostClosed.
Proof.
  intros. rewrite nth_result. simpl. unfold Model.post.
  rewrite run_stopped. simpl. rewrite H. reflexivity.
Qed.

Theorem post_before_stop : forall cap pre t v now post, has_stop pre = false ->
  nth (length pre) (snd (run cap (pre ++ Post t v now :: post))) RPanic = RPostOk.
Proof.
  intros. rewrite nth_result. simpl. unfold Model.post.
  set (st0 := fst (run_from cap init pre)).
  assert (Hs : stopped st0 = false) by (unfold st0; rewrite run_stopped; simpl; auto).
  rewrite Hs. destruct (post_ok cap t v now st0 (G_run cap pre init G_init) Hs) as (ss' & R & _).
  rewrite R. reflexivity.
Qed.

(* after Stop the state of every buffer is frozen for posts *)
Theorem post_after_stop_no_effect : forall cap pre t v now, has_stop pre = true ->
  fst (run cap (pre ++ [Post t v now])) = fst (run cap pre).
Proof.
  intros. unfold run. rewrite run_from_app. cbn [fst snd]. rewrite run_from_cons. cbn [fst snd run_from step].
  unfold Model.post. rewrite run_stopped. simpl. rewrite H. reflexivity.
Qed.

Theorem no_panic : forall cap ops, ~ In RPanic (snd (run cap ops)).
Proof.
  intros cap ops. unfold run. generalize G_init. generalize init.
  induction ops as [|o r]; intros st HG; [simpl; auto|].
  rewrite run_from_cons. cbn [fst snd]. intros [H|H].
  - now apply (step_no_panic cap st o HG).
  - apply (IHr _ (G_step cap st o HG)). exact H.
Qed.

(* ------------------------------------------------------------ unsubscribe *)

Lemma step_handle_stable : forall cap st o s x, G st -> handle st s = Some x ->
  exists y, handle (fst (step cap st o)) s = Some y.
Proof.
  intros cap st o s x HG Hh. apply handle_some in Hh. destruct Hh as (Hx & Hr).
  assert (K : forall ss, (exists y, nth_error ss s = Some y /\ returned y = true) ->
            forall m b, exists y, handle (mkDisp ss m b) s = Some y).
  { intros ss (y & Hy & Hry) m b. exists y. now apply handle_intro. }
  destruct o as [tys now|t v now|s'| |s'|s']; simpl.
  - unfold subscribe. destruct (stopped st).
    + simpl. apply K. exists x. split; auto. now apply nth_app_old.
    + destruct (register _ _ _) as [m' [|]]; simpl; apply K; exists x; split; auto;
        now apply nth_app_old.
  - unfold post. destruct (stopped st) eqn:Hs; simpl.
    + exists x. now apply handle_intro.
    + destruct (post_ok cap t v now st HG Hs) as (ss' & R & L & A & B). rewrite R. simpl.
      apply K. destruct (in_dec Nat.eq_dec s (lookup t (subm st))).
      * rewrite A, Hx by auto. simpl. eexists. split; eauto.
        destruct (deliver_pure_fields cap (mkEvent now t v) x) as (_ & _ & _ & _ & F). congruence.
      * rewrite B by auto. eauto.
  - unfold unsubscribe. destruct (handle st s'); simpl.
    + apply K. rewrite nth_upd, Hx. destruct (Nat.eqb s' s); simpl; eauto.
      eexists. split; eauto. destruct (closewait_fields x) as (_ & _ & F). congruence.
    + exists x. now apply handle_intro.
  - unfold stop. apply K. destruct (stop_core (subm st) (subs st) s x Hx) as (y & Hy & _ & _ & C).
    exists y. split; auto. congruence.
  - unfold recv. destruct (handle st s') as [x'|]; simpl.
    + destruct (qpop (q x')) as [[e q']|]; simpl.
      * apply K. rewrite nth_upd, Hx. destruct (Nat.eqb s' s); simpl; eauto.
      * exists x. now apply handle_intro.
    + exists x. now apply handle_intro.
  - unfold isclosed. destruct (handle st s'); simpl; exists x; now apply handle_intro.
Qed.

Lemma step_rsub_handle : forall cap st o s, snd (step cap st o) = RSub s ->
  exists y, handle (fst (step cap st o)) s = Some y.
Proof.
  intros cap st o s. destruct o as [tys now|t v now|s'| |s'|s']; simpl.
  - unfold subscribe. destruct (stopped st).
    + simpl. intros H. inversion H. subst. eexists. apply handle_intro; [apply nth_app_new|reflexivity].
    + destruct (register _ _ _) as [m' [|]]; simpl; intros H; inversion H. subst.
      eexists. apply handle_intro; [apply nth_app_new|reflexivity].
  - unfold post. destruct (stopped st); simpl; [discriminate|].
    destruct (deliver_all _ _ _ _); simpl; discriminate.
  - unfold unsubscribe. destruct (handle st s'); simpl; discriminate.
  - discriminate.
  - unfold recv. destruct (handle st s') as [x'|]; simpl; [|discriminate].
    destruct (qpop (q x')) as [[e q']|]; simpl; [discriminate|]. destruct (postc x'); discriminate.
  - unfold isclosed. destruct (handle st s'); simpl; discriminate.
Qed.

Lemma run_handle : forall cap s ops st, G st ->
  (exists x, handle st s = Some x) \/ In (RSub s) (snd (run_from cap st ops)) ->
  exists y, handle (fst (run_from cap st ops)) s = Some y.
Proof.
  induction ops as [|o r]; intros st HG H.
  - simpl in *. destruct H as [H|[]]. exact H.
  - rewrite run_from_cons in *. simpl fst. simpl snd in H.
    apply IHr; [now apply G_step|]. destruct H as [(x & Hx)|[H|H]].
    + left. eapply step_handle_stable; eauto.
    + left. now apply step_rsub_handle.
    + right. exact H.
Qed.

Theorem unsubscribe_returns : forall cap pre s post, valid_handle cap pre s ->
  nth (length pre) (snd (run cap (pre ++ Unsubscribe s :: post))) RPanic = RUnit.
Proof.
  intros cap pre s post Hv. rewrite nth_result. simpl. unfold unsubscribe.
  destruct (run_handle cap s pre init G_init (or_intror Hv)) as (y & Hy). rewrite Hy. reflexivity.
Qed.

(* after Unsubscribe returned the subscription is closed and registered nowhere *)
Theorem unsubscribe_closes : forall cap pre s, valid_handle cap pre s ->
  let st := fst (run cap (pre ++ [Unsubscribe s])) in
  (exists x, nth_error (subs st) s = Some x /\ closed x = true) /\
  forall t, ~ In s (lookup t (subm st)).
Proof.
  intros cap pre s Hv st. unfold st, run. rewrite run_from_app. simpl fst.
  set (st0 := fst (run_from cap init pre)).
  assert (HG0 : G st0) by (apply G_run, G_init).
  destruct (run_handle cap s pre init G_init (or_intror Hv)) as (y & Hy). fold st0 in Hy.
  unfold unsubscribe. rewrite Hy. simpl. apply handle_some in Hy. destruct Hy as (Hy & _). split.
  - exists (closewait y). split; [now apply nth_upd_same|]. unfold closewait.
    destruct (closed y) eqn:E; auto.
  - intros t Ht. destruct HG0 as (G1 & G2 & _). apply lookup_del in Ht; auto. tauto.
Qed.

(* ----------------------------------------------------------------- examples *)

(* the hypotheses are satisfiable by a non-trivial history: two subscribers,
   interleaved posts of two types, a receive, an unsubscribe, a stop; capacity 2
   so that one event is dropped *)
Definition ex_pre : list op := [Subscribe [7] 1; Post 7 100 2].
Definition ex_post : list op :=
  [Post 7 101 3; Post 8 102 3; Post 9 103 4; Post 7 104 5; Recv 1; Post 8 105 6;
   Unsubscribe 0; Post 7 106 7; Unsubscribe 1; Post 7 107 8; Stop; Post 7 108 9].

Example ex_general :
  expected 2 [7; 8] 3 1 true 0 ex_post = [(7, 101); (8, 102); (8, 105)].
Proof. vm_compute. reflexivity. Qed.

Example ex_run :
  let ops := ex_pre ++ Subscribe [7; 8] 3 :: ex_post in
  recvd 1 ops (snd (run 2 ops)) ++ pending 1 (fst (run 2 ops)) = [(7, 101); (8, 102); (8, 105)].
Proof. vm_compute. reflexivity. Qed.

Example ex_nodrop_hyps :
  NoDup [7; 8] /\ has_stop ex_pre = false /\ mono_from 0 (ex_pre ++ Subscribe [7; 8] 3 :: ex_post) /\
  count_post (window 1 ex_post) <= 65536 /\
  posts_of [7; 8] (window 1 ex_post) = [(7, 101); (8, 102); (7, 104); (8, 105); (7, 106)].
Proof.
  split; [repeat constructor; simpl; intuition discriminate|].
  split; [reflexivity|]. split; [simpl; lia|]. split; [vm_compute; discriminate|reflexivity].
Qed.

Example ex_valid_handle : valid_handle 2 (ex_pre ++ [Subscribe [7; 8] 3]) 1.
Proof. unfold valid_handle. vm_compute. auto. Qed.
