(* C39 — executable sequential model of /repo/event/event.go (Dispatcher /
   Subscription).  NO PROOFS HERE.

   Conventions.
   * A Go type (reflect.Type key of [subm]) is a tag [N]; an event payload is an
     [N]; wall-clock reads ([time.Now()] in newSubscription and in Post) are
     explicit inputs [now : N] of the operations.
   * A *Subscription pointer is its index in the arena [subs] (= the number of
     Subscribe calls made before the one that allocated it: newSubscription is
     called first thing in Subscribe, also when the call then fails or the
     dispatcher is stopped).
   * [subm : map[reflect.Type][]*Subscription] is an association list; only
     [lookup] is ever observed, so the order of keys is irrelevant.  Stop and del
     range over the Go map: the per-key actions are independent (del) or
     idempotent and commuting (closewait), so the iteration order does not
     influence the result and the model iterates in list order.
   * The buffered channel (capacity [cap], 65536 in the code: maxEventChSize) is
     a FIFO queue kept as front list / reversed back list with its length, so
     that a push and an amortised pop cost O(1) under vm_compute.  [qlist] is the
     abstract content, oldest first.
   * Panics: Go panics where a nil *Subscription is dereferenced (the handle
     returned with ErrDuplicateSubscribe is nil) — result [RNil], state
     unchanged (the dereference precedes every lock) — and where a send on a
     closed channel would be selected in deliver — result [RPanic]; Proofs.v
     shows the latter is unreachable. *)
From Coq Require Import List NArith Bool Arith.
From Verif Require Import Outcome.
Import ListNotations.
Open Scope N_scope.

(* ---- events and the channel buffer ---- *)

Record event := mkEvent { etime : N; ety : N; eval : N }.

Record queue := mkQ { qf : list event; qb : list event; qn : N }.
Definition qempty : queue := mkQ [] [] 0.
Definition qpush (e : event) (q : queue) : queue := mkQ (qf q) (e :: qb q) (qn q + 1).
Definition qpop (q : queue) : option (event * queue) :=
  match qf q with
  | x :: f => Some (x, mkQ f (qb q) (qn q - 1))
  | [] => match rev_append (qb q) [] with
          | [] => None
          | x :: f => Some (x, mkQ f [] (qn q - 1))
          end
  end.
Definition qlist (q : queue) : list event := qf q ++ rev (qb q).

(* ---- subscription ---- *)

(* postC: the sending end.  ChOpen: usable; ChClosed: closed but still referenced
   (Subscribe on a stopped dispatcher does close(sub.postC) without clearing it);
   ChNil: closed and set to nil by closewait. *)
Inductive chan := ChOpen | ChClosed | ChNil.

Record sub := mkSub {
  created : N;        (* time.Now() at newSubscription *)
  closed : bool;      (* s.closed *)
  closing : bool;     (* channel s.closing has been closed *)
  postc : chan;       (* s.postC / state of the underlying channel *)
  q : queue;          (* buffered events *)
  returned : bool     (* false: Subscribe returned (nil, ErrDuplicateSubscribe): the caller holds a nil handle *)
}.

Definition set_q (x : sub) (q' : queue) : sub :=
  mkSub (created x) (closed x) (closing x) (postc x) q' (returned x).

(* func (s *Subscription) closewait() *)
Definition closewait (x : sub) : sub :=
  if closed x then x
  else mkSub (created x) true true ChNil (q x) (returned x).

(* func (s *Subscription) deliver(event).  The select has three arms: send on
   postC (ready iff the channel is open with room; choosing it on a closed
   channel panics; never ready on a nil channel), receive on closing (ready iff
   closed), default.  When both the send and closing are ready Go chooses at
   random; that needs closing closed while postC is still usable, which no
   sequential history reaches (closewait changes both under closeMu) — the model
   gives closing priority and Proofs.v shows registered subscriptions are never
   closing. *)
Definition deliver_one (cap : N) (ev : event) (x : sub) : outcome unit sub :=
  if etime ev <? created x then Ok x                      (* s.created.After(event.Time): stale *)
  else if closing x then Ok x                             (* case <-s.closing *)
  else match postc x with
       | ChOpen => if qn (q x) <? cap then Ok (set_q x (qpush ev (q x)))   (* case s.postC <- event *)
                   else Ok x                                                 (* default: buffer full, dropped *)
       | ChClosed => Panic ExplicitPanic                    (* send on closed channel *)
       | ChNil => Ok x                                      (* default *)
       end.

(* ---- arena and registry ---- *)

Fixpoint upd (i : nat) (f : sub -> sub) (l : list sub) : list sub :=
  match l, i with
  | [], _ => []
  | x :: r, O => f x :: r
  | x :: r, S i' => x :: upd i' f r
  end.

Definition registry := list (N * list nat).

Fixpoint lookup (t : N) (m : registry) : list nat :=
  match m with
  | [] => []
  | (k, l) :: r => if k =? t then l else lookup t r
  end.

Fixpoint setm (t : N) (l : list nat) (m : registry) : registry :=
  match m with
  | [] => [(t, l)]
  | (k, l0) :: r => if k =? t then (k, l) :: r else (k, l0) :: setm t l r
  end.

(* func find(slice, item) int — position of the first occurrence *)
Fixpoint find (l : list nat) (x : nat) : option nat :=
  match l with
  | [] => None
  | y :: r => if Nat.eqb y x then Some O else option_map S (find r x)
  end.

(* func posdelete(slice, pos) *)
Definition posdelete (l : list nat) (pos : nat) : list nat :=
  firstn pos l ++ skipn (S pos) l.

(* func (d *Dispatcher) del(s) *)
Fixpoint del (s : nat) (m : registry) : registry :=
  match m with
  | [] => []
  | (k, l) :: r =>
    match find l s with
    | Some pos => if Nat.eqb (length l) 1 then del s r else (k, posdelete l pos) :: del s r
    | None => (k, l) :: del s r
    end
  end.

Record disp := mkDisp { subs : list sub; subm : registry; stopped : bool }.

Definition init : disp := mkDisp [] [] false.     (* NewDispatcher() *)

(* ---- operations and their observable results ---- *)

Inductive op :=
| Subscribe (tys : list N) (now : N)
| Post (t v : N) (now : N)
| Unsubscribe (s : nat)
| Stop
| Recv (s : nat)            (* non-blocking receive on s.Chan() *)
| IsClosed (s : nat).       (* s.Closed() *)

Inductive res :=
| RSub (id : nat)           (* Subscribe returned (sub, nil) *)
| RSubDup                   (* (nil, ErrDuplicateSubscribe) *)
| RPostOk                   (* nil *)
| RPostClosed               (* ErrMuxClosed *)
| RUnit                     (* Unsubscribe / Stop returned *)
| RGot (t v : N)            (* received an event *)
| REmpty                    (* channel open and empty *)
| RClosed                   (* channel closed and drained *)
| RBool (b : bool)
| RNil                      (* nil-pointer dereference on a nil handle *)
| RPanic.                   (* any other panic *)

(* the loop over types in Subscribe; false = duplicate found (the types before
   it stay registered: the code returns without undoing them) *)
Fixpoint register (id : nat) (tys : list N) (m : registry) : registry * bool :=
  match tys with
  | [] => (m, true)
  | t :: r =>
    let old := lookup t m in
    match find old id with
    | Some _ => (m, false)
    | None => register id r (setm t (old ++ [id]) m)
    end
  end.

Definition subscribe (tys : list N) (now : N) (st : disp) : disp * res :=
  let id := length (subs st) in
  if stopped st then
    (mkDisp (subs st ++ [mkSub now true false ChClosed qempty true]) (subm st) true, RSub id)
  else
    match register id tys (subm st) with
    | (m', true) => (mkDisp (subs st ++ [mkSub now false false ChOpen qempty true]) m' false, RSub id)
    | (m', false) => (mkDisp (subs st ++ [mkSub now false false ChOpen qempty false]) m' false, RSubDup)
    end.

Fixpoint deliver_all (cap : N) (ev : event) (ids : list nat) (ss : list sub) : outcome unit (list sub) :=
  match ids with
  | [] => Ok ss
  | id :: r =>
    match nth_error ss id with
    | None => Panic NilDeref
    | Some x =>
      match deliver_one cap ev x with
      | Ok x' => deliver_all cap ev r (upd id (fun _ => x') ss)
      | Err e => Err e
      | Panic p => Panic p
      end
    end
  end.

Definition post (cap : N) (t v now : N) (st : disp) : disp * res :=
  if stopped st then (st, RPostClosed)
  else match deliver_all cap (mkEvent now t v) (lookup t (subm st)) (subs st) with
       | Ok ss => (mkDisp ss (subm st) (stopped st), RPostOk)
       | _ => (st, RPanic)
       end.

Definition closewait_ids (ids : list nat) (ss : list sub) : list sub :=
  fold_left (fun a id => upd id closewait a) ids ss.

Definition stop (st : disp) : disp :=
  mkDisp (fold_left (fun a e => closewait_ids (snd e) a) (subm st) (subs st)) [] true.

(* a usable (non-nil) handle *)
Definition handle (st : disp) (s : nat) : option sub :=
  match nth_error (subs st) s with
  | Some x => if returned x then Some x else None
  | None => None
  end.

Definition unsubscribe (s : nat) (st : disp) : disp * res :=
  match handle st s with
  | None => (st, RNil)
  | Some _ => (mkDisp (upd s closewait (subs st)) (del s (subm st)) (stopped st), RUnit)
  end.

Definition recv (s : nat) (st : disp) : disp * res :=
  match handle st s with
  | None => (st, RNil)
  | Some x =>
    match qpop (q x) with
    | Some (e, q') => (mkDisp (upd s (fun y => set_q y q') (subs st)) (subm st) (stopped st), RGot (ety e) (eval e))
    | None => (st, match postc x with ChOpen => REmpty | _ => RClosed end)
    end
  end.

Definition isclosed (s : nat) (st : disp) : disp * res :=
  match handle st s with
  | None => (st, RNil)
  | Some x => (st, RBool (closed x))
  end.

Definition step (cap : N) (st : disp) (o : op) : disp * res :=
  match o with
  | Subscribe tys now => subscribe tys now st
  | Post t v now => post cap t v now st
  | Unsubscribe s => unsubscribe s st
  | Stop => (stop st, RUnit)
  | Recv s => recv s st
  | IsClosed s => isclosed s st
  end.

Fixpoint run_from (cap : N) (st : disp) (ops : list op) : disp * list res :=
  match ops with
  | [] => (st, [])
  | o :: r =>
    let (st1, x) := step cap st o in
    let (st2, xs) := run_from cap st1 r in
    (st2, x :: xs)
  end.

Definition run (cap : N) (ops : list op) : disp * list res := run_from cap init ops.
