(* C39 — the per-subscription simulation: the dispatcher model, projected on one
   subscription, behaves as the reference monitor [expected] of C39/Spec.v. *)
From Coq Require Import List NArith Bool Arith Lia ZifyBool ZifyN ZifyNat.
From Verif Require Import Outcome.
From C39 Require Import Model Spec Proofs.
Import ListNotations.
Open Scope N_scope.

Definition P (st : disp) (s : nat) (tys : list N) (cre : N) (active : bool) (npend : N) : Prop :=
  exists x, nth_error (subs st) s = Some x /\ created x = cre /\ returned x = true /\
    qn (q x) = npend /\ N.of_nat (length (qlist (q x))) = npend /\
    (active = true -> stopped st = false /\ forall t, In s (lookup t (subm st)) <-> In t tys) /\
    (active = false -> forall t, ~ In s (lookup t (subm st))).

Definition mon_step (cap : N) (tys : list N) (cre : N) (s : nat) (a : bool) (n : N) (o : op)
  : bool * N * list obs :=
  match o with
  | Post t v now =>
    if a && memN t tys && (cre <=? now) then
      if n <? cap then (a, n + 1, [(t, v)]) else (a, n, [])
    else (a, n, [])
  | Recv s' => if Nat.eqb s' s && (0 <? n) then (a, n - 1, []) else (a, n, [])
  | Unsubscribe s' => if Nat.eqb s' s then (false, n, []) else (a, n, [])
  | Stop => (false, n, [])
  | _ => (a, n, [])
  end.

Lemma expected_step : forall cap tys cre s a n o r,
  expected cap tys cre s a n (o :: r) =
  snd (mon_step cap tys cre s a n o) ++
  expected cap tys cre s (fst (fst (mon_step cap tys cre s a n o)))
           (snd (fst (mon_step cap tys cre s a n o))) r.
Proof.
  intros. destruct o as [tys' now|t v now|s'| |s'|s']; simpl; auto.
  - destruct (a && memN t tys && (cre <=? now)); auto. destruct (n <? cap); auto.
  - destruct (Nat.eqb s' s); auto.
  - destruct (Nat.eqb s' s && (0 <? n)); auto.
Qed.

Definition got (s : nat) (o : op) (r : res) : list obs :=
  match o, r with
  | Recv s', RGot t v => if Nat.eqb s' s then [(t, v)] else []
  | _, _ => []
  end.

Lemma recvd_cons : forall s o ops r rs,
  recvd s (o :: ops) (r :: rs) = got s o r ++ recvd s ops rs.
Proof.
  intros. destruct o; simpl; auto. destruct r; simpl; auto. destruct (Nat.eqb s0 s); auto.
Qed.

Lemma memN_In : forall t tys, memN t tys = true <-> In t tys.
Proof.
  intros. unfold memN. rewrite existsb_exists. split.
  - intros (x & Hx & E). apply N.eqb_eq in E. now subst.
  - intros H. exists t. split; auto. apply N.eqb_refl.
Qed.

Lemma pending_of : forall st s x, nth_error (subs st) s = Some x ->
  pending s st = map (fun e => (ety e, eval e)) (qlist (q x)).
Proof. intros. unfold pending. now rewrite H. Qed.

Lemma closewait_ids_core : forall ids ss s x, nth_error ss s = Some x ->
  exists y, nth_error (closewait_ids ids ss) s = Some y /\
    created y = created x /\ q y = q x /\ returned y = returned x.
Proof.
  unfold closewait_ids. induction ids as [|i ids]; intros ss s x H; simpl.
  - exists x. auto.
  - destruct (IHids (upd i closewait ss) s (if Nat.eqb i s then closewait x else x))
      as (y & Hy & A & B & C).
    + rewrite nth_upd, H. destruct (Nat.eqb i s); reflexivity.
    + exists y. split; auto. destruct (Nat.eqb i s); auto.
      destruct (closewait_fields x) as (F1 & F2 & F3). rewrite A, B, C. auto.
Qed.

Lemma stop_core : forall (m : registry) ss s x, nth_error ss s = Some x ->
  exists y, nth_error (fold_left (fun a e => closewait_ids (snd e) a) m ss) s = Some y /\
    created y = created x /\ q y = q x /\ returned y = returned x.
Proof.
  induction m as [|e m]; intros ss s x H; simpl.
  - exists x. auto.
  - destruct (closewait_ids_core (snd e) ss s x H) as (y & Hy & A & B & C).
    destruct (IHm _ s y Hy) as (z & Hz & A' & B' & C').
    exists z. split; auto. rewrite A', B', C'. auto.
Qed.

Lemma P_intro : forall st s tys cre a n x,
  nth_error (subs st) s = Some x -> created x = cre -> returned x = true ->
  qn (q x) = n -> N.of_nat (length (qlist (q x))) = n ->
  (a = true -> stopped st = false /\ forall t, In s (lookup t (subm st)) <-> In t tys) ->
  (a = false -> forall t, ~ In s (lookup t (subm st))) ->
  P st s tys cre a n.
Proof. intros. exists x. repeat (split; [assumption|]). assumption. Qed.

(* the pending list only depends on the queue of s *)
Lemma pending_same : forall st st1 s x y, nth_error (subs st) s = Some x ->
  nth_error (subs st1) s = Some y -> q y = q x -> pending s st1 = pending s st.
Proof. intros. rewrite (pending_of st1 s y), (pending_of st s x); auto. now rewrite H1. Qed.

(* one step of the dispatcher = one step of the monitor, for subscription s *)
Lemma step_sim : forall cap st s tys cre a n o,
  G st -> P st s tys cre a n ->
  P (fst (step cap st o)) s tys cre
    (fst (fst (mon_step cap tys cre s a n o))) (snd (fst (mon_step cap tys cre s a n o))) /\
  got s o (snd (step cap st o)) ++ pending s (fst (step cap st o)) =
  pending s st ++ snd (mon_step cap tys cre s a n o).
Proof.
  intros cap st s tys cre a n o HG HP. pose proof HG as (G1 & G2 & G3 & G4).
  destruct HP as (x & Hx & Hc & Hr & Hqn & Hlen & Hact & Hin).
  assert (Hlt : (s < length (subs st))%nat) by (apply nth_error_Some; congruence).
  destruct o as [tys' now|t v now|s'| |s'|s'].
  - (* Subscribe *)
    simpl mon_step. simpl fst. simpl snd. simpl got. rewrite app_nil_r. simpl step.
    unfold subscribe. destruct (stopped st) eqn:Hs.
    + simpl. split.
      * apply (P_intro _ _ _ _ _ _ x);
          [simpl; now apply nth_app_old|exact Hc|exact Hr|exact Hqn|exact Hlen| |exact Hin].
        intros Ha. destruct (Hact Ha). congruence.
      * apply (pending_same st _ s x x); auto. simpl. now apply nth_app_old.
    + destruct (register (length (subs st)) tys' (subm st)) as [m' ok] eqn:R.
      destruct (register_spec _ _ _ _ _ R G1 G2) as (A & B & C & D).
      assert (Hne : s <> length (subs st)) by lia.
      assert (K : forall y, P (mkDisp (subs st ++ [y]) m' false) s tys cre a n /\
                 pending s (mkDisp (subs st ++ [y]) m' false) = pending s st).
      { intros y. split.
        - apply (P_intro _ _ _ _ _ _ x);
            [simpl; now apply nth_app_old|exact Hc|exact Hr|exact Hqn|exact Hlen| | ].
          + intros Ha. split; [reflexivity|]. intros u. simpl. rewrite C by auto. now apply Hact.
          + intros Ha u. simpl. rewrite C by auto. now apply Hin.
        - apply (pending_same st _ s x x); auto. simpl. now apply nth_app_old. }
      destruct ok; simpl; apply K.
  - (* Post *)
    simpl step. unfold post. destruct (stopped st) eqn:Hs.
    + (* stopped: nothing happens; the monitor is inactive *)
      assert (Ha : a = false).
      { destruct a; auto. destruct (Hact eq_refl). congruence. }
      subst a. simpl. rewrite app_nil_r. split; auto.
      apply (P_intro _ _ _ _ _ _ x); auto; discriminate.
    + destruct (post_ok cap t v now st HG Hs) as (ss' & R & L & A & B). rewrite R. simpl fst. simpl snd.
      simpl got. simpl app.
      destruct (in_dec Nat.eq_dec s (lookup t (subm st))) as [Hi|Hi].
      * (* s is registered for t *)
        assert (Ha : a = true).
        { destruct a; auto. exfalso. eapply Hin; eauto. }
        subst a. destruct (Hact eq_refl) as (_ & Hty).
        assert (Hm : memN t tys = true) by (apply memN_In, Hty, Hi).
        destruct (G3 _ _ Hi) as (x0 & Hx0 & Hcl & Hpc). rewrite Hx in Hx0. inversion Hx0; subst x0.
        assert (Hs' : nth_error ss' s = Some (deliver_pure cap (mkEvent now t v) x)).
        { rewrite A by auto. now rewrite Hx. }
        unfold mon_step. rewrite Hm. simpl andb.
        unfold deliver_pure, deliver_one in Hs'. simpl etime in Hs'. rewrite Hcl, Hpc, Hc in Hs'.
        destruct (N.leb_spec cre now) as [Hle|Hgt].
        -- assert (E : (now <? cre) = false) by lia. rewrite E in Hs'.
           rewrite Hqn in Hs'. destruct (n <? cap) eqn:En.
           ++ simpl. split.
              ** apply (P_intro _ _ _ _ _ _ (set_q x (qpush (mkEvent now t v) (q x))));
                   [exact Hs'|exact Hc|exact Hr| | |exact Hact|discriminate].
                 --- simpl. lia.
                 --- simpl. rewrite qlist_push, app_length. simpl. lia.
              ** rewrite (pending_of (mkDisp ss' (subm st) false) s _ Hs').
                 rewrite (pending_of st s x Hx). simpl. rewrite qlist_push, map_app. reflexivity.
           ++ simpl. rewrite app_nil_r. split.
              ** apply (P_intro _ _ _ _ _ _ x); auto; discriminate.
              ** apply (pending_same st _ s x x); auto.
        -- assert (E : (now <? cre) = true) by lia. rewrite E in Hs'. simpl. rewrite app_nil_r. split.
           ++ apply (P_intro _ _ _ _ _ _ x); auto; discriminate.
           ++ apply (pending_same st _ s x x); auto.
      * (* s is not registered for t *)
        assert (Hs' : nth_error ss' s = Some x) by (rewrite B by auto; exact Hx).
        assert (Hm : a && memN t tys = false).
        { destruct a; auto. simpl. destruct (Hact eq_refl) as (_ & Hty).
          destruct (memN t tys) eqn:Em; auto. apply memN_In, Hty in Em. tauto. }
        unfold mon_step. rewrite Hm. simpl. rewrite app_nil_r. split.
        -- apply (P_intro _ _ _ _ _ _ x); auto.
        -- apply (pending_same st _ s x x); auto.
  - (* Unsubscribe *)
    simpl step. unfold unsubscribe. simpl got. simpl app. unfold mon_step.
    destruct (handle st s') as [x'|] eqn:Hh.
    + simpl fst. simpl snd. destruct (Nat.eqb_spec s' s) as [->|Hne].
      * simpl. rewrite app_nil_r. destruct (closewait_fields x) as (F1 & F2 & F3). split.
        -- apply (P_intro _ _ _ _ _ _ (closewait x));
             [simpl; now apply nth_upd_same|congruence|congruence|congruence|congruence
             |discriminate| ].
           intros _ u Hu. simpl in Hu. apply lookup_del in Hu; auto. tauto.
        -- apply (pending_same st _ s x (closewait x)); auto. simpl. now apply nth_upd_same.
      * simpl. rewrite app_nil_r. split.
        -- apply (P_intro _ _ _ _ _ _ x);
             [simpl; rewrite nth_upd_other; auto|exact Hc|exact Hr|exact Hqn|exact Hlen| | ].
           ++ intros Ha. destruct (Hact Ha) as (Hst & Hty). split; [exact Hst|]. intros u. simpl.
              rewrite lookup_del by auto. rewrite <- Hty. intuition.
           ++ intros Ha u Hu. simpl in Hu. apply lookup_del in Hu; auto. destruct Hu as [Hu _].
              exact (Hin Ha u Hu).
        -- apply (pending_same st _ s x x); auto. simpl. rewrite nth_upd_other; auto.
    + simpl fst. simpl snd. destruct (Nat.eqb_spec s' s) as [->|Hne].
      * rewrite (handle_intro st s x Hx Hr) in Hh. discriminate.
      * simpl. rewrite app_nil_r. split; auto. apply (P_intro _ _ _ _ _ _ x); auto.
  - (* Stop *)
    simpl step. simpl got. simpl app. unfold mon_step. simpl fst. simpl snd. rewrite app_nil_r.
    destruct (stop_core (subm st) (subs st) s x Hx) as (y & Hy & A & B & C). split.
    + apply (P_intro _ _ _ _ _ _ y);
        [exact Hy|congruence|congruence|congruence|congruence|discriminate| ].
      intros _ u [].
    + apply (pending_same st _ s x y); auto.
  - (* Recv *)
    simpl step. unfold recv. unfold mon_step.
    destruct (handle st s') as [x'|] eqn:Hh.
    + apply handle_some in Hh. destruct Hh as (Hx' & Hr').
      destruct (qpop (q x')) as [[e q']|] eqn:Hp.
      * simpl fst. simpl snd. simpl got. destruct (Nat.eqb_spec s' s) as [->|Hne].
        -- rewrite Hx in Hx'. inversion Hx'; subst x'.
           destruct (qpop_some _ _ _ Hp) as (Hl & Hn).
           assert (Hpos : (0 <? n) = true).
           { rewrite Hl in Hlen. simpl in Hlen. lia. }
           rewrite Hpos. simpl.
           assert (Hnew : nth_error (upd s (fun y => set_q y q') (subs st)) s = Some (set_q x q'))
             by exact (nth_upd_same s (fun y => set_q y q') (subs st) x Hx).
           split.
           ++ apply (P_intro _ _ _ _ _ _ (set_q x q'));
                [exact Hnew|exact Hc|exact Hr| | |exact Hact|exact Hin].
              ** simpl. lia.
              ** simpl. rewrite Hl in Hlen. simpl in Hlen. lia.
           ++ rewrite (pending_of (mkDisp (upd s (fun y => set_q y q') (subs st)) (subm st) (stopped st))
                                  s (set_q x q')) by exact Hnew.
              rewrite (pending_of st s x Hx). simpl. rewrite Hl. simpl. now rewrite app_nil_r.
        -- simpl. rewrite app_nil_r. split.
           ++ apply (P_intro _ _ _ _ _ _ x); auto. simpl. rewrite nth_upd_other; auto.
           ++ apply (pending_same st _ s x x); auto. simpl. rewrite nth_upd_other; auto.
      * simpl fst. simpl snd.
        assert (Hg : got s (Recv s') (match postc x' with ChOpen => REmpty | _ => RClosed end) = []).
        { simpl. destruct (postc x'); reflexivity. }
        rewrite Hg. simpl app.
        assert (Hz : (Nat.eqb s' s && (0 <? n)) = false).
        { destruct (Nat.eqb_spec s' s) as [->|Hne]; auto.
          rewrite Hx in Hx'. inversion Hx'; subst x'. apply qpop_none in Hp.
          rewrite Hp in Hlen. simpl in Hlen. simpl. lia. }
        rewrite Hz. simpl. rewrite app_nil_r. split; auto.
        apply (P_intro _ _ _ _ _ _ x); auto.
    + simpl fst. simpl snd. simpl got. simpl app.
      assert (Hz : Nat.eqb s' s = false).
      { destruct (Nat.eqb_spec s' s) as [->|Hne]; auto.
        rewrite (handle_intro st s x Hx Hr) in Hh. discriminate. }
      rewrite Hz. simpl. rewrite app_nil_r. split; auto.
      apply (P_intro _ _ _ _ _ _ x); auto.
  - (* IsClosed *)
    simpl step. unfold isclosed. unfold mon_step.
    assert (Hst : fst (match handle st s' with
                       | Some x0 => (st, RBool (closed x0)) | None => (st, RNil) end) = st)
      by (destruct (handle st s'); reflexivity).
    assert (Hg : got s (IsClosed s') (snd (match handle st s' with
                       | Some x0 => (st, RBool (closed x0)) | None => (st, RNil) end)) = [])
      by reflexivity.
    rewrite Hst, Hg. simpl. rewrite app_nil_r. split; auto.
    apply (P_intro _ _ _ _ _ _ x); auto.
Qed.
