(* C39 — proofs about the model of event/event.go (C39/Model.v). *)
From Coq Require Import List NArith Bool Arith Lia ZifyBool ZifyN ZifyNat.
From Verif Require Import Outcome.
From C39 Require Import Model Spec.
Import ListNotations.
Open Scope N_scope.

(* ------------------------------------------------------------------ queue *)

Lemma qlist_push : forall e q0, qlist (qpush e q0) = qlist q0 ++ [e].
Proof. intros. unfold qlist, qpush. simpl. now rewrite app_assoc. Qed.

Lemma qpop_some : forall q0 e q1, qpop q0 = Some (e, q1) ->
  qlist q0 = e :: qlist q1 /\ qn q1 = qn q0 - 1.
Proof.
  intros [f b n] e q1. unfold qpop, qlist. simpl. destruct f as [|x f].
  - rewrite rev_append_rev, app_nil_r. destruct (rev b) as [|y r]; [discriminate|].
    intros H. inversion H. subst. simpl. now rewrite app_nil_r.
  - intros H. inversion H. subst. simpl. auto.
Qed.

Lemma qpop_none : forall q0, qpop q0 = None -> qlist q0 = [].
Proof.
  intros [f b n]. unfold qpop, qlist. simpl. destruct f as [|x f]; [|discriminate].
  rewrite rev_append_rev, app_nil_r. destruct (rev b); [reflexivity|discriminate].
Qed.

(* ------------------------------------------------------------ arena (upd) *)

Lemma upd_length : forall i f l, length (upd i f l) = length l.
Proof. intros i f l. revert i. induction l; intros [|i]; simpl; auto. Qed.

Lemma nth_upd_same : forall i f l x, nth_error l i = Some x ->
  nth_error (upd i f l) i = Some (f x).
Proof.
  intros i f l. revert i. induction l; intros [|i] x; simpl; try discriminate.
  - intros H. now inversion H.
  - apply IHl.
Qed.

Lemma nth_upd_other : forall i j f l, i <> j -> nth_error (upd i f l) j = nth_error l j.
Proof.
  intros i j f l. revert i j. induction l; intros [|i] [|j]; simpl; auto; congruence.
Qed.

Lemma nth_upd : forall i j f l, nth_error (upd i f l) j =
  if Nat.eqb i j then option_map f (nth_error l j) else nth_error l j.
Proof.
  intros. destruct (Nat.eqb_spec i j).
  - subst. destruct (nth_error l j) eqn:E.
    + simpl. now apply nth_upd_same.
    + simpl. apply nth_error_None. rewrite upd_length. now apply nth_error_None.
  - now apply nth_upd_other.
Qed.

(* --------------------------------------------------------- find/posdelete *)

Lemma find_none : forall l x, find l x = None <-> ~ In x l.
Proof.
  induction l; intros x; simpl.
  - tauto.
  - destruct (Nat.eqb_spec a x).
    + split; [discriminate|]. intros H. exfalso. apply H. now left.
    + destruct (find l x) eqn:E; simpl.
      * split; [discriminate|]. intros H. exfalso.
        assert (~ In x l) by tauto. apply IHl in H0. congruence.
      * split; auto. intros _ [H|H]; [congruence|]. apply IHl in E. tauto.
Qed.

Lemma find_some_in : forall l x p, find l x = Some p -> In x l.
Proof.
  intros l x p H. destruct (in_dec Nat.eq_dec x l); auto.
  apply find_none in n. congruence.
Qed.

Lemma posdelete_spec : forall l x p, find l x = Some p -> NoDup l ->
  NoDup (posdelete l p) /\ forall y, In y (posdelete l p) <-> In y l /\ y <> x.
Proof.
  unfold posdelete. induction l; intros x p; simpl; [discriminate|].
  destruct (Nat.eqb_spec a x).
  - intros H ND. inversion H. subst. simpl. inversion ND; subst. split; auto.
    intros y. split.
    + intros Hy. split; auto. intros ->. tauto.
    + intros [[Hy|Hy] Hn]; congruence.
  - destruct (find l x) eqn:E; simpl; [|discriminate].
    intros H ND. inversion H; subst. inversion ND; subst. simpl.
    destruct (IHl x n0 E H3) as [ND' Hin]. split.
    + constructor; auto. intros Ha. apply Hin in Ha. tauto.
    + intros y. split.
      * intros [Hy|Hy]; [subst; split; auto|]. apply Hin in Hy. tauto.
      * intros [[Hy|Hy] Hn]; [now left|]. right. apply Hin. tauto.
Qed.

Lemma find_single : forall l x p, find l x = Some p -> length l = 1%nat -> l = [x].
Proof.
  intros [|a [|b l]] x p; simpl; try discriminate.
  destruct (Nat.eqb_spec a x); [subst; auto|discriminate].
Qed.

(* --------------------------------------------------------------- registry *)

Definition keys (m : registry) := map fst m.

Lemma lookup_nokey : forall t m, ~ In t (keys m) -> lookup t m = [].
Proof.
  induction m as [|[k l] m]; simpl; auto. intros H.
  destruct (N.eqb_spec k t); [tauto|]. apply IHm. tauto.
Qed.

Lemma lookup_setm : forall t l m u,
  lookup u (setm t l m) = if t =? u then l else lookup u m.
Proof.
  induction m as [|[k l0] m]; intros u; simpl.
  - destruct (N.eqb_spec t u); auto.
  - destruct (N.eqb_spec k t).
    + subst. simpl. destruct (N.eqb_spec t u); auto.
    + simpl. rewrite IHm. destruct (N.eqb_spec k u); auto.
      destruct (N.eqb_spec t u); auto. congruence.
Qed.

Lemma keys_setm : forall t l m, forall k, In k (keys (setm t l m)) <-> In k (keys m) \/ k = t.
Proof.
  induction m as [|[k0 l0] m]; intros k; simpl.
  - intuition.
  - destruct (N.eqb_spec k0 t); simpl.
    + subst. intuition.
    + rewrite IHm. intuition.
Qed.

Lemma nodup_keys_setm : forall t l m, NoDup (keys m) -> NoDup (keys (setm t l m)).
Proof.
  induction m as [|[k0 l0] m]; simpl; intros H.
  - constructor; auto.
  - inversion H; subst. destruct (N.eqb_spec k0 t); simpl.
    + constructor; auto.
    + constructor; auto. intros Hin. apply keys_setm in Hin. destruct Hin; auto.
Qed.

Definition lists_nodup (m : registry) := Forall (fun e => NoDup (snd e)) m.

Lemma lists_nodup_lookup : forall m t, lists_nodup m -> NoDup (lookup t m).
Proof.
  induction m as [|[k l] m]; intros t H; simpl.
  - constructor.
  - inversion H; subst. destruct (k =? t); auto.
Qed.

Lemma lists_nodup_setm : forall t l m, lists_nodup m -> NoDup l -> lists_nodup (setm t l m).
Proof.
  induction m as [|[k l0] m]; simpl; intros H Hl.
  - constructor; auto.
  - inversion H; subst. destruct (k =? t); constructor; auto. apply IHm; auto.
Qed.

Lemma keys_del : forall s m k, In k (keys (del s m)) -> In k (keys m).
Proof.
  induction m as [|[k0 l] m]; simpl; intros k; auto.
  destruct (find l s); [destruct (Nat.eqb (length l) 1)|]; simpl; intuition.
Qed.

Lemma nodup_keys_del : forall s m, NoDup (keys m) -> NoDup (keys (del s m)).
Proof.
  induction m as [|[k0 l] m]; simpl; intros H; auto. inversion H; subst.
  destruct (find l s); [destruct (Nat.eqb (length l) 1)|]; simpl; auto;
    constructor; auto; intros Hin; apply keys_del in Hin; auto.
Qed.

Lemma lists_nodup_del : forall s m, lists_nodup m -> lists_nodup (del s m).
Proof.
  induction m as [|[k0 l] m]; simpl; intros H; auto. inversion H; subst. simpl in *.
  destruct (find l s) eqn:E; [destruct (Nat.eqb (length l) 1)|]; auto.
  - constructor; [simpl; eapply proj1; eapply posdelete_spec; eauto | apply IHm; auto].
  - constructor; [auto | apply IHm; auto].
Qed.

Lemma lookup_del : forall s m t y, NoDup (keys m) -> lists_nodup m ->
  (In y (lookup t (del s m)) <-> In y (lookup t m) /\ y <> s).
Proof.
  induction m as [|[k l] m]; intros t y HK HL; simpl.
  - tauto.
  - inversion HK; subst. inversion HL; subst. simpl in *.
    destruct (find l s) eqn:E.
    + destruct (Nat.eqb_spec (length l) 1).
      * pose proof (find_single _ _ _ E e) as ->.
        destruct (N.eqb_spec k t).
        -- subst. rewrite lookup_nokey.
           ++ simpl. intuition.
           ++ intros Hin. apply keys_del in Hin. auto.
        -- apply IHm; auto.
      * simpl. destruct (N.eqb_spec k t).
        -- eapply posdelete_spec; eauto.
        -- apply IHm; auto.
    + simpl. destruct (N.eqb_spec k t).
      * apply find_none in E. split; [|tauto]. intros Hy. split; auto. congruence.
      * apply IHm; auto.
Qed.

Lemma nodup_snoc : forall (l : list nat) x, NoDup l -> ~ In x l -> NoDup (l ++ [x]).
Proof.
  induction l; simpl; intros x H Hn.
  - constructor; auto.
  - inversion H; subst. constructor.
    + rewrite in_app_iff. simpl. intuition.
    + apply IHl; auto.
Qed.

(* register: the type loop of Subscribe *)
Lemma register_spec : forall id tys m m' ok,
  register id tys m = (m', ok) -> NoDup (keys m) -> lists_nodup m ->
  NoDup (keys m') /\ lists_nodup m' /\
  (forall t i, i <> id -> (In i (lookup t m') <-> In i (lookup t m))) /\
  (forall t, In id (lookup t m') -> In id (lookup t m) \/ In t tys).
Proof.
  induction tys as [|t tys]; intros m m' ok; simpl.
  - intros H. inversion H; subst. intuition.
  - destruct (find (lookup t m) id) eqn:E.
    + intros H. inversion H; subst. intuition.
    + intros H HK HL. apply find_none in E.
      assert (NDl : NoDup (lookup t m ++ [id])).
      { apply nodup_snoc; auto. apply lists_nodup_lookup; auto. }
      destruct (IHtys _ _ _ H (nodup_keys_setm _ _ _ HK) (lists_nodup_setm _ _ _ HL NDl))
        as (A & B & C & D).
      split; auto. split; auto. split.
      * intros u i Hi. rewrite C by auto. rewrite lookup_setm.
        destruct (N.eqb_spec t u); [|tauto]. subst. rewrite in_app_iff. simpl. intuition congruence.
      * intros u Hu. apply D in Hu. rewrite lookup_setm in Hu.
        destruct (N.eqb_spec t u); [subst; auto|]. destruct Hu; auto.
Qed.

(* a fresh id and distinct types: the call succeeds and registers exactly tys *)
Lemma register_fresh : forall id tys m, NoDup tys ->
  (forall t, ~ In id (lookup t m)) ->
  exists m', register id tys m = (m', true) /\
    forall t, In id (lookup t m') <-> In t tys.
Proof.
  intros id tys. 
  assert (G : forall (done : list N) m, NoDup (done ++ tys) ->
     (forall t, In id (lookup t m) <-> In t done) ->
     exists m', register id tys m = (m', true) /\
       forall t, In id (lookup t m') <-> In t (done ++ tys)).
  { induction tys as [|t tys]; intros done m ND Hm; simpl.
    - exists m. split; auto. intros u. rewrite app_nil_r. apply Hm.
    - assert (Hnt : ~ In t done).
      { intros Hin. apply NoDup_remove_2 in ND. apply ND. rewrite in_app_iff. auto. }
      destruct (find (lookup t m) id) eqn:E.
      + apply find_some_in in E. apply Hm in E. tauto.
      + destruct (IHtys (done ++ [t]) (setm t (lookup t m ++ [id]) m)) as (m' & R & Hin).
        * rewrite <- app_assoc. exact ND.
        * intros u. rewrite lookup_setm. destruct (N.eqb_spec t u).
          -- subst. rewrite !in_app_iff. simpl. intuition.
          -- rewrite Hm. rewrite in_app_iff. simpl. intuition.
        * exists m'. split; auto. intros u. rewrite Hin. rewrite <- app_assoc. reflexivity. }
  intros m ND Hm. destruct (G [] m ND) as (m' & R & Hin).
  - intros t. simpl. split; [apply Hm|tauto].
  - exists m'. auto.
Qed.

(* ------------------------------------------------------------- invariants *)

Definition deliver_pure (cap : N) (ev : event) (x : sub) : sub :=
  match deliver_one cap ev x with Ok x' => x' | _ => x end.

Lemma deliver_one_ok : forall cap ev x, postc x <> ChClosed ->
  deliver_one cap ev x = Ok (deliver_pure cap ev x).
Proof.
  intros cap ev x H. unfold deliver_pure, deliver_one.
  destruct (etime ev <? created x); auto. destruct (closing x); auto.
  destruct (postc x); try congruence; auto. destruct (qn (q x) <? cap); auto.
Qed.

Lemma deliver_pure_fields : forall cap ev x,
  created (deliver_pure cap ev x) = created x /\ closed (deliver_pure cap ev x) = closed x /\
  closing (deliver_pure cap ev x) = closing x /\ postc (deliver_pure cap ev x) = postc x /\
  returned (deliver_pure cap ev x) = returned x.
Proof.
  intros cap ev x. unfold deliver_pure, deliver_one.
  destruct (etime ev <? created x); [repeat split; auto|].
  destruct (closing x) eqn:E; [repeat split; auto|].
  destruct (postc x) eqn:E2; try (repeat split; auto; fail).
  destruct (qn (q x) <? cap); simpl; repeat split; auto.
Qed.

Lemma deliver_all_spec : forall cap ev ids ss, NoDup ids ->
  (forall id, In id ids -> exists x, nth_error ss id = Some x /\ postc x <> ChClosed) ->
  exists ss', deliver_all cap ev ids ss = Ok ss' /\ length ss' = length ss /\
    (forall i, In i ids -> nth_error ss' i = option_map (deliver_pure cap ev) (nth_error ss i)) /\
    (forall i, ~ In i ids -> nth_error ss' i = nth_error ss i).
Proof.
  induction ids as [|a ids]; intros ss ND H.
  - exists ss. simpl. intuition.
  - destruct (H a (or_introl eq_refl)) as (x & Hx & Hp). simpl. rewrite Hx.
    rewrite deliver_one_ok by auto. inversion ND; subst.
    destruct (IHids (upd a (fun _ => deliver_pure cap ev x) ss)) as (ss' & R & L & A & B); auto.
    + intros id Hid. assert (a <> id) by (intros ->; auto).
      rewrite nth_upd_other by auto. apply H. now right.
    + exists ss'. split; auto. split; [now rewrite L, upd_length|]. split.
      * intros i [Hi|Hi].
        -- subst. rewrite B by auto. rewrite nth_upd, Nat.eqb_refl, Hx. reflexivity.
        -- assert (a <> i) by (intros ->; auto). rewrite A by auto. now rewrite nth_upd_other.
      * intros i Hi. assert (a <> i) by (intros ->; apply Hi; now left).
        rewrite B by (intros Hc; apply Hi; now right). now rewrite nth_upd_other.
Qed.

Definition G (st : disp) : Prop :=
  NoDup (keys (subm st)) /\ lists_nodup (subm st) /\
  (forall t id, In id (lookup t (subm st)) ->
     exists x, nth_error (subs st) id = Some x /\ closing x = false /\ postc x = ChOpen) /\
  (stopped st = true -> subm st = []).

Lemma G_init : G init.
Proof.
  unfold G, init, lists_nodup. simpl. repeat split; auto; try constructor. intros t id [].
Qed.

Lemma post_ok : forall cap t v now st, G st -> stopped st = false ->
  exists ss', deliver_all cap (mkEvent now t v) (lookup t (subm st)) (subs st) = Ok ss' /\
    length ss' = length (subs st) /\
    (forall i, In i (lookup t (subm st)) ->
       nth_error ss' i = option_map (deliver_pure cap (mkEvent now t v)) (nth_error (subs st) i)) /\
    (forall i, ~ In i (lookup t (subm st)) -> nth_error ss' i = nth_error (subs st) i).
Proof.
  intros cap t v now st (G1 & G2 & G3 & G4) Hs. apply deliver_all_spec.
  - now apply lists_nodup_lookup.
  - intros id Hid. destruct (G3 _ _ Hid) as (x & Hx & _ & Hp). exists x. split; auto. congruence.
Qed.

Lemma handle_some : forall st s x, handle st s = Some x ->
  nth_error (subs st) s = Some x /\ returned x = true.
Proof.
  unfold handle. intros st s x. destruct (nth_error (subs st) s) as [y|]; [|discriminate].
  destruct (returned y) eqn:E; [|discriminate]. intros H. inversion H; subst. auto.
Qed.

Lemma handle_intro : forall st s x, nth_error (subs st) s = Some x -> returned x = true ->
  handle st s = Some x.
Proof. unfold handle. intros st s x -> ->. reflexivity. Qed.

Lemma nth_app_old : forall (l : list sub) y i x, nth_error l i = Some x ->
  nth_error (l ++ [y]) i = Some x.
Proof.
  intros l y i x H. rewrite nth_error_app1; auto. apply nth_error_Some. congruence.
Qed.

Lemma nth_app_new : forall (l : list sub) y, nth_error (l ++ [y]) (length l) = Some y.
Proof. intros. rewrite nth_error_app2 by lia. now rewrite Nat.sub_diag. Qed.

Lemma closewait_fields : forall x,
  created (closewait x) = created x /\ q (closewait x) = q x /\ returned (closewait x) = returned x.
Proof. intros x. unfold closewait. destruct (closed x); simpl; auto. Qed.

Lemma G_step : forall cap st o, G st -> G (fst (step cap st o)).
Proof.
  intros cap st o HG. pose proof HG as (G1 & G2 & G3 & G4).
  destruct o as [tys now|t v now|s| |s|s]; simpl.
  - (* Subscribe *)
    unfold subscribe. destruct (stopped st) eqn:Hs.
    + simpl. unfold G. simpl. repeat split; auto.
      intros t id Hin. destruct (G3 _ _ Hin) as (x & Hx & Hc). exists x. split; auto.
      now apply nth_app_old.
    + destruct (register (length (subs st)) tys (subm st)) as [m' ok] eqn:R.
      destruct (register_spec _ _ _ _ _ R G1 G2) as (A & B & C & D).
      assert (K : forall y, closing y = false -> postc y = ChOpen ->
                G (mkDisp (subs st ++ [y]) m' false)).
      { intros y Hy1 Hy2. unfold G. simpl. repeat split; auto; [|discriminate].
        intros t id Hin. destruct (Nat.eq_dec id (length (subs st))).
        - subst. exists y. split; auto. apply nth_app_new.
        - apply C in Hin; auto. destruct (G3 _ _ Hin) as (x & Hx & Hc). exists x. split; auto.
          now apply nth_app_old. }
      destruct ok; simpl; apply K; reflexivity.
  - (* Post *)
    unfold post. destruct (stopped st) eqn:Hs; auto.
    destruct (post_ok cap t v now st HG Hs) as (ss' & R & L & A & B). rewrite R. simpl.
    unfold G. simpl. repeat split; auto. intros t' id Hin.
    destruct (G3 _ _ Hin) as (x & Hx & Hc1 & Hc2).
    destruct (in_dec Nat.eq_dec id (lookup t (subm st))).
    + rewrite A, Hx by auto. simpl. eexists. split; eauto.
      destruct (deliver_pure_fields cap (mkEvent now t v) x) as (_ & _ & F1 & F2 & _).
      rewrite F1, F2. auto.
    + rewrite B by auto. eauto.
  - (* Unsubscribe *)
    unfold unsubscribe. destruct (handle st s); auto. simpl. unfold G. simpl.
    split; [now apply nodup_keys_del|]. split; [now apply lists_nodup_del|]. split.
    + intros t id Hin. apply lookup_del in Hin; auto. destruct Hin as [Hin Hne].
      destruct (G3 _ _ Hin) as (x & Hx & Hc). exists x. split; auto.
      rewrite nth_upd_other; auto.
    + intros Hs. rewrite G4; auto.
  - (* Stop *)
    unfold G, stop, lists_nodup. simpl. repeat split; auto; try constructor. intros t id [].
  - (* Recv *)
    unfold recv. destruct (handle st s) as [x|]; auto.
    destruct (qpop (q x)) as [[e q']|]; auto. simpl. unfold G. simpl. repeat split; auto.
    intros t id Hin. destruct (G3 _ _ Hin) as (y & Hy & Hc). rewrite nth_upd.
    destruct (Nat.eqb s id); rewrite Hy; simpl; eauto.
  - (* IsClosed *)
    unfold isclosed. destruct (handle st s); auto.
Qed.

Lemma step_no_panic : forall cap st o, G st -> snd (step cap st o) <> RPanic.
Proof.
  intros cap st o HG. destruct o as [tys now|t v now|s| |s|s]; simpl.
  - unfold subscribe. destruct (stopped st); simpl; [discriminate|].
    destruct (register _ _ _) as [m' [|]]; simpl; discriminate.
  - unfold post. destruct (stopped st) eqn:Hs; simpl; [discriminate|].
    destruct (post_ok cap t v now st HG Hs) as (ss' & R & _). rewrite R. simpl. discriminate.
  - unfold unsubscribe. destruct (handle st s); simpl; discriminate.
  - discriminate.
  - unfold recv. destruct (handle st s) as [x|]; simpl; [|discriminate].
    destruct (qpop (q x)) as [[e q']|]; simpl; [discriminate|]. destruct (postc x); discriminate.
  - unfold isclosed. destruct (handle st s); simpl; discriminate.
Qed.

(* ------------------------------------------------------------- run lemmas *)

Lemma run_from_cons : forall cap st o r,
  run_from cap st (o :: r) =
  (fst (run_from cap (fst (step cap st o)) r),
   snd (step cap st o) :: snd (run_from cap (fst (step cap st o)) r)).
Proof.
  intros. simpl. destruct (step cap st o) as [st1 x]. simpl.
  destruct (run_from cap st1 r). reflexivity.
Qed.

Lemma run_from_app : forall cap a st b,
  run_from cap st (a ++ b) =
  (fst (run_from cap (fst (run_from cap st a)) b),
   snd (run_from cap st a) ++ snd (run_from cap (fst (run_from cap st a)) b)).
Proof.
  induction a as [|o a]; intros st b.
  - simpl. now destruct (run_from cap st b).
  - rewrite <- app_comm_cons. rewrite !run_from_cons. rewrite IHa. reflexivity.
Qed.

Lemma run_from_length : forall cap ops st, length (snd (run_from cap st ops)) = length ops.
Proof.
  induction ops as [|o r]; intros st; [reflexivity|]. rewrite run_from_cons. simpl. now rewrite IHr.
Qed.

Lemma G_run : forall cap ops st, G st -> G (fst (run_from cap st ops)).
Proof.
  induction ops as [|o r]; intros st H; [exact H|]. rewrite run_from_cons. simpl.
  apply IHr. now apply G_step.
Qed.

Lemma closewait_ids_length : forall ids ss, length (closewait_ids ids ss) = length ss.
Proof.
  unfold closewait_ids. induction ids; intros ss; simpl; auto. now rewrite IHids, upd_length.
Qed.

Lemma stop_length : forall (m : registry) ss,
  length (fold_left (fun a e => closewait_ids (snd e) a) m ss) = length ss.
Proof.
  induction m; intros ss; simpl; auto. now rewrite IHm, closewait_ids_length.
Qed.

Definition is_subscribe (o : op) : nat := match o with Subscribe _ _ => 1%nat | _ => O end.

Lemma step_subs_length : forall cap st o, G st ->
  length (subs (fst (step cap st o))) = (length (subs st) + is_subscribe o)%nat.
Proof.
  intros cap st o HG. destruct o as [tys now|t v now|s| |s|s]; simpl.
  - unfold subscribe. destruct (stopped st); simpl.
    + now rewrite app_length.
    + destruct (register _ _ _) as [m' [|]]; simpl; now rewrite app_length.
  - unfold post. destruct (stopped st) eqn:Hs; simpl; [lia|].
    destruct (post_ok cap t v now st HG Hs) as (ss' & R & L & _). rewrite R. simpl. lia.
  - unfold unsubscribe. destruct (handle st s); simpl; [rewrite upd_length|]; lia.
  - rewrite stop_length. lia.
  - unfold recv. destruct (handle st s) as [x|]; simpl; [|lia].
    destruct (qpop (q x)) as [[e q']|]; simpl; [rewrite upd_length|]; lia.
  - unfold isclosed. destruct (handle st s); simpl; lia.
Qed.

Lemma count_sub_cons : forall o r, count_sub (o :: r) = (is_subscribe o + count_sub r)%nat.
Proof. intros [ | | | | | ] r; reflexivity. Qed.

Lemma run_subs_length : forall cap ops st, G st ->
  length (subs (fst (run_from cap st ops))) = (length (subs st) + count_sub ops)%nat.
Proof.
  induction ops as [|o r]; intros st HG.
  - simpl. lia.
  - rewrite run_from_cons, count_sub_cons. simpl. rewrite IHr by now apply G_step.
    rewrite step_subs_length by auto. lia.
Qed.

Lemma step_stopped : forall cap st o,
  stopped (fst (step cap st o)) = stopped st || match o with Stop => true | _ => false end.
Proof.
  intros cap st o. destruct o as [tys now|t v now|s| |s|s]; simpl.
  - unfold subscribe. destruct (stopped st) eqn:E; simpl; auto.
    destruct (register _ _ _) as [m' [|]]; reflexivity.
  - unfold post. destruct (stopped st) eqn:E; simpl; [now rewrite E|].
    destruct (deliver_all _ _ _ _); simpl; rewrite ?E; auto.
  - unfold unsubscribe. destruct (handle st s); simpl; now rewrite orb_false_r.
  - now rewrite orb_true_r.
  - unfold recv. destruct (handle st s) as [x|]; simpl; [|now rewrite orb_false_r].
    destruct (qpop (q x)) as [[e q']|]; simpl; now rewrite orb_false_r.
  - unfold isclosed. destruct (handle st s); simpl; now rewrite orb_false_r.
Qed.

Lemma run_stopped : forall cap ops st,
  stopped (fst (run_from cap st ops)) = stopped st || has_stop ops.
Proof.
  induction ops as [|o r]; intros st.
  - simpl. now rewrite orb_false_r.
  - rewrite run_from_cons. simpl fst. rewrite IHr, step_stopped.
    destruct o; simpl; rewrite ?orb_false_r; auto. now rewrite !orb_true_r.
Qed.
