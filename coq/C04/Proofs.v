(* C04 — the statements exported to Props.v, and examples showing that the hypotheses are
   satisfiable by non-trivial values (among them the historical witness: a spend input with
   SpendCommitmentSuffix aabb). *)
From Coq Require Import List NArith Arith Bool Lia.
From Verif Require Import Outcome Cmp.
From C04 Require Import Model ProofsBase ProofsTx ProofsBlock.
Import ListNotations.
Open Scope N_scope.

Lemma varint_roundtrip : forall x rest,
  (x < 2 ^ 63 -> read_uvarint (put_uvarint x ++ rest) = Ok (x, rest)) /\
  (x <= max_int63 -> read_varint63 (put_uvarint x ++ rest) = Ok (x, rest)) /\
  (x <= max_int31 -> read_varint31 (put_uvarint x ++ rest) = Ok (x, rest)).
Proof.
  intros x rest. split; [|split]; intros H.
  - apply read_put_uvarint; assumption.
  - apply read_put_varint63. apply N.leb_le. assumption.
  - apply read_put_varint31. apply N.leb_le. assumption.
Qed.

Lemma varstr_roundtrip : forall s l rest,
  (len s <= max_int31 -> read_varstr31 (write_varstr31 s ++ rest) = Ok (s, rest)) /\
  (len l <= max_int31 -> (forall x, In x l -> len x <= max_int31) ->
     read_varstr_list (write_varstr_list l ++ rest) = Ok (l, rest)).
Proof.
  intros s l rest. split.
  - intros H. apply read_write_varstr31. apply N.leb_le. assumption.
  - intros H1 H2. apply read_write_varstr_list. unfold varstr_list_ok.
    apply andb_true_intro. split; [apply N.leb_le; assumption|].
    apply forallb_forall. intros x Hx. apply N.leb_le. apply H2. assumption.
Qed.

(* an extensible string: whatever reader [f] consumes the content and leaves the suffix *)
Lemma ext_roundtrip : forall (A : Type) (f : parser A) content suffix (a : A) rest,
  len (content ++ suffix) <= max_int31 ->
  f (content ++ suffix) = Ok (a, suffix) ->
  read_ext f (write_ext content suffix ++ rest) = Ok ((a, suffix), rest).
Proof.
  intros A f content suffix a rest H Hf. apply read_write_ext; [|assumption].
  apply N.leb_le. assumption.
Qed.

Lemma hex_text_roundtrip : forall s, bytes_ok s -> hex_decode (hex_encode s) = Ok s.
Proof. exact hex_roundtrip. Qed.

Section WithAssetID.
  Variable aid : bytes -> N -> bytes -> bytes.
  Hypothesis aid_len : forall p v d, length (aid p v d) = 32%nat.
  Hypothesis aid_bytes : forall p v d, bytes_ok (aid p v d).
  Variable nv : nat.

  Lemma input_roundtrip : forall i rest,
    input_wf aid i -> read_input aid (write_input aid i ++ rest) = Ok (i, rest).
  Proof. intros; apply read_write_input; assumption. Qed.

  Lemma output_roundtrip : forall o rest,
    output_wf o -> read_output (write_output o ++ rest) = Ok (o, rest).
  Proof. intros; apply read_write_output; assumption. Qed.

  Lemma txdata_roundtrip : forall t rest,
    txdata_wf aid t ->
    read_txdata aid (write_txdata aid t ++ rest) = Ok (with_size aid t, rest) /\
    tx_size (with_size aid t) = len (write_txdata aid t) /\
    write_txdata aid (with_size aid t) = write_txdata aid t /\
    (size_recorded aid t -> with_size aid t = t).
  Proof.
    intros t rest H. split; [apply read_write_txdata; assumption|].
    split; [reflexivity|]. split; [reflexivity|]. apply with_size_recorded.
  Qed.

  Lemma tx_text_roundtrip : forall t,
    txdata_wf aid t -> txdata_bytes t ->
    exists text, marshal_tx aid t = Ok text /\ unmarshal_tx aid text = Ok (with_size aid t) /\
                 tx_size (with_size aid t) = len (write_txdata aid t) /\
                 length text = (2 * length (write_txdata aid t))%nat.
  Proof. intros; apply text_roundtrip_tx; assumption. Qed.

  Lemma header_roundtrip : forall h rest,
    header_wf nv h ->
    (forall flag, flag = SerBlockHeader \/ flag = SerBlockFull ->
       read_header nv (write_header flag h ++ rest) = Ok ((flag, h), rest)) /\
    (header_bytes h ->
       exists text, marshal_header h = Ok text /\ unmarshal_header nv text = Ok h).
  Proof.
    intros h rest H. split.
    - intros flag Hf. apply read_write_header; assumption.
    - intros Hb. apply text_roundtrip_header; assumption.
  Qed.

  Lemma block_roundtrip : forall flag b rest,
    flag = SerBlockHeader \/ flag = SerBlockTransactions \/ flag = SerBlockFull ->
    block_wf aid nv flag b ->
    read_block aid nv (write_block aid flag b ++ rest) = Ok (decoded_block aid flag b, rest) /\
    (block_bytes b ->
       exists text, marshal_block aid flag b = Ok text /\
                    unmarshal_block aid nv text = Ok (decoded_block aid flag b)).
  Proof.
    intros flag b rest Hf H. split.
    - apply read_write_block; assumption.
    - intros Hb. apply text_roundtrip_block; assumption.
  Qed.

  (* the full block: header and transactions come back; transactions whose size is recorded
     come back identical *)
  Lemma block_full_identity : forall b,
    Forall (size_recorded aid) (b_txs b) -> decoded_block aid SerBlockFull b = b.
  Proof.
    intros [h txs] H. unfold decoded_block. cbn [b_header b_txs N.eqb Pos.eqb SerBlockFull
      SerBlockTransactions SerBlockHeader] in *.
    f_equal. induction H as [|t l Ht Hl IH]; [reflexivity|].
    cbn [map]. rewrite with_size_recorded by assumption. f_equal. assumption.
  Qed.
End WithAssetID.

(* ------------------------------------------------------------------ examples *)

Definition ex_aid (p : bytes) (v : N) (d : bytes) : bytes := repeat 7 32.
Definition h32 (b : N) : bytes := repeat b 32.

Definition ex_sc : spend_commitment := mkSC (h32 1) (h32 2) 5 1 1 [81] [[1; 2]; []].

(* the historical witness of the doubled suffix: SpendCommitmentSuffix = aa bb *)
Definition ex_spend : tx_input := mkIn 1 (Some (Spend ex_sc [170; 187] [[1]; [2; 3]])) [9] [].
Definition ex_issue : tx_input :=
  mkIn 1 (Some (Issuance [1; 2; 3] 9223372036854775807 [4] 1 [81] [[5]])) [] [7; 7].
Definition ex_veto : tx_input := mkIn 1 (Some (Veto ex_sc [1] (h32 9) [])) [] [].
Definition ex_unknown : tx_input := mkIn 2 None [1; 2; 3] [4].
Definition ex_out : tx_output := mkOut 1 (OutVote (h32 9)) (Some (mkOC (h32 2) 300 1 [81; 82] [[255]])) [6].
Definition ex_out2 : tx_output := mkOut 3 OutOriginal None [1].

Definition ex_tx : tx_data :=
  mkTx 1 0 1000 [ex_spend; ex_issue; mkIn 1 (Some (Coinbase [0])) [] []; ex_veto; ex_unknown] [ex_out; ex_out2].

Lemma ex_aid_len : forall p v d, length (ex_aid p v d) = 32%nat.
Proof. reflexivity. Qed.

Example ex_tx_wf : txdata_wf ex_aid ex_tx.
Proof.
  split; [vm_compute; reflexivity|]. split.
  - repeat constructor; vm_compute; reflexivity.
  - repeat constructor; vm_compute; reflexivity.
Qed.

Example ex_tx_decodes :
  read_txdata ex_aid (write_txdata ex_aid ex_tx) = Ok (with_size ex_aid ex_tx, []) /\
  tx_size (with_size ex_aid ex_tx) = 364.
Proof. vm_compute. split; reflexivity. Qed.

(* the witness input encodes its suffix once *)
Example ex_witness_bytes :
  write_sc ex_sc [170; 187] =
  76 :: h32 1 ++ h32 2 ++ [5; 1; 1; 1; 81; 2; 2; 1; 2; 0; 170; 187].
Proof. vm_compute. reflexivity. Qed.

Definition ex_header : block_header :=
  mkBH 1 100 (h32 3) 1600000000000 (h32 4) (repeat 5 64)
       [mkSL 96 (h32 6) [repeat 1 64; []; [2]; []; []; []; []; []; []; []];
        mkSL 92 (h32 7) [[]; []; []; []; []; []; []; []; []; repeat 3 64]].

Example ex_header_wf : header_wf 10 ex_header.
Proof.
  split; [vm_compute; reflexivity|]. split; [reflexivity|]. split; [reflexivity|].
  repeat constructor; vm_compute; reflexivity.
Qed.

Example ex_block_wf : block_wf ex_aid 10 SerBlockFull (mkBlock ex_header [ex_tx; ex_tx]).
Proof.
  split; [vm_compute; reflexivity|]. split; [right; apply ex_header_wf|].
  right. repeat constructor; try apply ex_tx_wf.
Qed.
