(* C04 — running the model on the correspondence cases.  No proofs here.
   [aid] is instantiated with the real bc.ComputeAssetID (SHA3-256 of coq/lib/Sha3.v). *)
From Coq Require Import List NArith Bool.
From Verif Require Import Outcome Cmp Sha3.
From C04 Require Import Model.
Import ListNotations.
Open Scope N_scope.

(* a byte string written as (length, big-endian number): case files parse fast *)
Fixpoint be_bytes (k : nat) (n : N) (acc : bytes) : bytes :=
  match k with
  | O => acc
  | S k' => be_bytes k' (N.div n 256) (N.modulo n 256 :: acc)
  end.
Definition B (k : N) (n : N) : bytes := be_bytes (N.to_nat k) n [].

(* uint64 little endian (writeForHash of a uint64) *)
Fixpoint le_bytes (k : nat) (n : N) : bytes :=
  match k with
  | O => []
  | S k' => N.modulo n 256 :: le_bytes k' (N.div n 256)
  end.

(* bc.ComputeAssetID(prog, vmVersion, &defhash) with defhash = SHA3-256(assetDefinition):
   SHA3-256 of writeForHash(AssetDefinition{IssuanceProgram: &Program{VmVersion, Code}, Data})
   = uint64 LE vm version, varstr31 code, 32 bytes of the definition hash *)
Definition real_aid (prog : bytes) (vmv : N) (def : bytes) : bytes :=
  sha3_256 (le_bytes 8 (vmv mod 18446744073709551616) ++ write_varstr31 prog ++ sha3_256 def).

(* ---- boolean equalities on the values *)
Definition bl_eqb := list_eqb bytes_eqb.

Definition sc_eqb (a b : spend_commitment) : bool :=
  bytes_eqb (sc_source_id a) (sc_source_id b) && bytes_eqb (sc_asset_id a) (sc_asset_id b) &&
  (sc_amount a =? sc_amount b) && (sc_source_pos a =? sc_source_pos b) &&
  (sc_vm_version a =? sc_vm_version b) && bytes_eqb (sc_program a) (sc_program b) &&
  bl_eqb (sc_state a) (sc_state b).

Definition typed_input_eqb (a b : typed_input) : bool :=
  match a, b with
  | Issuance n1 a1 d1 v1 p1 g1, Issuance n2 a2 d2 v2 p2 g2 =>
    bytes_eqb n1 n2 && (a1 =? a2) && bytes_eqb d1 d2 && (v1 =? v2) && bytes_eqb p1 p2 && bl_eqb g1 g2
  | Spend s1 x1 g1, Spend s2 x2 g2 => sc_eqb s1 s2 && bytes_eqb x1 x2 && bl_eqb g1 g2
  | Coinbase a1, Coinbase a2 => bytes_eqb a1 a2
  | Veto s1 x1 v1 g1, Veto s2 x2 v2 g2 => sc_eqb s1 s2 && bytes_eqb x1 x2 && bytes_eqb v1 v2 && bl_eqb g1 g2
  | _, _ => false
  end.

Definition input_eqb (a b : tx_input) : bool :=
  (in_asset_version a =? in_asset_version b) &&
  option_eqb typed_input_eqb (in_typed a) (in_typed b) &&
  bytes_eqb (in_commit_suffix a) (in_commit_suffix b) &&
  bytes_eqb (in_witness_suffix a) (in_witness_suffix b).

Definition oc_eqb (a b : output_commitment) : bool :=
  bytes_eqb (oc_asset_id a) (oc_asset_id b) && (oc_amount a =? oc_amount b) &&
  (oc_vm_version a =? oc_vm_version b) && bytes_eqb (oc_program a) (oc_program b) &&
  bl_eqb (oc_state a) (oc_state b).

Definition typed_output_eqb (a b : typed_output) : bool :=
  match a, b with
  | OutOriginal, OutOriginal => true
  | OutVote v1, OutVote v2 => bytes_eqb v1 v2
  | _, _ => false
  end.

Definition output_eqb (a b : tx_output) : bool :=
  (out_asset_version a =? out_asset_version b) && typed_output_eqb (out_typed a) (out_typed b) &&
  option_eqb oc_eqb (out_commit a) (out_commit b) && bytes_eqb (out_suffix a) (out_suffix b).

Definition tx_eqb (a b : tx_data) : bool :=
  (tx_version a =? tx_version b) && (tx_size a =? tx_size b) &&
  (tx_time_range a =? tx_time_range b) && list_eqb input_eqb (tx_inputs a) (tx_inputs b) &&
  list_eqb output_eqb (tx_outputs a) (tx_outputs b).

Definition suplink_eqb (a b : sup_link) : bool :=
  (sl_height a =? sl_height b) && bytes_eqb (sl_hash a) (sl_hash b) && bl_eqb (sl_sigs a) (sl_sigs b).

Definition header_eqb (a b : block_header) : bool :=
  (bh_version a =? bh_version b) && (bh_height a =? bh_height b) && bytes_eqb (bh_prev a) (bh_prev b) &&
  (bh_timestamp a =? bh_timestamp b) && bytes_eqb (bh_merkle_root a) (bh_merkle_root b) &&
  bytes_eqb (bh_witness a) (bh_witness b) && list_eqb suplink_eqb (bh_suplinks a) (bh_suplinks b).

Definition block_eqb (a b : block) : bool :=
  header_eqb (b_header a) (b_header b) && list_eqb tx_eqb (b_txs a) (b_txs b).

(* ---- observables: (tag, raw bytes of the text form, decoded value)
   tag 0 = marshalled and unmarshalled, 1 = marshal error, 2 = unmarshal error, 3 = panic *)
Inductive value :=
| VTx (t : tx_data)
| VHeader (h : block_header)
| VBlock (b : block).

Definition value_eqb (a b : value) : bool :=
  match a, b with
  | VTx x, VTx y => tx_eqb x y
  | VHeader x, VHeader y => header_eqb x y
  | VBlock x, VBlock y => block_eqb x y
  | _, _ => false
  end.

Definition obs := (nat * bytes * option value)%type.
Definition obs_eqb (a b : obs) : bool :=
  Nat.eqb (fst (fst a)) (fst (fst b)) && bytes_eqb (snd (fst a)) (snd (fst b)) &&
  option_eqb value_eqb (snd a) (snd b).

Definition unhex (text : bytes) : bytes :=
  match hex_decode text with Ok b => b | _ => [] end.

Definition finish {A} (text : bytes) (r : res A) (inj : A -> value) : obs :=
  match r with
  | Ok v => (0%nat, unhex text, Some (inj v))
  | Err _ => (2%nat, unhex text, None)
  | Panic _ => (3%nat, unhex text, None)
  end.

(* MarshalText then UnmarshalText *)
Definition run_tx (t : tx_data) : obs :=
  match marshal_tx real_aid t with
  | Ok text => finish text (unmarshal_tx real_aid text) VTx
  | Err _ => (1%nat, [], None)
  | Panic _ => (3%nat, [], None)
  end.

Definition run_header (nv : nat) (h : block_header) : obs :=
  match marshal_header h with
  | Ok text => finish text (unmarshal_header nv text) VHeader
  | Err _ => (1%nat, [], None)
  | Panic _ => (3%nat, [], None)
  end.

Definition run_block (nv : nat) (flag : N) (b : block) : obs :=
  match marshal_block real_aid flag b with
  | Ok text => finish text (unmarshal_block real_aid nv text) VBlock
  | Err _ => (1%nat, [], None)
  | Panic _ => (3%nat, [], None)
  end.

(* UnmarshalText of given raw bytes (hex-encoded by the harness), then MarshalText of the
   decoded value: observable = (tag, re-encoding, decoded value) *)
Definition reenc (r : res bytes) : bytes := match r with Ok text => unhex text | _ => [] end.

Definition run_dec_tx (raw : bytes) : obs :=
  match unmarshal_tx real_aid (hex_encode raw) with
  | Ok t => (0%nat, reenc (marshal_tx real_aid t), Some (VTx t))
  | Err _ => (2%nat, [], None)
  | Panic _ => (3%nat, [], None)
  end.

Definition run_dec_header (nv : nat) (raw : bytes) : obs :=
  match unmarshal_header nv (hex_encode raw) with
  | Ok h => (0%nat, reenc (marshal_header h), Some (VHeader h))
  | Err _ => (2%nat, [], None)
  | Panic _ => (3%nat, [], None)
  end.

Definition run_dec_block (nv : nat) (raw : bytes) : obs :=
  match unmarshal_block real_aid nv (hex_encode raw) with
  | Ok b => (0%nat, reenc (marshal_block real_aid SerBlockFull b), Some (VBlock b))
  | Err _ => (2%nat, [], None)
  | Panic _ => (3%nat, [], None)
  end.
