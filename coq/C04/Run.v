(* C04 — running the model on the correspondence cases.  No proofs here.
   [aid] is instantiated with the real bc.ComputeAssetID (SHA3-256 of coq/lib/Sha3.v). *)
From Coq Require Import List NArith ZArith Bool Uint63.
From Verif Require Import Outcome Cmp Sha3.
From C04 Require Import Model.
Import ListNotations.
Open Scope N_scope.

(* a byte string written as (length, big-endian number): case files parse fast *)
Fixpoint be_bytes (k : nat) (n : N) (acc : bytes) : bytes :=
  match k with
  | O => acc
  | S k' => be_bytes k' (N.shiftr n 8) (N.land n 255 :: acc)
  end.
Definition B (k : N) (n : N) : bytes := be_bytes (N.to_nat k) n [].

(* the form used by the case files: [W len words], the bytes packed big-endian seven to a
   primitive 63-bit integer (the last word holds the remaining len mod 7 bytes); primitive
   integers are used for nothing else than writing these literals compactly *)
Definition word_bytes (k : nat) (w : int) : bytes := be_bytes k (Z.to_N (Uint63.to_Z w)) [].
Fixpoint words_bytes (k : nat) (ws : list int) : bytes :=
  match ws with
  | [] => []
  | w :: t => if Nat.leb k 7 then word_bytes k w else word_bytes 7 w ++ words_bytes (k - 7) t
  end.
Definition W (k : N) (ws : list int) : bytes := words_bytes (N.to_nat k) ws.

(* uint64 little endian (writeForHash of a uint64) *)
Fixpoint le_bytes (k : nat) (n : N) : bytes :=
  match k with
  | O => []
  | S k' => N.modulo n 256 :: le_bytes k' (N.div n 256)
  end.

(* bc.ComputeAssetID(prog, vmVersion, &defhash) with defhash = SHA3-256(assetDefinition):
   SHA3-256 of writeForHash(AssetDefinition{IssuanceProgram: &Program{VmVersion, Code}, Data})
   = uint64 LE vm version, varstr31 code, 32 bytes of the definition hash *)
Definition real_aid (prog : bytes) (vmv : N) (def : bytes) : bytes :=
  sha3_256 (le_bytes 8 (vmv mod 18446744073709551616) ++ write_varstr31 prog ++ sha3_256 def).

(* The SHA3 evaluations dominate the cost of a case; [memo_aid keys] computes the asset id of
   every listed (program, vm version, definition) once and answers from that table, falling
   back to the real computation for any other argument. *)
Definition aid_key := (bytes * N * bytes)%type.
Definition aid_key_eqb (a b : aid_key) : bool :=
  bytes_eqb (fst (fst a)) (fst (fst b)) && (snd (fst a) =? snd (fst b)) && bytes_eqb (snd a) (snd b).
Fixpoint aid_lookup (tab : list (aid_key * bytes)) (k : aid_key) : option bytes :=
  match tab with
  | [] => None
  | (k', v) :: t => if aid_key_eqb k k' then Some v else aid_lookup t k
  end.
Definition memo_aid (keys : list aid_key) : bytes -> N -> bytes -> bytes :=
  let tab := map (fun k => (k, real_aid (fst (fst k)) (snd (fst k)) (snd k))) keys in
  fun prog vmv def =>
    match aid_lookup tab (prog, vmv, def) with
    | Some v => v
    | None => real_aid prog vmv def
    end.
Definition tx_keys (t : tx_data) : list aid_key :=
  flat_map (fun i => match in_typed i with
                     | Some (Issuance _ _ def vmv prog _) => [(prog, vmv, def)]
                     | _ => []
                     end) (tx_inputs t).

(* ---- boolean equalities on the values *)
Definition bl_eqb := list_eqb bytes_eqb.

Definition sc_eqb (a b : spend_commitment) : bool :=
  bytes_eqb (sc_source_id a) (sc_source_id b) && bytes_eqb (sc_asset_id a) (sc_asset_id b) &&
  (sc_amount a =? sc_amount b) && (sc_source_pos a =? sc_source_pos b) &&
  (sc_vm_version a =? sc_vm_version b) && bytes_eqb (sc_program a) (sc_program b) &&
  bl_eqb (sc_state a) (sc_state b).

Definition typed_input_eqb (a b : typed_input) : bool :=
  match a, b with
  | Issuance n1 a1 d1 v1 p1 g1, Issuance n2 a2 d2 v2 p2 g2 =>
    bytes_eqb n1 n2 && (a1 =? a2) && bytes_eqb d1 d2 && (v1 =? v2) && bytes_eqb p1 p2 && bl_eqb g1 g2
  | Spend s1 x1 g1, Spend s2 x2 g2 => sc_eqb s1 s2 && bytes_eqb x1 x2 && bl_eqb g1 g2
  | Coinbase a1, Coinbase a2 => bytes_eqb a1 a2
  | Veto s1 x1 v1 g1, Veto s2 x2 v2 g2 => sc_eqb s1 s2 && bytes_eqb x1 x2 && bytes_eqb v1 v2 && bl_eqb g1 g2
  | _, _ => false
  end.

Definition input_eqb (a b : tx_input) : bool :=
  (in_asset_version a =? in_asset_version b) &&
  option_eqb typed_input_eqb (in_typed a) (in_typed b) &&
  bytes_eqb (in_commit_suffix a) (in_commit_suffix b) &&
  bytes_eqb (in_witness_suffix a) (in_witness_suffix b).

Definition oc_eqb (a b : output_commitment) : bool :=
  bytes_eqb (oc_asset_id a) (oc_asset_id b) && (oc_amount a =? oc_amount b) &&
  (oc_vm_version a =? oc_vm_version b) && bytes_eqb (oc_program a) (oc_program b) &&
  bl_eqb (oc_state a) (oc_state b).

Definition typed_output_eqb (a b : typed_output) : bool :=
  match a, b with
  | OutOriginal, OutOriginal => true
  | OutVote v1, OutVote v2 => bytes_eqb v1 v2
  | _, _ => false
  end.

Definition output_eqb (a b : tx_output) : bool :=
  (out_asset_version a =? out_asset_version b) && typed_output_eqb (out_typed a) (out_typed b) &&
  option_eqb oc_eqb (out_commit a) (out_commit b) && bytes_eqb (out_suffix a) (out_suffix b).

Definition tx_eqb (a b : tx_data) : bool :=
  (tx_version a =? tx_version b) && (tx_size a =? tx_size b) &&
  (tx_time_range a =? tx_time_range b) && list_eqb input_eqb (tx_inputs a) (tx_inputs b) &&
  list_eqb output_eqb (tx_outputs a) (tx_outputs b).

Definition suplink_eqb (a b : sup_link) : bool :=
  (sl_height a =? sl_height b) && bytes_eqb (sl_hash a) (sl_hash b) && bl_eqb (sl_sigs a) (sl_sigs b).

Definition header_eqb (a b : block_header) : bool :=
  (bh_version a =? bh_version b) && (bh_height a =? bh_height b) && bytes_eqb (bh_prev a) (bh_prev b) &&
  (bh_timestamp a =? bh_timestamp b) && bytes_eqb (bh_merkle_root a) (bh_merkle_root b) &&
  bytes_eqb (bh_witness a) (bh_witness b) && list_eqb suplink_eqb (bh_suplinks a) (bh_suplinks b).

Definition block_eqb (a b : block) : bool :=
  header_eqb (b_header a) (b_header b) && list_eqb tx_eqb (b_txs a) (b_txs b).

(* ---- observables: (tag, raw bytes of the text form, recorded sizes)
   tag 0 = marshalled and unmarshalled, 1 = marshal error, 2 = unmarshal error, 3 = panic;
   third component: Some (SerializedSize of every decoded transaction) when the decoded value
   equals the expected one field by field (sizes apart), None otherwise *)
Definition obs := (nat * bytes * option (list N))%type.
Definition obs_eqb (a b : obs) : bool :=
  Nat.eqb (fst (fst a)) (fst (fst b)) && bytes_eqb (snd (fst a)) (snd (fst b)) &&
  option_eqb (list_eqb N.eqb) (snd a) (snd b).

Definition unhex (text : bytes) : bytes :=
  match hex_decode text with Ok b => b | _ => [] end.

Definition set_size (t : tx_data) (n : N) : tx_data :=
  mkTx (tx_version t) n (tx_time_range t) (tx_inputs t) (tx_outputs t).
Definition tx_same (got want : tx_data) : bool := tx_eqb got (set_size want (tx_size got)).
Definition block_same (got want : block) : bool :=
  header_eqb (b_header got) (b_header want) && list_eqb tx_same (b_txs got) (b_txs want).

(* TxData.MarshalText then TxData.UnmarshalText; the decoded value must be [t] (size apart) *)
Definition run_tx (t : tx_data) : obs :=
  let aid := memo_aid (tx_keys t) in
  match marshal_tx aid t with
  | Ok text =>
    match unmarshal_tx aid text with
    | Ok t' => (0%nat, unhex text, if tx_same t' t then Some [tx_size t'] else None)
    | Err _ => (2%nat, unhex text, None)
    | Panic _ => (3%nat, unhex text, None)
    end
  | Err _ => (1%nat, [], None)
  | Panic _ => (3%nat, [], None)
  end.

Definition run_header (nv : nat) (h : block_header) : obs :=
  match marshal_header h with
  | Ok text =>
    match unmarshal_header nv text with
    | Ok h' => (0%nat, unhex text, if header_eqb h' h then Some [] else None)
    | Err _ => (2%nat, unhex text, None)
    | Panic _ => (3%nat, unhex text, None)
    end
  | Err _ => (1%nat, [], None)
  | Panic _ => (3%nat, [], None)
  end.

(* the block a given flag carries *)
Definition carried (flag : N) (b : block) : block :=
  mkBlock (if flag =? SerBlockTransactions then zero_header else b_header b)
          (if flag =? SerBlockHeader then [] else b_txs b).

Definition run_block (nv : nat) (flag : N) (b : block) : obs :=
  let aid := memo_aid (flat_map tx_keys (b_txs b)) in
  match marshal_block aid flag b with
  | Ok text =>
    match unmarshal_block aid nv text with
    | Ok b' => (0%nat, unhex text,
                if block_same b' (carried flag b) then Some (map tx_size (b_txs b')) else None)
    | Err _ => (2%nat, unhex text, None)
    | Panic _ => (3%nat, unhex text, None)
    end
  | Err _ => (1%nat, [], None)
  | Panic _ => (3%nat, [], None)
  end.

(* UnmarshalText of given raw bytes (hex-encoded by the harness), then MarshalText of the
   decoded value: observable = (tag, re-encoding, sizes); [want] is the value the
   implementation decoded *)
Definition reenc (r : res bytes) : bytes := match r with Ok text => unhex text | _ => [] end.

Definition run_dec_tx (raw : bytes) (want : option tx_data) : obs :=
  match unmarshal_tx real_aid (hex_encode raw) with
  | Ok t => (0%nat, reenc (marshal_tx (memo_aid (tx_keys t)) t),
             match want with
             | Some w => if tx_eqb t w then Some [tx_size t] else None
             | None => None
             end)
  | Err _ => (2%nat, [], None)
  | Panic _ => (3%nat, [], None)
  end.

Definition run_dec_header (nv : nat) (raw : bytes) (want : option block_header) : obs :=
  match unmarshal_header nv (hex_encode raw) with
  | Ok h => (0%nat, reenc (marshal_header h),
             match want with
             | Some w => if header_eqb h w then Some [] else None
             | None => None
             end)
  | Err _ => (2%nat, [], None)
  | Panic _ => (3%nat, [], None)
  end.
