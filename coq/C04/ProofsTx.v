(* C04 — proofs, part 2: well-formedness, inputs, outputs, transactions. *)
From Coq Require Import List NArith Arith Bool Lia.
From Verif Require Import Outcome Cmp.
From C04 Require Import Model ProofsBase.
Import ListNotations.
Open Scope N_scope.

Ltac split_andb H :=
  repeat match type of H with
         | (_ && _) = true => let H' := fresh H in apply andb_prop in H; destruct H as [H H']
         end.
Ltac split_all_andb :=
  repeat match goal with
         | H : (_ && _) = true |- _ => let H' := fresh H in apply andb_prop in H; destruct H as [H H']
         end.

Definition hash_ok (h : bytes) : Prop := length h = 32%nat.

Lemma read_hash_rt h rest : hash_ok h -> read_hash (h ++ rest) = Ok (h, rest).
Proof.
  unfold hash_ok, read_hash. intros H.
  replace (Nat.ltb (length (h ++ rest)) 32) with false.
  - rewrite <- H, firstn_len_app, skipn_len_app. reflexivity.
  - symmetry. apply Nat.ltb_ge. rewrite app_length. lia.
Qed.

Lemma read_ext_rt {A} (f : parser A) s a sfx rest :
  varstr_ok s = true -> f s = Ok (a, sfx) ->
  read_ext f (write_varstr31 s ++ rest) = Ok ((a, sfx), rest).
Proof.
  intros Hok Hf. unfold read_ext. rewrite read_write_varstr31 by assumption. rewrite Hf. reflexivity.
Qed.

(* ------------------------------------------------------ well-formedness *)

Definition sc_wf (sc : spend_commitment) : Prop :=
  hash_ok (sc_source_id sc) /\ hash_ok (sc_asset_id sc) /\ sc_vm_version sc = 1.

Definition typed_input_wf (ti : typed_input) : Prop :=
  match ti with
  | Issuance _ _ _ _ _ _ => True
  | Spend sc _ _ => sc_wf sc
  | Coinbase _ => True
  | Veto sc _ _ _ => sc_wf sc
  end.

Definition oc_wf (oc : output_commitment) : Prop :=
  hash_ok (oc_asset_id oc) /\ oc_vm_version oc = 1.

Section WithAssetID.
  Variable aid : bytes -> N -> bytes -> bytes.
  Hypothesis aid_len : forall p v d, length (aid p v d) = 32%nat.

  (* what the node can construct: every Write* succeeds (integers < 2^63, lengths and counts
     < 2^31), hashes are 32 bytes, VM version 1 under asset version 1, a typed body exactly
     for asset version 1 *)
  Definition input_wf (i : tx_input) : Prop :=
    input_encodable aid i = true /\
    match in_typed i with
    | Some ti => in_asset_version i = 1 /\ typed_input_wf ti
    | None => True
    end.

  Definition output_wf (o : tx_output) : Prop :=
    output_encodable o = true /\
    match out_commit o with
    | Some oc => out_asset_version o = 1 /\ oc_wf oc
    | None => True
    end.

  Definition txdata_wf (t : tx_data) : Prop :=
    txdata_encodable aid t = true /\ Forall input_wf (tx_inputs t) /\ Forall output_wf (tx_outputs t).

  (* ---------------------------------------------------- spend commitment *)

  Lemma read_write_sc sc sfx rest :
    sc_wf sc -> sc_encodable sc sfx = true ->
    read_sc (write_sc sc sfx ++ rest) = Ok ((sc, sfx), rest).
  Proof.
    intros (Hsrc & Hasset & Hvm) Henc. unfold sc_encodable in Henc. split_andb Henc.
    unfold read_sc, write_sc, write_ext. rewrite app_nil_r.
    apply read_ext_rt; [assumption|].
    destruct sc as [src asset amount pos vmv prog st]. cbn [sc_source_id sc_asset_id sc_amount
      sc_source_pos sc_vm_version sc_program sc_state] in *.
    unfold read_sc_contents, write_sc_fields.
    cbn [sc_source_id sc_asset_id sc_amount sc_source_pos sc_vm_version sc_program sc_state].
    rewrite <- !app_assoc.
    rewrite read_hash_rt by assumption. rewrite read_hash_rt by assumption.
    rewrite read_put_varint63 by assumption. rewrite read_put_varint63 by assumption.
    rewrite read_put_varint63 by assumption. subst vmv. cbn [N.eqb Pos.eqb negb].
    rewrite read_write_varstr31 by assumption.
    rewrite read_write_varstr_list by assumption. reflexivity.
  Qed.

  (* ------------------------------------------------------------- inputs *)

  Definition commit_of (ti : typed_input) : in_commit :=
    match ti with
    | Issuance nonce amount def vmv prog args => CIssuance nonce (aid prog vmv def) amount
    | Spend sc sfx args => CSpend sc sfx
    | Coinbase arb => CCoinbase arb
    | Veto sc sfx vote args => CVeto sc sfx vote
    end.

  Lemma read_write_in_commit ti sfx :
    typed_input_wf ti -> typed_input_encodable ti = true ->
    read_in_commit (write_in_commit aid ti ++ sfx) = Ok (commit_of ti, sfx).
  Proof.
    intros Hwf Henc. destruct ti as [nonce amount def vmv prog args | sc s args | arb | sc s vote args];
      cbn [typed_input_wf typed_input_encodable write_in_commit commit_of] in *; split_andb Henc;
      unfold read_in_commit; cbn [app read_byte];
      cbn [N.eqb Pos.eqb IssuanceInputType SpendInputType CoinbaseInputType VetoInputType].
    - rewrite <- !app_assoc. rewrite read_write_varstr31 by assumption.
      rewrite read_hash_rt by apply aid_len.
      rewrite read_put_varint63 by assumption. reflexivity.
    - rewrite read_write_sc by assumption. reflexivity.
    - rewrite read_write_varstr31 by assumption. reflexivity.
    - rewrite <- !app_assoc. rewrite read_write_sc by assumption.
      rewrite read_write_varstr31 by assumption. reflexivity.
  Qed.

  Lemma bytes_eqb_refl b : bytes_eqb b b = true.
  Proof. apply bytes_eqb_eq. reflexivity. Qed.

  Lemma read_write_in_witness ti sfx :
    typed_input_encodable ti = true ->
    read_in_witness aid (commit_of ti) (write_in_witness ti ++ sfx) = Ok (ti, sfx).
  Proof.
    intros Henc. destruct ti as [nonce amount def vmv prog args | sc s args | arb | sc s vote args];
      cbn [typed_input_encodable write_in_witness commit_of read_in_witness] in *; split_andb Henc.
    - rewrite <- !app_assoc. rewrite read_write_varstr31 by assumption.
      rewrite read_put_varint63 by assumption. rewrite read_write_varstr31 by assumption.
      rewrite bytes_eqb_refl. cbn [negb].
      rewrite read_write_varstr_list by assumption. reflexivity.
    - rewrite read_write_varstr_list by assumption. reflexivity.
    - reflexivity.
    - rewrite read_write_varstr_list by assumption. reflexivity.
  Qed.

  Lemma read_write_input i rest :
    input_wf i -> read_input aid (write_input aid i ++ rest) = Ok (i, rest).
  Proof.
    intros (Henc & Hty). destruct i as [av ty csfx wsfx].
    unfold input_encodable in Henc. cbn [in_asset_version in_typed in_commit_suffix in_witness_suffix] in *.
    unfold read_input, write_input. cbn [in_asset_version in_typed in_commit_suffix in_witness_suffix].
    apply andb_prop in Henc. destruct Henc as [Hav Henc].
    rewrite <- !app_assoc. rewrite read_put_varint63 by assumption.
    destruct ty as [ti|].
    - destruct Hty as (-> & Hwf). cbn [N.eqb Pos.eqb] in *. split_andb Henc.
      unfold write_ext. rewrite <- !app_assoc.
      rewrite (read_ext_rt _ _ (commit_of ti) csfx) by
        (try assumption; apply read_write_in_commit; assumption).
      rewrite (read_ext_rt _ _ ti wsfx) by
        (try assumption; apply read_write_in_witness; assumption).
      reflexivity.
    - split_andb Henc. destruct (av =? 1); [discriminate|].
      unfold write_ext. cbn [app]. rewrite <- !app_assoc.
      rewrite read_write_varstr31 by assumption. rewrite read_write_varstr31 by assumption.
      reflexivity.
  Qed.

  Lemma write_input_nonempty i : (1 <= length (write_input aid i))%nat.
  Proof.
    unfold write_input. rewrite app_length. pose proof (put_uvarint_nonempty (in_asset_version i)). lia.
  Qed.

  (* ------------------------------------------------------------ outputs *)

  Lemma read_write_oc oc rest :
    oc_wf oc -> oc_encodable oc = true -> read_oc (write_oc oc ++ rest) = Ok (oc, rest).
  Proof.
    intros (Hasset & Hvm) Henc. unfold oc_encodable in Henc. split_andb Henc.
    destruct oc as [asset amount vmv prog st].
    cbn [oc_asset_id oc_amount oc_vm_version oc_program oc_state] in *.
    unfold read_oc, write_oc. cbn [oc_asset_id oc_amount oc_vm_version oc_program oc_state].
    rewrite <- !app_assoc. rewrite read_hash_rt by assumption.
    rewrite read_put_varint63 by assumption. rewrite read_put_varint63 by assumption.
    subst vmv. cbn [N.eqb Pos.eqb negb].
    rewrite read_write_varstr31 by assumption.
    rewrite read_write_varstr_list by assumption. reflexivity.
  Qed.

  Lemma read_write_output o rest :
    output_wf o -> read_output (write_output o ++ rest) = Ok (o, rest).
  Proof.
    intros (Henc & Hoc). destruct o as [av ty oc sfx].
    unfold output_encodable in Henc. cbn [out_asset_version out_typed out_commit out_suffix] in *.
    unfold read_output, write_output. cbn [out_asset_version out_typed out_commit out_suffix].
    split_andb Henc.
    rewrite <- !app_assoc. rewrite read_put_varint63 by assumption.
    cbn [app read_byte].
    replace (negb ((out_type_byte ty =? OriginalOutputType) || (out_type_byte ty =? VoteOutputType)))
      with false by (destruct ty; reflexivity).
    unfold write_ext. rewrite <- !app_assoc.
    assert (Body : read_out_body av (out_type_byte ty)
                     (write_out_body (mkOut av ty oc sfx) ++ sfx) = Ok ((ty, oc), sfx)).
    { unfold read_out_body, write_out_body. cbn [out_asset_version out_typed out_commit].
      assert (T : forall r, (if out_type_byte ty =? VoteOutputType
                 then match read_varstr31 (write_out_typed ty ++ r) with
                      | Ok (vote, s1) => Ok (OutVote vote, s1)
                      | Err e => Err e
                      | Panic p => Panic p
                      end
                 else Ok (OutOriginal, write_out_typed ty ++ r)) = @Ok err _ (ty, r)).
      { intros r. destruct ty as [|vote]; cbn [out_type_byte write_out_typed app N.eqb Pos.eqb
          OriginalOutputType VoteOutputType]; [reflexivity|].
        rewrite read_write_varstr31 by assumption. reflexivity. }
      rewrite <- !app_assoc. rewrite T.
      destruct oc as [c|].
      - destruct Hoc as (-> & Hwf). cbn [N.eqb Pos.eqb] in *.
        rewrite read_write_oc by assumption. reflexivity.
      - destruct (av =? 1); [discriminate|]. reflexivity. }
    rewrite (read_ext_rt _ _ (ty, oc) sfx) by assumption.
    rewrite read_write_varstr31 by reflexivity. reflexivity.
  Qed.

  Lemma write_output_nonempty o : (1 <= length (write_output o))%nat.
  Proof.
    unfold write_output. rewrite app_length. pose proof (put_uvarint_nonempty (out_asset_version o)). lia.
  Qed.

  (* ------------------------------------------------------- transactions *)

  (* the value decoding yields: the same transaction with SerializedSize := number of bytes *)
  Definition with_size (t : tx_data) : tx_data :=
    mkTx (tx_version t) (len (write_txdata aid t)) (tx_time_range t) (tx_inputs t) (tx_outputs t).

  Lemma read_write_txdata t rest :
    txdata_wf t -> read_txdata aid (write_txdata aid t ++ rest) = Ok (with_size t, rest).
  Proof.
    intros (Henc & Hin & Hout). unfold txdata_encodable in Henc. split_andb Henc.
    rewrite Forall_forall in Hin, Hout.
    remember (write_txdata aid t ++ rest) as buf eqn:E.
    unfold read_txdata. rewrite E at 1. unfold write_txdata at 1.
    cbn [app read_byte]. cbn [N.eqb Pos.eqb serRequired negb].
    rewrite <- !app_assoc.
    rewrite read_put_varint63 by assumption. rewrite read_put_varint63 by assumption.
    rewrite read_put_varint31 by assumption.
    rewrite (read_list_rt (read_input aid) (write_input aid)) by
      (intros; first [apply read_write_input; apply Hin; assumption | apply write_input_nonempty]).
    rewrite read_put_varint31 by assumption.
    rewrite (read_list_rt read_output write_output) by
      (intros; first [apply read_write_output; apply Hout; assumption | apply write_output_nonempty]).
    unfold with_size. f_equal. f_equal. f_equal.
    rewrite E. unfold len. rewrite app_length. f_equal. lia.
  Qed.

  Lemma write_txdata_nonempty t : (1 <= length (write_txdata aid t))%nat.
  Proof. unfold write_txdata. cbn [length]. lia. Qed.

  (* a value whose recorded size is right (every decoded value; every value the node stored)
     comes back identical *)
  Definition size_recorded (t : tx_data) : Prop := tx_size t = len (write_txdata aid t).

  Lemma with_size_recorded t : size_recorded t -> with_size t = t.
  Proof. unfold size_recorded, with_size. intros <-. destruct t; reflexivity. Qed.

  Lemma write_with_size t : write_txdata aid (with_size t) = write_txdata aid t.
  Proof. reflexivity. Qed.

  Lemma with_size_wf t : txdata_wf t -> txdata_wf (with_size t).
  Proof. intros H. exact H. Qed.

  Lemma with_size_is_recorded t : size_recorded (with_size t).
  Proof. reflexivity. Qed.
End WithAssetID.
