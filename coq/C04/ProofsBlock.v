(* C04 — proofs, part 3: sup links, block headers, blocks, the text (hex) layer. *)
From Coq Require Import List NArith Arith Bool Lia.
From Verif Require Import Outcome Cmp.
From C04 Require Import Model ProofsBase ProofsTx.
Import ListNotations.
Open Scope N_scope.

(* read_many when the element parser returns a normalised element *)
Lemma read_many_rt_map {A} (p : parser A) (e : A -> bytes) (g : A -> A) (l : list A) :
  (forall a rest, In a l -> p (e a ++ rest) = Ok (g a, rest)) ->
  forall fuel rest, (length l <= fuel)%nat ->
  read_many p fuel (len l) (concat (map e l) ++ rest) = Ok (map g l, rest).
Proof.
  induction l as [|a l IH]; intros Hp fuel rest Hf.
  - destruct fuel; reflexivity.
  - destruct fuel as [|f]; [cbn in Hf; lia|].
    cbn [read_many map concat].
    replace (len (a :: l) =? 0) with false by (symmetry; apply N.eqb_neq; unfold len; cbn [length]; lia).
    rewrite <- app_assoc, Hp by (left; reflexivity).
    replace (len (a :: l) - 1) with (len l) by (unfold len; cbn [length]; lia).
    rewrite IH; [reflexivity| |cbn in Hf; lia].
    intros; apply Hp; right; assumption.
Qed.

Lemma read_list_rt_map {A} (p : parser A) (e : A -> bytes) (g : A -> A) (l : list A) rest :
  (forall a rest, In a l -> p (e a ++ rest) = Ok (g a, rest)) ->
  (forall a, In a l -> (1 <= length (e a))%nat) ->
  read_list p (len l) (concat (map e l) ++ rest) = Ok (map g l, rest).
Proof.
  intros Hp Hne. unfold read_list. apply read_many_rt_map; [assumption|].
  rewrite app_length. pose proof (concat_map_len e l Hne). lia.
Qed.

(* ---------------------------------------------------------------- sup links *)

Definition suplink_wf (nv : nat) (s : sup_link) : Prop :=
  hash_ok (sl_hash s) /\ length (sl_sigs s) = nv /\ suplink_encodable s = true.

Lemma read_write_sigs l rest :
  forallb varstr_ok l = true ->
  read_sigs (length l) (concat (map write_varstr31 l) ++ rest) = Ok (l, rest).
Proof.
  induction l as [|s l IH]; intros H; [reflexivity|].
  cbn [forallb] in H. apply andb_prop in H. destruct H as [H1 H2].
  cbn [length read_sigs map concat]. rewrite <- app_assoc.
  rewrite read_write_varstr31 by assumption. rewrite IH by assumption. reflexivity.
Qed.

Lemma read_write_suplink nv s rest :
  suplink_wf nv s -> read_suplink nv (write_suplink s ++ rest) = Ok (s, rest).
Proof.
  intros (Hh & Hn & Henc). unfold suplink_encodable in Henc. split_andb Henc.
  destruct s as [h hash sigs]. cbn [sl_height sl_hash sl_sigs] in *.
  unfold read_suplink, write_suplink. cbn [sl_height sl_hash sl_sigs].
  rewrite <- !app_assoc. rewrite read_put_varint63 by assumption.
  rewrite read_hash_rt by assumption. subst nv.
  rewrite read_write_sigs by assumption. reflexivity.
Qed.

Lemma write_suplink_nonempty s : (1 <= length (write_suplink s))%nat.
Proof. unfold write_suplink. rewrite app_length. pose proof (put_uvarint_nonempty (sl_height s)). lia. Qed.

Lemma read_write_suplinks nv l rest :
  ok31 (len l) = true -> Forall (suplink_wf nv) l ->
  read_suplinks nv (write_suplinks l ++ rest) = Ok (l, rest).
Proof.
  intros Hn Hl. rewrite Forall_forall in Hl. unfold read_suplinks, write_suplinks.
  rewrite <- app_assoc. rewrite read_put_varint31 by assumption.
  replace (len (concat (map write_suplink l) ++ rest) <? len l) with false.
  - apply read_list_rt.
    + intros; apply read_write_suplink, Hl; assumption.
    + intros; apply write_suplink_nonempty.
  - symmetry. apply N.ltb_ge. unfold len. rewrite app_length.
    pose proof (concat_map_len write_suplink l (fun a _ => write_suplink_nonempty a)). lia.
Qed.

(* ------------------------------------------------------------------ headers *)

Definition header_wf (nv : nat) (h : block_header) : Prop :=
  header_encodable h = true /\ hash_ok (bh_prev h) /\ hash_ok (bh_merkle_root h) /\
  Forall (suplink_wf nv) (bh_suplinks h).

Lemma read_write_header nv flag h rest :
  flag = SerBlockHeader \/ flag = SerBlockFull -> header_wf nv h ->
  read_header nv (write_header flag h ++ rest) = Ok ((flag, h), rest).
Proof.
  intros Hflag (Henc & Hprev & Hroot & Hsl). unfold header_encodable in Henc. split_andb Henc.
  destruct h as [ver height prev ts root wit sls].
  cbn [bh_version bh_height bh_prev bh_timestamp bh_merkle_root bh_witness bh_suplinks] in *.
  unfold read_header, write_header.
  cbn [bh_version bh_height bh_prev bh_timestamp bh_merkle_root bh_witness bh_suplinks].
  assert (F2 : (flag =? SerBlockTransactions) = false) by (destruct Hflag; subst; reflexivity).
  assert (F13 : negb ((flag =? SerBlockHeader) || (flag =? SerBlockFull)) = false)
    by (destruct Hflag; subst; reflexivity).
  rewrite F2. cbn [app read_byte]. rewrite F2, F13.
  rewrite <- !app_assoc.
  rewrite read_put_varint63 by assumption. rewrite read_put_varint63 by assumption.
  rewrite read_hash_rt by assumption. rewrite read_put_varint63 by assumption.
  unfold write_ext. rewrite !app_nil_r.
  rewrite (read_ext_rt read_hash root root []) by
    (try assumption; rewrite <- (app_nil_r root) at 1; apply read_hash_rt; assumption).
  rewrite (read_ext_rt read_varstr31 _ wit []) by
    (try assumption; rewrite <- (app_nil_r (write_varstr31 wit)); apply read_write_varstr31; assumption).
  rewrite (read_ext_rt (read_suplinks nv) _ sls []) by
    (try assumption; rewrite <- (app_nil_r (write_suplinks sls)); apply read_write_suplinks; assumption).
  reflexivity.
Qed.

Lemma read_write_header_txonly nv h rest :
  read_header nv (write_header SerBlockTransactions h ++ rest) =
  Ok ((SerBlockTransactions, zero_header), rest).
Proof. reflexivity. Qed.

Section WithAssetID.
  Variable aid : bytes -> N -> bytes -> bytes.
  Hypothesis aid_len : forall p v d, length (aid p v d) = 32%nat.
  Variable nv : nat.

  (* ------------------------------------------------------------------ blocks *)

  Definition block_wf (flag : N) (b : block) : Prop :=
    block_encodable aid flag b = true /\
    (flag = SerBlockTransactions \/ header_wf nv (b_header b)) /\
    (flag = SerBlockHeader \/ Forall (txdata_wf aid) (b_txs b)).

  (* what decoding an encoding with serialization flag [flag] yields *)
  Definition decoded_block (flag : N) (b : block) : block :=
    mkBlock (if flag =? SerBlockTransactions then zero_header else b_header b)
            (if flag =? SerBlockHeader then [] else map (with_size aid) (b_txs b)).

  Lemma read_write_block flag b rest :
    flag = SerBlockHeader \/ flag = SerBlockTransactions \/ flag = SerBlockFull ->
    block_wf flag b ->
    read_block aid nv (write_block aid flag b ++ rest) = Ok (decoded_block flag b, rest).
  Proof.
    intros Hflag (Henc & Hh & Ht). unfold block_encodable in Henc.
    apply andb_prop in Henc. destruct Henc as [_ Henc].
    destruct b as [h txs]. cbn [b_header b_txs] in *.
    unfold read_block, write_block, decoded_block. cbn [b_header b_txs].
    rewrite <- app_assoc.
    assert (Txs : flag <> SerBlockHeader -> forall r,
      match read_varint31 ((put_uvarint (len txs) ++ concat (map (write_txdata aid) txs)) ++ r) with
      | Ok (n, r2) =>
        match read_list (read_txdata aid) n r2 with
        | Ok (txs', r3) => Ok (mkBlock (if flag =? SerBlockTransactions then zero_header else h) txs', r3)
        | Err e => Err e
        | Panic p => Panic p
        end
      | Err e => Err e
      | Panic p => Panic p
      end = @Ok err _ (mkBlock (if flag =? SerBlockTransactions then zero_header else h)
                               (map (with_size aid) txs), r)).
    { intros Hne r. destruct Ht as [Ht | Ht]; [contradiction|].
      replace (flag =? SerBlockHeader) with false in Henc
        by (symmetry; apply N.eqb_neq; assumption).
      apply andb_prop in Henc. destruct Henc as [Hn _].
      rewrite Forall_forall in Ht.
      rewrite <- app_assoc. rewrite read_put_varint31 by assumption.
      rewrite (read_list_rt_map (read_txdata aid) (write_txdata aid) (with_size aid)).
      - reflexivity.
      - intros; apply read_write_txdata; [assumption | apply Ht; assumption].
      - intros; apply write_txdata_nonempty. }
    destruct Hflag as [-> | [-> | ->]].
    - destruct Hh as [Hh | Hh]; [discriminate|].
      rewrite (read_write_header nv SerBlockHeader h) by (auto; left; reflexivity).
      reflexivity.
    - rewrite read_write_header_txonly. cbn [N.eqb Pos.eqb SerBlockTransactions SerBlockHeader].
      apply (Txs ltac:(discriminate)).
    - destruct Hh as [Hh | Hh]; [discriminate|].
      rewrite (read_write_header nv SerBlockFull h) by (auto; right; reflexivity).
      cbn [N.eqb Pos.eqb SerBlockFull SerBlockHeader].
      apply (Txs ltac:(discriminate)).
  Qed.

  (* --------------------------------------------------- byte-ness of encodings *)

  Hypothesis aid_bytes : forall p v d, bytes_ok (aid p v d).

  Definition sc_bytes (sc : spend_commitment) : Prop :=
    bytes_ok (sc_source_id sc) /\ bytes_ok (sc_asset_id sc) /\ bytes_ok (sc_program sc) /\
    Forall bytes_ok (sc_state sc).

  Definition typed_input_bytes (ti : typed_input) : Prop :=
    match ti with
    | Issuance nonce amount def vmv prog args =>
      bytes_ok nonce /\ bytes_ok def /\ bytes_ok prog /\ Forall bytes_ok args
    | Spend sc sfx args => sc_bytes sc /\ bytes_ok sfx /\ Forall bytes_ok args
    | Coinbase arb => bytes_ok arb
    | Veto sc sfx vote args => sc_bytes sc /\ bytes_ok sfx /\ bytes_ok vote /\ Forall bytes_ok args
    end.

  Definition input_bytes (i : tx_input) : Prop :=
    bytes_ok (in_commit_suffix i) /\ bytes_ok (in_witness_suffix i) /\
    match in_typed i with Some ti => typed_input_bytes ti | None => True end.

  Definition output_bytes (o : tx_output) : Prop :=
    bytes_ok (out_suffix o) /\
    match out_typed o with OutOriginal => True | OutVote v => bytes_ok v end /\
    match out_commit o with
    | Some oc => bytes_ok (oc_asset_id oc) /\ bytes_ok (oc_program oc) /\ Forall bytes_ok (oc_state oc)
    | None => True
    end.

  Definition txdata_bytes (t : tx_data) : Prop :=
    Forall input_bytes (tx_inputs t) /\ Forall output_bytes (tx_outputs t).

  Definition header_bytes (h : block_header) : Prop :=
    bytes_ok (bh_prev h) /\ bytes_ok (bh_merkle_root h) /\ bytes_ok (bh_witness h) /\
    Forall (fun s => bytes_ok (sl_hash s) /\ Forall bytes_ok (sl_sigs s)) (bh_suplinks h).

  Definition block_bytes (b : block) : Prop :=
    header_bytes (b_header b) /\ Forall txdata_bytes (b_txs b).

  Ltac bytes_tac :=
    repeat first
      [ assumption
      | apply bytes_ok_nil
      | apply put_uvarint_bytes
      | apply aid_bytes
      | apply write_varstr31_bytes
      | apply write_varstr_list_bytes
      | apply write_ext_bytes
      | apply bytes_ok_app
      | apply bytes_ok_cons; [unfold is_byte; cbv; reflexivity|] ].

  Lemma write_sc_bytes sc sfx : sc_bytes sc -> bytes_ok sfx -> bytes_ok (write_sc sc sfx).
  Proof.
    intros (H1 & H2 & H3 & H4) Hs. unfold write_sc, write_sc_fields. bytes_tac.
  Qed.

  Lemma write_input_bytes i : input_bytes i -> bytes_ok (write_input aid i).
  Proof.
    intros (Hc & Hw & Ht).
    unfold write_input. destruct (in_typed i) as [ti|]; [|bytes_tac].
    destruct (in_asset_version i =? 1); [|bytes_tac].
    destruct ti as [nonce amount def vmv prog args | sc s args | arb | sc s vote args];
      cbn [typed_input_bytes] in Ht; cbn [write_in_commit write_in_witness].
    - destruct Ht as (? & ? & ? & ?).
      unfold IssuanceInputType. bytes_tac.
    - destruct Ht as (? & ? & ?). unfold SpendInputType.
      pose proof (write_sc_bytes sc s ltac:(assumption) ltac:(assumption)). bytes_tac.
    - unfold CoinbaseInputType. bytes_tac.
    - destruct Ht as (? & ? & ? & ?). unfold VetoInputType.
      pose proof (write_sc_bytes sc s ltac:(assumption) ltac:(assumption)). bytes_tac.
  Qed.

  Lemma write_output_bytes o : output_bytes o -> bytes_ok (write_output o).
  Proof.
    intros (Hs & Ht & Hc). unfold write_output, write_out_body, write_oc.
    apply bytes_ok_app; [apply put_uvarint_bytes|].
    apply bytes_ok_cons; [destruct (out_typed o); cbv; reflexivity|].
    apply bytes_ok_app; [|bytes_tac].
    apply write_ext_bytes; [|assumption].
    apply bytes_ok_app.
    - destruct (out_typed o); cbn [write_out_typed]; bytes_tac.
    - destruct (out_asset_version o =? 1); [|bytes_tac].
      destruct (out_commit o) as [oc|]; [|bytes_tac].
      destruct Hc as (? & ? & ?). bytes_tac.
  Qed.

  Lemma write_txdata_bytes t : txdata_bytes t -> bytes_ok (write_txdata aid t).
  Proof.
    intros (Hi & Ho). rewrite Forall_forall in Hi, Ho. unfold write_txdata.
    apply bytes_ok_cons; [cbv; reflexivity|].
    repeat (apply bytes_ok_app; [apply put_uvarint_bytes|]).
    apply bytes_ok_app; [apply bytes_ok_concat; intros; apply write_input_bytes, Hi; assumption|].
    apply bytes_ok_app; [apply put_uvarint_bytes|].
    apply bytes_ok_concat; intros; apply write_output_bytes, Ho; assumption.
  Qed.

  Lemma write_header_bytes flag h :
    flag = SerBlockHeader \/ flag = SerBlockTransactions \/ flag = SerBlockFull ->
    header_bytes h -> bytes_ok (write_header flag h).
  Proof.
    intros Hflag (Hp & Hr & Hw & Hs). rewrite Forall_forall in Hs.
    assert (Hf : is_byte flag) by (destruct Hflag as [-> | [-> | ->]]; cbv; reflexivity).
    unfold write_header. destruct (flag =? SerBlockTransactions).
    - apply bytes_ok_cons; [assumption | apply bytes_ok_nil].
    - apply bytes_ok_cons; [assumption|].
      assert (bytes_ok (write_suplinks (bh_suplinks h))).
      { unfold write_suplinks. apply bytes_ok_app; [apply put_uvarint_bytes|].
        apply bytes_ok_concat. intros s Hin. destruct (Hs s Hin) as (H1 & H2).
        unfold write_suplink. apply bytes_ok_app; [apply put_uvarint_bytes|].
        apply bytes_ok_app; [assumption|].
        apply bytes_ok_concat. intros x Hx. apply write_varstr31_bytes.
        rewrite Forall_forall in H2. apply H2. assumption. }
      bytes_tac.
  Qed.

  Lemma write_block_bytes flag b :
    flag = SerBlockHeader \/ flag = SerBlockTransactions \/ flag = SerBlockFull ->
    block_bytes b -> bytes_ok (write_block aid flag b).
  Proof.
    intros Hflag (Hh & Ht). rewrite Forall_forall in Ht. unfold write_block.
    apply bytes_ok_app; [apply write_header_bytes; assumption|].
    destruct (flag =? SerBlockHeader); [apply bytes_ok_nil|].
    apply bytes_ok_app; [apply put_uvarint_bytes|].
    apply bytes_ok_concat; intros; apply write_txdata_bytes, Ht; assumption.
  Qed.

  (* ------------------------------------------------------------ text layer *)

  Theorem text_roundtrip_tx t :
    txdata_wf aid t -> txdata_bytes t ->
    exists text, marshal_tx aid t = Ok text /\ unmarshal_tx aid text = Ok (with_size aid t) /\
                 tx_size (with_size aid t) = len (write_txdata aid t) /\
                 length text = (2 * length (write_txdata aid t))%nat.
  Proof.
    intros Hwf Hb. exists (hex_encode (write_txdata aid t)). unfold marshal_tx, unmarshal_tx.
    destruct Hwf as (Henc & ?). rewrite Henc. split; [reflexivity|]. split; [|split].
    - rewrite hex_roundtrip by (apply write_txdata_bytes; assumption).
      rewrite <- (app_nil_r (write_txdata aid t)).
      rewrite (read_write_txdata aid aid_len) by (split; assumption). reflexivity.
    - reflexivity.
    - apply hex_encode_length.
  Qed.

  Theorem text_roundtrip_header h :
    header_wf nv h -> header_bytes h ->
    exists text, marshal_header h = Ok text /\ unmarshal_header nv text = Ok h.
  Proof.
    intros Hwf Hb. exists (hex_encode (write_header SerBlockHeader h)).
    unfold marshal_header, unmarshal_header. destruct Hwf as (Henc & Hrest). rewrite Henc.
    split; [reflexivity|].
    rewrite hex_roundtrip by (apply write_header_bytes; [left; reflexivity | assumption]).
    rewrite <- (app_nil_r (write_header SerBlockHeader h)).
    rewrite read_write_header by (first [left; reflexivity | split; assumption]).
    reflexivity.
  Qed.

  Theorem text_roundtrip_block flag b :
    flag = SerBlockHeader \/ flag = SerBlockTransactions \/ flag = SerBlockFull ->
    block_wf flag b -> block_bytes b ->
    exists text, marshal_block aid flag b = Ok text /\
                 unmarshal_block aid nv text = Ok (decoded_block flag b).
  Proof.
    intros Hflag Hwf Hb. exists (hex_encode (write_block aid flag b)).
    unfold marshal_block, unmarshal_block. pose proof Hwf as (Henc & _). rewrite Henc.
    split; [reflexivity|].
    rewrite hex_roundtrip by (apply write_block_bytes; assumption).
    rewrite <- (app_nil_r (write_block aid flag b)).
    rewrite read_write_block by assumption. reflexivity.
  Qed.
End WithAssetID.
