(* C04 — Encoding round-trips every well-formed ledger value.  PROPERTY THEOREMS ONLY.

   Model (C04/Model.v): Go's uvarint codec, encoding/blockchain (varint31/63, varstr31,
   varstr lists, extensible strings over the Reader), and readFrom/writeTo of TxInput
   (issuance, spend, coinbase, veto, unknown asset version), SpendCommitment, TxOutput
   (original, vote), TxData, SupLink(s), BlockHeader (three serialization flags), Block,
   plus encoding/hex and the MarshalText/UnmarshalText entry points.  Decoders are
   functions  bytes -> Ok (value, unread bytes) | Err _ | Panic _ ; encoders are functions
   to bytes together with the exact condition ([*_encodable]) under which the Go writer
   returns no error.

   Vocabulary (C04/ProofsTx.v, C04/ProofsBlock.v).  "Well-formed" = what the node can
   construct and serialise:
     txdata_wf aid t      every Write* call succeeds (integers <= MaxInt64, every length and
                          count <= MaxInt32), hashes and asset ids are 32 bytes, VM version 1
                          inside spend/output commitments, a typed input body and an output
                          commitment exactly for asset version 1 (other asset versions carry
                          only their opaque suffixes).  ANY number of inputs and outputs of
                          every type, ANY byte strings as programs, arguments, state data,
                          nonces, votes and as the four kinds of suffix;
     header_wf nv h       the same for a header: ANY list of sup links, each with nv signature
                          slots of any content (nv = consensus.MaxNumOfValidators);
     block_wf             header and transactions well-formed (as far as the flag writes them);
     *_bytes              every element of every byte string is < 256 (needed only for the
                          hex layer: the model's byte type is N);
     with_size aid t      t with SerializedSize := number of bytes of its encoding;
     size_recorded aid t  t's SerializedSize already is that number (true of every decoded
                          transaction and of every transaction the node has stored);
     decoded_block f b    what an encoding with flag f carries: the header unless f is
                          "transactions only", the transactions (with_size) unless f is
                          "header only".
   The asset-id function of issuances (SHA3 based bc.ComputeAssetID) is an arbitrary
   function [aid] with 32-byte results: no property of the hash is used.

   The transaction ID and the block hash are functions of the fields other than
   SerializedSize (bc.TxHeader.writeForHash, mapBlockHeader), so equality of the decoded
   value up to SerializedSize (with_size) gives "same ID"; the harness checks the IDs on
   the implementation. *)
From Coq Require Import List NArith Bool.
From Verif Require Import Outcome Cmp.
From C04 Require Import Model ProofsBase ProofsTx ProofsBlock Proofs.
Import ListNotations.
Open Scope N_scope.

(* uvarint / varint63 / varint31: every value the writers accept is read back, with the
   reader positioned exactly behind it *)
Theorem c04_varint : forall x rest,
  (x < 2 ^ 63 -> read_uvarint (put_uvarint x ++ rest) = Ok (x, rest)) /\
  (x <= max_int63 -> read_varint63 (put_uvarint x ++ rest) = Ok (x, rest)) /\
  (x <= max_int31 -> read_varint31 (put_uvarint x ++ rest) = Ok (x, rest)).
Proof. exact varint_roundtrip. Qed.
Print Assumptions c04_varint.

(* byte strings and lists of byte strings (any content, any length the writer accepts) *)
Theorem c04_varstr : forall s l rest,
  (len s <= max_int31 -> read_varstr31 (write_varstr31 s ++ rest) = Ok (s, rest)) /\
  (len l <= max_int31 -> (forall x, In x l -> len x <= max_int31) ->
     read_varstr_list (write_varstr_list l ++ rest) = Ok (l, rest)).
Proof. exact varstr_roundtrip. Qed.
Print Assumptions c04_varstr.

(* extensible strings: content read back by its reader, the suffix returned unchanged *)
Theorem c04_extensible_string : forall (A : Type) (f : parser A) content suffix (a : A) rest,
  len (content ++ suffix) <= max_int31 ->
  f (content ++ suffix) = Ok (a, suffix) ->
  read_ext f (write_ext content suffix ++ rest) = Ok ((a, suffix), rest).
Proof. exact ext_roundtrip. Qed.
Print Assumptions c04_extensible_string.

(* transactions: decode (encode t) = t with the size recorded, nothing left over; the
   recorded size is the number of bytes; re-encoding the decoded value gives the same bytes;
   a value whose size was already recorded comes back identical *)
Theorem c04_txdata_roundtrip : forall aid,
  (forall p v d, length (aid p v d) = 32%nat) ->
  forall t rest,
  txdata_wf aid t ->
  read_txdata aid (write_txdata aid t ++ rest) = Ok (with_size aid t, rest) /\
  tx_size (with_size aid t) = len (write_txdata aid t) /\
  write_txdata aid (with_size aid t) = write_txdata aid t /\
  (size_recorded aid t -> with_size aid t = t).
Proof. exact txdata_roundtrip. Qed.
Print Assumptions c04_txdata_roundtrip.

(* the text form: TxData.MarshalText succeeds and TxData.UnmarshalText of its result returns
   the transaction (trailing-garbage check included) *)
Theorem c04_tx_text_roundtrip : forall aid,
  (forall p v d, length (aid p v d) = 32%nat) ->
  (forall p v d, bytes_ok (aid p v d)) ->
  forall t,
  txdata_wf aid t -> txdata_bytes t ->
  exists text, marshal_tx aid t = Ok text /\ unmarshal_tx aid text = Ok (with_size aid t) /\
               tx_size (with_size aid t) = len (write_txdata aid t) /\
               length text = (2 * length (write_txdata aid t))%nat.
Proof. exact tx_text_roundtrip. Qed.
Print Assumptions c04_tx_text_roundtrip.

(* block headers, binary (both flags that carry a header) and text, for any sup link set *)
Theorem c04_header_roundtrip : forall nv h rest,
  header_wf nv h ->
  (forall flag, flag = SerBlockHeader \/ flag = SerBlockFull ->
     read_header nv (write_header flag h ++ rest) = Ok ((flag, h), rest)) /\
  (header_bytes h ->
     exists text, marshal_header h = Ok text /\ unmarshal_header nv text = Ok h).
Proof. exact header_roundtrip. Qed.
Print Assumptions c04_header_roundtrip.

(* blocks, binary and text, under each of the three serialization flags *)
Theorem c04_block_roundtrip : forall aid,
  (forall p v d, length (aid p v d) = 32%nat) ->
  (forall p v d, bytes_ok (aid p v d)) ->
  forall nv flag b rest,
  flag = SerBlockHeader \/ flag = SerBlockTransactions \/ flag = SerBlockFull ->
  block_wf aid nv flag b ->
  read_block aid nv (write_block aid flag b ++ rest) = Ok (decoded_block aid flag b, rest) /\
  (block_bytes b ->
     exists text, marshal_block aid flag b = Ok text /\
                  unmarshal_block aid nv text = Ok (decoded_block aid flag b)).
Proof. exact block_roundtrip. Qed.
Print Assumptions c04_block_roundtrip.

(* a full block whose transactions have their sizes recorded comes back identical *)
Theorem c04_block_full_identity : forall aid b,
  Forall (size_recorded aid) (b_txs b) -> decoded_block aid SerBlockFull b = b.
Proof. exact block_full_identity. Qed.
Print Assumptions c04_block_full_identity.

(* the hex layer *)
Theorem c04_hex : forall s, bytes_ok s -> hex_decode (hex_encode s) = Ok s.
Proof. exact hex_text_roundtrip. Qed.
Print Assumptions c04_hex.
