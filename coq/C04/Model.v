(* C04 / C05 — executable model of the ledger codecs.  NO PROOFS HERE.

   Mirrors
     encoding/binary       PutUvarint / ReadUvarint (Go standard library, incl. the
                           10-byte overflow rule)
     encoding/blockchain   Reader, ReadVarint31/63, ReadVarstr31, ReadVarstrList,
                           ReadExtensibleString and the Write* counterparts
     protocol/bc/types     TxInput (issuance, spend, coinbase, veto, unknown asset
                           version), SpendCommitment, TxOutput (original, vote),
                           OutputCommitment, TxData, SupLink(s), BlockWitness,
                           BlockCommitment, BlockHeader (3 serflags), Block
     encoding/hex          Encode / Decode (the MarshalText / UnmarshalText layer)

   Conventions.
   * A byte string is [bytes] = list N; a bc.Hash / bc.AssetID is its 32-byte
     serialisation.  Go's nil and empty slices are the same list (the codecs never
     distinguish them: a zero length prefix is read back as nil).
   * A reader is a function  bytes -> res (value * unread bytes)  ([parser]); the Go
     Reader's cursor is the unread suffix.  Decoders are total; [Panic] would stand
     where Go panics (the decoders of this file contain no such place; the entry points
     that go on to MapTx are modelled in C05).
   * Encoders are total functions to [bytes] giving what the Go writer emits when no
     range check fails; the companion booleans [*_encodable] are exactly the
     conditions under which Go's Write* calls return no error (WriteVarint31/63 range
     checks, a typed body being present).  [marshal_*] = the MarshalText entry points.
   * Loops that run "n times" for a decoded count n (which may be 2^31-1) recurse on
     fuel = 1 + number of unread bytes: every iteration consumes at least one byte or
     fails, so the fuel never runs out before the input does (shown in Proofs.v for
     the encodings; at fuel 0 the buffer is empty and the Go code would fail with EOF
     too, which is what the model returns).
   * The asset id of an issuance (bc.ComputeAssetID, SHA3 based) is the Section
     variable [aid]; Run.v instantiates it with the real computation.
   * MaxNumOfValidators (signature slots of a SupLink) is the parameter [nv]. *)
From Coq Require Import List NArith Bool.
From Verif Require Import Outcome Cmp.
Import ListNotations.
Open Scope N_scope.

Inductive err :=
| EEOF          (* io.EOF / io.ErrUnexpectedEOF *)
| ERange        (* blockchain.ErrRange *)
| EOverflow     (* binary: varint overflows a 64-bit integer *)
| EInputType    (* unsupported input type *)
| EOutputType   (* unsupported output type *)
| ESerflags     (* unsupported serialization flags *)
| EVMVersion    (* unrecognized VM version for asset version 1 *)
| EAssetID      (* errBadAssetID *)
| ETrailing     (* trailing garbage *)
| EHex          (* hex.InvalidByteError / hex.ErrLength *)
| EWrite.       (* any error of the Write* side *)

Definition res (A : Type) := outcome err A.
Definition parser (A : Type) := bytes -> res (A * bytes).

Definition max_int31 : N := 2147483647.
Definition max_int63 : N := 9223372036854775807.

Definition len {A} (l : list A) : N := N.of_nat (length l).

(* ------------------------------------------------------------------ uvarint *)

(* binary.PutUvarint: for x >= 0x80 { buf[i] = byte(x) | 0x80; x >>= 7; i++ }; buf[i] = byte(x).
   A uint64 needs at most 10 bytes; fuel 10 is never exhausted for x < 2^64 (and the
   callers here only pass x <= MaxInt64: 9 bytes, the size of bufPool's array). *)
Fixpoint put_uv (fuel : nat) (x : N) : bytes :=
  match fuel with
  | O => [x mod 256]
  | S f => if 128 <=? x then N.lor (x mod 256) 128 :: put_uv f (N.shiftr x 7)
           else [x mod 256]
  end.
Definition put_uvarint (x : N) : bytes := put_uv 10 x.

(* binary.ReadUvarint over Reader.ReadByte.  [n] = iterations left (10 - i), [s] the
   shift, [x] the accumulator.  The accumulation of the 10th byte may exceed 64 bits
   in Go (it wraps); that value is never used, the loop then ends with errOverflow. *)
Fixpoint read_uv (n : nat) (s x : N) (buf : bytes) : res (N * bytes) :=
  match n with
  | O => Err EOverflow
  | S n' =>
    match buf with
    | [] => Err EEOF
    | b :: rest =>
      if b <? 128 then
        match n' with
        | O => if 1 <? b then Err EOverflow else Ok (N.lor x (N.shiftl b s), rest)
        | _ => Ok (N.lor x (N.shiftl b s), rest)
        end
      else read_uv n' (s + 7) (N.lor x (N.shiftl (N.land b 127) s)) rest
    end
  end.
Definition read_uvarint : parser N := read_uv 10 0 0.

Definition read_varint31 : parser N := fun buf =>
  match read_uvarint buf with
  | Ok (v, r) => if max_int31 <? v then Err ERange else Ok (v, r)
  | Err e => Err e
  | Panic p => Panic p
  end.

Definition read_varint63 : parser N := fun buf =>
  match read_uvarint buf with
  | Ok (v, r) => if max_int63 <? v then Err ERange else Ok (v, r)
  | Err e => Err e
  | Panic p => Panic p
  end.

Definition ok31 (v : N) : bool := v <=? max_int31.
Definition ok63 (v : N) : bool := v <=? max_int63.

(* ------------------------------------------------------------ Reader basics *)

(* io.ReadFull(r, b[:1]) / Reader.ReadByte *)
Definition read_byte : parser N := fun buf =>
  match buf with
  | [] => Err EEOF
  | b :: r => Ok (b, r)
  end.

(* io.ReadFull(r, b32[:]) — Hash.ReadFrom / AssetID.ReadFrom *)
Definition read_hash : parser bytes := fun buf =>
  if Nat.ltb (length buf) 32 then Err EEOF else Ok (firstn 32 buf, skipn 32 buf).

(* ReadVarstr31 *)
Definition read_varstr31 : parser bytes := fun buf =>
  match read_varint31 buf with
  | Ok (l, r) =>
    if l =? 0 then Ok ([], r)
    else if len r <? l then Err EEOF
    else Ok (firstn (N.to_nat l) r, skipn (N.to_nat l) r)
  | Err e => Err e
  | Panic p => Panic p
  end.

(* "for ; n > 0; n-- { read one element }" *)
Fixpoint read_many {A} (p : parser A) (fuel : nat) (n : N) (buf : bytes) : res (list A * bytes) :=
  if n =? 0 then Ok ([], buf)
  else
    match fuel with
    | O => Err EEOF
    | S f =>
      match p buf with
      | Ok (a, r) =>
        match read_many p f (n - 1) r with
        | Ok (l, r') => Ok (a :: l, r')
        | Err e => Err e
        | Panic q => Panic q
        end
      | Err e => Err e
      | Panic q => Panic q
      end
    end.
Definition read_list {A} (p : parser A) (n : N) : parser (list A) := fun buf =>
  read_many p (S (length buf)) n buf.

(* ReadVarstrList (any failure of an element is an error of the whole list) *)
Definition read_varstr_list : parser (list bytes) := fun buf =>
  match read_varint31 buf with
  | Ok (n, r) => read_list read_varstr31 n r
  | Err e => Err e
  | Panic p => Panic p
  end.

(* ReadExtensibleString: the callback consumes a prefix of the string; what it leaves
   unread is the suffix *)
Definition read_ext {A} (f : parser A) : parser (A * bytes) := fun buf =>
  match read_varstr31 buf with
  | Ok (s, r) =>
    match f s with
    | Ok (a, sfx) => Ok ((a, sfx), r)
    | Err e => Err e
    | Panic p => Panic p
    end
  | Err e => Err e
  | Panic p => Panic p
  end.

(* ------------------------------------------------------------------ writers *)

Definition write_varstr31 (s : bytes) : bytes := put_uvarint (len s) ++ s.
Definition write_varstr_list (l : list bytes) : bytes :=
  put_uvarint (len l) ++ concat (map write_varstr31 l).
(* WriteExtensibleString(w, suffix, f): f's output, then the suffix, as one varstr *)
Definition write_ext (content suffix : bytes) : bytes := write_varstr31 (content ++ suffix).

Definition varstr_ok (s : bytes) : bool := ok31 (len s).
Definition varstr_list_ok (l : list bytes) : bool := ok31 (len l) && forallb varstr_ok l.

(* ------------------------------------------------------------------ values *)

Definition zero32 : bytes := repeat 0 32.

Record spend_commitment := mkSC {
  sc_source_id : bytes;      (* bc.Hash *)
  sc_asset_id : bytes;       (* *bc.AssetID *)
  sc_amount : N;
  sc_source_pos : N;
  sc_vm_version : N;
  sc_program : bytes;
  sc_state : list bytes }.

Inductive typed_input :=
| Issuance (nonce : bytes) (amount : N) (asset_def : bytes) (vm_version : N)
           (program : bytes) (args : list bytes)
| Spend (sc : spend_commitment) (suffix : bytes) (args : list bytes)
| Coinbase (arbitrary : bytes)
| Veto (sc : spend_commitment) (suffix : bytes) (vote : bytes) (args : list bytes).

(* [in_typed = None]: TypedInput is nil (what decoding leaves for an asset version
   other than 1) *)
Record tx_input := mkIn {
  in_asset_version : N;
  in_typed : option typed_input;
  in_commit_suffix : bytes;
  in_witness_suffix : bytes }.

Record output_commitment := mkOC {
  oc_asset_id : bytes;
  oc_amount : N;
  oc_vm_version : N;
  oc_program : bytes;
  oc_state : list bytes }.

Inductive typed_output :=
| OutOriginal
| OutVote (vote : bytes).

(* [out_commit = None]: the zero OutputCommitment (nil AssetId), what decoding leaves
   for an asset version other than 1 *)
Record tx_output := mkOut {
  out_asset_version : N;
  out_typed : typed_output;
  out_commit : option output_commitment;
  out_suffix : bytes }.

Record tx_data := mkTx {
  tx_version : N;
  tx_size : N;              (* SerializedSize *)
  tx_time_range : N;
  tx_inputs : list tx_input;
  tx_outputs : list tx_output }.

Record sup_link := mkSL {
  sl_height : N;
  sl_hash : bytes;
  sl_sigs : list bytes }.   (* [MaxNumOfValidators][]byte *)

Record block_header := mkBH {
  bh_version : N;
  bh_height : N;
  bh_prev : bytes;
  bh_timestamp : N;
  bh_merkle_root : bytes;   (* BlockCommitment *)
  bh_witness : bytes;       (* BlockWitness *)
  bh_suplinks : list sup_link }.

Record block := mkBlock {
  b_header : block_header;
  b_txs : list tx_data }.

(* the zero value of BlockHeader *)
Definition zero_header : block_header := mkBH 0 0 zero32 0 zero32 [] [].

(* input / output type bytes and serialization flags *)
Definition IssuanceInputType : N := 0.
Definition SpendInputType : N := 1.
Definition CoinbaseInputType : N := 2.
Definition VetoInputType : N := 3.
Definition OriginalOutputType : N := 0.
Definition VoteOutputType : N := 1.
Definition serRequired : N := 7.
Definition SerBlockHeader : N := 1.
Definition SerBlockTransactions : N := 2.
Definition SerBlockFull : N := 3.

(* --------------------------------------------------------- spend commitment *)

(* SpendCommitment.readFrom(r, 1): one extensible string; returns the suffix *)
Definition read_sc_contents : parser spend_commitment := fun s =>
  match read_hash s with
  | Ok (src, s1) =>
    match read_hash s1 with
    | Ok (asset, s2) =>
      match read_varint63 s2 with
      | Ok (amount, s3) =>
        match read_varint63 s3 with
        | Ok (pos, s4) =>
          match read_varint63 s4 with
          | Ok (vmv, s5) =>
            if negb (vmv =? 1) then Err EVMVersion
            else
              match read_varstr31 s5 with
              | Ok (prog, s6) =>
                match read_varstr_list s6 with
                | Ok (st, s7) => Ok (mkSC src asset amount pos vmv prog st, s7)
                | Err e => Err e
                | Panic p => Panic p
                end
              | Err e => Err e
              | Panic p => Panic p
              end
          | Err e => Err e
          | Panic p => Panic p
          end
        | Err e => Err e
        | Panic p => Panic p
        end
      | Err e => Err e
      | Panic p => Panic p
      end
    | Err e => Err e
    | Panic p => Panic p
    end
  | Err e => Err e
  | Panic p => Panic p
  end.
Definition read_sc : parser (spend_commitment * bytes) := read_ext read_sc_contents.

(* SpendCommitment.writeContents (asset version 1) without the suffix *)
Definition write_sc_fields (sc : spend_commitment) : bytes :=
  sc_source_id sc ++ sc_asset_id sc ++ put_uvarint (sc_amount sc) ++
  put_uvarint (sc_source_pos sc) ++ put_uvarint (sc_vm_version sc) ++
  write_varstr31 (sc_program sc) ++ write_varstr_list (sc_state sc).
(* SpendCommitment.writeExtensibleString: WriteExtensibleString(w, nil, writeContents(w, suffix)):
   the contents writer emits the fields followed by the suffix, once.  (The pinned tree
   passed the suffix to WriteExtensibleString as well and so wrote it twice; repaired.) *)
Definition write_sc (sc : spend_commitment) (suffix : bytes) : bytes :=
  write_ext (write_sc_fields sc ++ suffix) [].

Definition sc_encodable (sc : spend_commitment) (suffix : bytes) : bool :=
  ok63 (sc_amount sc) && ok63 (sc_source_pos sc) && ok63 (sc_vm_version sc) &&
  varstr_ok (sc_program sc) && varstr_list_ok (sc_state sc) &&
  varstr_ok (write_sc_fields sc ++ suffix).

Section WithAssetID.
  (* bc.ComputeAssetID(issuanceProgram, vmVersion, SHA3(assetDefinition)) as 32 bytes *)
  Variable aid : bytes -> N -> bytes -> bytes.

  (* ------------------------------------------------------------------ inputs *)

  (* what the commitment string of an input yields (parseTypedInput + readCommitment) *)
  Inductive in_commit :=
  | CIssuance (nonce : bytes) (asset_id : bytes) (amount : N)
  | CSpend (sc : spend_commitment) (suffix : bytes)
  | CCoinbase (arbitrary : bytes)
  | CVeto (sc : spend_commitment) (suffix : bytes) (vote : bytes).

  Definition read_in_commit : parser in_commit := fun s =>
    match read_byte s with
    | Ok (ty, s1) =>
      if ty =? IssuanceInputType then
        match read_varstr31 s1 with
        | Ok (nonce, s2) =>
          match read_hash s2 with
          | Ok (asset, s3) =>
            match read_varint63 s3 with
            | Ok (amount, s4) => Ok (CIssuance nonce asset amount, s4)
            | Err e => Err e
            | Panic p => Panic p
            end
          | Err e => Err e
          | Panic p => Panic p
          end
        | Err e => Err e
        | Panic p => Panic p
        end
      else if ty =? SpendInputType then
        match read_sc s1 with
        | Ok ((sc, sfx), s2) => Ok (CSpend sc sfx, s2)
        | Err e => Err e
        | Panic p => Panic p
        end
      else if ty =? CoinbaseInputType then
        match read_varstr31 s1 with
        | Ok (arb, s2) => Ok (CCoinbase arb, s2)
        | Err e => Err e
        | Panic p => Panic p
        end
      else if ty =? VetoInputType then
        match read_sc s1 with
        | Ok ((sc, sfx), s2) =>
          match read_varstr31 s2 with
          | Ok (vote, s3) => Ok (CVeto sc sfx vote, s3)
          | Err e => Err e
          | Panic p => Panic p
          end
        | Err e => Err e
        | Panic p => Panic p
        end
      else Err EInputType
    | Err e => Err e
    | Panic p => Panic p
    end.

  (* readWitness of the typed input selected by the commitment *)
  Definition read_in_witness (c : in_commit) : parser typed_input := fun s =>
    match c with
    | CIssuance nonce asset amount =>
      match read_varstr31 s with
      | Ok (def, s1) =>
        match read_varint63 s1 with
        | Ok (vmv, s2) =>
          match read_varstr31 s2 with
          | Ok (prog, s3) =>
            if negb (bytes_eqb (aid prog vmv def) asset) then Err EAssetID
            else
              match read_varstr_list s3 with
              | Ok (args, s4) => Ok (Issuance nonce amount def vmv prog args, s4)
              | Err e => Err e
              | Panic p => Panic p
              end
          | Err e => Err e
          | Panic p => Panic p
          end
        | Err e => Err e
        | Panic p => Panic p
        end
      | Err e => Err e
      | Panic p => Panic p
      end
    | CSpend sc sfx =>
      match read_varstr_list s with
      | Ok (args, s1) => Ok (Spend sc sfx args, s1)
      | Err e => Err e
      | Panic p => Panic p
      end
    | CCoinbase arb => Ok (Coinbase arb, s)
    | CVeto sc sfx vote =>
      match read_varstr_list s with
      | Ok (args, s1) => Ok (Veto sc sfx vote args, s1)
      | Err e => Err e
      | Panic p => Panic p
      end
    end.

  (* TxInput.readFrom *)
  Definition read_input : parser tx_input := fun buf =>
    match read_varint63 buf with
    | Ok (av, r1) =>
      if av =? 1 then
        match read_ext read_in_commit r1 with
        | Ok ((c, csfx), r2) =>
          match read_ext (read_in_witness c) r2 with
          | Ok ((ti, wsfx), r3) => Ok (mkIn av (Some ti) csfx wsfx, r3)
          | Err e => Err e
          | Panic p => Panic p
          end
        | Err e => Err e
        | Panic p => Panic p
        end
      else
        (* unknown asset version: both strings are kept whole as suffixes, TypedInput stays nil *)
        match read_varstr31 r1 with
        | Ok (csfx, r2) =>
          match read_varstr31 r2 with
          | Ok (wsfx, r3) => Ok (mkIn av None csfx wsfx, r3)
          | Err e => Err e
          | Panic p => Panic p
          end
        | Err e => Err e
        | Panic p => Panic p
        end
    | Err e => Err e
    | Panic p => Panic p
    end.

  (* writeCommitment / writeWitness of the typed inputs *)
  Definition write_in_commit (ti : typed_input) : bytes :=
    match ti with
    | Issuance nonce amount def vmv prog args =>
      IssuanceInputType :: write_varstr31 nonce ++ aid prog vmv def ++ put_uvarint amount
    | Spend sc sfx args => SpendInputType :: write_sc sc sfx
    | Coinbase arb => CoinbaseInputType :: write_varstr31 arb
    | Veto sc sfx vote args => VetoInputType :: write_sc sc sfx ++ write_varstr31 vote
    end.
  Definition write_in_witness (ti : typed_input) : bytes :=
    match ti with
    | Issuance nonce amount def vmv prog args =>
      write_varstr31 def ++ put_uvarint vmv ++ write_varstr31 prog ++ write_varstr_list args
    | Spend sc sfx args => write_varstr_list args
    | Coinbase arb => []
    | Veto sc sfx vote args => write_varstr_list args
    end.

  (* TxInput.writeTo *)
  Definition write_input (i : tx_input) : bytes :=
    put_uvarint (in_asset_version i) ++
    match in_typed i with
    | Some ti =>
      if in_asset_version i =? 1 then
        write_ext (write_in_commit ti) (in_commit_suffix i) ++
        write_ext (write_in_witness ti) (in_witness_suffix i)
      else write_ext [] (in_commit_suffix i) ++ write_ext [] (in_witness_suffix i)
    | None => write_ext [] (in_commit_suffix i) ++ write_ext [] (in_witness_suffix i)
    end.

  Definition typed_input_encodable (ti : typed_input) : bool :=
    match ti with
    | Issuance nonce amount def vmv prog args =>
      varstr_ok nonce && ok63 amount && varstr_ok def && ok63 vmv && varstr_ok prog &&
      varstr_list_ok args
    | Spend sc sfx args => sc_encodable sc sfx && varstr_list_ok args
    | Coinbase arb => varstr_ok arb
    | Veto sc sfx vote args => sc_encodable sc sfx && varstr_ok vote && varstr_list_ok args
    end.

  (* no error from TxInput.writeTo.  (Asset version 1 with a nil TypedInput would be a nil
     dereference in Go; such a value is not encodable.) *)
  Definition input_encodable (i : tx_input) : bool :=
    ok63 (in_asset_version i) &&
    match in_typed i with
    | Some ti =>
      if in_asset_version i =? 1 then
        typed_input_encodable ti &&
        varstr_ok (write_in_commit ti ++ in_commit_suffix i) &&
        varstr_ok (write_in_witness ti ++ in_witness_suffix i)
      else varstr_ok (in_commit_suffix i) && varstr_ok (in_witness_suffix i)
    | None =>
      negb (in_asset_version i =? 1) &&
      varstr_ok (in_commit_suffix i) && varstr_ok (in_witness_suffix i)
    end.

  (* ----------------------------------------------------------------- outputs *)

  (* OutputCommitment.readFrom(r, 1) *)
  Definition read_oc : parser output_commitment := fun s =>
    match read_hash s with
    | Ok (asset, s1) =>
      match read_varint63 s1 with
      | Ok (amount, s2) =>
        match read_varint63 s2 with
        | Ok (vmv, s3) =>
          if negb (vmv =? 1) then Err EVMVersion
          else
            match read_varstr31 s3 with
            | Ok (prog, s4) =>
              match read_varstr_list s4 with
              | Ok (st, s5) => Ok (mkOC asset amount vmv prog st, s5)
              | Err e => Err e
              | Panic p => Panic p
              end
            | Err e => Err e
            | Panic p => Panic p
            end
        | Err e => Err e
        | Panic p => Panic p
        end
      | Err e => Err e
      | Panic p => Panic p
      end
    | Err e => Err e
    | Panic p => Panic p
    end.

  Definition write_oc (oc : output_commitment) : bytes :=
    oc_asset_id oc ++ put_uvarint (oc_amount oc) ++ put_uvarint (oc_vm_version oc) ++
    write_varstr31 (oc_program oc) ++ write_varstr_list (oc_state oc).

  (* the callback of TxOutput.readFrom: typed part, then the commitment for asset version 1 *)
  Definition read_out_body (av ty : N) : parser (typed_output * option output_commitment) :=
    fun s =>
    match (if ty =? VoteOutputType then
             match read_varstr31 s with
             | Ok (vote, s1) => Ok (OutVote vote, s1)
             | Err e => Err e
             | Panic p => Panic p
             end
           else Ok (OutOriginal, s)) with
    | Ok (t, s1) =>
      if av =? 1 then
        match read_oc s1 with
        | Ok (oc, s2) => Ok ((t, Some oc), s2)
        | Err e => Err e
        | Panic p => Panic p
        end
      else Ok ((t, None), s1)
    | Err e => Err e
    | Panic p => Panic p
    end.

  (* TxOutput.readFrom *)
  Definition read_output : parser tx_output := fun buf =>
    match read_varint63 buf with
    | Ok (av, r1) =>
      match read_byte r1 with
      | Ok (ty, r2) =>
        if negb ((ty =? OriginalOutputType) || (ty =? VoteOutputType)) then Err EOutputType
        else
          match read_ext (read_out_body av ty) r2 with
          | Ok (((t, oc), sfx), r3) =>
            (* read and ignore the (empty) output witness *)
            match read_varstr31 r3 with
            | Ok (_, r4) => Ok (mkOut av t oc sfx, r4)
            | Err e => Err e
            | Panic p => Panic p
            end
          | Err e => Err e
          | Panic p => Panic p
          end
      | Err e => Err e
      | Panic p => Panic p
      end
    | Err e => Err e
    | Panic p => Panic p
    end.

  Definition out_type_byte (t : typed_output) : N :=
    match t with OutOriginal => OriginalOutputType | OutVote _ => VoteOutputType end.
  Definition write_out_typed (t : typed_output) : bytes :=
    match t with OutOriginal => [] | OutVote vote => write_varstr31 vote end.
  Definition write_out_body (o : tx_output) : bytes :=
    write_out_typed (out_typed o) ++
    (if out_asset_version o =? 1 then
       match out_commit o with Some oc => write_oc oc | None => [] end
     else []).

  (* TxOutput.writeTo *)
  Definition write_output (o : tx_output) : bytes :=
    put_uvarint (out_asset_version o) ++ out_type_byte (out_typed o) ::
    write_ext (write_out_body o) (out_suffix o) ++ write_varstr31 [].

  Definition oc_encodable (oc : output_commitment) : bool :=
    ok63 (oc_amount oc) && ok63 (oc_vm_version oc) && varstr_ok (oc_program oc) &&
    varstr_list_ok (oc_state oc).

  (* asset version 1 with a nil AssetId is a nil dereference in Go: not encodable *)
  Definition output_encodable (o : tx_output) : bool :=
    ok63 (out_asset_version o) &&
    match out_typed o with OutOriginal => true | OutVote v => varstr_ok v end &&
    (if out_asset_version o =? 1 then
       match out_commit o with Some oc => oc_encodable oc | None => false end
     else true) &&
    varstr_ok (write_out_body o ++ out_suffix o).

  (* ------------------------------------------------------------ transactions *)

  (* TxData.readFrom *)
  Definition read_txdata : parser tx_data := fun buf =>
    match read_byte buf with
    | Ok (flags, r1) =>
      if negb (flags =? serRequired) then Err ESerflags
      else
        match read_varint63 r1 with
        | Ok (ver, r2) =>
          match read_varint63 r2 with
          | Ok (tr, r3) =>
            match read_varint31 r3 with
            | Ok (nin, r4) =>
              match read_list read_input nin r4 with
              | Ok (ins, r5) =>
                match read_varint31 r5 with
                | Ok (nout, r6) =>
                  match read_list read_output nout r6 with
                  | Ok (outs, r7) =>
                    Ok (mkTx ver (N.of_nat (length buf - length r7)) tr ins outs, r7)
                  | Err e => Err e
                  | Panic p => Panic p
                  end
                | Err e => Err e
                | Panic p => Panic p
                end
              | Err e => Err e
              | Panic p => Panic p
              end
            | Err e => Err e
            | Panic p => Panic p
            end
          | Err e => Err e
          | Panic p => Panic p
          end
        | Err e => Err e
        | Panic p => Panic p
        end
    | Err e => Err e
    | Panic p => Panic p
    end.

  (* TxData.writeTo(w, serRequired) *)
  Definition write_txdata (t : tx_data) : bytes :=
    serRequired :: put_uvarint (tx_version t) ++ put_uvarint (tx_time_range t) ++
    put_uvarint (len (tx_inputs t)) ++ concat (map write_input (tx_inputs t)) ++
    put_uvarint (len (tx_outputs t)) ++ concat (map write_output (tx_outputs t)).

  Definition txdata_encodable (t : tx_data) : bool :=
    ok63 (tx_version t) && ok63 (tx_time_range t) &&
    ok31 (len (tx_inputs t)) && forallb input_encodable (tx_inputs t) &&
    ok31 (len (tx_outputs t)) && forallb output_encodable (tx_outputs t).

  (* ----------------------------------------------------------------- headers *)

  Fixpoint read_sigs (k : nat) (buf : bytes) : res (list bytes * bytes) :=
    match k with
    | O => Ok ([], buf)
    | S k' =>
      match read_varstr31 buf with
      | Ok (s, r) =>
        match read_sigs k' r with
        | Ok (l, r') => Ok (s :: l, r')
        | Err e => Err e
        | Panic p => Panic p
        end
      | Err e => Err e
      | Panic p => Panic p
      end
    end.

  (* SupLink.readFrom *)
  Definition read_suplink (nv : nat) : parser sup_link := fun buf =>
    match read_varint63 buf with
    | Ok (h, r1) =>
      match read_hash r1 with
      | Ok (hash, r2) =>
        match read_sigs nv r2 with
        | Ok (sigs, r3) => Ok (mkSL h hash sigs, r3)
        | Err e => Err e
        | Panic p => Panic p
        end
      | Err e => Err e
      | Panic p => Panic p
      end
    | Err e => Err e
    | Panic p => Panic p
    end.

  (* SupLinks.readFrom.  A count above the number of unread bytes is refused before the
     slice is made (every sup link takes more than one byte).  (The pinned tree made the
     slice for any 31-bit count first; repaired, see C05.) *)
  Definition read_suplinks (nv : nat) : parser (list sup_link) := fun buf =>
    match read_varint31 buf with
    | Ok (n, r) => if len r <? n then Err EEOF else read_list (read_suplink nv) n r
    | Err e => Err e
    | Panic p => Panic p
    end.

  Definition write_suplink (s : sup_link) : bytes :=
    put_uvarint (sl_height s) ++ sl_hash s ++ concat (map write_varstr31 (sl_sigs s)).
  Definition write_suplinks (l : list sup_link) : bytes :=
    put_uvarint (len l) ++ concat (map write_suplink l).

  Definition suplink_encodable (s : sup_link) : bool :=
    ok63 (sl_height s) && forallb varstr_ok (sl_sigs s).

  (* BlockHeader.readFrom: (serflag, header).  For SerBlockTransactions nothing but the
     flag is read and the receiver is left as it was (the zero header for a fresh value).
     The suffixes of the three extensible strings are dropped. *)
  Definition read_header (nv : nat) : parser (N * block_header) := fun buf =>
    match read_byte buf with
    | Ok (flag, r1) =>
      if flag =? SerBlockTransactions then Ok ((flag, zero_header), r1)
      else if negb ((flag =? SerBlockHeader) || (flag =? SerBlockFull)) then Err ESerflags
      else
        match read_varint63 r1 with
        | Ok (ver, r2) =>
          match read_varint63 r2 with
          | Ok (height, r3) =>
            match read_hash r3 with
            | Ok (prev, r4) =>
              match read_varint63 r4 with
              | Ok (ts, r5) =>
                match read_ext read_hash r5 with
                | Ok ((root, _), r6) =>
                  match read_ext read_varstr31 r6 with
                  | Ok ((wit, _), r7) =>
                    match read_ext (read_suplinks nv) r7 with
                    | Ok ((sls, _), r8) =>
                      Ok ((flag, mkBH ver height prev ts root wit sls), r8)
                    | Err e => Err e
                    | Panic p => Panic p
                    end
                  | Err e => Err e
                  | Panic p => Panic p
                  end
                | Err e => Err e
                | Panic p => Panic p
                end
              | Err e => Err e
              | Panic p => Panic p
              end
            | Err e => Err e
            | Panic p => Panic p
            end
          | Err e => Err e
          | Panic p => Panic p
          end
        | Err e => Err e
        | Panic p => Panic p
        end
    | Err e => Err e
    | Panic p => Panic p
    end.

  (* BlockHeader.writeTo(w, serflags) *)
  Definition write_header (flag : N) (h : block_header) : bytes :=
    if flag =? SerBlockTransactions then [flag]
    else
      flag :: put_uvarint (bh_version h) ++ put_uvarint (bh_height h) ++ bh_prev h ++
      put_uvarint (bh_timestamp h) ++ write_ext (bh_merkle_root h) [] ++
      write_ext (write_varstr31 (bh_witness h)) [] ++
      write_ext (write_suplinks (bh_suplinks h)) [].

  Definition header_encodable (h : block_header) : bool :=
    ok63 (bh_version h) && ok63 (bh_height h) && ok63 (bh_timestamp h) &&
    varstr_ok (bh_merkle_root h) &&
    varstr_ok (bh_witness h) && varstr_ok (write_varstr31 (bh_witness h)) &&
    ok31 (len (bh_suplinks h)) && forallb suplink_encodable (bh_suplinks h) &&
    varstr_ok (write_suplinks (bh_suplinks h)).

  (* ------------------------------------------------------------------ blocks *)

  (* Block.readFrom *)
  Definition read_block (nv : nat) : parser block := fun buf =>
    match read_header nv buf with
    | Ok ((flag, h), r1) =>
      if flag =? SerBlockHeader then Ok (mkBlock h [], r1)
      else
        match read_varint31 r1 with
        | Ok (n, r2) =>
          match read_list read_txdata n r2 with
          | Ok (txs, r3) => Ok (mkBlock h txs, r3)
          | Err e => Err e
          | Panic p => Panic p
          end
        | Err e => Err e
        | Panic p => Panic p
        end
    | Err e => Err e
    | Panic p => Panic p
    end.

  (* Block.writeTo(w, serflags) *)
  Definition write_block (flag : N) (b : block) : bytes :=
    write_header flag (b_header b) ++
    (if flag =? SerBlockHeader then []
     else put_uvarint (len (b_txs b)) ++ concat (map write_txdata (b_txs b))).

  Definition block_encodable (flag : N) (b : block) : bool :=
    (if flag =? SerBlockTransactions then true else header_encodable (b_header b)) &&
    (if flag =? SerBlockHeader then true
     else ok31 (len (b_txs b)) && forallb txdata_encodable (b_txs b)).

End WithAssetID.

(* ---------------------------------------------------------------- hex layer *)

Definition hex_digit (d : N) : N := if d <? 10 then 48 + d else 87 + d.
(* hex.Encode: hextable[v>>4], hextable[v&0x0f] *)
Definition hex_encode (bs : bytes) : bytes :=
  flat_map (fun b => [hex_digit (N.shiftr b 4); hex_digit (N.land b 15)]) bs.

(* reverseHexTable: digits, a-f, A-F *)
Definition from_hex_char (c : N) : option N :=
  if (48 <=? c) && (c <=? 57) then Some (c - 48)
  else if (97 <=? c) && (c <=? 102) then Some (c - 87)
  else if (65 <=? c) && (c <=? 70) then Some (c - 55)
  else None.

(* hex.Decode: an invalid character or an odd length is an error *)
Fixpoint hex_decode (s : bytes) : res bytes :=
  match s with
  | [] => Ok []
  | [_] => Err EHex
  | p :: q :: r =>
    match from_hex_char p, from_hex_char q with
    | Some a, Some b =>
      match hex_decode r with
      | Ok t => Ok (N.lor (N.shiftl a 4) b :: t)
      | Err e => Err e
      | Panic x => Panic x
      end
    | _, _ => Err EHex
    end
  end.

(* ------------------------------------------- MarshalText / UnmarshalText *)

Section TextLayer.
  Variable aid : bytes -> N -> bytes -> bytes.
  Variable nv : nat.

  (* TxData.MarshalText *)
  Definition marshal_tx (t : tx_data) : res bytes :=
    if txdata_encodable aid t then Ok (hex_encode (write_txdata aid t)) else Err EWrite.

  (* TxData.UnmarshalText *)
  Definition unmarshal_tx (text : bytes) : res tx_data :=
    match hex_decode text with
    | Ok b =>
      match read_txdata aid b with
      | Ok (t, r) => match r with [] => Ok t | _ => Err ETrailing end
      | Err e => Err e
      | Panic p => Panic p
      end
    | Err e => Err e
    | Panic p => Panic p
    end.

  (* BlockHeader.MarshalText *)
  Definition marshal_header (h : block_header) : res bytes :=
    if header_encodable h then Ok (hex_encode (write_header SerBlockHeader h)) else Err EWrite.

  (* BlockHeader.UnmarshalText: no trailing check; the transactions-only flag is refused *)
  Definition unmarshal_header (text : bytes) : res block_header :=
    match hex_decode text with
    | Ok b =>
      match read_header nv b with
      | Ok ((flag, h), _) => if flag =? SerBlockTransactions then Err ESerflags else Ok h
      | Err e => Err e
      | Panic p => Panic p
      end
    | Err e => Err e
    | Panic p => Panic p
    end.

  (* Block.MarshalText / MarshalTextForBlockHeader / MarshalTextForTransactions *)
  Definition marshal_block (flag : N) (b : block) : res bytes :=
    if block_encodable aid flag b then Ok (hex_encode (write_block aid flag b)) else Err EWrite.

  (* Block.UnmarshalText *)
  Definition unmarshal_block (text : bytes) : res block :=
    match hex_decode text with
    | Ok bs =>
      match read_block aid nv bs with
      | Ok (b, r) => match r with [] => Ok b | _ => Err ETrailing end
      | Err e => Err e
      | Panic p => Panic p
      end
    | Err e => Err e
    | Panic p => Panic p
    end.
End TextLayer.
