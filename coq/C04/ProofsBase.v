(* C04 — proofs, part 1: uvarint, varint31/63, varstr, lists, extensible strings, hex. *)
From Coq Require Import List NArith Arith Bool Lia.
From Verif Require Import Outcome Cmp.
From C04 Require Import Model.
Import ListNotations.
Open Scope N_scope.

(* ------------------------------------------------------------- bit lemmas *)

Lemma land_low_high x b s : x < 2 ^ s -> N.land x (b * 2 ^ s) = 0.
Proof.
  intros Hx. apply N.bits_inj. intros n. rewrite N.land_spec, N.bits_0.
  destruct (N.lt_ge_cases n s) as [Hn | Hn].
  - rewrite N.mul_pow2_bits_low by assumption. apply andb_false_r.
  - destruct (N.eq_dec x 0) as [-> | Hx0]; [rewrite N.bits_0; reflexivity|].
    rewrite (N.bits_above_log2 x n); [reflexivity|].
    apply N.lt_le_trans with s; [|assumption].
    apply N.log2_lt_pow2; lia.
Qed.

Lemma lor_shiftl_add x b s : x < 2 ^ s -> N.lor x (N.shiftl b s) = x + b * 2 ^ s.
Proof.
  intros Hx. rewrite N.shiftl_mul_pow2.
  pose proof (land_low_high x b s Hx) as H0.
  rewrite (N.add_nocarry_lxor _ _ H0). symmetry. apply N.lxor_lor. exact H0.
Qed.

Definition byte_facts (r : N) : bool :=
  (128 <=? N.lor r 128) && (N.land (N.lor r 128) 127 =? r mod 128) && (N.lor r 128 <? 256)
  && (N.land r 127 =? r mod 128) && (N.shiftr r 4 <? 16) && (N.land r 15 <? 16)
  && (N.lor (N.shiftl (N.shiftr r 4) 4) (N.land r 15) =? r).

Lemma byte_facts_all : forallb byte_facts (map N.of_nat (seq 0 256)) = true.
Proof. vm_compute. reflexivity. Qed.

Lemma byte_facts_ok r : r < 256 -> byte_facts r = true.
Proof.
  intros Hr. pose proof byte_facts_all as H. rewrite forallb_forall in H. apply H.
  rewrite <- (N2Nat.id r). apply in_map. apply in_seq. lia.
Qed.

Lemma cont_byte x :
  let c := N.lor (x mod 256) 128 in
  (c <? 128) = false /\ N.land c 127 = x mod 128 /\ c < 256.
Proof.
  intros c. assert (Hr : x mod 256 < 256) by (apply N.mod_lt; lia).
  pose proof (byte_facts_ok _ Hr) as H. unfold byte_facts in H.
  repeat (apply andb_prop in H; destruct H as [H ?]).
  repeat split.
  - apply N.ltb_ge. apply N.leb_le. exact H.
  - match goal with E : (N.land (N.lor _ 128) 127 =? _) = true |- _ => apply N.eqb_eq in E; unfold c; rewrite E end.
    change 256 with (128 * 2). rewrite N.mod_mul_r by lia.
    rewrite (N.mul_comm 128 ((x / 128) mod 2)).
    rewrite N.mod_add by lia. apply N.mod_mod. lia.
  - apply N.ltb_lt. assumption.
Qed.

(* ---------------------------------------------------------------- uvarint *)

Lemma pow7_succ m : 2 ^ (7 * (N.of_nat (S m) + 1)) = 128 * 2 ^ (7 * (N.of_nat m + 1)).
Proof.
  replace (7 * (N.of_nat (S m) + 1)) with (7 + 7 * (N.of_nat m + 1)) by lia.
  rewrite N.pow_add_r. reflexivity.
Qed.

Lemma read_put_uv : forall m f x n s acc rest,
  (m <= f)%nat -> x < 2 ^ (7 * (N.of_nat m + 1)) -> (S m < n)%nat -> acc < 2 ^ s ->
  read_uv n s acc (put_uv f x ++ rest) = Ok (acc + x * 2 ^ s, rest).
Proof.
  assert (Base : forall f x n s acc rest, x < 128 -> (1 < n)%nat -> acc < 2 ^ s ->
            read_uv n s acc (put_uv f x ++ rest) = Ok (acc + x * 2 ^ s, rest)).
  { intros f x n s acc rest Hx Hn Hacc.
    assert (E : put_uv f x = [x]).
    { destruct f; cbn [put_uv].
      - rewrite N.mod_small by lia. reflexivity.
      - replace (128 <=? x) with false by (symmetry; apply N.leb_gt; lia).
        rewrite N.mod_small by lia. reflexivity. }
    rewrite E. destruct n as [|[|n']]; try lia. cbn [app read_uv].
    replace (x <? 128) with true by (symmetry; apply N.ltb_lt; lia).
    rewrite lor_shiftl_add by assumption. reflexivity. }
  induction m as [|m IH]; intros f x n s acc rest Hmf Hx Hn Hacc.
  - apply Base; [|lia|assumption]. cbn in Hx. exact Hx.
  - destruct (N.lt_ge_cases x 128) as [Hlt | Hge]; [apply Base; [assumption|lia|assumption]|].
    destruct f as [|f']; [lia|]. cbn [put_uv].
    replace (128 <=? x) with true by (symmetry; apply N.leb_le; lia).
    destruct n as [|n']; [lia|]. cbn [app read_uv].
    destruct (cont_byte x) as (C1 & C2 & C3). rewrite C1, C2.
    rewrite N.shiftr_div_pow2. change (2 ^ 7) with 128.
    assert (Hm : x mod 128 < 128) by (apply N.mod_lt; lia).
    rewrite lor_shiftl_add by assumption.
    rewrite pow7_succ in Hx.
    rewrite IH.
    + f_equal. f_equal. rewrite N.pow_add_r. change (2 ^ 7) with 128.
      rewrite (N.div_mod x 128) at 3 by lia. lia.
    + lia.
    + apply N.div_lt_upper_bound; lia.
    + lia.
    + rewrite N.pow_add_r. change (2 ^ 7) with 128. nia.
Qed.

Lemma read_put_uvarint x rest : x < 2 ^ 63 -> read_uvarint (put_uvarint x ++ rest) = Ok (x, rest).
Proof.
  intros Hx. unfold read_uvarint, put_uvarint.
  assert (E : read_uv 10 0 0 (put_uv 10 x ++ rest) = Ok (0 + x * 2 ^ 0, rest)).
  { apply (read_put_uv 8 10 x 10 0 0 rest); [lia | exact Hx | lia | cbn; lia]. }
  rewrite E. f_equal. f_equal. cbn. lia.
Qed.

Lemma read_put_varint63 x rest : ok63 x = true -> read_varint63 (put_uvarint x ++ rest) = Ok (x, rest).
Proof.
  unfold ok63, max_int63. intros H. apply N.leb_le in H. unfold read_varint63.
  rewrite read_put_uvarint by (change (2 ^ 63) with 9223372036854775808; lia).
  replace (max_int63 <? x) with false; [reflexivity|].
  symmetry. apply N.ltb_ge. exact H.
Qed.

Lemma read_put_varint31 x rest : ok31 x = true -> read_varint31 (put_uvarint x ++ rest) = Ok (x, rest).
Proof.
  unfold ok31, max_int31. intros H. apply N.leb_le in H. unfold read_varint31.
  rewrite read_put_uvarint by (change (2 ^ 63) with 9223372036854775808; lia).
  replace (max_int31 <? x) with false; [reflexivity|].
  symmetry. apply N.ltb_ge. exact H.
Qed.

Lemma put_uv_nonempty f x : (1 <= length (put_uv f x))%nat.
Proof. destruct f; cbn [put_uv]; [cbn; lia|]. destruct (128 <=? x); cbn; lia. Qed.
Lemma put_uvarint_nonempty x : (1 <= length (put_uvarint x))%nat.
Proof. apply put_uv_nonempty. Qed.

(* ----------------------------------------------------------------- varstr *)

Lemma firstn_len_app {A} (s r : list A) : firstn (length s) (s ++ r) = s.
Proof. rewrite firstn_app, Nat.sub_diag, firstn_all. cbn. apply app_nil_r. Qed.
Lemma skipn_len_app {A} (s r : list A) : skipn (length s) (s ++ r) = r.
Proof. rewrite skipn_app, Nat.sub_diag, skipn_all. reflexivity. Qed.

Lemma read_write_varstr31 s rest :
  varstr_ok s = true -> read_varstr31 (write_varstr31 s ++ rest) = Ok (s, rest).
Proof.
  unfold varstr_ok, write_varstr31, read_varstr31. intros H.
  rewrite <- app_assoc, read_put_varint31 by assumption.
  destruct s as [|b s'].
  - reflexivity.
  - replace (len (b :: s') =? 0) with false by (symmetry; apply N.eqb_neq; unfold len; cbn [length]; lia).
    replace (len ((b :: s') ++ rest) <? len (b :: s')) with false.
    + unfold len. rewrite Nat2N.id, firstn_len_app, skipn_len_app. reflexivity.
    + symmetry. apply N.ltb_ge. unfold len. rewrite app_length. lia.
Qed.

Lemma write_varstr31_nonempty s : (1 <= length (write_varstr31 s))%nat.
Proof. unfold write_varstr31. rewrite app_length. pose proof (put_uvarint_nonempty (len s)). lia. Qed.

(* ------------------------------------------------------------------ lists *)

Lemma concat_map_len {A} (e : A -> bytes) (l : list A) :
  (forall a, In a l -> (1 <= length (e a))%nat) -> (length l <= length (concat (map e l)))%nat.
Proof.
  induction l as [|a l IH]; intros H; cbn; [lia|].
  rewrite app_length. pose proof (H a (or_introl eq_refl)).
  assert (length l <= length (concat (map e l)))%nat by (apply IH; intros; apply H; right; assumption).
  lia.
Qed.

Lemma read_many_rt {A} (p : parser A) (e : A -> bytes) (l : list A) :
  (forall a rest, In a l -> p (e a ++ rest) = Ok (a, rest)) ->
  forall fuel rest, (length l <= fuel)%nat ->
  read_many p fuel (len l) (concat (map e l) ++ rest) = Ok (l, rest).
Proof.
  induction l as [|a l IH]; intros Hp fuel rest Hf.
  - destruct fuel; reflexivity.
  - destruct fuel as [|f]; [cbn in Hf; lia|].
    cbn [read_many map concat].
    replace (len (a :: l) =? 0) with false by (symmetry; apply N.eqb_neq; unfold len; cbn [length]; lia).
    rewrite <- app_assoc, Hp by (left; reflexivity).
    replace (len (a :: l) - 1) with (len l) by (unfold len; cbn [length]; lia).
    rewrite IH; [reflexivity| |cbn in Hf; lia].
    intros; apply Hp; right; assumption.
Qed.

Lemma read_list_rt {A} (p : parser A) (e : A -> bytes) (l : list A) rest :
  (forall a rest, In a l -> p (e a ++ rest) = Ok (a, rest)) ->
  (forall a, In a l -> (1 <= length (e a))%nat) ->
  read_list p (len l) (concat (map e l) ++ rest) = Ok (l, rest).
Proof.
  intros Hp Hne. unfold read_list. apply read_many_rt; [assumption|].
  rewrite app_length. pose proof (concat_map_len e l Hne). lia.
Qed.

Lemma forallb_In {A} (f : A -> bool) l a : forallb f l = true -> In a l -> f a = true.
Proof. intros H Hin. rewrite forallb_forall in H. apply H. assumption. Qed.

Lemma read_write_varstr_list l rest :
  varstr_list_ok l = true -> read_varstr_list (write_varstr_list l ++ rest) = Ok (l, rest).
Proof.
  unfold varstr_list_ok, write_varstr_list, read_varstr_list. intros H.
  apply andb_prop in H. destruct H as [H1 H2].
  rewrite <- app_assoc, read_put_varint31 by assumption.
  apply read_list_rt.
  - intros a r Hin. apply read_write_varstr31. eapply forallb_In; eassumption.
  - intros; apply write_varstr31_nonempty.
Qed.

(* ---------------------------------------------------- extensible strings *)

Lemma read_write_ext {A} (f : parser A) (content suffix : bytes) (a : A) rest :
  varstr_ok (content ++ suffix) = true ->
  f (content ++ suffix) = Ok (a, suffix) ->
  read_ext f (write_ext content suffix ++ rest) = Ok ((a, suffix), rest).
Proof.
  intros Hok Hf. unfold read_ext, write_ext.
  rewrite read_write_varstr31 by assumption. rewrite Hf. reflexivity.
Qed.

(* -------------------------------------------------------------------- hex *)

Definition is_byte (b : N) : Prop := b < 256.
Definition bytes_ok (s : bytes) : Prop := Forall is_byte s.

Definition nibble_facts (d : N) : bool :=
  match from_hex_char (hex_digit d) with Some x => x =? d | None => false end.
Lemma nibble_facts_all : forallb nibble_facts (map N.of_nat (seq 0 16)) = true.
Proof. vm_compute. reflexivity. Qed.
Lemma from_hex_digit d : d < 16 -> from_hex_char (hex_digit d) = Some d.
Proof.
  intros Hd. pose proof nibble_facts_all as H. rewrite forallb_forall in H.
  specialize (H d). unfold nibble_facts in H.
  destruct (from_hex_char (hex_digit d)) as [x|].
  - f_equal. apply N.eqb_eq. apply H. rewrite <- (N2Nat.id d). apply in_map, in_seq. lia.
  - discriminate H. rewrite <- (N2Nat.id d). apply in_map, in_seq. lia.
Qed.

Lemma hex_roundtrip s : bytes_ok s -> hex_decode (hex_encode s) = Ok s.
Proof.
  induction 1 as [|b s Hb Hs IH]; [reflexivity|].
  cbn [hex_encode flat_map app]. fold (hex_encode s).
  cbn [hex_decode].
  pose proof (byte_facts_ok b Hb) as F. unfold byte_facts in F.
  repeat (apply andb_prop in F; destruct F as [F ?]).
  repeat match goal with E : (_ <? _) = true |- _ => apply N.ltb_lt in E end.
  repeat match goal with E : (_ =? _) = true |- _ => apply N.eqb_eq in E end.
  rewrite !from_hex_digit by assumption. rewrite IH.
  f_equal. f_equal. assumption.
Qed.

Lemma hex_encode_length s : length (hex_encode s) = (2 * length s)%nat.
Proof. induction s as [|b s IH]; [reflexivity|]. cbn [hex_encode flat_map app length]. fold (hex_encode s). lia. Qed.

(* byte-ness of the primitive writers *)
Lemma put_uv_bytes f x : bytes_ok (put_uv f x).
Proof.
  revert x. induction f as [|f IH]; intros x; cbn [put_uv].
  - constructor; [|constructor]. apply N.mod_lt. lia.
  - destruct (128 <=? x).
    + constructor; [|apply IH]. apply (cont_byte x).
    + constructor; [|constructor]. apply N.mod_lt. lia.
Qed.
Lemma put_uvarint_bytes x : bytes_ok (put_uvarint x).
Proof. apply put_uv_bytes. Qed.

Lemma bytes_ok_app a b : bytes_ok a -> bytes_ok b -> bytes_ok (a ++ b).
Proof. intros; apply Forall_app; split; assumption. Qed.
Lemma bytes_ok_cons x b : is_byte x -> bytes_ok b -> bytes_ok (x :: b).
Proof. intros; constructor; assumption. Qed.
Lemma bytes_ok_nil : bytes_ok [].
Proof. constructor. Qed.
Lemma bytes_ok_concat {A} (e : A -> bytes) l :
  (forall a, In a l -> bytes_ok (e a)) -> bytes_ok (concat (map e l)).
Proof.
  induction l as [|a l IH]; intros H; cbn; [constructor|].
  apply bytes_ok_app; [apply H; left; reflexivity | apply IH; intros; apply H; right; assumption].
Qed.
Lemma write_varstr31_bytes s : bytes_ok s -> bytes_ok (write_varstr31 s).
Proof. intros; apply bytes_ok_app; [apply put_uvarint_bytes | assumption]. Qed.
Lemma write_varstr_list_bytes l : Forall bytes_ok l -> bytes_ok (write_varstr_list l).
Proof.
  intros H. apply bytes_ok_app; [apply put_uvarint_bytes|].
  apply bytes_ok_concat. intros a Hin. apply write_varstr31_bytes.
  rewrite Forall_forall in H. apply H. assumption.
Qed.
Lemma write_ext_bytes c s : bytes_ok c -> bytes_ok s -> bytes_ok (write_ext c s).
Proof. intros; apply write_varstr31_bytes, bytes_ok_app; assumption. Qed.
