(* C01 — Validated transactions conserve value and report the true fee.
   PROPERTY THEOREMS ONLY.

   Model (C01/Model.v): [validate cs vm perm b t] mirrors validation.ValidateTx on
   types.MapTx(t) at the value level — the mux parity check with the GENERATED
   checked arithmetic (VerifGen.Checked = math/checked/checked.go), the > MaxInt64
   guards, ErrNoSource / ErrUnbalanced / ErrOverflow, GasState.setGas, the coinbase
   source computed in uint64 — and [fee t] mirrors TxData.Fee() with its uint64
   arithmetic.  Every theorem holds
     - for EVERY answer of the VM ([vm]: input index, gas limit -> failure / gas left),
     - for EVERY iteration order of the Go map `parity` ([perm], any permutation),
     - for EVERY value of the consensus constants ([cs]),
     - for all transactions with any number of inputs/outputs and amounts over the
       whole uint64 range ([wf_tx]: amounts are uint64 values; amounts above 2^63-1
       are shown REJECTED, not assumed away: c01_amounts_fit).
   Sums ([in_sum], [out_sum], [out_total], C01/Proofs.v) are exact sums over Z.
   [in_sum a t] ranges over the spend, issuance and veto inputs; [out_sum a t] over
   all outputs (original, vote, retirement).

   Hypothesis [b_version b = 1 \/ t_outputs t <> []]: the block has version 1 (the
   only version ValidateBlockHeader admits, hence every block a node validates against)
   or the transaction has an output.  (A version-2 transaction with no outputs in a
   version-2 block skips the mux check: Example unversioned_skips_mux.)

   Open finding (class coinbase-mixed-fee): a transaction that mixes a coinbase input
   with other inputs is accepted with GasState.BTMValue <> TxData.Fee().  The fee
   clause in full is [C01_full]; it is refuted on that class
   (C01_refuted_coinbase_mixed) and proved outside it (C01_holds_outside).
   Conservation of every non-BTM asset (c01_conservation) holds for ALL validated
   transactions, that class included. *)
From Coq Require Import ZArith NArith List Bool.
From Verif Require Import Outcome GoInt.
From C01 Require Import Model Proofs.
Import ListNotations.
Open Scope Z_scope.

(* every non-BTM asset: total in = total out, exactly *)
Theorem c01_conservation : forall cs vm perm, is_order perm -> forall b t g,
  wf_tx t -> b_version b = 1 \/ t_outputs t <> [] ->
  validate cs vm perm b t = Ok g ->
  forall a, a <> BTM -> in_sum a t = out_sum a t.
Proof. exact conservation. Qed.
Print Assumptions c01_conservation.

(* BTM is never created by a transaction without a coinbase input *)
Theorem c01_btm : forall cs vm perm, is_order perm -> forall b t g,
  wf_tx t -> b_version b = 1 \/ t_outputs t <> [] ->
  validate cs vm perm b t = Ok g -> has_coinbase t = false ->
  out_sum BTM t <= in_sum BTM t.
Proof. exact btm_not_created. Qed.
Print Assumptions c01_btm.

(* the reported fee is the exact BTM difference and equals TxData.Fee(): the
   wrap-around and the "inputs <= outputs -> 0" branch of Fee() are unreachable *)
Theorem c01_fee : forall cs vm perm, is_order perm -> forall b t g,
  wf_tx t -> b_version b = 1 \/ t_outputs t <> [] ->
  validate cs vm perm b t = Ok g -> has_coinbase t = false ->
  BTMValue g = in_sum BTM t - out_sum BTM t /\ fee t = BTMValue g.
Proof. exact fee_thm. Qed.
Print Assumptions c01_fee.

(* a coinbase transaction (the coinbase is its only input): both fee computations are 0,
   only BTM is created, and the uint64 total of the outputs did not wrap (a wrapped
   total cannot validate) *)
Theorem c01_coinbase : forall cs vm perm, is_order perm -> forall b t g c,
  wf_tx t -> b_version b = 1 \/ t_outputs t <> [] ->
  validate cs vm perm b t = Ok g -> t_inputs t = [c] -> is_cb c = true ->
  BTMValue g = 0 /\ fee t = 0 /\
  (forall o, In o (t_outputs t) -> o_asset o = BTM) /\
  out_total t <= MaxInt64 /\ sum_outputs_u64 (t_outputs t) = out_total t.
Proof. exact coinbase_thm. Qed.
Print Assumptions c01_coinbase.

(* amounts above 2^63-1 never pass: every input and output amount of a validated
   transaction, and every per-asset input total, is at most MaxInt64 *)
Theorem c01_amounts_fit : forall cs vm perm, is_order perm -> forall b t g,
  wf_tx t -> b_version b = 1 \/ t_outputs t <> [] ->
  validate cs vm perm b t = Ok g ->
  (forall i, In i (t_inputs t) -> is_cb i = false -> i_amount i <= MaxInt64) /\
  (forall o, In o (t_outputs t) -> o_amount o <= MaxInt64) /\
  (forall a, in_sum a t <= MaxInt64).
Proof. exact amounts_fit. Qed.
Print Assumptions c01_amounts_fit.

(* ---- the fee clause in full, the open finding, and the clause outside it ---- *)

(* [C01_full] (C01/Proofs.v):
     forall cs vm perm, is_order perm -> forall b t g, wf_tx t -> b_version b = 1 ->
       validate cs vm perm b t = Ok g -> BTMValue g = fee t *)
Theorem C01_refuted_coinbase_mixed : ~ C01_full.
Proof. exact refuted_coinbase_mixed. Qed.
Print Assumptions C01_refuted_coinbase_mixed.

Theorem C01_holds_outside : forall cs vm perm, is_order perm -> forall b t g,
  wf_tx t -> b_version b = 1 -> validate cs vm perm b t = Ok g ->
  mixed_coinbase t = false ->
  BTMValue g = fee t.
Proof. exact holds_outside. Qed.
Print Assumptions C01_holds_outside.

(* ---- The gas bookkeeping of the model is the code's (translator tools/gofrag) -----------------

   VerifGen.FragValidation.GasState_{setGas, chargeStorageGas, updateUsage} are GENERATED from the
   methods of GasState in protocol/validation/tx.go on every run (state = the struct's four
   fields; result = (error tag, state after the call); None = panic); VerifGen.FragConsensus.
   consensus_* are the constants of consensus/general.go.  C01/Tie.v: [st_of]/[gas_of] convert
   between the model's [gas] and the generated record, [res_of] maps a generated result to the
   model's [res] (ErrGasCalculate -> EGasCalc, ErrOverGasCredit -> EOther), [code_consts cs]: the
   model's constants are those of the code, [i64 x]: x is an int64 value, [st_ok g]: the fields
   of g are values of their Go types. *)
From Verif Require Import GoFrag.
From VerifGen Require Import Checked FragConsensus FragValidation.
From C01 Require Import Tie.

(* TIE: the three methods are the hand-written definitions the model [validate] is built from *)
Theorem c01_tie_setGas : forall cs g btm size, code_consts cs ->
  res_of (GasState_setGas (st_of g) btm size) = set_gas cs g btm size.
Proof. exact tie_set_gas. Qed.
Print Assumptions c01_tie_setGas.

Theorem c01_tie_chargeStorageGas : forall g,
  res_of (GasState_chargeStorageGas (st_of g)) = charge_storage g.
Proof. exact tie_charge_storage. Qed.
Print Assumptions c01_tie_chargeStorageGas.

Theorem c01_tie_updateUsage : forall g gl,
  res_of (GasState_updateUsage (st_of g) gl) = update_usage g gl.
Proof. exact tie_update_usage. Qed.
Print Assumptions c01_tie_updateUsage.

(* the constants the witnesses of C01 are evaluated with are the constants of the code *)
Theorem c01_tie_consts : code_consts real_consts.
Proof. exact real_consts_are_code_consts. Qed.
Print Assumptions c01_tie_consts.

(* SPEC of the generated setGas, all int64 inputs: it fails exactly when the BTM amount is negative or
   txSize * StorageGasRate leaves int64; BTMValue = the amount, GasLeft = min (amount / VMGasRate)
   MaxGasAmount, StorageGas = the exact product (0 on the overflow path), GasUsed untouched *)
Theorem c01_code_setGas : forall g btm size, i64 btm -> i64 size ->
  GasState_setGas g btm size =
  if btm <? 0 then Some (Some ErrGasCalculate, g)
  else
    let gl := Z.min (btm / consensus_VMGasRate) consensus_MaxGasAmount in
    if in_range I64 (size * consensus_StorageGasRate)
    then Some (None, mkGasState btm gl (GasState_GasUsed g) (size * consensus_StorageGasRate))
    else Some (Some ErrGasCalculate, mkGasState btm gl (GasState_GasUsed g) 0).
Proof. exact setGas_spec. Qed.
Print Assumptions c01_code_setGas.

(* SPEC of chargeStorageGas: GasLeft -= StorageGas, GasUsed += StorageGas, both exact; it fails exactly
   when GasLeft - StorageGas leaves int64 or is negative, or GasUsed + StorageGas leaves int64 *)
Theorem c01_code_chargeStorageGas : forall g, st_ok g ->
  let b := GasState_BTMValue g in
  let l := GasState_GasLeft g in let u := GasState_GasUsed g in let s := GasState_StorageGas g in
  GasState_chargeStorageGas g =
  if negb (in_range I64 (l - s)) then Some (Some ErrGasCalculate, mkGasState b 0 u s)
  else if l - s <? 0 then Some (Some ErrGasCalculate, mkGasState b (l - s) u s)
  else if in_range I64 (u + s) then Some (None, mkGasState b (l - s) (u + s) s)
  else Some (Some ErrGasCalculate, mkGasState b (l - s) 0 s).
Proof. exact chargeStorageGas_spec. Qed.
Print Assumptions c01_code_chargeStorageGas.

(* SPEC of updateUsage: ErrGasCalculate (state untouched) exactly when gasLeft < 0 or GasLeft - gasLeft
   leaves int64; otherwise GasLeft' = gasLeft, GasUsed' = GasUsed + (GasLeft - gasLeft) (an UNCHECKED
   int64 addition: it wraps) and ErrOverGasCredit exactly when StorageGas > gasLeft *)
Theorem c01_code_updateUsage : forall g gasLeft, st_ok g -> i64 gasLeft ->
  let b := GasState_BTMValue g in
  let l := GasState_GasLeft g in let u := GasState_GasUsed g in let s := GasState_StorageGas g in
  GasState_updateUsage g gasLeft =
  if (gasLeft <? 0) || negb (in_range I64 (l - gasLeft)) then Some (Some ErrGasCalculate, g)
  else
    let g' := mkGasState b gasLeft (wrap I64 (u + (l - gasLeft))) s in
    if s >? gasLeft then Some (Some ErrOverGasCredit, g') else Some (None, g').
Proof. exact updateUsage_spec. Qed.
Print Assumptions c01_code_updateUsage.

(* ... and without wrap-around it conserves GasLeft + GasUsed *)
Theorem c01_code_updateUsage_conserves : forall g gasLeft e g', st_ok g -> i64 gasLeft ->
  i64 (GasState_GasUsed g + (GasState_GasLeft g - gasLeft)) ->
  GasState_updateUsage g gasLeft = Some (e, g') -> e <> Some ErrGasCalculate ->
  GasState_GasLeft g' = gasLeft /\
  GasState_GasUsed g' = GasState_GasUsed g + (GasState_GasLeft g - gasLeft) /\
  GasState_GasLeft g' + GasState_GasUsed g' = GasState_GasLeft g + GasState_GasUsed g /\
  GasState_StorageGas g' = GasState_StorageGas g /\ GasState_BTMValue g' = GasState_BTMValue g /\
  (e = Some ErrOverGasCredit <-> GasState_StorageGas g > gasLeft).
Proof. exact updateUsage_conserves. Qed.
Print Assumptions c01_code_updateUsage_conserves.
