(* C01 — Validated transactions conserve value and report the true fee.
   PROPERTY THEOREMS ONLY.

   Model (C01/Model.v): [validate cs vm perm b t] mirrors validation.ValidateTx on
   types.MapTx(t) at the value level — the mux parity check with the GENERATED
   checked arithmetic (VerifGen.Checked = math/checked/checked.go), the > MaxInt64
   guards, ErrNoSource / ErrUnbalanced / ErrOverflow, GasState.setGas, the coinbase
   source computed in uint64 — and [fee t] mirrors TxData.Fee() with its uint64
   arithmetic.  Every theorem holds
     - for EVERY answer of the VM ([vm]: input index, gas limit -> failure / gas left),
     - for EVERY iteration order of the Go map `parity` ([perm], any permutation),
     - for EVERY value of the consensus constants ([cs]),
     - for all transactions with any number of inputs/outputs and amounts over the
       whole uint64 range ([wf_tx]: amounts are uint64 values; amounts above 2^63-1
       are shown REJECTED, not assumed away: c01_amounts_fit).
   Sums ([in_sum], [out_sum], [out_total], C01/Proofs.v) are exact sums over Z.
   [in_sum a t] ranges over the spend, issuance and veto inputs; [out_sum a t] over
   all outputs (original, vote, retirement).

   Hypothesis [b_version b = 1 \/ t_outputs t <> []]: the block has version 1 (the
   only version ValidateBlockHeader admits, hence every block a node validates against)
   or the transaction has an output.  (A version-2 transaction with no outputs in a
   version-2 block skips the mux check: Example unversioned_skips_mux.)

   Open finding (class coinbase-mixed-fee): a transaction that mixes a coinbase input
   with other inputs is accepted with GasState.BTMValue <> TxData.Fee().  The fee
   clause in full is [C01_full]; it is refuted on that class
   (C01_refuted_coinbase_mixed) and proved outside it (C01_holds_outside).
   Conservation of every non-BTM asset (c01_conservation) holds for ALL validated
   transactions, that class included. *)
From Coq Require Import ZArith NArith List Bool.
From Verif Require Import Outcome GoInt.
From C01 Require Import Model Proofs.
Import ListNotations.
Open Scope Z_scope.

(* every non-BTM asset: total in = total out, exactly *)
Theorem c01_conservation : forall cs vm perm, is_order perm -> forall b t g,
  wf_tx t -> b_version b = 1 \/ t_outputs t <> [] ->
  validate cs vm perm b t = Ok g ->
  forall a, a <> BTM -> in_sum a t = out_sum a t.
Proof. exact conservation. Qed.
Print Assumptions c01_conservation.

(* BTM is never created by a transaction without a coinbase input *)
Theorem c01_btm : forall cs vm perm, is_order perm -> forall b t g,
  wf_tx t -> b_version b = 1 \/ t_outputs t <> [] ->
  validate cs vm perm b t = Ok g -> has_coinbase t = false ->
  out_sum BTM t <= in_sum BTM t.
Proof. exact btm_not_created. Qed.
Print Assumptions c01_btm.

(* the reported fee is the exact BTM difference and equals TxData.Fee(): the
   wrap-around and the "inputs <= outputs -> 0" branch of Fee() are unreachable *)
Theorem c01_fee : forall cs vm perm, is_order perm -> forall b t g,
  wf_tx t -> b_version b = 1 \/ t_outputs t <> [] ->
  validate cs vm perm b t = Ok g -> has_coinbase t = false ->
  BTMValue g = in_sum BTM t - out_sum BTM t /\ fee t = BTMValue g.
Proof. exact fee_thm. Qed.
Print Assumptions c01_fee.

(* a coinbase transaction (the coinbase is its only input): both fee computations are 0,
   only BTM is created, and the uint64 total of the outputs did not wrap (a wrapped
   total cannot validate) *)
Theorem c01_coinbase : forall cs vm perm, is_order perm -> forall b t g c,
  wf_tx t -> b_version b = 1 \/ t_outputs t <> [] ->
  validate cs vm perm b t = Ok g -> t_inputs t = [c] -> is_cb c = true ->
  BTMValue g = 0 /\ fee t = 0 /\
  (forall o, In o (t_outputs t) -> o_asset o = BTM) /\
  out_total t <= MaxInt64 /\ sum_outputs_u64 (t_outputs t) = out_total t.
Proof. exact coinbase_thm. Qed.
Print Assumptions c01_coinbase.

(* amounts above 2^63-1 never pass: every input and output amount of a validated
   transaction, and every per-asset input total, is at most MaxInt64 *)
Theorem c01_amounts_fit : forall cs vm perm, is_order perm -> forall b t g,
  wf_tx t -> b_version b = 1 \/ t_outputs t <> [] ->
  validate cs vm perm b t = Ok g ->
  (forall i, In i (t_inputs t) -> is_cb i = false -> i_amount i <= MaxInt64) /\
  (forall o, In o (t_outputs t) -> o_amount o <= MaxInt64) /\
  (forall a, in_sum a t <= MaxInt64).
Proof. exact amounts_fit. Qed.
Print Assumptions c01_amounts_fit.

(* ---- the fee clause in full, the open finding, and the clause outside it ---- *)

(* [C01_full] (C01/Proofs.v):
     forall cs vm perm, is_order perm -> forall b t g, wf_tx t -> b_version b = 1 ->
       validate cs vm perm b t = Ok g -> BTMValue g = fee t *)
Theorem C01_refuted_coinbase_mixed : ~ C01_full.
Proof. exact refuted_coinbase_mixed. Qed.
Print Assumptions C01_refuted_coinbase_mixed.

Theorem C01_holds_outside : forall cs vm perm, is_order perm -> forall b t g,
  wf_tx t -> b_version b = 1 -> validate cs vm perm b t = Ok g ->
  mixed_coinbase t = false ->
  BTMValue g = fee t.
Proof. exact holds_outside. Qed.
Print Assumptions C01_holds_outside.
