(* C01 — executable model of transaction validation at the VALUE level.
   Mirrors, in this order:
     protocol/bc/types/map.go        MapTx: mux sources = inputs in order (asset, amount),
                                     a coinbase input's source is BTM with amount
                                     (sum of ALL output amounts) computed in uint64;
                                     mux destinations = outputs in order;
     protocol/validation/tx.go       ValidateTx, checkValid for TxHeader / Mux /
                                     outputs / inputs, GasState.setGas / updateUsage /
                                     chargeStorageGas;
     protocol/bc/types/transaction.go  TxData.Fee with its uint64 arithmetic.
   The checked arithmetic is VerifGen.Checked, the translation of
   math/checked/checked.go regenerated from the source on every run.

   Not modelled as computation but as parameters (the theorems hold for every value):
     vm     the answer of vm.Verify for the program of input #i started with a gas
            limit (None = failure, Some g = success with g gas left);
     perm   the iteration order of the Go map `parity`;
     consts VMGasRate, MaxGasAmount, StorageGasRate, MinVoteOutputAmount,
            CoinbaseArbitrarySizeLimit.
   Entry identifiers are opaque labels (only equality is used: checkDoubleSpend).
   Structural checks that MapTx satisfies by construction (references, positions,
   value equality between an entry and its mux source/destination, the issuance
   asset id) are not re-evaluated; the ones that can fail on a MapTx result
   (coinbase placement, vote key length, ...) are.  NO PROOFS HERE. *)
From Coq Require Import ZArith NArith List Bool.
From Verif Require Import Outcome GoInt.
From VerifGen Require Import Checked.
Import ListNotations.
Open Scope Z_scope.

Definition asset := N.
Definition BTM : asset := 0%N.            (* label of consensus.BTMAssetID *)
Definition MaxInt64 : Z := 2^63 - 1.

Inductive ikind := KSpend | KIssue | KVeto | KCoinbase.
Inductive okind := KOrig | KRetire | KVote.

(* i_aux: length of Vote for a veto input, length of Arbitrary for a coinbase input.
   i_asset / i_amount are meaningless for a coinbase input (AssetID() is the zero
   asset id and Amount() is 0 there). *)
Record input := mkIn { i_kind : ikind; i_asset : asset; i_amount : Z; i_id : N; i_aux : Z }.
(* o_aux: length of Vote for a vote output *)
Record output := mkOut { o_kind : okind; o_asset : asset; o_amount : Z; o_aux : Z }.
Record tx := mkT { t_version : Z; t_size : Z; t_timerange : Z;
                   t_inputs : list input; t_outputs : list output }.
(* b_first: block.Transactions is non-empty and its first element is this tx *)
Record blk := mkB { b_version : Z; b_height : Z; b_first : bool }.
Record consts := mkC { c_gasrate : Z; c_maxgas : Z; c_storagerate : Z; c_minvote : Z; c_arblimit : Z }.

Record gas := mkG { BTMValue : Z; GasLeft : Z; GasUsed : Z; StorageGas : Z }.
Definition gas0 : gas := mkG 0 0 0 0.

Inductive errclass := EOverflow | ENoSource | EUnbalanced | EGasCalc | EOther.
Definition res := outcome errclass gas.

Definition is_cb (i : input) : bool := match i_kind i with KCoinbase => true | _ => false end.
Definition is_vote (o : output) : bool := match o_kind o with KVote => true | _ => false end.

(* ---- MapTx at the value level ---- *)

(* mapCoinbaseInput: var totalAmount uint64; totalAmount += output.Amount *)
Definition sum_outputs_u64 (outs : list output) : Z :=
  fold_left (fun acc o => wrap U64 (acc + o_amount o)) outs 0.

Definition mux_source (t : tx) (i : input) : asset * Z :=
  if is_cb i then (BTM, sum_outputs_u64 (t_outputs t)) else (i_asset i, i_amount i).
Definition mux_sources (t : tx) : list (asset * Z) := map (mux_source t) (t_inputs t).
Definition mux_dests (t : tx) : list (asset * Z) :=
  map (fun o => (o_asset o, o_amount o)) (t_outputs t).

(* ---- the parity map: association list with unique keys ---- *)
Definition pmap := list (asset * Z).
Fixpoint plookup (a : asset) (m : pmap) : option Z :=
  match m with
  | [] => None
  | (k, v) :: r => if N.eqb k a then Some v else plookup a r
  end.
Fixpoint pset (a : asset) (v : Z) (m : pmap) : pmap :=
  match m with
  | [] => [(a, v)]
  | (k, x) :: r => if N.eqb k a then (k, v) :: r else (k, x) :: pset a v r
  end.

(* for i, src := range e.Sources *)
Fixpoint add_sources (srcs : list (asset * Z)) (m : pmap) : outcome errclass pmap :=
  match srcs with
  | [] => Ok m
  | (a, amt) :: r =>
      if amt >? MaxInt64 then Err EOverflow else
      let cur := match plookup a m with Some v => v | None => 0 end in
      match AddInt64 cur (wrap I64 amt) with
      | Some (s, true) => add_sources r (pset a s m)
      | Some (_, false) => Err EOverflow
      | None => Panic DivZero
      end
  end.

(* for i, dest := range e.WitnessDestinations *)
Fixpoint sub_dests (dsts : list (asset * Z)) (m : pmap) : outcome errclass pmap :=
  match dsts with
  | [] => Ok m
  | (a, amt) :: r =>
      match plookup a m with
      | None => Err ENoSource
      | Some s =>
          if amt >? MaxInt64 then Err EOverflow else
          match SubInt64 s (wrap I64 amt) with
          | Some (d, true) => sub_dests r (pset a d m)
          | Some (_, false) => Err EOverflow
          | None => Panic DivZero
          end
      end
  end.

(* GasState.setGas *)
Definition set_gas (cs : consts) (g : gas) (btm size : Z) : res :=
  if btm <? 0 then Err EGasCalc else
  match DivInt64 btm (c_gasrate cs) with
  | Some (q, true) =>
      let gl := if q >? c_maxgas cs then c_maxgas cs else q in
      match MulInt64 size (c_storagerate cs) with
      | Some (sg, true) => Ok (mkG (wrap U64 btm) gl (GasUsed g) sg)
      | Some (_, false) => Err EGasCalc
      | None => Panic DivZero
      end
  | Some (_, false) => Err EGasCalc
  | None => Panic DivZero
  end.

(* for assetID, amount := range parity — [l] is the map in iteration order *)
Fixpoint check_parity (cs : consts) (size : Z) (l : pmap) (g : gas) : res :=
  match l with
  | [] => Ok g
  | (a, amt) :: r =>
      if N.eqb a BTM then
        match set_gas cs g amt size with
        | Ok g' => check_parity cs size r g'
        | e => e
        end
      else if amt =? 0 then check_parity cs size r g
      else Err EUnbalanced
  end.

(* GasState.updateUsage *)
Definition update_usage (g : gas) (gl : Z) : res :=
  if gl <? 0 then Err EGasCalc else
  match SubInt64 (GasLeft g) gl with
  | Some (used, true) =>
      let g' := mkG (BTMValue g) gl (wrap I64 (GasUsed g + used)) (StorageGas g) in
      if StorageGas g' >? GasLeft g' then Err EOther else Ok g'
  | Some (_, false) => Err EGasCalc
  | None => Panic DivZero
  end.

(* GasState.chargeStorageGas *)
Definition charge_storage (g : gas) : res :=
  match SubInt64 (GasLeft g) (StorageGas g) with
  | Some (gl, ok) =>
      if negb ok || (gl <? 0) then Err EGasCalc else
      match AddInt64 (GasUsed g) (StorageGas g) with
      | Some (gu, true) => Ok (mkG (BTMValue g) gl gu (StorageGas g))
      | Some (_, false) => Err EGasCalc
      | None => Panic DivZero
      end
  | None => Panic DivZero
  end.

Section Validate.
  Variable cs : consts.
  Variable vm : nat -> Z -> option Z.
  Variable perm : pmap -> pmap.

  Definition run_vm (idx : nat) (g : gas) : res :=
    match vm idx (GasLeft g) with
    | None => Err EOther
    | Some gl => update_usage g gl
    end.

  (* checkValidSrc of mux source #idx = checkValid of the input entry.
     [later_cb]: a coinbase input follows in the list (then this coinbase entry never
     got its WitnessDestination: mapCoinbaseInput overwrites mh.coinbase and initMux
     sets the destination of the last one only; checkValid rejects the nil destination
     with ErrMissingField — before repair a1b2e3d5 it dereferenced it and panicked). *)
  Definition check_input (b : blk) (t : tx) (idx : nat) (i : input) (later_cb : bool) (g : gas) : res :=
    match i_kind i with
    | KCoinbase =>
        if negb (b_first b) then Err EOther                       (* ErrWrongCoinbaseTransaction *)
        else if later_cb then Err EOther                          (* e.WitnessDestination == nil: ErrMissingField *)
        else match mux_sources t with
             | [] => Panic IndexOOR
             | (a0, _) :: _ =>                                    (* destination value = Sources[0].Value *)
                 if negb (N.eqb a0 BTM) then Err EOther           (* ErrWrongCoinbaseAsset *)
                 else if i_aux i >? c_arblimit cs then Err EOther (* ErrCoinbaseArbitraryOversize *)
                 else if negb (Nat.eqb idx 0) then Err EOther     (* Sources[0].Ref is another entry *)
                 else Ok (mkG (BTMValue g) (GasLeft g) (GasUsed g) 0)   (* StorageGas = 0 *)
             end
    | KVeto => if negb (i_aux i =? 64) then Err EOther else run_vm idx g
    | KSpend | KIssue => run_vm idx g
    end.

  Fixpoint check_inputs (b : blk) (t : tx) (idx : nat) (ins : list input) (g : gas) : res :=
    match ins with
    | [] => Ok g
    | i :: r =>
        match check_input b t idx i (existsb is_cb r) g with
        | Ok g' => check_inputs b t (S idx) r g'
        | e => e
        end
    end.

  (* case *bc.Mux *)
  Definition check_mux (b : blk) (t : tx) (g : gas) : res :=
    match add_sources (mux_sources t) [] with
    | Ok m1 =>
        match sub_dests (mux_dests t) m1 with
        | Ok m2 =>
            match check_parity cs (wrap I64 (t_size t)) (perm m2) g with
            | Ok g1 =>
                match check_inputs b t 0 (t_inputs t) g1 with
                | Ok g2 => charge_storage g2
                | e => e
                end
            | e => e
            end
        | Err e => Err e
        | Panic p => Panic p
        end
    | Err e => Err e
    | Panic p => Panic p
    end.

  (* case *bc.TxHeader: for i, resID := range e.ResultIds.  The mux is validated while
     checking the first result and memoised afterwards ([done]). *)
  Fixpoint check_results (b : blk) (t : tx) (outs : list output) (done : bool) (g : gas) : res :=
    match outs with
    | [] => Ok g
    | o :: r =>
        if is_vote o && negb (o_aux o =? 64) then Err EOther       (* ErrVotePubKey *)
        else
          match (if done then Ok g else check_mux b t g) with
          | Ok g' =>
              if is_vote o && (o_amount o <? c_minvote cs) then Err EOther
              else if is_vote o && negb (N.eqb (o_asset o) BTM) then Err EOther
              else check_results b t r true g'
          | e => e
          end
    end.

  Fixpoint has_dup (l : list N) : bool :=
    match l with
    | [] => false
    | x :: r => existsb (N.eqb x) r || has_dup r
    end.

  (* ValidateTx *)
  Definition validate (b : blk) (t : tx) : res :=
    if (b_version b =? 1) && negb (t_version t =? 1) then Err EOther
    else if t_size t =? 0 then Err EOther
    else if negb (t_timerange t =? 0) && (t_timerange t <? b_height b) then Err EOther
    else if has_dup (map i_id (t_inputs t)) then Err EOther
    else
      match check_results b t (t_outputs t) false gas0 with
      | Ok g =>
          if (t_version t =? 1) && (match t_outputs t with [] => true | _ => false end)
          then Err EOther                                           (* ErrEmptyResults *)
          else Ok g
      | e => e
      end.
End Validate.

(* TxData.Fee *)
Definition fee_in (ins : list input) : Z :=
  fold_left (fun acc i => if negb (is_cb i) && N.eqb (i_asset i) BTM
                          then wrap U64 (acc + i_amount i) else acc) ins 0.
Definition fee_out (outs : list output) : Z :=
  fold_left (fun acc o => if N.eqb (o_asset o) BTM then wrap U64 (acc + o_amount o) else acc) outs 0.
Definition fee (t : tx) : Z :=
  let i := fee_in (t_inputs t) in
  let o := fee_out (t_outputs t) in
  if i >? o then wrap U64 (i - o) else 0.
