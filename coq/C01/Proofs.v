(* C01 — proofs about the model of transaction validation (C01/Model.v).
   Checked arithmetic: VerifGen.Checked (generated) with the exactness theorems of
   C31.Proofs, so a change to math/checked/checked.go reaches these proofs. *)
From Coq Require Import ZArith NArith List Bool Lia Permutation.
From Verif Require Import Outcome GoInt.
From VerifGen Require Import Checked.
From C31 Require Proofs.
From C01 Require Import Model.
Import ListNotations.
Open Scope Z_scope.

(* ------------------------------------------------------------------ *)
(* Specification vocabulary (exact sums over Z)                        *)
(* ------------------------------------------------------------------ *)

(* total of asset a over the spend / issuance / veto inputs *)
Definition in_sum (a : asset) (t : tx) : Z :=
  fold_right (fun i acc => if negb (is_cb i) && N.eqb (i_asset i) a then i_amount i + acc else acc)
             0 (t_inputs t).
(* total of asset a over the outputs (original, vote, retirement) *)
Definition out_sum (a : asset) (t : tx) : Z :=
  fold_right (fun o acc => if N.eqb (o_asset o) a then o_amount o + acc else acc) 0 (t_outputs t).
(* total of all output amounts, exact *)
Definition out_total (t : tx) : Z := fold_right (fun o acc => o_amount o + acc) 0 (t_outputs t).

Definition has_coinbase (t : tx) : bool := existsb is_cb (t_inputs t).
(* a coinbase input together with other inputs *)
Definition mixed_coinbase (t : tx) : bool := has_coinbase t && (1 <? Z.of_nat (length (t_inputs t))).

(* amounts are uint64 values (the Go type) *)
Definition wf_tx (t : tx) : Prop :=
  Forall (fun i => 0 <= i_amount i < 2^64) (t_inputs t) /\
  Forall (fun o => 0 <= o_amount o < 2^64) (t_outputs t).

(* every iteration order of a Go map visits each entry exactly once *)
Definition is_order (perm : pmap -> pmap) : Prop := forall m, Permutation (perm m) m.

(* ------------------------------------------------------------------ *)
(* The parity map                                                      *)
(* ------------------------------------------------------------------ *)

Definition sumfor (a : asset) (l : list (asset * Z)) : Z :=
  fold_right (fun p acc => if N.eqb (fst p) a then snd p + acc else acc) 0 l.
Definition getd (a : asset) (m : pmap) : Z := match plookup a m with Some v => v | None => 0 end.
Definition has (a : asset) (m : pmap) : bool := match plookup a m with Some _ => true | None => false end.
Definition keys (m : pmap) : list asset := map fst m.
Definition range_ok (m : pmap) : Prop := forall a v, plookup a m = Some v -> in_range I64 v = true.
Definition nonneg (l : list (asset * Z)) : Prop := Forall (fun p => 0 <= snd p) l.
Definition fits (l : list (asset * Z)) : Prop := Forall (fun p => snd p <= MaxInt64) l.

Lemma sumfor_cons a p l :
  sumfor a (p :: l) = if N.eqb (fst p) a then snd p + sumfor a l else sumfor a l.
Proof. reflexivity. Qed.

Lemma plookup_pset_same a v m : plookup a (pset a v m) = Some v.
Proof.
  induction m as [|[k x] r IH]; cbn [pset plookup].
  - now rewrite N.eqb_refl.
  - destruct (N.eqb k a) eqn:E; cbn [plookup]; rewrite E; auto.
Qed.

Lemma plookup_pset_other a b v m : a <> b -> plookup b (pset a v m) = plookup b m.
Proof.
  intros Hab. induction m as [|[k x] r IH]; cbn [pset plookup].
  - destruct (N.eqb a b) eqn:E; auto. apply N.eqb_eq in E. contradiction.
  - destruct (N.eqb k a) eqn:E; cbn [plookup].
    + apply N.eqb_eq in E. subst k. destruct (N.eqb a b) eqn:E2; auto.
      apply N.eqb_eq in E2. contradiction.
    + destruct (N.eqb k b); auto.
Qed.

Lemma keys_pset_in a v m k : In k (keys (pset a v m)) <-> k = a \/ In k (keys m).
Proof.
  unfold keys. induction m as [|[k0 x] r IH]; cbn [pset map fst In].
  - intuition.
  - destruct (N.eqb k0 a) eqn:E; cbn [map fst In].
    + apply N.eqb_eq in E. subst. intuition.
    + rewrite IH. intuition.
Qed.

Lemma keys_pset_nodup a v m : NoDup (keys m) -> NoDup (keys (pset a v m)).
Proof.
  unfold keys. induction m as [|[k0 x] r IH]; cbn [pset map fst]; intros H.
  - constructor; [intros []|constructor].
  - destruct (N.eqb k0 a) eqn:E; cbn [map fst].
    + exact H.
    + inversion H as [|? ? Hn Hr]; subst. constructor.
      * intros Hin. apply (keys_pset_in a v r k0) in Hin. destruct Hin as [->|Hin].
        -- rewrite N.eqb_refl in E. discriminate.
        -- exact (Hn Hin).
      * auto.
Qed.

Lemma plookup_in a v m : plookup a m = Some v -> In (a, v) m.
Proof.
  induction m as [|[k x] r IH]; cbn [plookup]; [discriminate|].
  destruct (N.eqb k a) eqn:E; intros H.
  - apply N.eqb_eq in E. inversion H. subst. now left.
  - right. auto.
Qed.

Lemma plookup_none_keys a m : plookup a m = None -> ~ In a (keys m).
Proof.
  unfold keys. induction m as [|[k x] r IH]; cbn [plookup map fst In]; [tauto|].
  destruct (N.eqb k a) eqn:E; [discriminate|]. intros H [->|Hin].
  - rewrite N.eqb_refl in E. discriminate.
  - exact (IH H Hin).
Qed.

Lemma range_ok_pset a v m : range_ok m -> in_range I64 v = true -> range_ok (pset a v m).
Proof.
  intros Hm Hv b w. destruct (N.eq_dec a b) as [->|Hab].
  - rewrite plookup_pset_same. intros H. inversion H. now subst.
  - rewrite plookup_pset_other by assumption. apply Hm.
Qed.

Lemma getd_pset_same a v m : getd a (pset a v m) = v.
Proof. unfold getd. now rewrite plookup_pset_same. Qed.
Lemma getd_pset_other a b v m : a <> b -> getd b (pset a v m) = getd b m.
Proof. intros. unfold getd. now rewrite plookup_pset_other. Qed.
Lemma has_pset_same a v m : has a (pset a v m) = true.
Proof. unfold has. now rewrite plookup_pset_same. Qed.
Lemma has_pset_other a b v m : a <> b -> has b (pset a v m) = has b m.
Proof. intros. unfold has. now rewrite plookup_pset_other. Qed.

Lemma range_getd a m : range_ok m -> in_range I64 (getd a m) = true.
Proof.
  intros H. unfold getd. destruct (plookup a m) eqn:E; [eauto|reflexivity].
Qed.

Lemma in_range_amt amt : 0 <= amt -> (amt >? MaxInt64) = false -> in_range I64 amt = true.
Proof.
  unfold MaxInt64, in_range, tmin, tmax. intros H1 H2.
  apply andb_true_intro; split; apply Z.leb_le; lia.
Qed.

Lemma in_range_I64 v : in_range I64 v = true <-> - 2^63 <= v <= 2^63 - 1.
Proof.
  unfold in_range, tmin, tmax. rewrite andb_true_iff, !Z.leb_le. tauto.
Qed.

(* the source loop: exact per-asset sums, all below 2^63 *)
Lemma add_sources_spec : forall srcs m m',
  add_sources srcs m = Ok m' -> nonneg srcs -> range_ok m -> NoDup (keys m) ->
  range_ok m' /\ NoDup (keys m') /\
  (forall a, getd a m' = getd a m + sumfor a srcs) /\
  (forall a, has a m' = has a m || existsb (N.eqb a) (map fst srcs)) /\
  fits srcs.
Proof.
  induction srcs as [|[a amt] r IH]; intros m m' H Hnn Hr Hnd.
  - cbn in H. inversion H; subst. repeat split; auto.
    + intros; cbn; lia.
    + intros; cbn; now rewrite orb_false_r.
    + constructor.
  - cbn [add_sources] in H. inversion Hnn as [|? ? Hamt Hnn']; subst. cbn [snd] in Hamt.
    destruct (amt >? MaxInt64) eqn:Eg; [discriminate|].
    pose proof (in_range_amt amt Hamt Eg) as Ramt.
    rewrite (in_range_wrap I64 amt Ramt) in H.
    fold (getd a m) in H.
    pose proof (range_getd a m Hr) as Rcur.
    rewrite (C31.Proofs.AddInt64_exact _ _ Rcur Ramt) in H.
    unfold C31.Proofs.spec_add, C31.Proofs.spec in H. cbn [andb] in H.
    destruct (in_range I64 (getd a m + amt)) eqn:Es; [|discriminate].
    apply IH in H; auto.
    + destruct H as (R' & N' & G' & H' & F'). repeat split; auto.
      * intros b. rewrite G'. rewrite sumfor_cons. cbn [fst snd].
        destruct (N.eqb a b) eqn:E.
        -- apply N.eqb_eq in E. subst b. rewrite getd_pset_same. lia.
        -- apply N.eqb_neq in E. rewrite getd_pset_other by assumption. lia.
      * intros b. rewrite H'. cbn [map fst existsb].
        destruct (N.eqb b a) eqn:E.
        -- apply N.eqb_eq in E. subst b. rewrite has_pset_same. now rewrite orb_true_r.
        -- apply N.eqb_neq in E. rewrite has_pset_other by congruence. reflexivity.
      * constructor; auto. cbn [snd]. rewrite Z.gtb_ltb in Eg. unfold MaxInt64 in *.
        apply Z.ltb_ge in Eg. lia.
    + apply range_ok_pset; auto.
    + apply keys_pset_nodup; auto.
Qed.

(* the destination loop: exact differences, every destination asset has a source *)
Lemma sub_dests_spec : forall dsts m m',
  sub_dests dsts m = Ok m' -> nonneg dsts -> range_ok m -> NoDup (keys m) ->
  range_ok m' /\ NoDup (keys m') /\
  (forall a, getd a m' = getd a m - sumfor a dsts) /\
  (forall a, has a m' = has a m) /\
  (forall p, In p dsts -> has (fst p) m = true) /\
  fits dsts.
Proof.
  induction dsts as [|[a amt] r IH]; intros m m' H Hnn Hr Hnd.
  - cbn in H. inversion H; subst. repeat split; auto;
      try (intros; cbn; lia); try (intros p Hp; destruct Hp); try constructor.
  - cbn [sub_dests] in H. inversion Hnn as [|? ? Hamt Hnn']; subst. cbn [snd] in Hamt.
    destruct (plookup a m) as [s|] eqn:El; [|discriminate].
    destruct (amt >? MaxInt64) eqn:Eg; [discriminate|].
    pose proof (in_range_amt amt Hamt Eg) as Ramt.
    rewrite (in_range_wrap I64 amt Ramt) in H.
    pose proof (Hr a s El) as Rcur.
    rewrite (C31.Proofs.SubInt64_exact _ _ Rcur Ramt) in H.
    unfold C31.Proofs.spec_sub, C31.Proofs.spec in H. cbn [andb] in H.
    destruct (in_range I64 (s - amt)) eqn:Es; [|discriminate].
    assert (Hhas : has a m = true) by (unfold has; now rewrite El).
    assert (Hget : getd a m = s) by (unfold getd; now rewrite El).
    apply IH in H; auto.
    + destruct H as (R' & N' & G' & H' & I' & F'). repeat split; auto.
      * intros b. rewrite G'. rewrite sumfor_cons. cbn [fst snd].
        destruct (N.eqb a b) eqn:E.
        -- apply N.eqb_eq in E. subst b. rewrite getd_pset_same. lia.
        -- apply N.eqb_neq in E. rewrite getd_pset_other by assumption. lia.
      * intros b. rewrite H'. destruct (N.eq_dec a b) as [->|E].
        -- now rewrite has_pset_same.
        -- now rewrite has_pset_other.
      * intros p [<-|Hin]; [exact Hhas|].
        specialize (I' p Hin). destruct (N.eq_dec a (fst p)) as [<-|E]; [exact Hhas|].
        now rewrite has_pset_other in I'.
      * constructor; auto. cbn [snd]. rewrite Z.gtb_ltb in Eg. unfold MaxInt64 in *.
        apply Z.ltb_ge in Eg. lia.
    + apply range_ok_pset; auto.
    + apply keys_pset_nodup; auto.
Qed.

(* ------------------------------------------------------------------ *)
(* Gas bookkeeping never touches BTMValue after setGas                 *)
(* ------------------------------------------------------------------ *)

Lemma set_gas_spec cs g btm size g' :
  set_gas cs g btm size = Ok g' -> 0 <= btm /\ BTMValue g' = wrap U64 btm.
Proof.
  unfold set_gas. destruct (btm <? 0) eqn:E; [discriminate|]. apply Z.ltb_ge in E.
  destruct (DivInt64 btm (c_gasrate cs)) as [[q [|]]|]; try discriminate.
  destruct (MulInt64 size (c_storagerate cs)) as [[sg [|]]|]; try discriminate.
  intros H. inversion H. subst. cbn. auto.
Qed.

Lemma update_usage_btm g gl g' : update_usage g gl = Ok g' -> BTMValue g' = BTMValue g.
Proof.
  unfold update_usage. destruct (gl <? 0); [discriminate|].
  destruct (SubInt64 (GasLeft g) gl) as [[u [|]]|]; try discriminate.
  cbn [StorageGas GasLeft]. destruct (StorageGas g >? gl); [discriminate|].
  intros H. inversion H. reflexivity.
Qed.

Lemma charge_storage_btm g g' : charge_storage g = Ok g' -> BTMValue g' = BTMValue g.
Proof.
  unfold charge_storage.
  destruct (SubInt64 (GasLeft g) (StorageGas g)) as [[gl ok]|]; try discriminate.
  destruct (negb ok || (gl <? 0)); [discriminate|].
  destruct (AddInt64 (GasUsed g) (StorageGas g)) as [[gu [|]]|]; try discriminate.
  intros H. inversion H. reflexivity.
Qed.

Section Validation.
  Variable cs : consts.
  Variable vm : nat -> Z -> option Z.
  Variable perm : pmap -> pmap.
  Hypothesis Hperm : is_order perm.

  Lemma run_vm_btm idx g g' : run_vm vm idx g = Ok g' -> BTMValue g' = BTMValue g.
  Proof.
    unfold run_vm. destruct (vm idx (GasLeft g)); [|discriminate]. apply update_usage_btm.
  Qed.

  Lemma check_input_btm b t idx i l g g' :
    check_input cs vm b t idx i l g = Ok g' -> BTMValue g' = BTMValue g.
  Proof.
    unfold check_input. destruct (i_kind i).
    - apply run_vm_btm.
    - apply run_vm_btm.
    - destruct (negb (i_aux i =? 64)); [discriminate|]. apply run_vm_btm.
    - destruct (negb (b_first b)); [discriminate|]. destruct l; [discriminate|].
      destruct (mux_sources t) as [|[a0 ?] ?]; [discriminate|].
      destruct (negb (N.eqb a0 BTM)); [discriminate|].
      destruct (i_aux i >? c_arblimit cs); [discriminate|].
      destruct (negb (Nat.eqb idx 0)); [discriminate|].
      intros H. inversion H. reflexivity.
  Qed.

  Lemma check_inputs_btm b t : forall ins idx g g',
    check_inputs cs vm b t idx ins g = Ok g' -> BTMValue g' = BTMValue g.
  Proof.
    induction ins as [|i r IH]; intros idx g g' H; cbn [check_inputs] in H.
    - inversion H. reflexivity.
    - destruct (check_input cs vm b t idx i (existsb is_cb r) g) as [g1| |] eqn:E; try discriminate.
      apply IH in H. apply check_input_btm in E. congruence.
  Qed.

  (* the parity loop, for the entries in ANY order *)
  Lemma check_parity_spec size : forall l g g',
    check_parity cs size l g = Ok g' ->
    (forall a v, In (a, v) l -> a <> BTM -> v = 0) /\
    (forall v, In (BTM, v) l -> 0 <= v) /\
    (~ In BTM (keys l) -> BTMValue g' = BTMValue g) /\
    (NoDup (keys l) -> forall v, In (BTM, v) l -> BTMValue g' = wrap U64 v).
  Proof.
    induction l as [|[a amt] r IH]; intros g g' H; cbn [check_parity] in H.
    - inversion H; subst. repeat split; auto; intros; cbn in *; tauto.
    - destruct (N.eqb a BTM) eqn:Ea.
      + apply N.eqb_eq in Ea. subst a.
        destruct (set_gas cs g amt size) as [g1| |] eqn:Es; try discriminate.
        apply set_gas_spec in Es. destruct Es as [Hpos Hb].
        destruct (IH _ _ H) as (I1 & I2 & I3 & I4).
        repeat split.
        * intros a v [Heq|Hin] Hne; [inversion Heq; congruence|eauto].
        * intros v [Heq|Hin]; [inversion Heq; subst; auto|eauto].
        * intros Hn. exfalso. apply Hn. cbn. now left.
        * intros Hnd v Hin. cbn [keys map fst] in Hnd. inversion Hnd as [|? ? Hnot Hnd']; subst.
          destruct Hin as [Heq|Hin].
          -- inversion Heq; subst. rewrite I3; auto.
          -- exfalso. apply Hnot. change (In BTM (map fst r)). apply in_map_iff.
             exists (BTM, v). auto.
      + destruct (amt =? 0) eqn:Ez; [|discriminate]. apply Z.eqb_eq in Ez. subst amt.
        apply N.eqb_neq in Ea.
        destruct (IH _ _ H) as (I1 & I2 & I3 & I4).
        repeat split.
        * intros b v [Heq|Hin] Hne; [inversion Heq; congruence|eauto].
        * intros v [Heq|Hin]; [inversion Heq; congruence|eauto].
        * intros Hn. apply I3. intros Hin. apply Hn. cbn. now right.
        * intros Hnd v Hin. cbn [keys map fst] in Hnd. inversion Hnd; subst.
          destruct Hin as [Heq|Hin]; [inversion Heq; congruence|]. apply I4; auto.
  Qed.

  (* ---- the mux check: exact balance of every asset ---- *)
  Lemma check_mux_balance b t g0 g :
    check_mux cs vm perm b t g0 = Ok g ->
    nonneg (mux_sources t) -> nonneg (mux_dests t) -> BTMValue g0 = 0 ->
    (forall a, sumfor a (mux_sources t) - sumfor a (mux_dests t)
               = if N.eqb a BTM then BTMValue g else 0) /\
    (forall a, 0 <= sumfor a (mux_sources t) <= MaxInt64) /\
    0 <= BTMValue g <= MaxInt64 /\
    fits (mux_sources t) /\ fits (mux_dests t) /\
    (forall p, In p (mux_dests t) -> existsb (N.eqb (fst p)) (map fst (mux_sources t)) = true).
  Proof.
    unfold check_mux. intros H Hns Hnd H0.
    destruct (add_sources (mux_sources t) []) as [m1| |] eqn:E1; try discriminate.
    destruct (sub_dests (mux_dests t) m1) as [m2| |] eqn:E2; try discriminate.
    destruct (check_parity cs (wrap I64 (t_size t)) (perm m2) g0) as [g1| |] eqn:E3; try discriminate.
    destruct (check_inputs cs vm b t 0 (t_inputs t) g1) as [g2| |] eqn:E4; try discriminate.
    apply charge_storage_btm in H. apply check_inputs_btm in E4.
    assert (Hg : BTMValue g = BTMValue g1) by congruence. clear H E4.
    assert (R0 : range_ok []) by (intros a v; cbn; discriminate).
    assert (N0 : NoDup (keys [])) by constructor.
    destruct (add_sources_spec _ _ _ E1 Hns R0 N0) as (R1 & N1 & G1 & H1 & F1).
    destruct (sub_dests_spec _ _ _ E2 Hnd R1 N1) as (R2 & N2 & G2 & H2 & I2 & F2).
    destruct (check_parity_spec _ _ _ _ E3) as (P1 & P2 & P3 & P4).
    assert (NP : NoDup (keys (perm m2))).
    { unfold keys. eapply Permutation_NoDup; [|exact N2].
      apply Permutation_map. apply Permutation_sym. apply Hperm. }
    assert (Hsrc : forall a, getd a m1 = sumfor a (mux_sources t)).
    { intros a. rewrite G1. unfold getd. cbn. lia. }
    assert (Hsrc_has : forall a, has a m1 = existsb (N.eqb a) (map fst (mux_sources t))).
    { intros a. rewrite H1. unfold has. cbn. reflexivity. }
    assert (Hnone : forall a, has a m1 = false -> sumfor a (mux_sources t) = 0 /\ sumfor a (mux_dests t) = 0).
    { intros a Hf. split.
      - rewrite <- Hsrc. unfold getd. unfold has in Hf. destruct (plookup a m1); [discriminate|reflexivity].
      - assert (forall l, (forall p, In p l -> has (fst p) m1 = true) -> sumfor a l = 0) as Hz.
        { induction l as [|p l IHl]; intros Hall; [reflexivity|].
          rewrite sumfor_cons.
          destruct (N.eqb (fst p) a) eqn:E.
          - apply N.eqb_eq in E. specialize (Hall p (or_introl eq_refl)). rewrite E in Hall. congruence.
          - apply IHl. intros q Hq. apply Hall. now right. }
        apply Hz. exact I2. }
    assert (Hbal : forall a, getd a m2 = sumfor a (mux_sources t) - sumfor a (mux_dests t)).
    { intros a. rewrite G2, Hsrc. reflexivity. }
    assert (Hbtm : 0 <= BTMValue g <= MaxInt64 /\
                   sumfor BTM (mux_sources t) - sumfor BTM (mux_dests t) = BTMValue g).
    { rewrite Hg. destruct (plookup BTM m2) as [v|] eqn:El.
      - pose proof (R2 _ _ El) as Rv. apply in_range_I64 in Rv.
        apply plookup_in in El as Hin.
        assert (Hin' : In (BTM, v) (perm m2)) by (eapply Permutation_in; [apply Permutation_sym, Hperm|exact Hin]).
        pose proof (P2 _ Hin') as Hpos. rewrite (P4 NP _ Hin').
        assert (Hw : wrap U64 v = v) by (apply in_range_wrap; unfold in_range, tmin, tmax;
          apply andb_true_intro; split; apply Z.leb_le; lia).
        rewrite Hw. rewrite <- Hbal. unfold getd. rewrite El. unfold MaxInt64. lia.
      - assert (Hn : ~ In BTM (keys (perm m2))).
        { intros Hin. apply (plookup_none_keys _ _ El). unfold keys in *.
          eapply Permutation_in; [|exact Hin]. apply Permutation_map. apply Hperm. }
        rewrite (P3 Hn), H0.
        assert (Hf : has BTM m1 = false) by (rewrite <- H2; unfold has; now rewrite El).
        destruct (Hnone _ Hf) as [-> ->]. unfold MaxInt64. lia. }
    assert (C1 : forall a, sumfor a (mux_sources t) - sumfor a (mux_dests t)
                           = if N.eqb a BTM then BTMValue g else 0).
    { intros a. destruct (N.eqb a BTM) eqn:Ea.
      + apply N.eqb_eq in Ea. subst a. tauto.
      + apply N.eqb_neq in Ea. destruct (plookup a m2) as [v|] eqn:El.
        * apply plookup_in in El as Hin.
          assert (Hin' : In (a, v) (perm m2)) by (eapply Permutation_in; [apply Permutation_sym, Hperm|exact Hin]).
          rewrite <- Hbal. unfold getd. rewrite El. eauto.
        * assert (Hf : has a m1 = false) by (rewrite <- H2; unfold has; now rewrite El).
          destruct (Hnone _ Hf) as [-> ->]. reflexivity. }
    assert (C2 : forall a, 0 <= sumfor a (mux_sources t) <= MaxInt64).
    { intros a. split.
      - (* a sum of non-negative amounts *)
        clear -Hns. induction (mux_sources t) as [|p l IHl]; [cbn; lia|].
        inversion Hns; subst. rewrite sumfor_cons. specialize (IHl H2).
        destruct (N.eqb (fst p) a); lia.
      - rewrite <- Hsrc. pose proof (range_getd a m1 R1) as Rg. apply in_range_I64 in Rg.
        unfold MaxInt64. lia. }
    assert (C6 : forall p, In p (mux_dests t) -> existsb (N.eqb (fst p)) (map fst (mux_sources t)) = true).
    { intros p Hp. rewrite <- Hsrc_has. apply I2. exact Hp. }
    destruct Hbtm as [C3 _].
    exact (conj C1 (conj C2 (conj C3 (conj F1 (conj F2 C6))))).
  Qed.

  (* ---- results loop and ValidateTx ---- *)
  Lemma check_results_mux b t : forall outs done g g',
    check_results cs vm perm b t outs done g = Ok g' ->
    (done = true -> g' = g) /\
    (done = false -> outs <> [] -> check_mux cs vm perm b t g = Ok g').
  Proof.
    induction outs as [|o r IH]; intros done g g' H; cbn [check_results] in H.
    - inversion H; subst. split; [auto|]. intros _ Hne. now elim Hne.
    - destruct (is_vote o && negb (o_aux o =? 64)); [discriminate|].
      destruct done.
      + destruct (is_vote o && (o_amount o <? c_minvote cs)); [discriminate|].
        destruct (is_vote o && negb (N.eqb (o_asset o) BTM)); [discriminate|].
        destruct (IH _ _ _ H) as [I1 _]. split; [auto|discriminate].
      + destruct (check_mux cs vm perm b t g) as [g1| |] eqn:Em; try discriminate.
        destruct (is_vote o && (o_amount o <? c_minvote cs)); [discriminate|].
        destruct (is_vote o && negb (N.eqb (o_asset o) BTM)); [discriminate|].
        destruct (IH _ _ _ H) as [I1 _]. split; [discriminate|]. intros _ _.
        rewrite (I1 eq_refl). reflexivity.
  Qed.

  (* A validated transaction went through the mux check — provided the block has
     version 1 (every block a node validates: ValidateBlockHeader) or there is at
     least one output.  (A version-2 transaction without outputs in a version-2 block
     skips the mux check entirely; Example unversioned_skips_mux below.) *)
  Lemma validate_mux b t g :
    validate cs vm perm b t = Ok g ->
    b_version b = 1 \/ t_outputs t <> [] ->
    check_mux cs vm perm b t gas0 = Ok g.
  Proof.
    unfold validate. intros H Hv.
    destruct ((b_version b =? 1) && negb (t_version t =? 1)) eqn:E1; [discriminate|].
    destruct (t_size t =? 0); [discriminate|].
    destruct (negb (t_timerange t =? 0) && (t_timerange t <? b_height b)); [discriminate|].
    destruct (has_dup (map i_id (t_inputs t))); [discriminate|].
    destruct (check_results cs vm perm b t (t_outputs t) false gas0) as [g1| |] eqn:Er; try discriminate.
    destruct ((t_version t =? 1) && match t_outputs t with [] => true | _ => false end) eqn:E2; [discriminate|].
    inversion H; subst g1.
    assert (Hne : t_outputs t <> []).
    { destruct Hv as [Hb|Hne]; [|exact Hne].
      rewrite Hb in E1. cbn in E1. apply negb_false_iff in E1. rewrite E1 in E2. cbn in E2.
      destruct (t_outputs t); [discriminate|discriminate]. }
    destruct (check_results_mux _ _ _ _ _ _ Er) as [_ I]. auto.
  Qed.
End Validation.

(* ------------------------------------------------------------------ *)
(* From mux sources / destinations to the transaction's inputs/outputs *)
(* ------------------------------------------------------------------ *)

Lemma sum_outputs_u64_range outs : 0 <= sum_outputs_u64 outs < 2^64.
Proof.
  unfold sum_outputs_u64.
  assert (forall l acc, 0 <= acc < 2^64 ->
     0 <= fold_left (fun acc o => wrap U64 (acc + o_amount o)) l acc < 2^64) as H.
  { induction l as [|o l IH]; intros acc Ha; cbn [fold_left]; [exact Ha|].
    apply IH. unfold wrap. apply Z.mod_pos_bound. lia. }
  apply H. lia.
Qed.

Lemma sum_outputs_u64_mod t : sum_outputs_u64 (t_outputs t) = out_total t mod 2^64.
Proof.
  unfold sum_outputs_u64, out_total.
  assert (forall l acc, fold_left (fun acc o => wrap U64 (acc + o_amount o)) l acc
            = (acc + fold_right (fun o acc => o_amount o + acc) 0 l) mod 2^64 \/ l = []) as H.
  { induction l as [|o l IH]; intros acc; [now right|]. left. cbn [fold_left fold_right].
    destruct (IH (wrap U64 (acc + o_amount o))) as [->| ->].
    - unfold wrap. rewrite Zplus_mod_idemp_l. f_equal. lia.
    - cbn. unfold wrap. f_equal. lia. }
  destruct (H (t_outputs t) 0) as [->| ->]; [reflexivity|]. reflexivity.
Qed.

Lemma nonneg_sources t : wf_tx t -> nonneg (mux_sources t).
Proof.
  intros [Hi _]. unfold mux_sources, nonneg. apply Forall_map.
  eapply Forall_impl; [|exact Hi]. intros i Hr. cbn beta in Hr. unfold mux_source.
  destruct (is_cb i); cbn [snd]; [apply sum_outputs_u64_range|lia].
Qed.
Lemma nonneg_dests t : wf_tx t -> nonneg (mux_dests t).
Proof.
  intros [_ Ho]. unfold mux_dests, nonneg. apply Forall_map.
  eapply Forall_impl; [|exact Ho]. intros o Hr. cbn beta in Hr. cbn [snd]. lia.
Qed.

Lemma sumfor_dests a t : sumfor a (mux_dests t) = out_sum a t.
Proof.
  unfold mux_dests, out_sum. induction (t_outputs t) as [|o l IH]; [reflexivity|].
  cbn [map sumfor fold_right fst snd]. fold (sumfor a (map (fun o => (o_asset o, o_amount o)) l)).
  rewrite IH. reflexivity.
Qed.

(* coinbase sources only contribute to BTM *)
Lemma sumfor_sources_other a t : a <> BTM -> sumfor a (mux_sources t) = in_sum a t.
Proof.
  intros Ha. unfold mux_sources, in_sum. induction (t_inputs t) as [|i l IH]; [reflexivity|].
  cbn [map sumfor fold_right]. fold (sumfor a (map (mux_source t) l)). rewrite IH.
  unfold mux_source. destruct (is_cb i); cbn [fst snd negb andb].
  - destruct (N.eqb BTM a) eqn:E; [apply N.eqb_eq in E; congruence|reflexivity].
  - reflexivity.
Qed.

Lemma sumfor_sources_nocb a t : has_coinbase t = false -> sumfor a (mux_sources t) = in_sum a t.
Proof.
  unfold has_coinbase, mux_sources, in_sum. induction (t_inputs t) as [|i l IH]; intros H; [reflexivity|].
  cbn [existsb] in H. apply orb_false_iff in H. destruct H as [Hi Hl].
  cbn [map sumfor fold_right]. fold (sumfor a (map (mux_source t) l)). rewrite (IH Hl).
  unfold mux_source. rewrite Hi. reflexivity.
Qed.

(* uint64 accumulation is exact while the exact total stays below 2^64 *)
Lemma fee_in_exact t : wf_tx t -> in_sum BTM t < 2^64 -> fee_in (t_inputs t) = in_sum BTM t.
Proof.
  intros [Hi _]. unfold fee_in, in_sum.
  set (S := fold_right (fun i acc => if negb (is_cb i) && N.eqb (i_asset i) BTM then i_amount i + acc else acc) 0).
  assert (forall l acc, Forall (fun i => 0 <= i_amount i < 2^64) l -> 0 <= acc -> acc + S l < 2^64 ->
     fold_left (fun acc i => if negb (is_cb i) && N.eqb (i_asset i) BTM then wrap U64 (acc + i_amount i) else acc) l acc
     = acc + S l /\ 0 <= S l) as H.
  { induction l as [|i l IH]; intros acc Hf Ha Hb; cbn [fold_left]; subst S; cbn [fold_right].
    - split; lia.
    - inversion Hf as [|? ? Hx Hf']; subst. cbn [fold_right] in Hb.
      assert (Hpos : 0 <= fold_right (fun i acc => if negb (is_cb i) && N.eqb (i_asset i) BTM then i_amount i + acc else acc) 0 l).
      { clear -Hf'. induction l as [|j l IHl]; cbn; [lia|]. inversion Hf'; subst.
        destruct (negb (is_cb j) && N.eqb (i_asset j) BTM); [|auto]. specialize (IHl H2). lia. }
      destruct (negb (is_cb i) && N.eqb (i_asset i) BTM).
      + assert (Hw : wrap U64 (acc + i_amount i) = acc + i_amount i)
          by (unfold wrap; apply Z.mod_small; lia).
        rewrite Hw. destruct (IH (acc + i_amount i) Hf') as [-> _]; lia.
      + destruct (IH acc Hf') as [-> _]; lia. }
  intros Hb. destruct (H (t_inputs t) 0 Hi) as [-> _]; lia.
Qed.

Lemma fee_out_exact t : wf_tx t -> out_sum BTM t < 2^64 ->
  fee_out (t_outputs t) = out_sum BTM t /\ 0 <= out_sum BTM t.
Proof.
  intros [_ Ho]. unfold fee_out, out_sum.
  set (S := fold_right (fun o acc => if N.eqb (o_asset o) BTM then o_amount o + acc else acc) 0).
  assert (forall l acc, Forall (fun o => 0 <= o_amount o < 2^64) l -> 0 <= acc -> acc + S l < 2^64 ->
     fold_left (fun acc o => if N.eqb (o_asset o) BTM then wrap U64 (acc + o_amount o) else acc) l acc
     = acc + S l /\ 0 <= S l) as H.
  { induction l as [|o l IH]; intros acc Hf Ha Hb; cbn [fold_left]; subst S; cbn [fold_right].
    - split; lia.
    - inversion Hf as [|? ? Hx Hf']; subst. cbn [fold_right] in Hb.
      assert (Hpos : 0 <= fold_right (fun o acc => if N.eqb (o_asset o) BTM then o_amount o + acc else acc) 0 l).
      { clear -Hf'. induction l as [|j l IHl]; cbn; [lia|]. inversion Hf'; subst.
        destruct (N.eqb (o_asset j) BTM); [|auto]. specialize (IHl H2). lia. }
      destruct (N.eqb (o_asset o) BTM).
      + assert (Hw : wrap U64 (acc + o_amount o) = acc + o_amount o)
          by (unfold wrap; apply Z.mod_small; lia).
        rewrite Hw. destruct (IH (acc + o_amount o) Hf') as [-> _]; lia.
      + destruct (IH acc Hf') as [-> _]; lia. }
  intros Hb. destruct (H (t_outputs t) 0 Ho) as [-> Hp]; lia.
Qed.

Lemma out_sum_nonneg a t : wf_tx t -> 0 <= out_sum a t.
Proof.
  intros [_ Ho]. unfold out_sum. induction (t_outputs t) as [|o l IH]; cbn; [lia|].
  inversion Ho; subst. destruct (N.eqb (o_asset o) a); [|auto]. specialize (IH H2). lia.
Qed.

(* ------------------------------------------------------------------ *)
(* The property                                                        *)
(* ------------------------------------------------------------------ *)

Section Property.
  Variable cs : consts.
  Variable vm : nat -> Z -> option Z.
  Variable perm : pmap -> pmap.
  Hypothesis Hperm : is_order perm.
  Variables (b : blk) (t : tx) (g : gas).
  Hypothesis Hwf : wf_tx t.
  Hypothesis Hv : b_version b = 1 \/ t_outputs t <> [].
  Hypothesis Hok : validate cs vm perm b t = Ok g.

  Lemma balance :
    (forall a, sumfor a (mux_sources t) - out_sum a t = if N.eqb a BTM then BTMValue g else 0) /\
    (forall a, 0 <= sumfor a (mux_sources t) <= MaxInt64) /\
    0 <= BTMValue g <= MaxInt64 /\
    fits (mux_sources t) /\ fits (mux_dests t) /\
    (forall p, In p (mux_dests t) -> existsb (N.eqb (fst p)) (map fst (mux_sources t)) = true).
  Proof.
    pose proof (validate_mux cs vm perm b t g Hok Hv) as Hm.
    destruct (check_mux_balance cs vm perm Hperm b t gas0 g Hm (nonneg_sources t Hwf) (nonneg_dests t Hwf) eq_refl)
      as (B1 & B2 & B3 & B4 & B5 & B6).
    repeat split; auto; try (apply B2); try (apply B3).
    intros a. rewrite <- sumfor_dests. apply B1.
  Qed.

  (* every non-BTM asset: inputs = outputs, exactly, for EVERY validated transaction *)
  Lemma conservation : forall a, a <> BTM -> in_sum a t = out_sum a t.
  Proof.
    intros a Ha. destruct balance as (B1 & _). specialize (B1 a).
    rewrite (sumfor_sources_other a t Ha) in B1.
    destruct (N.eqb a BTM) eqn:E; [apply N.eqb_eq in E; congruence|]. lia.
  Qed.

  (* no amount above MaxInt64 survives validation *)
  Lemma amounts_fit :
    (forall i, In i (t_inputs t) -> is_cb i = false -> i_amount i <= MaxInt64) /\
    (forall o, In o (t_outputs t) -> o_amount o <= MaxInt64) /\
    (forall a, in_sum a t <= MaxInt64).
  Proof.
    destruct balance as (_ & B2 & _ & B4 & B5 & _). repeat split.
    - intros i Hin Hc. unfold fits, mux_sources in B4. rewrite Forall_map in B4.
      rewrite Forall_forall in B4. specialize (B4 i Hin). unfold mux_source in B4.
      rewrite Hc in B4. exact B4.
    - intros o Hin. unfold fits, mux_dests in B5. rewrite Forall_map in B5.
      rewrite Forall_forall in B5. exact (B5 o Hin).
    - intros a. destruct (N.eq_dec a BTM) as [->|Ha].
      + (* BTM: the non-coinbase part is at most the whole *)
        destruct (B2 BTM) as [_ Hhi].
        assert (in_sum BTM t <= sumfor BTM (mux_sources t)); [|lia].
        unfold in_sum, mux_sources. destruct Hwf as [Hi _]. clear -Hi.
        induction (t_inputs t) as [|i l IH]; cbn [map sumfor fold_right]; [lia|].
        inversion Hi; subst. specialize (IH H2).
        fold (sumfor BTM (map (mux_source t) l)). unfold mux_source at 1 2.
        destruct (is_cb i); cbn [fst snd negb andb].
        * rewrite N.eqb_refl. pose proof (sum_outputs_u64_range (t_outputs t)). lia.
        * destruct (N.eqb (i_asset i) BTM); lia.
      + rewrite <- (sumfor_sources_other a t Ha). apply B2.
  Qed.

  Section NoCoinbase.
    Hypothesis Hnc : has_coinbase t = false.

    Lemma btm_fee_exact : BTMValue g = in_sum BTM t - out_sum BTM t.
    Proof.
      destruct balance as (B1 & _). specialize (B1 BTM).
      rewrite (sumfor_sources_nocb BTM t Hnc) in B1. cbn in B1. lia.
    Qed.

    Lemma btm_not_created : out_sum BTM t <= in_sum BTM t.
    Proof.
      destruct balance as (_ & _ & B3 & _). rewrite btm_fee_exact in B3. lia.
    Qed.

    Lemma fee_agrees : fee t = BTMValue g.
    Proof.
      pose proof btm_fee_exact as Hf. pose proof btm_not_created as Hle.
      destruct balance as (_ & B2 & _). specialize (B2 BTM).
      rewrite (sumfor_sources_nocb BTM t Hnc) in B2. unfold MaxInt64 in B2.
      unfold fee. rewrite (fee_in_exact t Hwf) by lia.
      destruct (fee_out_exact t Hwf) as [-> Hpos]; [lia|].
      destruct (in_sum BTM t >? out_sum BTM t) eqn:E.
      - unfold wrap. rewrite Z.mod_small; lia.
      - rewrite Z.gtb_ltb in E. apply Z.ltb_ge in E. lia.
    Qed.
  End NoCoinbase.

  Section PureCoinbase.
    Variable c : input.
    Hypothesis Hin : t_inputs t = [c].
    Hypothesis Hc : is_cb c = true.

    Lemma coinbase_sources : mux_sources t = [(BTM, sum_outputs_u64 (t_outputs t))].
    Proof. unfold mux_sources. rewrite Hin. cbn. unfold mux_source. now rewrite Hc. Qed.

    Lemma coinbase_outputs_btm : forall o, In o (t_outputs t) -> o_asset o = BTM.
    Proof.
      intros o Ho. destruct balance as (_ & _ & _ & _ & _ & B6).
      specialize (B6 (o_asset o, o_amount o)). rewrite coinbase_sources in B6. cbn in B6.
      assert (In (o_asset o, o_amount o) (mux_dests t)) as Hd.
      { unfold mux_dests. apply in_map_iff. exists o. auto. }
      specialize (B6 Hd). rewrite orb_false_r in B6. now apply N.eqb_eq in B6.
    Qed.

    Lemma coinbase_total : out_sum BTM t = out_total t.
    Proof.
      pose proof coinbase_outputs_btm as Hall. unfold out_sum, out_total.
      assert (forall l : list output, (forall o, In o l -> o_asset o = BTM) ->
        fold_right (fun o acc => if N.eqb (o_asset o) BTM then o_amount o + acc else acc) 0 l
        = fold_right (fun o acc => o_amount o + acc) 0 l) as Hl.
      { induction l as [|o l IH]; intros Hl; [reflexivity|]. cbn [fold_right].
        rewrite (Hl o (or_introl eq_refl)), N.eqb_refl. f_equal. apply IH.
        intros o' Ho'. apply Hl. now right. }
      apply Hl. exact Hall.
    Qed.

    (* a coinbase transaction: nothing but BTM is created, the uint64 total of the
       outputs did not wrap, and both fee computations give 0 *)
    Lemma coinbase_fee :
      BTMValue g = 0 /\ fee t = 0 /\ out_total t <= MaxInt64 /\
      sum_outputs_u64 (t_outputs t) = out_total t.
    Proof.
      destruct balance as (B1 & B2 & B3 & _). specialize (B1 BTM). specialize (B2 BTM).
      rewrite coinbase_sources in B1, B2. cbn in B1, B2.
      rewrite coinbase_total in B1.
      pose proof (sum_outputs_u64_mod t) as Hm.
      assert (Hpos : 0 <= out_total t) by (rewrite <- coinbase_total; apply out_sum_nonneg; exact Hwf).
      assert (Hle : out_total t mod 2^64 <= out_total t) by (apply Z.mod_le; lia).
      assert (Heq : sum_outputs_u64 (t_outputs t) = out_total t) by lia.
      unfold MaxInt64 in *. repeat split; try lia.
      unfold fee. rewrite Hin. cbn. rewrite Hc. cbn.
      destruct (0 >? fee_out (t_outputs t)) eqn:E; [|reflexivity].
      exfalso. apply Z.gtb_lt in E.
      assert (0 <= fee_out (t_outputs t)); [|lia].
      unfold fee_out.
      assert (forall l acc, 0 <= acc -> 0 <= fold_left (fun acc o => if N.eqb (o_asset o) BTM then wrap U64 (acc + o_amount o) else acc) l acc) as Hf.
      { induction l as [|o l IH]; intros acc Ha; cbn [fold_left]; [exact Ha|].
        apply IH. destruct (N.eqb (o_asset o) BTM); [|exact Ha].
        unfold wrap. apply Z.mod_pos_bound. lia. }
      apply Hf. lia.
    Qed.
  End PureCoinbase.

  (* outside the class "coinbase mixed with other inputs" the two fees agree *)
  Lemma fee_agrees_outside : mixed_coinbase t = false -> fee t = BTMValue g.
  Proof.
    unfold mixed_coinbase. intros Hm. destruct (has_coinbase t) eqn:Ec.
    - cbn in Hm. apply Z.ltb_ge in Hm. unfold has_coinbase in Ec.
      destruct (t_inputs t) as [|c [|c2 r]] eqn:Ei.
      + discriminate.
      + cbn in Ec. rewrite orb_false_r in Ec.
        destruct (coinbase_fee c Ei Ec) as (-> & -> & _). reflexivity.
      + cbn [length] in Hm. lia.
    - apply fee_agrees. exact Ec.
  Qed.
End Property.

(* ---- the statements as exported to Props.v ---- *)
Lemma fee_thm : forall cs vm perm, is_order perm -> forall b t g,
  wf_tx t -> b_version b = 1 \/ t_outputs t <> [] ->
  validate cs vm perm b t = Ok g -> has_coinbase t = false ->
  BTMValue g = in_sum BTM t - out_sum BTM t /\ fee t = BTMValue g.
Proof.
  intros. split; [eapply btm_fee_exact|eapply fee_agrees]; eauto.
Qed.

Lemma coinbase_thm : forall cs vm perm, is_order perm -> forall b t g c,
  wf_tx t -> b_version b = 1 \/ t_outputs t <> [] ->
  validate cs vm perm b t = Ok g -> t_inputs t = [c] -> is_cb c = true ->
  BTMValue g = 0 /\ fee t = 0 /\
  (forall o, In o (t_outputs t) -> o_asset o = BTM) /\
  out_total t <= MaxInt64 /\ sum_outputs_u64 (t_outputs t) = out_total t.
Proof.
  intros cs vm perm Hp b t g c Hwf Hv Hok Hin Hc.
  destruct (coinbase_fee cs vm perm Hp b t g Hwf Hv Hok c Hin Hc) as (A & B & C & D).
  repeat split; auto. eapply coinbase_outputs_btm; eauto.
Qed.

(* ------------------------------------------------------------------ *)
(* The full statement of the fee clause, its refutation on the          *)
(* coinbase-mixed class, and the statement outside that class           *)
(* ------------------------------------------------------------------ *)

Definition C01_full : Prop :=
  forall cs vm perm, is_order perm -> forall b t g,
    wf_tx t -> b_version b = 1 -> validate cs vm perm b t = Ok g ->
    BTMValue g = fee t.

(* the witness: protocol/validation/tx_test.go TestCoinbase case #4, which the repo's
   own test expects to validate: inputs [coinbase, spend BTM 100000000],
   outputs [BTM 888, BTM 90000000], first transaction of its block *)
Definition real_consts : consts := mkC 200 300000 1 100000000 128.
Definition vm_true (_ : nat) (gasl : Z) : option Z := if 10 <=? gasl then Some (gasl - 10) else None.
Definition blk1 (first : bool) : blk := mkB 1 666 first.
Definition witness_mixed : tx :=
  mkT 1 1 0 [mkIn KCoinbase 0%N 0 1%N 0; mkIn KSpend BTM 100000000 2%N 0]
            [mkOut KOrig BTM 888 0; mkOut KOrig BTM 90000000 0].

Lemma id_is_order : is_order (fun m => m).
Proof. intros m. apply Permutation_refl. Qed.

Lemma witness_mixed_wf : wf_tx witness_mixed.
Proof. split; repeat constructor; cbn; lia. Qed.

Lemma witness_mixed_run :
  validate real_consts vm_true (fun m => m) (blk1 true) witness_mixed = Ok (mkG 100000000 299990 10 0)
  /\ fee witness_mixed = 9999112.
Proof. split; vm_compute; reflexivity. Qed.

Lemma refuted_coinbase_mixed : ~ C01_full.
Proof.
  intros H. destruct witness_mixed_run as [Hr Hf].
  specialize (H real_consts vm_true (fun m => m) id_is_order (blk1 true) witness_mixed _
                witness_mixed_wf eq_refl Hr).
  rewrite Hf in H. cbn in H. discriminate.
Qed.

(* the same statement restricted by the decidable guard that excludes exactly the
   witness class *)
Lemma holds_outside : forall cs vm perm, is_order perm -> forall b t g,
  wf_tx t -> b_version b = 1 -> validate cs vm perm b t = Ok g ->
  mixed_coinbase t = false ->
  BTMValue g = fee t.
Proof.
  intros. symmetry. eapply fee_agrees_outside; eauto.
Qed.

(* the guard is satisfiable by validated transactions of both kinds (ex_tx, ex_cb below)
   and false exactly on the witness *)
Example guard_on_witness : mixed_coinbase witness_mixed = true.
Proof. reflexivity. Qed.

(* ------------------------------------------------------------------ *)
(* Non-vacuity: the hypotheses are satisfiable by non-trivial values    *)
(* ------------------------------------------------------------------ *)

(* 3 assets, 5 inputs of three kinds, 5 outputs of three kinds *)
Definition ex_tx : tx :=
  mkT 1 600 0
    [mkIn KSpend BTM 900000000 1%N 0; mkIn KSpend 1%N 70 2%N 0; mkIn KIssue 2%N 5 3%N 0;
     mkIn KVeto BTM 200000000 4%N 64; mkIn KSpend 1%N 30 5%N 0]
    [mkOut KOrig BTM 500000000 0; mkOut KVote BTM 300000000 64; mkOut KRetire 1%N 100 0;
     mkOut KOrig 2%N 5 0; mkOut KOrig BTM 299000000 0].

Example ex_validates :
  validate real_consts vm_true (fun m => m) (blk1 false) ex_tx = Ok (mkG 1000000 4350 650 600)
  /\ fee ex_tx = 1000000 /\ wf_tx ex_tx /\ has_coinbase ex_tx = false.
Proof.
  split; [vm_compute; reflexivity|]. split; [vm_compute; reflexivity|].
  split; [split; repeat constructor; cbn; lia|reflexivity].
Qed.

(* the same verdict under another iteration order of the parity map *)
Example ex_validates_rev :
  validate real_consts vm_true (@rev _) (blk1 false) ex_tx = Ok (mkG 1000000 4350 650 600).
Proof. vm_compute; reflexivity. Qed.

(* amounts at 2^63-1 *)
Definition ex_big : tx :=
  mkT 1 200 0
    [mkIn KSpend BTM (2^63 - 1) 1%N 0; mkIn KSpend 1%N (2^63 - 2) 2%N 0; mkIn KSpend 1%N 1 3%N 0]
    [mkOut KOrig BTM (2^63 - 1 - 60000) 0; mkOut KOrig 1%N (2^63 - 1) 0].
Example ex_big_validates :
  validate real_consts vm_true (fun m => m) (blk1 false) ex_big = Ok (mkG 60000 70 230 200)
  /\ wf_tx ex_big.
Proof. split; [vm_compute; reflexivity|split; repeat constructor; cbn; lia]. Qed.

(* one more unit of asset 1 on the input side overflows the int64 total: rejected *)
Example ex_big_overflow :
  validate real_consts vm_true (fun m => m) (blk1 false)
    (mkT 1 200 0
       [mkIn KSpend BTM (2^63 - 1) 1%N 0; mkIn KSpend 1%N (2^63 - 2) 2%N 0; mkIn KSpend 1%N 2 3%N 0]
       [mkOut KOrig BTM (2^63 - 1 - 60000) 0; mkOut KOrig 1%N (2^63 - 1) 0; mkOut KOrig 1%N 1 0])
  = Err EOverflow.
Proof. vm_compute; reflexivity. Qed.

(* a pure coinbase transaction (an epoch-start block paying two rewards) *)
Definition ex_cb : tx :=
  mkT 1 100 0 [mkIn KCoinbase 0%N 0 1%N 3] [mkOut KOrig BTM 0 0; mkOut KOrig BTM 285388127 0].
Example ex_cb_validates :
  validate real_consts vm_true (fun m => m) (blk1 true) ex_cb = Ok (mkG 0 0 0 0)
  /\ mixed_coinbase ex_cb = false /\ mixed_coinbase ex_tx = false.
Proof. split; [vm_compute; reflexivity|split; reflexivity]. Qed.

(* three outputs below 2^63 whose uint64 total wraps to 5: the coinbase source is 5 and
   the checked subtraction rejects *)
Example ex_cb_wrapped :
  validate real_consts vm_true (fun m => m) (blk1 true)
    (mkT 1 100 0 [mkIn KCoinbase 0%N 0 1%N 3]
       [mkOut KOrig BTM (2^63 - 1) 0; mkOut KOrig BTM (2^63 - 1) 0; mkOut KOrig BTM 7 0])
  = Err EOverflow.
Proof. vm_compute; reflexivity. Qed.

(* why the hypothesis "block version 1 or at least one output" is there: a version-2
   transaction without outputs in a version-2 block is accepted without the mux check
   (unreachable in a node: ValidateBlockHeader only admits version-1 blocks) *)
Example unversioned_skips_mux :
  validate real_consts vm_true (fun m => m) (mkB 2 10 false)
    (mkT 2 100 0 [mkIn KSpend BTM 100000 1%N 0] []) = Ok gas0.
Proof. vm_compute; reflexivity. Qed.

(* two coinbase inputs: the first coinbase entry has no destination — rejected
   (regression: before repair a1b2e3d5 the validator dereferenced nil and panicked) *)
Example two_coinbases_rejected :
  validate real_consts vm_true (fun m => m) (blk1 true)
    (mkT 1 100 0 [mkIn KCoinbase 0%N 0 1%N 1; mkIn KCoinbase 0%N 0 2%N 1] [mkOut KOrig BTM 10 0])
  = Err EOther.
Proof. vm_compute; reflexivity. Qed.
