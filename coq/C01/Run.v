(* C01 — helpers used by the generated case files (correspondence). *)
From Coq Require Import ZArith NArith List Bool.
From Verif Require Import Outcome GoInt.
From C01 Require Import Model.
Import ListNotations.
Open Scope Z_scope.

(* projected observable: (class, numbers)
     class 0 = accepted, numbers = [GasState.BTMValue; TxData.Fee()]
     class 1 = rejected with a value error (overflow / no source / unbalanced / gas calculation)
     class 2 = rejected with any other error
     class 3 = panic
     class 9 = the model's verdict depends on the map iteration order (never expected)
   for classes 1-3 numbers = [TxData.Fee()] *)
Definition obs := (Z * list Z)%type.

Fixpoint zlist_eqb (a b : list Z) : bool :=
  match a, b with
  | [], [] => true
  | x :: r, y :: s => Z.eqb x y && zlist_eqb r s
  | _, _ => false
  end.
Definition obs_eqb (a b : obs) : bool := Z.eqb (fst a) (fst b) && zlist_eqb (snd a) (snd b).

(* the VM's answer for the straight-line programs the harness uses: (succeeds, total cost),
   measured by the harness on vm.Verify directly; the run needs the whole cost *)
Definition vm_tbl (tbl : list (bool * Z)) (idx : nat) (gasl : Z) : option Z :=
  match nth_error tbl idx with
  | Some (ok, cost) => if ok && (cost <=? gasl) then Some (gasl - cost) else None
  | None => None
  end.

Definition obs_of (f : Z) (r : res) : obs :=
  match r with
  | Ok g => (0, [BTMValue g; f])
  | Err EOther => (2, [f])
  | Err _ => (1, [f])
  | Panic _ => (3, [f])
  end.

Definition run_case (cs : consts) (tbl : list (bool * Z)) (b : blk) (t : tx) : obs :=
  let f := fee t in
  let o1 := obs_of f (validate cs (vm_tbl tbl) (fun m => m) b t) in
  let o2 := obs_of f (validate cs (vm_tbl tbl) (@rev _) b t) in
  if obs_eqb o1 o2 then o1 else (9, []).
