(* C16 — finality is safe and irreversible.  PROPERTY THEOREMS ONLY.

   Two layers.
   (1) Abstract (C16/FFG.v): ANY checkpoint forest (type C, parent function, height growing by one per edge),
       ANY validator list of any length n, ANY set of votes.  A supermajority link s -> t: s is an ancestor of t
       and more than 2n/3 distinct validators voted s -> t; justified = least predicate containing the root and
       closed under supermajority links; finalized c = justified c and a DIRECT child is justified through a
       link from c.  slashable v = v cast two votes with different targets of equal height, or two votes with
       h s1 < h s2 < h t2 < h t1 (the two rules of casper/auth_verification.go).
       [partial] hypothesis same_validators: one validator set for the whole tree.
   (2) Engine (C16/Model.v, mirrors package protocol/casper at checkpoint granularity; the model is tied to the
       node by the correspondence run): a history is ANY list of events
         Ckpt b p h links   the epoch-closing block b (height h, previous checkpoint p) reaches ApplyBlock with the
                            sup links [links] in its header
         Vote / Replay      a verification message reaches AuthVerification / is replayed from the cache
         Restart r          the node is reopened with persisted finalized pointer r
       for ANY variant V (repaired / pinned code), any number of validators n, epoch length E, own key and genesis.
       [root s] = Casper.LastFinalized, [tree s] = the in-memory checkpoint tree, [c_anc c] = the proper ancestors of
       checkpoint c (nearest first), desc_id l a x = "x is a or descends from a". *)
From Coq Require Import List NArith Bool.
From C11 Require Model ProofsTree.
From C16 Require Import Model Base FFG Proofs Refine.
From C18 Require Model Proofs.
Import ListNotations.
Open Scope N_scope.

(* 1. Accountable safety: two finalized checkpoints that are not on one chain make more than n/3 validators
   slashable - for every checkpoint forest, every validator list and every vote set. *)
Theorem c16_accountable_safety :
  forall (C : Type) (C_eq_dec : forall x y : C, {x = y} + {x <> y})
         (par : C -> option C) (h : C -> nat)
         (h_par : forall c p, par c = Some p -> h c = S (h p))
         (vals : list nat) (vote : nat -> C -> C -> Prop) (root a b : C),
    finalized C par vals vote root a -> finalized C par vals vote root b ->
    ~ FFG.on_one_chain C par a b ->
    exists l, NoDup l /\ incl l vals /\ (3 * length l > length vals)%nat /\
              forall v, In v l -> slashable C h vote v.
Proof.
  intros C D par h hp vals vote root a b Fa Fb Hn.
  destruct (accountable_safety C D par h hp vals vote root a b Fa Fb Hn) as (l & (N1 & I1 & T1) & Hs).
  exists l. auto.
Qed.
Print Assumptions c16_accountable_safety.

(* hence within the fault bound (every duplicate-free list of slashable validators has at most n/3 members, e.g.
   f Byzantine validators with 3f < n and honest ones obeying the two rules - C18) conflicting finalized
   checkpoints do not exist *)
Theorem c16_safety_within_fault_bound :
  forall (C : Type) (C_eq_dec : forall x y : C, {x = y} + {x <> y})
         (par : C -> option C) (h : C -> nat)
         (h_par : forall c p, par c = Some p -> h c = S (h p))
         (vals : list nat) (vote : nat -> C -> C -> Prop) (root : C),
    (forall l, NoDup l -> incl l vals -> (forall v, In v l -> slashable C h vote v) ->
               (3 * length l <= length vals)%nat) ->
    forall a b, finalized C par vals vote root a -> finalized C par vals vote root b ->
                ~ ~ FFG.on_one_chain C par a b.
Proof. exact safety_within_fault_bound. Qed.
Print Assumptions c16_safety_within_fault_bound.

(* 2. Engine: the last finalized checkpoint only moves to descendants of itself - every history without a
   restart, honest or equivocating voters, any variant. *)
Theorem c16_monotone :
  forall (V : variant) (n E local g : N) (evs1 evs2 : list event),
    restart_free (evs1 ++ evs2) = true ->
    desc_id (cks (run V n E local g (evs1 ++ evs2)))
            (root (run V n E local g evs1)) (root (run V n E local g (evs1 ++ evs2))) = true.
Proof. exact monotone. Qed.
Print Assumptions c16_monotone.

(* with restarts the full statement (Proofs.C16_monotone_full: every history whose Restart events name a
   checkpoint stored as finalized) is refuted: a finalization reached through a verification message is not
   persisted before the next best-chain change, the reopened node reports an ancestor *)
Theorem c16_monotone_refuted_restart : ~ C16_monotone_full.
Proof. exact monotone_refuted_restart. Qed.
Print Assumptions c16_monotone_refuted_restart.

(* 3. Engine: two checkpoints with status Finalized always lie on one chain (restart-free histories). *)
Theorem c16_finalized_on_one_chain :
  forall (V : variant) (n E local g : N) (evs : list event),
    restart_free evs = true ->
    forall a b, In a (cks (run V n E local g evs)) -> In b (cks (run V n E local g evs)) ->
      c_st a = Finalized -> c_st b = Finalized ->
      c_id a = c_id b \/ In (c_id a) (c_anc b) \/ In (c_id b) (c_anc a).
Proof. exact finalized_one_chain. Qed.
Print Assumptions c16_finalized_on_one_chain.

(* 4. The main chain contains the last finalized checkpoint: the last finalized checkpoint is the root of casper's
   tree and every node of the tree descends from it ... *)
Theorem c16_tree_under_finalized :
  forall (V : variant) (n E local g : N) (evs : list event),
    restart_free evs = true ->
    let s := run V n E local g evs in
    memN (root s) (tree s) = true /\
    forall x, memN x (tree s) = true -> desc_id (cks s) (root s) x = true.
Proof. exact tree_under_root. Qed.
Print Assumptions c16_tree_under_finalized.

(* ... and the fork choice (casper.bestChain, model C11) always returns a node of that tree, whatever the tree *)
Theorem c16_main_chain_contains_finalized :
  forall t : C11.Model.cnode, In (C11.Model.best_chain t) (C11.ProofsTree.hashes t).
Proof. exact C11.ProofsTree.best_chain_in_hashes. Qed.
Print Assumptions c16_main_chain_contains_finalized.

(* ------------------------------------------------------------------------------------------------------------
   The two layers connected (C16/Refine.v).  On a state s of the engine the abstract layer is instantiated with
   parent = apar s (the stored parent of a checkpoint), height = adep s (depth in the checkpoint tree), validators
   0..n-1, votes = avote s (the votes the engine ACCEPTED, log [adm]), root = genesis g.  repaired = mkvar true true.
   Decidable guards on the final state:  anc_links_ok s = every accepted link goes from an ancestor to a descendant;
   hgt_depth_ok E s = every checkpoint of depth d has height E*d;  C18's pruned_vote_free s = every accepted vote
   still names a checkpoint of the in-memory tree.  Example Refine.guards_satisfiable: a history with two
   branches, a justified and a finalized checkpoint satisfies them. *)

(* 5. [partial: under the guard anc_links_ok, which the code does not enforce] Every checkpoint the engine marks
   Justified / Finalized is justified / finalized in the abstract sense with respect to the votes it accepted. *)
Theorem c16_engine_refines_partial :
  forall (n E local g : N) (evs : list event),
    restart_free evs = true ->
    let s := run (mkvar true true) n E local g evs in
    anc_links_ok s = true ->
    forall c, In c (cks s) ->
      (C17.Model.is_jf (c_st c) = true -> justified N (apar s) (avals n) (avote s) g (c_id c)) /\
      (c_st c = Finalized -> finalized N (apar s) (avals n) (avote s) g (c_id c)).
Proof.
  intros n E local g evs Hr s Ha c Hc. split.
  - exact (engine_refines_justified n E local g evs Hr Ha c Hc).
  - exact (engine_refines_finalized n E local g evs Hr Ha c Hc).
Qed.
Print Assumptions c16_engine_refines_partial.

(* 6. End to end, accountable safety of the ENGINE: two checkpoints it finalizes that are not on one chain make
   more than n/3 validators slashable BY VOTES THE ENGINE ACCEPTED (a pair with equal target height and different
   targets, or a nested pair). *)
Theorem c16_engine_accountable_safety :
  forall (n E local g : N) (evs : list event),
    restart_free evs = true ->
    let s := run (mkvar true true) n E local g evs in
    anc_links_ok s = true -> 0 < E -> hgt_depth_ok E s = true ->
    forall a b, In a (cks s) -> In b (cks s) -> c_st a = Finalized -> c_st b = Finalized ->
      c_id a <> c_id b /\ ~ In (c_id a) (c_anc b) /\ ~ In (c_id b) (c_anc a) ->
      exists l, NoDup l /\ incl l (avals n) /\ (3 * length l > N.to_nat n)%nat /\
        forall v, In v l ->
          exists e1 e2, In e1 (adm s) /\ In e2 (adm s) /\ vt_key e1 = N.of_nat v /\ vt_key e2 = N.of_nat v /\
                        (C18.Model.double_vote e1 e2 = true \/ C18.Model.nested e1 e2 = true).
Proof. intros n E local g evs Hr s Ha HE Hh. exact (engine_accountable_safety n E local g evs Hr Ha HE Hh). Qed.
Print Assumptions c16_engine_accountable_safety.

(* 7. ... and since the engine accepts no such pair (C18: c18_no_double_votes, c18_span_holds_outside under its
   guard), it never finalizes two conflicting checkpoints.  (In restart-free histories theorem 3 gives the same
   conclusion from the pruning of the tree alone; this derivation goes through the votes and is the one that
   survives when finalized blocks are learnt from other nodes.) *)
Theorem c16_engine_no_conflicting_finalized :
  forall (n E local g : N) (evs : list event),
    restart_free evs = true ->
    let s := run (mkvar true true) n E local g evs in
    anc_links_ok s = true -> 0 < E -> hgt_depth_ok E s = true -> C18.Model.pruned_vote_free s = true ->
    forall a b, In a (cks s) -> In b (cks s) -> c_st a = Finalized -> c_st b = Finalized ->
      ~ (c_id a <> c_id b /\ ~ In (c_id a) (c_anc b) /\ ~ In (c_id b) (c_anc a)).
Proof. intros n E local g evs Hr s Ha HE Hh Hp. exact (engine_no_conflicting_finalized n E local g evs Hr Ha HE Hh Hp). Qed.
Print Assumptions c16_engine_no_conflicting_finalized.

(* 8. Without the ancestor guard the refinement FAILS (restart-free witness Refine.wit_cross_link: a4 justified on
   branch A, block b8 on branch B carries the link a4 -> b8 signed by three validators): the engine marks b8
   Justified, abstractly it is not - nothing in the code checks that a link's source is an ancestor of its target. *)
Theorem c16_refinement_refuted_without_ancestor_guard :
  let s := run (mkvar true true) 4 4 0 0 wit_cross_link in
  restart_free wit_cross_link = true /\ anc_links_ok s = false /\
  (exists c, In c (cks s) /\ c_id c = 13 /\ c_st c = Justified) /\
  ~ justified N (apar s) (avals 4) (avote s) 0 13.
Proof. exact refinement_refuted_without_ancestor_guard. Qed.
Print Assumptions c16_refinement_refuted_without_ancestor_guard.

(* 9. ... and together with the regressed finalized pointer (theorem c16_monotone_refuted_restart) SAFETY fails:
   after a legitimate restart two checkpoints that are not on one chain are both Finalized although no accepted
   pair of votes breaks a commandment (witness Refine.wit_conflict, replayed on the real node by the harness:
   known finding C16-conflicting-finalized-after-restart). *)
Theorem c16_conflicting_finalized_after_restart :
  let s := run (mkvar true true) 4 4 99 0 wit_conflict in
  legit (mkvar true true) 4 4 99 0 (init 0) wit_conflict = true /\
  has_conflicting_finalized s = true /\
  C18.Proofs.has_double (adm s) = false /\ C18.Proofs.has_nested (adm s) = false /\
  map (fun c => (c_id c, c_st c)) (cks s) =
    [(0, Finalized); (4, Finalized); (8, Justified); (15, Unjustified); (19, Unjustified); (23, Finalized); (27, Justified)].
Proof. exact conflicting_finalized_after_restart. Qed.
Print Assumptions c16_conflicting_finalized_after_restart.
