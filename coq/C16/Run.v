(* C16/C17/C18 — helpers used by the generated case files: run a case on the engine model and project the state
   onto what the harness observes on the node after every step.

   A case: variant, number of validators n, epoch length E, the node's own key, the genesis label, and a list of
   steps.  A step is (events, cmp): the model events caused by one harness action (a delivered block can connect
   several epoch-closing blocks; an action that reaches no checkpoint has no event) and whether the result of
   the first event is the result the harness saw.

   Observation after a step:
     ok        result of the action
     root      Casper.LastFinalized
     jush      height of Casper.LastJustified
     db        stored checkpoints: (label, status, header sup links); a link is (source, [(slot, verifies)])
     tree      checkpoints of the in-memory tree: (label, status, sup links of the tree object)
     posted    the verification messages posted during the step: (key, source, target)
   db, tree, links, slots and posted are compared as sets (cached messages are replayed in map order). *)
From Coq Require Import List NArith Bool PeanoNat.
From C16 Require Import Model.
Import ListNotations.
Open Scope N_scope.

Definition lobs := (N * list (N * bool))%type.
Definition ckobs := (N * N * list lobs)%type.
Definition obs := (bool * N * N * list ckobs * list ckobs * list (N * N * N))%type.

Definition status_code (x : status) : N :=
  match x with Growing => 0 | Unjustified => 1 | Justified => 2 | Finalized => 3 end.

Definition proj_link (n tgt : N) (l : link) : lobs :=
  (l_src l, map (fun kx => (fst kx, (fst kx <? n) && sig_ok (fst kx) (l_src l) tgt (snd kx))) (l_slots l)).

Definition proj_ck (n : N) (hdr : bool) (c : ck) : ckobs :=
  (c_id c, status_code (c_st c), map (proj_link n (c_id c)) (if hdr then c_hl c else c_tl c)).

Definition observe (n : N) (ok : bool) (nposted : nat) (s : state) : obs :=
  (ok, root s, last_justified_height s,
   map (proj_ck n true) (filter c_db (cks s)),
   map (proj_ck n false) (filter (fun c => memN (c_id c) (tree s)) (cks s)),
   map (fun v => (vt_key v, vt_src v, vt_tgt v)) (rev (firstn (length (posted s) - nposted) (posted s)))).

Definition run_step (V : variant) (n E local : N) (s : state) (evs : list event) : state * bool :=
  let a := fold_left (fun (a : state * bool * bool) e =>
               let '(s, ok, first) := a in
               let '(s', r) := step V n E local s e in
               (s', if first then r else ok, false))
            evs (s, true, true) in
  (fst (fst a), snd (fst a)).

Fixpoint run_steps (V : variant) (n E local : N) (s : state) (steps : list (list event * bool)) : list obs :=
  match steps with
  | [] => []
  | (evs, cmp) :: r =>
    let '(s', ok) := run_step V n E local s evs in
    observe n (if cmp then ok else true) (length (posted s)) s' :: run_steps V n E local s' r
  end.

Definition run_case (V : variant) (n E local g : N) (steps : list (list event * bool)) : list obs :=
  observe n true 0 (init g) :: run_steps V n E local (init g) steps.

(* ---- comparison modulo order ----------------------------------------------- *)

Definition subset {A} (eqb : A -> A -> bool) (a b : list A) : bool :=
  forallb (fun x => existsb (eqb x) b) a.
Definition set_eqb {A} (eqb : A -> A -> bool) (a b : list A) : bool :=
  Nat.eqb (length a) (length b) && subset eqb a b && subset eqb b a.

Definition slot_eqb (a b : N * bool) : bool := (fst a =? fst b) && Bool.eqb (snd a) (snd b).
Definition lobs_eqb (a b : lobs) : bool := (fst a =? fst b) && set_eqb slot_eqb (snd a) (snd b).
Definition ckobs_eqb (a b : ckobs) : bool :=
  (fst (fst a) =? fst (fst b)) && (snd (fst a) =? snd (fst b)) && set_eqb lobs_eqb (snd a) (snd b).

Fixpoint list_eqb {A} (eqb : A -> A -> bool) (a b : list A) : bool :=
  match a, b with
  | [], [] => true
  | x :: a', y :: b' => eqb x y && list_eqb eqb a' b'
  | _, _ => false
  end.

Definition triple_eqb (a b : N * N * N) : bool :=
  (fst (fst a) =? fst (fst b)) && (snd (fst a) =? snd (fst b)) && (snd a =? snd b).

Definition obs_eqb (a b : obs) : bool :=
  let '(ok1, r1, j1, d1, t1, p1) := a in
  let '(ok2, r2, j2, d2, t2, p2) := b in
  Bool.eqb ok1 ok2 && (r1 =? r2) && (j1 =? j2) && set_eqb ckobs_eqb d1 d2 && set_eqb ckobs_eqb t1 t2 &&
  set_eqb triple_eqb p1 p2.

Definition case_eqb (a b : list obs) : bool := list_eqb obs_eqb a b.

(* the variants *)
Definition repaired : variant := mkvar true true.
Definition pinned : variant := mkvar false false.

(* short constructors for the case files *)
Definition L (src srch : N) (slots : list (N * (N * N * N))) : link :=
  mklink src srch (map (fun kx => (fst kx, mksig (fst (fst (snd kx))) (snd (fst (snd kx))) (snd (snd kx)))) slots).
Definition S3 (k s t : N) : sig := mksig k s t.
