(* C16 — the engine refines the abstract finality gadget.

   The abstract layer (C16/FFG.v) is instantiated on a state s of the engine model:
     checkpoints      the labels (N)
     parent           apar s : the c_par of a stored checkpoint that has ancestors
     height           adep s : the number of ancestors (the depth in the checkpoint tree)
     validators       0 .. n-1
     votes            avote s v a b : the engine ACCEPTED a vote of validator v for the link a -> b (log [adm])
     root             the genesis label g
   For every restart-free history of the repaired engine in which every accepted link goes from an ancestor to a
   descendant (decidable guard anc_links_ok on the final state), a checkpoint the engine marks Justified /
   Finalized is justified / finalized in the abstract sense.  With FFG.accountable_safety this gives accountable
   safety of the ENGINE, and with the two commandments the engine enforces on accepted votes (C18) that two
   checkpoints the engine finalizes lie on one chain - this time derived from the votes, not from the pruning
   of the tree (Proofs.finalized_one_chain). *)
From Coq Require Import List NArith Bool Lia PeanoNat.
From C16 Require Import Model Base FFG Proofs.
From C17 Require Import Model Links Proofs.
From C18 Require Import Model Proofs.
Import ListNotations.
Open Scope N_scope.

(* ---- the abstract structure read off an engine state --------------------------------------- *)

Definition apar (s : state) (x : N) : option N :=
  match find_ck x (cks s) with
  | Some c => match c_anc c with [] => None | _ :: _ => Some (c_par c) end
  | None => None
  end.

Definition adep (s : state) (x : N) : nat :=
  match find_ck x (cks s) with Some c => length (c_anc c) | None => O end.

Definition avals (n : N) : list nat := seq 0 (N.to_nat n).

Definition avote (s : state) (v : nat) (a b : N) : Prop :=
  exists e, In e (adm s) /\ vt_key e = N.of_nat v /\ vt_src e = a /\ vt_tgt e = b.

(* guards (decidable, on the final state) *)
Definition anc_links_ok (s : state) : bool :=
  forallb (fun e => match find_ck (vt_tgt e) (cks s) with
                    | Some c => memN (vt_src e) (c_anc c)
                    | None => false
                    end) (adm s).

Definition hgt_depth_ok (E : N) (s : state) : bool :=
  forallb (fun c => c_hgt c =? E * N.of_nat (length (c_anc c))) (cks s).

Lemma adep_par : forall s c p, wf_sk (cks s) -> apar s c = Some p -> adep s c = S (adep s p).
Proof.
  intros s c p W H. unfold apar, adep in *. destruct (find_ck c (cks s)) as [cc|] eqn:F; [|discriminate].
  assert (Hin : In cc (cks s)) by (apply find_ck_some in F; tauto).
  destruct (wf_anc_struct _ W cc Hin) as [E0|(pc & Fp & E0)]; [rewrite E0 in H; discriminate|].
  rewrite E0 in H |- *. inversion H; subst p. rewrite Fp. reflexivity.
Qed.

Lemma anc_of_in_k : forall s, wf_sk (cks s) -> forall k c, (length (c_anc c) <= k)%nat -> In c (cks s) ->
  forall a, In a (c_anc c) -> anc N (apar s) a (c_id c).
Proof.
  intros s W. induction k as [|k IH]; intros c Hk Hc a Ha.
  - destruct (c_anc c); [contradiction|simpl in Hk; lia].
  - destruct (wf_anc_struct _ W c Hc) as [E0|(pc & Fp & E0)]; [rewrite E0 in Ha; contradiction|].
    assert (Fc : find_ck (c_id c) (cks s) = Some c) by (apply find_ck_in; [apply W|assumption]).
    assert (Hp : apar s (c_id c) = Some (c_par c)) by (unfold apar; rewrite Fc, E0; reflexivity).
    rewrite E0 in Ha. destruct Ha as [<-|Ha]; [now apply anc_par|].
    assert (Hpc : In pc (cks s) /\ c_id pc = c_par c) by now apply find_ck_some.
    apply (anc_step N (apar s) a (c_par c)); [assumption|]. rewrite <- (proj2 Hpc).
    apply IH; [rewrite E0 in Hk; simpl in Hk; lia|tauto|assumption].
Qed.

Lemma anc_of_in : forall s c a, wf_sk (cks s) -> In c (cks s) -> In a (c_anc c) -> anc N (apar s) a (c_id c).
Proof. intros s c a W Hc Ha. exact (anc_of_in_k s W (length (c_anc c)) c (Nat.le_refl _) Hc a Ha). Qed.

Lemma in_of_anc : forall s a x, wf_sk (cks s) -> anc N (apar s) a x ->
  forall c, find_ck x (cks s) = Some c -> In a (c_anc c).
Proof.
  intros s a x W H. induction H as [p c0 Hp|a p c0 Hp Ha IH]; intros c F.
  - unfold apar in Hp. rewrite F in Hp. assert (Hin : In c (cks s)) by (apply find_ck_some in F; tauto).
    destruct (wf_anc_struct _ W c Hin) as [E0|(pc & Fp & E0)]; [rewrite E0 in Hp; discriminate|].
    rewrite E0 in Hp |- *. inversion Hp. now left.
  - unfold apar in Hp. rewrite F in Hp. assert (Hin : In c (cks s)) by (apply find_ck_some in F; tauto).
    destruct (wf_anc_struct _ W c Hin) as [E0|(pc & Fp & E0)]; [rewrite E0 in Hp; discriminate|].
    rewrite E0 in Hp |- *. inversion Hp; subst p. right. now apply IH.
Qed.

(* ---- counting ------------------------------------------------------------------------------ *)

Lemma nodup_map_inj : forall {A B} (f : A -> B) l, (forall x y, f x = f y -> x = y) -> NoDup l -> NoDup (map f l).
Proof.
  intros A B f l Hf. induction l as [|a l IH]; simpl; intros H; [constructor|].
  inversion H as [|x y Hn H']; subst. constructor; [|now apply IH].
  intros Hin. apply in_map_iff in Hin. destruct Hin as (b & E0 & Hb). apply Hf in E0. subst b. contradiction.
Qed.

Lemma seqN_nodup : forall n, NoDup (seqN n).
Proof. intros n. unfold seqN. apply nodup_map_inj; [apply Nat2N.inj|apply seq_NoDup]. Qed.

Section Refine.

Variable n E local g : N.
Variable evs : list event.
Hypothesis Hrf : restart_free evs = true.

Let V := mkvar true true.
Let s := run V n E local g evs.

Hypothesis Hanc : anc_links_ok s = true.

Let W : wf false s := run_wf V n E local g false evs Hrf.
Let Wsk : wf_sk (cks s) := w_sk false s W.
Let I17 : inv17 n g (cks s) := run_inv17 V n E local g evs eq_refl Hrf.
Let B18 : binv s := run_binv V n E local g eq_refl evs Hrf.

(* a supermajority of verified signatures in a tree object is an abstract supermajority link *)
Lemma slink_of_super : forall c src, In c (cks s) -> supermajority n (c_id c) src (c_tl c) = true ->
  slink N (apar s) (avals n) (avote s) src (c_id c).
Proof.
  intros c src Hc Hsm.
  set (L := valid_voters n (c_id c) src (c_tl c)).
  assert (HL : forall k, In k L -> k < n /\ exists e, In e (adm s) /\ vt_key e = k /\ vt_src e = src /\ vt_tgt e = c_id c).
  { intros k Hk. unfold L, valid_voters in Hk. apply filter_In in Hk. destruct Hk as [Hk1 Hk2].
    split; [now apply seqN_in|]. apply existsb_exists in Hk2. destruct Hk2 as (l & Hl & Hx).
    apply andb_true_iff in Hx. destruct Hx as [Hx1 Hx2]. apply N.eqb_eq in Hx1.
    assert (Hf : slot_filled k l = true).
    { unfold slot_valid in Hx2. unfold slot_filled. destruct (slot_get k (l_slots l)); [reflexivity|discriminate]. }
    destruct (b5 s B18 c l k Hc Hl Hf) as (e & He & A1 & A2 & A3). exists e. repeat split; auto; congruence. }
  assert (Hlen : (3 * length L > 2 * N.to_nat n)%nat).
  { unfold supermajority in Hsm. apply majority_arith in Hsm. fold L in Hsm. lia. }
  split.
  - (* the source is an ancestor: the guard, on one of the votes *)
    destruct L as [|k L'] eqn:EL; [simpl in Hlen; lia|].
    destruct (HL k (or_introl eq_refl)) as (_ & e & He & _ & Es & Et).
    pose proof (forallb_in _ _ e Hanc He) as Hg. cbv beta in Hg. rewrite Et in Hg.
    rewrite (find_ck_in _ _ (wf_ids _ Wsk) Hc) in Hg. apply memN_In in Hg. rewrite Es in Hg.
    now apply anc_of_in.
  - exists (map N.to_nat L). split.
    + split; [|split].
      * apply nodup_map_inj; [apply N2Nat.inj|]. unfold L, valid_voters. apply NoDup_filter, seqN_nodup.
      * intros v Hv. apply in_map_iff in Hv. destruct Hv as (k & <- & Hk). destruct (HL k Hk) as (Hlt & _).
        unfold avals. apply in_seq. lia.
      * unfold avals. rewrite map_length, seq_length. lia.
    + intros v Hv. apply in_map_iff in Hv. destruct Hv as (k & <- & Hk). destruct (HL k Hk) as (_ & e & He & A1 & A2 & A3).
      exists e. rewrite N2Nat.id. auto.
Qed.

Lemma justified_of_jf_k : forall k c, (length (c_anc c) <= k)%nat -> In c (cks s) -> is_jf (c_st c) = true ->
  justified N (apar s) (avals n) (avote s) g (c_id c).
Proof.
  induction k as [|k IH]; intros c Hk Hc Hj.
  - destruct (N.eq_dec (c_id c) g) as [->|Hg]; [apply just_root|].
    destruct (i_j n g _ I17 c Hc Hg Hj) as (src & sc & Hsm & Fs & Hjs).
    pose proof (slink_of_super c src Hc Hsm) as Hl. destruct Hl as (Ha & _).
    pose proof (in_of_anc s src (c_id c) Wsk Ha c (find_ck_in _ _ (wf_ids _ Wsk) Hc)) as Hin.
    destruct (c_anc c); [contradiction|simpl in Hk; lia].
  - destruct (N.eq_dec (c_id c) g) as [->|Hg]; [apply just_root|].
    destruct (i_j n g _ I17 c Hc Hg Hj) as (src & sc & Hsm & Fs & Hjs).
    pose proof (slink_of_super c src Hc Hsm) as Hl.
    assert (Hsc : In sc (cks s) /\ c_id sc = src) by now apply find_ck_some.
    apply (just_link N (apar s) (avals n) (avote s) g src (c_id c)); [|exact Hl].
    rewrite <- (proj2 Hsc). apply IH; [|tauto|assumption].
    (* the source is higher up *)
    destruct Hl as (Ha & _). pose proof (anc_height N (apar s) (adep s) (fun c0 p => adep_par s c0 p Wsk) _ _ Ha) as Hh.
    unfold adep in Hh. rewrite Fs, (find_ck_in _ _ (wf_ids _ Wsk) Hc) in Hh. lia.
Qed.

(* 1. the engine's flags refine the abstract predicates *)
Theorem engine_refines_justified : forall c, In c (cks s) -> is_jf (c_st c) = true ->
  justified N (apar s) (avals n) (avote s) g (c_id c).
Proof. intros c Hc Hj. exact (justified_of_jf_k (length (c_anc c)) c (Nat.le_refl _) Hc Hj). Qed.

Theorem engine_refines_finalized : forall c, In c (cks s) -> c_st c = Finalized ->
  finalized N (apar s) (avals n) (avote s) g (c_id c).
Proof.
  intros c Hc Hf. split; [apply engine_refines_justified; [assumption|now rewrite Hf]|].
  destruct (i_f n g _ I17 c Hc Hf) as (b & Hb & Hp & Ha & Hjb & Hsm).
  exists (c_id b). split; [|now apply slink_of_super].
  unfold apar. rewrite (find_ck_in _ _ (wf_ids _ Wsk) Hb).
  destruct (wf_anc_struct _ Wsk b Hb) as [E0|(pc & _ & E0)]; [rewrite E0 in Ha; contradiction|].
  rewrite E0. now rewrite Hp.
Qed.

(* ---- 2. accountable safety of the engine ---------------------------------------------------- *)

Hypothesis HE : 0 < E.
Hypothesis Hhd : hgt_depth_ok E s = true.

Lemma hgt_of_depth : forall x c, find_ck x (cks s) = Some c -> c_hgt c = E * N.of_nat (adep s x).
Proof.
  intros x c F. unfold adep. rewrite F. assert (Hin : In c (cks s)) by (apply find_ck_some in F; tauto).
  pose proof (forallb_in _ _ c Hhd Hin) as H. now apply N.eqb_eq in H.
Qed.

(* the heights recorded in an accepted vote are the heights of its checkpoints *)
Lemma adm_heights : forall e, In e (adm s) ->
  vt_tgth e = E * N.of_nat (adep s (vt_tgt e)) /\ vt_srch e = E * N.of_nat (adep s (vt_src e)).
Proof.
  intros e He. destruct (b1 s B18 e He) as (c & l & Fc & Hh & Hl & _ & Hsr & Hsrc).
  split; [rewrite <- Hh; now apply hgt_of_depth|].
  assert (Hc : In c (cks s)) by (apply find_ck_some in Fc; tauto).
  destruct (b0 s B18 c l Hc Hl) as (sc & Fs & Hhs). rewrite <- Hsr, <- Hhs. rewrite Hsrc in Fs. now apply hgt_of_depth.
Qed.

Definition engine_slashable (v : nat) : Prop :=
  exists e1 e2, In e1 (adm s) /\ In e2 (adm s) /\ vt_key e1 = N.of_nat v /\ vt_key e2 = N.of_nat v /\
                (double_vote e1 e2 = true \/ nested e1 e2 = true).

Lemma slashable_engine : forall v, slashable N (adep s) (avote s) v -> engine_slashable v.
Proof.
  intros v (s1 & t1 & s2 & t2 & (e1 & H1 & K1 & S1 & T1) & (e2 & H2 & K2 & S2 & T2) & Hc).
  exists e1, e2. split; [assumption|]. split; [assumption|]. split; [assumption|]. split; [assumption|].
  destruct (adm_heights e1 H1) as (Ht1 & Hs1). destruct (adm_heights e2 H2) as (Ht2 & Hs2).
  rewrite S1, T1 in *. rewrite S2, T2 in *.
  destruct Hc as [(Hne & Hd)|(A1 & A2 & A3)].
  - left. unfold double_vote. rewrite K1, K2, N.eqb_refl, Ht1, Ht2, Hd, N.eqb_refl, T1, T2. simpl.
    apply negb_true_iff. apply N.eqb_neq. exact Hne.
  - right. unfold nested. rewrite K1, K2, N.eqb_refl, Hs1, Hs2, Ht1, Ht2. simpl.
    assert (M : forall x y, (x < y)%nat -> (E * N.of_nat x <? E * N.of_nat y) = true).
    { intros x y Hxy. apply N.ltb_lt. apply N.mul_lt_mono_pos_l; lia. }
    rewrite (M _ _ A1), (M _ _ A2), (M _ _ A3). reflexivity.
Qed.

Definition conflicting (a b : ck) : Prop :=
  c_id a <> c_id b /\ ~ In (c_id a) (c_anc b) /\ ~ In (c_id b) (c_anc a).

(* two checkpoints the engine finalizes that are not on one chain: more than n/3 validators have two ACCEPTED
   votes that break a commandment *)
Theorem engine_accountable_safety : forall a b, In a (cks s) -> In b (cks s) ->
  c_st a = Finalized -> c_st b = Finalized -> conflicting a b ->
  exists l, NoDup l /\ incl l (avals n) /\ (3 * length l > N.to_nat n)%nat /\ forall v, In v l -> engine_slashable v.
Proof.
  intros a b Ha Hb Fa Fb (C1 & C2 & C3).
  destruct (accountable_safety N N.eq_dec (apar s) (adep s) (fun c p => adep_par s c p Wsk) (avals n) (avote s) g
              (c_id a) (c_id b) (engine_refines_finalized a Ha Fa) (engine_refines_finalized b Hb Fb))
    as (l & (N1 & I1 & T1) & Hs).
  - intros [Q|[Q|Q]]; [contradiction| |].
    + apply C2. exact (in_of_anc s _ _ Wsk Q b (find_ck_in _ _ (wf_ids _ Wsk) Hb)).
    + apply C3. exact (in_of_anc s _ _ Wsk Q a (find_ck_in _ _ (wf_ids _ Wsk) Ha)).
  - exists l. split; [assumption|]. split; [assumption|]. split.
    + unfold avals in T1. rewrite seq_length in T1. exact T1.
    + intros v Hv. apply slashable_engine. now apply Hs.
Qed.

(* hence, while every accepted vote still names a checkpoint of the tree (the guard of C18's span theorem), the
   engine never finalizes two conflicting checkpoints: no accepted pair breaks a commandment (C18) *)
Theorem engine_no_conflicting_finalized : pruned_vote_free s = true ->
  forall a b, In a (cks s) -> In b (cks s) -> c_st a = Finalized -> c_st b = Finalized -> ~ conflicting a b.
Proof.
  intros Hp a b Ha Hb Fa Fb Hc.
  destruct (engine_accountable_safety a b Ha Hb Fa Fb Hc) as (l & _ & _ & Hlen & Hs).
  destruct l as [|v l]; [simpl in Hlen; lia|].
  destruct (Hs v (or_introl eq_refl)) as (e1 & e2 & H1 & H2 & _ & _ & [Hd|Hn]).
  - rewrite (b3 s B18 e1 e2 H1 H2) in Hd. discriminate.
  - rewrite (b4 s B18 Hp e1 e2 H1 H2) in Hn. discriminate.
Qed.

End Refine.

(* ---- the guards are satisfiable by a non-trivial history with two branches ------------------ *)
(* branch A = 4, 8 and a sibling branch B = 5 from genesis; the node (key 0) votes by itself, validators 1,2 complete
   the links 0 -> 4 and 4 -> 8: 4 is finalized, 8 justified, branch B pruned *)
Definition ex_two_branches : list event :=
  [Ckpt 4 0 4 []; Ckpt 5 0 4 []; Vote 1 0 4 (mksig 1 0 4); Vote 2 0 4 (mksig 2 0 4); Vote 3 0 5 (mksig 3 0 5);
   Ckpt 8 4 8 []; Vote 1 4 8 (mksig 1 4 8); Vote 2 4 8 (mksig 2 4 8)].

Example guards_satisfiable :
  let s := run (mkvar true true) 4 4 0 0 ex_two_branches in
  restart_free ex_two_branches = true /\ anc_links_ok s = true /\ hgt_depth_ok 4 s = true /\
  map (fun c => (c_id c, c_st c)) (cks s) = [(0, Finalized); (4, Finalized); (5, Unjustified); (8, Justified)] /\
  length (adm s) = 7%nat.
Proof. vm_compute. repeat split. Qed.

(* ---- 3. without the ancestor guard ------------------------------------------------------------ *)

(* (a) the refinement itself fails: a4 is justified on branch A; block b8 on branch B carries the link a4 -> b8
   signed by validators 1,2,3: the engine marks b8 Justified, but no accepted link reaches b8 from an ancestor *)
Definition wit_cross_link : list event :=
  [Ckpt 4 0 4 []; Vote 1 0 4 (mksig 1 0 4); Vote 2 0 4 (mksig 2 0 4);
   Ckpt 9 0 4 []; Ckpt 13 9 8 [mklink 4 4 [(1, mksig 1 4 13); (2, mksig 2 4 13); (3, mksig 3 4 13)]]].

Lemma justified_has_ancestor_vote : forall (C : Type) (par : C -> option C) vals vote root x,
  (length vals > 0)%nat -> justified C par vals vote root x -> x <> root ->
  exists src v, vote v src x /\ anc C par src x.
Proof.
  intros C par vals vote root x Hv H Hne. destruct H as [|src x Hs (Ha & l & (N1 & I1 & Q1) & Hl)]; [congruence|].
  destruct l as [|v l]; [simpl in Q1; lia|]. exists src, v. split; [apply Hl; now left|assumption].
Qed.

Example refinement_refuted_without_ancestor_guard :
  let s := run (mkvar true true) 4 4 0 0 wit_cross_link in
  restart_free wit_cross_link = true /\ anc_links_ok s = false /\
  (exists c, In c (cks s) /\ c_id c = 13 /\ c_st c = Justified) /\
  ~ justified N (apar s) (avals 4) (avote s) 0 13.
Proof.
  set (s := run (mkvar true true) 4 4 0 0 wit_cross_link).
  split; [reflexivity|]. split; [vm_compute; reflexivity|]. split.
  - vm_compute. eexists. split; [do 3 right; left; reflexivity|]. split; reflexivity.
  - intros H. destruct (justified_has_ancestor_vote N (apar s) (avals 4) (avote s) 0 13) as (src & v & (e & He & _ & Es & Et) & Ha);
      [vm_compute; lia|exact H|discriminate|].
    assert (Wsk : wf_sk (cks s)) by (apply (w_sk false), run_wf; reflexivity).
    assert (F : exists c, find_ck 13 (cks s) = Some c /\ c_anc c = [9; 0]) by (vm_compute; eexists; split; reflexivity).
    destruct F as (c & F & Ec). pose proof (in_of_anc s src 13 Wsk Ha c F) as Hin. rewrite Ec in Hin.
    assert (G : forallb (fun e => negb ((vt_tgt e =? 13) && memN (vt_src e) [9; 0])) (adm s) = true) by (vm_compute; reflexivity).
    pose proof (forallb_in _ _ e G He) as Hg. cbv beta in Hg. rewrite Et, Es in Hg. simpl in Hg.
    apply memN_In in Hin. simpl in Hin. rewrite Hin in Hg. discriminate.
Qed.

(* (b) together with the regressed finalized pointer (Proofs.monotone_refuted_restart) the missing ancestor check
   breaks safety itself: two checkpoints that are not on one chain are both Finalized and NO validator has cast a
   slashable vote.  The node is no validator; branch A = 4, 8; branch C = 15, 19 (and later 23, 27) from genesis;
   validators 0,1,2 vote 0->4 and 4->8 (4 finalized by messages); the node is reopened with the stale pointer
   (genesis), branch C is back in the tree; block 23 (height 12 on C) carries the link 8 -> 23 and block 27 the link
   23 -> 27, each signed by 0,1,2.  Replayed on the real node by the harness (corpus-conflict-after-restart). *)
Definition wit_conflict : list event :=
  [Ckpt 4 0 4 []; Ckpt 8 4 8 []; Ckpt 15 0 4 []; Ckpt 19 15 8 [];
   Vote 0 0 4 (mksig 0 0 4); Vote 1 0 4 (mksig 1 0 4); Vote 2 0 4 (mksig 2 0 4);
   Vote 0 4 8 (mksig 0 4 8); Vote 1 4 8 (mksig 1 4 8); Vote 2 4 8 (mksig 2 4 8);
   Restart 0;
   Ckpt 23 19 12 [mklink 8 8 [(0, mksig 0 8 23); (1, mksig 1 8 23); (2, mksig 2 8 23)]];
   Ckpt 27 23 16 [mklink 23 12 [(0, mksig 0 23 27); (1, mksig 1 23 27); (2, mksig 2 23 27)]]].

Definition conflicting_b (a b : ck) : bool :=
  negb (c_id a =? c_id b) && negb (memN (c_id a) (c_anc b)) && negb (memN (c_id b) (c_anc a)).

Definition has_conflicting_finalized (s : state) : bool :=
  existsb (fun a => existsb (fun b => status_eqb (c_st a) Finalized && status_eqb (c_st b) Finalized && conflicting_b a b)
                            (cks s)) (cks s).

Example conflicting_finalized_after_restart :
  let s := run (mkvar true true) 4 4 99 0 wit_conflict in
  legit (mkvar true true) 4 4 99 0 (init 0) wit_conflict = true /\
  has_conflicting_finalized s = true /\
  has_double (adm s) = false /\ has_nested (adm s) = false /\
  map (fun c => (c_id c, c_st c)) (cks s) =
    [(0, Finalized); (4, Finalized); (8, Justified); (15, Unjustified); (19, Unjustified); (23, Finalized); (27, Justified)].
Proof. vm_compute. repeat split. Qed.
