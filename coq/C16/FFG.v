(* C16 — abstract layer: accountable safety of the finality gadget (Casper FFG), for an arbitrary checkpoint
   tree and an arbitrary finite validator set.

   Checkpoints are any type C with a parent function (a forest: every checkpoint has at most one parent) and a
   height that grows by one along a parent edge.  Validators are numbers, the validator set a list
   of any length n (a quorum is a duplicate-free sub-list).  A vote is (validator, source, target); [vote] is an arbitrary predicate (an
   equivocating validator may have cast any votes).  A sup link s -> t is a supermajority link when s is an
   ancestor of t and MORE THAN 2n/3 distinct validators voted s -> t.  [justified] is the least predicate that
   holds of the root and is closed under supermajority links; a checkpoint is finalized when it is justified and
   a DIRECT child of it is justified through a supermajority link from it.

   Slashable (the two commandments, as Bytom's casper states them): a validator cast two votes with different
   targets of equal height, or two votes one of whose spans lies strictly inside the other
   (h s1 < h s2 < h t2 < h t1).

   Hypothesis same_validators [partial]: one validator set for the whole tree (the code has no stitching of
   forward/rear validator sets either). *)
From Coq Require Import List Arith Lia PeanoNat.
Import ListNotations.

Section FFG.

Variable C : Type.
Variable C_eq_dec : forall x y : C, {x = y} + {x <> y}.
Variable par : C -> option C.
Variable h : C -> nat.
Hypothesis h_par : forall c p, par c = Some p -> h c = S (h p).

Variable vals : list nat.
Variable vote : nat -> C -> C -> Prop.
Variable root : C.

(* proper ancestor *)
Inductive anc : C -> C -> Prop :=
| anc_par : forall p c, par c = Some p -> anc p c
| anc_step : forall a p c, par c = Some p -> anc a p -> anc a c.

Lemma anc_height : forall a c, anc a c -> h a < h c.
Proof.
  induction 1 as [p c Hp | a p c Hp Ha IH].
  - rewrite (h_par _ _ Hp). lia.
  - rewrite (h_par _ _ Hp). lia.
Qed.

Lemma anc_trans : forall a b c, anc a b -> anc b c -> anc a c.
Proof.
  intros a b c Hab Hbc. induction Hbc as [p c Hp | b' p c Hp Hb IH].
  - eapply anc_step; eauto.
  - eapply anc_step; eauto.
Qed.

(* the ancestors of a checkpoint are totally ordered by height *)
Lemma anc_same_height : forall a b c, anc a c -> anc b c -> h a = h b -> a = b.
Proof.
  intros a b c Ha. revert b. induction Ha as [p c Hp | a p c Hp Ha IH]; intros b Hb Hh.
  - inversion Hb as [p' c' Hp' | b' p' c' Hp' Hb']; subst.
    + congruence.
    + assert (p' = p) by congruence. subst p'. apply anc_height in Hb'. lia.
  - inversion Hb as [p' c' Hp' | b' p' c' Hp' Hb']; subst.
    + assert (b = p) by congruence. subst b. apply anc_height in Ha. lia.
    + assert (p' = p) by congruence. subst p'. now apply IH.
Qed.

Definition quorum (l : list nat) : Prop := NoDup l /\ incl l vals /\ 3 * length l > 2 * length vals.

Definition slink (s t : C) : Prop :=
  anc s t /\ exists l, quorum l /\ forall v, In v l -> vote v s t.

Inductive justified : C -> Prop :=
| just_root : justified root
| just_link : forall s t, justified s -> slink s t -> justified t.

Definition finalized (c : C) : Prop :=
  justified c /\ exists t, par t = Some c /\ slink c t.

Definition on_one_chain (a b : C) : Prop := a = b \/ anc a b \/ anc b a.

Definition slashable (v : nat) : Prop :=
  exists s1 t1 s2 t2, vote v s1 t1 /\ vote v s2 t2 /\
    ((t1 <> t2 /\ h t1 = h t2) \/ (h s1 < h s2 /\ h s2 < h t2 /\ h t2 < h t1)).

(* more than a third of the validators *)
Definition third (l : list nat) : Prop := NoDup l /\ incl l vals /\ 3 * length l > length vals.

(* ---- counting ------------------------------------------------------------- *)

Lemma filter_split_length : forall (f : nat -> bool) (l : list nat),
  length l = length (filter f l) + length (filter (fun x => negb (f x)) l).
Proof.
  induction l as [|x l IH]; simpl; [reflexivity|].
  destruct (f x); simpl; lia.
Qed.

Definition mem (x : nat) (l : list nat) : bool := existsb (Nat.eqb x) l.

Lemma mem_In : forall x l, mem x l = true <-> In x l.
Proof.
  intros x l. unfold mem. rewrite existsb_exists. split.
  - intros (y & Hy & He). apply Nat.eqb_eq in He. now subst.
  - intros H. exists x. split; [assumption|apply Nat.eqb_refl].
Qed.

Lemma nodup_app : forall (l1 l2 : list nat),
  NoDup l1 -> NoDup l2 -> (forall x, In x l1 -> ~ In x l2) -> NoDup (l1 ++ l2).
Proof.
  induction l1 as [|x l1 IH]; intros l2 N1 N2 D; simpl; [assumption|].
  inversion N1 as [|y l Hn N1']; subst. constructor.
  - intros Hx. apply in_app_or in Hx. destruct Hx as [Hx|Hx]; [contradiction|].
    apply (D x); [now left|assumption].
  - apply IH; [assumption|assumption|]. intros y Hy. apply D. now right.
Qed.

Lemma quorum_intersection : forall l1 l2, quorum l1 -> quorum l2 ->
  exists l, third l /\ (forall v, In v l -> In v l1 /\ In v l2).
Proof.
  intros l1 l2 (N1 & I1 & Q1) (N2 & I2 & Q2).
  exists (filter (fun x => mem x l2) l1). split.
  - split; [now apply NoDup_filter|]. split.
    + intros x Hx. apply filter_In in Hx. apply I1, Hx.
    + pose proof (filter_split_length (fun x => mem x l2) l1) as Hs.
      assert (Hle : length (filter (fun x => negb (mem x l2)) l1 ++ l2) <= length vals).
      { apply NoDup_incl_length.
        - apply nodup_app; [now apply NoDup_filter|assumption|].
          intros x Hx Hx2. apply filter_In in Hx. destruct Hx as [_ Hx].
          apply mem_In in Hx2. rewrite Hx2 in Hx. discriminate.
        - intros x Hx. apply in_app_or in Hx.
          destruct Hx as [Hx|Hx]; [apply filter_In in Hx; apply I1, Hx|now apply I2]. }
      rewrite app_length in Hle. lia.
  - intros v Hv. apply filter_In in Hv. destruct Hv as [H1 H2]. split; [assumption|now apply mem_In].
Qed.

(* two quorums voting for two links: more than a third of the validators voted for both *)
Lemma two_links : forall s1 t1 s2 t2, slink s1 t1 -> slink s2 t2 ->
  exists l, third l /\ forall v, In v l -> vote v s1 t1 /\ vote v s2 t2.
Proof.
  intros s1 t1 s2 t2 (_ & l1 & Q1 & V1) (_ & l2 & Q2 & V2).
  destruct (quorum_intersection l1 l2 Q1 Q2) as (l & T & Hl).
  exists l. split; [assumption|]. intros v Hv. destruct (Hl v Hv). split; auto.
Qed.

Lemma justified_under_root : forall c, justified c -> c = root \/ anc root c.
Proof.
  induction 1 as [|s t Hs IH (Ha & _)]; [now left|].
  right. destruct IH as [->|IH]; [assumption|eapply anc_trans; eauto].
Qed.

(* two different justified checkpoints of equal height: a third of the validators broke commandment I *)
Lemma same_height_slash : forall a b, justified a -> justified b -> a <> b -> h a = h b ->
  exists l, third l /\ forall v, In v l -> slashable v.
Proof.
  intros a b Ja Jb Hne Hh.
  destruct Ja as [|sa a Jsa La].
  - (* a = root: b is the root or above it *)
    destruct (justified_under_root b Jb) as [->|Hb]; [congruence|]. apply anc_height in Hb. lia.
  - destruct Jb as [|sb b Jsb Lb].
    + destruct (justified_under_root a (just_link _ _ Jsa La)) as [->|Hb]; [congruence|].
      apply anc_height in Hb. lia.
    + destruct (two_links _ _ _ _ La Lb) as (l & T & Hl). exists l. split; [assumption|].
      intros v Hv. destruct (Hl v Hv) as [V1 V2].
      exists sa, a, sb, b. split; [assumption|]. split; [assumption|]. left. split; assumption.
Qed.

(* the core: a is finalized through its direct child a'; every justified checkpoint above the height of a
   descends from a, or a third of the validators is slashable *)
Lemma above_finalized : forall a a', justified a -> par a' = Some a -> slink a a' ->
  forall c, justified c -> h a < h c -> anc a c \/ exists l, third l /\ forall v, In v l -> slashable v.
Proof.
  intros a a' Ja Hpa La c Jc. induction Jc as [|s c Js IH Lc]; intros Hh.
  - (* the root is not above a *)
    destruct (justified_under_root a Ja) as [->|Hb]; [lia|]. apply anc_height in Hb. lia.
  - destruct (lt_eq_lt_dec (h a) (h s)) as [[Hlt|Heq]|Hgt].
    + (* the source is above a as well *)
      destruct (IH Hlt) as [Has|Hs]; [|now right].
      left. destruct Lc as [Hsc _]. eapply anc_trans; eauto.
    + (* the source has the height of a *)
      destruct (C_eq_dec a s) as [E|Hne].
      * subst s. left. apply Lc.
      * right. apply (same_height_slash a s); auto.
    + (* the link s -> c jumps over a: it ends at the height of a' with another target, or surrounds a -> a' *)
      pose proof (h_par _ _ Hpa) as Hh'.
      destruct (two_links _ _ _ _ La Lc) as (l & T & Hl).
      destruct (Nat.eq_dec (h c) (h a')) as [Hc|Hc].
      * destruct (C_eq_dec c a') as [E|Hne].
        -- subst c. left. now apply anc_par.
        -- right. exists l. split; [assumption|]. intros v Hv. destruct (Hl v Hv) as [V1 V2].
           exists a, a', s, c. split; [assumption|]. split; [assumption|]. left. split; [auto|lia].
      * right. exists l. split; [assumption|]. intros v Hv. destruct (Hl v Hv) as [V1 V2].
        exists s, c, a, a'. split; [assumption|]. split; [assumption|]. right. lia.
Qed.

(* Accountable safety: two finalized checkpoints that are not on one chain make more than a third of the
   validators slashable. *)
Theorem accountable_safety : forall a b, finalized a -> finalized b -> ~ on_one_chain a b ->
  exists l, third l /\ forall v, In v l -> slashable v.
Proof.
  assert (W : forall a b, finalized a -> finalized b -> ~ on_one_chain a b -> h a <= h b ->
              exists l, third l /\ forall v, In v l -> slashable v).
  { intros a b (Ja & a' & Hpa & La) (Jb & _) Hn Hle.
    destruct (Nat.eq_dec (h a) (h b)) as [E|Hne].
    - apply (same_height_slash a b); auto. intros ->. apply Hn. now left.
    - destruct (above_finalized a a' Ja Hpa La b Jb) as [Hab|Hs]; [lia| |assumption].
      exfalso. apply Hn. right. now left. }
  intros a b Fa Fb Hn. destruct (Nat.le_ge_cases (h a) (h b)) as [Hle|Hge].
  - now apply (W a b).
  - apply (W b a); auto. intros [E|[E|E]]; apply Hn; [left; congruence|right; now right|right; now left].
Qed.

(* hence: when fewer than a third of the validators are slashable - e.g. at most f Byzantine ones with
   3f < n, the honest ones obeying the two commandments - finalized checkpoints lie on one chain *)
Corollary safety_within_fault_bound :
  (forall l, NoDup l -> incl l vals -> (forall v, In v l -> slashable v) -> 3 * length l <= length vals) ->
  forall a b, finalized a -> finalized b -> ~ ~ on_one_chain a b.
Proof.
  intros Hf a b Fa Fb Hn. destruct (accountable_safety a b Fa Fb Hn) as (l & (N & I & T) & Hs).
  specialize (Hf l N I Hs). lia.
Qed.

End FFG.

(* ---- the hypotheses are satisfiable by a non-trivial instance ------------------------------ *)
(* checkpoints 0 <- 1 <- 2 ..., four validators, validators 0,1,2 vote 0 -> 1 and 1 -> 2: checkpoint 1 is finalized *)
Definition ex_par (c : nat) : option nat := match c with O => None | S p => Some p end.
Definition ex_vote (v s t : nat) : Prop := v < 3 /\ t = S s /\ s < 2.

Example ex_finalized :
  finalized nat ex_par [0; 1; 2; 3] ex_vote 0 1.
Proof.
  assert (Q : quorum [0; 1; 2; 3] [0; 1; 2]).
  { split; [repeat constructor; simpl; intuition lia|]. split; [|simpl; lia].
    intros x Hx. simpl in *. intuition. }
  assert (L : forall s, s < 2 -> slink nat ex_par [0; 1; 2; 3] ex_vote s (S s)).
  { intros s Hs. split; [now apply anc_par|]. exists [0; 1; 2]. split; [exact Q|].
    intros v Hv. unfold ex_vote. simpl in Hv. intuition lia. }
  split.
  - apply (just_link _ _ _ _ _ 0 1); [apply just_root|apply L; lia].
  - exists 2. split; [reflexivity|apply L; lia].
Qed.
