(* C16 — engine layer: the structural invariant of the finality engine and its consequences
   (the last finalized checkpoint only moves to descendants; finalized checkpoints lie on one chain). *)
From Coq Require Import List NArith Bool Lia PeanoNat.
From C16 Require Import Model Base.
Import ListNotations.
Open Scope N_scope.

(* ---- extension of the checkpoint store ------------------------------------------ *)

Definition ext (l l' : list ck) : Prop := exists e, map skel l' = map skel l ++ e.

Lemma ext_refl : forall l, ext l l.
Proof. intros l. exists []. now rewrite app_nil_r. Qed.

Lemma ext_trans : forall a b c, ext a b -> ext b c -> ext a c.
Proof. intros a b c (e1 & H1) (e2 & H2). exists (e1 ++ e2). now rewrite H2, H1, app_assoc. Qed.

Lemma ext_skel : forall l l', map skel l' = map skel l -> ext l l'.
Proof. intros l l' H. exists []. now rewrite app_nil_r. Qed.

Lemma ext_upd : forall id f l, keeps_skel f -> ext l (upd_ck id f l).
Proof. intros. apply ext_skel. now apply upd_ck_skel. Qed.

Lemma ext_app : forall l x, ext l (l ++ x).
Proof. intros l x. exists (map skel x). apply map_app. Qed.

Lemma ext_find : forall l l' x c, ext l l' -> find_ck x l = Some c ->
  exists c', find_ck x l' = Some c' /\ skel c = skel c'.
Proof.
  intros l l' x c (e & H). revert l' H. induction l as [|a l IH]; simpl; intros l' H F; [discriminate|].
  destruct l' as [|b l']; [discriminate|]. simpl in H. apply cons_inv in H. destruct H as [H1 H2].
  assert (Hid : c_id a = c_id b) by (unfold skel in H1; congruence).
  simpl. rewrite <- Hid. destruct (c_id a =? x).
  - inversion F; subst. exists b. split; [reflexivity|now symmetry].
  - now apply IH.
Qed.

Lemma ext_desc : forall l l' a x, ext l l' -> desc_id l a x = true -> desc_id l' a x = true.
Proof.
  intros l l' a x He H. unfold desc_id in *. destruct (find_ck x l) as [c|] eqn:F; [|discriminate].
  destruct (ext_find _ _ _ _ He F) as (c' & F' & Hs). rewrite F'. unfold desc in *.
  unfold skel in Hs. replace (c_id c') with (c_id c) by congruence. replace (c_anc c') with (c_anc c) by congruence.
  assumption.
Qed.

Lemma skel_desc : forall l l' a x, map skel l' = map skel l -> desc_id l' a x = desc_id l a x.
Proof.
  intros l l' a x H. destruct (desc_id l a x) eqn:E.
  - eapply ext_desc; [|exact E]. now apply ext_skel.
  - destruct (desc_id l' a x) eqn:E'; [|reflexivity].
    assert (desc_id l a x = true) by (eapply ext_desc; [|exact E']; apply ext_skel; now symmetry). congruence.
Qed.

(* ---- the structural invariant ------------------------------------------------------ *)

Record wf (fin : bool) (s : state) : Prop := mk_wf {
  w_sk : wf_sk (cks s);
  w_root : memN (root s) (tree s) = true;
  w_desc : forall x, memN x (tree s) = true -> desc_id (cks s) (root s) x = true;
  w_par : forall x c, memN x (tree s) = true -> x <> root s -> find_ck x (cks s) = Some c ->
            memN (c_par c) (tree s) = true;
  w_fin : fin = true -> forall c, In c (cks s) -> c_st c = Finalized -> desc_id (cks s) (c_id c) (root s) = true
}.

Section Fin.
Variable fin : bool.

(* a proper descendant has its parent at the head of its ancestor list *)
Lemma proper_desc_par : forall l a x c, wf_sk l -> find_ck x l = Some c -> x <> a -> desc_id l a x = true ->
  exists pc, find_ck (c_par c) l = Some pc /\ c_anc c = c_par c :: c_anc pc /\ (a = c_par c \/ In a (c_anc pc)).
Proof.
  intros l a x c W F Hne H. unfold desc_id in H. rewrite F in H. unfold desc in H.
  apply orb_true_iff in H. destruct H as [H|H].
  - apply N.eqb_eq in H. apply find_ck_some in F. destruct F. congruence.
  - apply memN_In in H. assert (Hc : In c l) by (apply find_ck_some in F; tauto).
    destruct (wf_anc_struct l W c Hc) as [E|(pc & Hp & E)]; [rewrite E in H; contradiction|].
    exists pc. split; [assumption|]. split; [assumption|]. rewrite E in H. destruct H as [H|H]; [now left|now right].
Qed.

(* no checkpoint is its own proper ancestor, even indirectly *)
Lemma desc_antisym : forall l a x, wf_sk l -> desc_id l a x = true -> desc_id l x a = true -> a = x.
Proof.
  intros l a x W H1 H2.
  destruct (desc_id_cases _ _ _ H1) as (cx & Fx & [E|Hx]); [now symmetry|].
  destruct (desc_id_cases _ _ _ H2) as (ca & Fa & [E|Ha]); [assumption|].
  exfalso. assert (Hcx : In cx l) by (apply find_ck_some in Fx; tauto).
  pose proof (anc_closed l cx a ca W Hcx Hx Fa x Ha) as Hself.
  apply (wf_self l W cx Hcx). apply find_ck_some in Fx. destruct Fx as [_ ->]. assumption.
Qed.

(* updates that keep skeleton and statuses *)
Lemma wf_transfer : forall s s',
  wf fin s -> map skel (cks s') = map skel (cks s) -> tree s' = tree s -> root s' = root s ->
  (forall c', In c' (cks s') -> c_st c' = Finalized -> exists c, In c (cks s) /\ c_id c = c_id c' /\ c_st c = Finalized) ->
  wf fin s'.
Proof.
  intros s s' [W1 W2 W3 W4 W5] Hs Ht Hr Hf. constructor.
  - eapply wf_sk_skel; [symmetry; exact Hs|exact W1].
  - now rewrite Ht, Hr.
  - intros x Hx. rewrite Ht in Hx. rewrite Hr, (skel_desc _ _ _ _ Hs). now apply W3.
  - intros x c Hx Hne F. rewrite Ht in *. rewrite Hr in Hne.
    destruct (find_ck_skel _ _ _ _ Hs F) as (c0 & F0 & Hsk).
    replace (c_par c) with (c_par c0) by (unfold skel in Hsk; congruence). now apply (W4 x c0).
  - intros Hfin c' Hc' Hst. destruct (Hf c' Hc' Hst) as (c & Hc & Hid & Hst0).
    rewrite Hr, (skel_desc _ _ _ _ Hs), <- Hid. now apply W5.
Qed.

Lemma wf_upd : forall s id f, wf fin s -> keeps_skel f -> (forall c, c_st (f c) = Finalized -> c_st c = Finalized) ->
  wf fin (with_cks s (upd_ck id f (cks s))).
Proof.
  intros s id f W Hf Hst. apply (wf_transfer s); auto.
  - simpl. now apply upd_ck_skel.
  - intros c' Hc' Hfin. simpl in Hc'. destruct (in_upd_ck _ _ _ _ Hc') as (c0 & Hi & [->|[-> _]]).
    + exists c0. auto.
    + exists c0. split; [assumption|]. split; [symmetry; now apply keeps_skel_id|now apply Hst].
Qed.

(* setFinalized of a checkpoint of the tree *)
Lemma wf_set_finalized : forall s src, wf fin s -> memN src (tree s) = true -> wf fin (set_finalized s src).
Proof.
  intros s src W Hsrc. pose proof W as [W1 W2 W3 W4 W5]. unfold set_finalized. rewrite Hsrc.
  set (l := upd_ck src (set_st Finalized) (cks s)).
  assert (Hs : map skel l = map skel (cks s)) by (apply upd_ck_skel, keeps_set_st).
  assert (Wl : wf_sk l) by (apply wf_sk_upd; [apply keeps_set_st|assumption]).
  assert (Hd : forall a x, desc_id l a x = desc_id (cks s) a x) by (intros; now apply skel_desc).
  constructor; simpl.
  - exact Wl.
  - apply memN_In. apply filter_In. split; [now apply memN_In|].
    rewrite Hd. apply desc_id_refl. eapply desc_id_in. now apply W3.
  - intros x Hx. apply memN_In in Hx. apply filter_In in Hx. tauto.
  - intros x c Hx Hne F. apply memN_In in Hx. apply filter_In in Hx. destruct Hx as [Hx Hdx].
    apply memN_In in Hx.
    destruct (proper_desc_par l src x c Wl F Hne Hdx) as (pc & Fp & Ea & Hor).
    destruct (find_ck_skel _ _ _ _ Hs F) as (c0 & F0 & Hsk).
    assert (Ep : c_par c = c_par c0) by (unfold skel in Hsk; congruence).
    (* x is not the old root: otherwise src, a member of the old tree, would sit above and below x *)
    assert (Hxr : x <> root s).
    { intros ->. apply Hne. symmetry. apply (desc_antisym l src (root s) Wl); [assumption|].
      rewrite Hd. now apply W3. }
    pose proof (W4 x c0 Hx Hxr F0) as Hpt. rewrite <- Ep in Hpt.
    apply memN_In. apply filter_In. split; [now apply memN_In|].
    unfold desc_id. rewrite Fp. unfold desc. apply orb_true_iff.
    destruct Hor as [->|Hin]; [left|right; now apply memN_In].
    apply find_ck_some in Fp. destruct Fp as [_ ->]. apply N.eqb_refl.
  - intros Hfin c Hc Hst. rewrite Hd. destruct (in_upd_ck _ _ _ _ Hc) as (c0 & Hi & [->|[-> E]]).
    + apply (desc_id_trans (cks s) (root s)); [assumption| |now apply W3]. now apply W5.
    + simpl. rewrite E. apply desc_id_refl. eapply desc_id_in. now apply W3.
Qed.

(* progress of a state: the store only grows, the root only moves down *)
Definition le (s s' : state) : Prop :=
  ext (cks s) (cks s') /\ desc_id (cks s') (root s) (root s') = true /\
  (forall x, memN x (tree s') = true -> in_cks x (cks s) = true -> memN x (tree s) = true).

Lemma root_in_cks : forall s, wf fin s -> in_cks (root s) (cks s) = true.
Proof. intros s W. eapply desc_id_in. apply (w_desc fin s W). apply (w_root fin s W). Qed.

Lemma le_refl : forall s, wf fin s -> le s s.
Proof.
  intros s W. split; [apply ext_refl|]. split; [|auto].
  apply desc_id_refl. now apply root_in_cks.
Qed.

Lemma ext_in_cks : forall l l' x, ext l l' -> in_cks x l = true -> in_cks x l' = true.
Proof.
  intros l l' x He H. unfold in_cks in *. destruct (find_ck x l) as [c|] eqn:F; [|discriminate].
  destruct (ext_find _ _ _ _ He F) as (c' & F' & _). now rewrite F'.
Qed.

Lemma le_trans : forall a b c, wf fin c -> le a b -> le b c -> le a c.
Proof.
  intros a b c W (E1 & D1 & T1) (E2 & D2 & T2). split; [eapply ext_trans; eauto|]. split.
  - apply (desc_id_trans (cks c) (root b)); [apply (w_sk fin c W)| |assumption].
    eapply ext_desc; eauto.
  - intros x Hx Hin. apply T1; [|assumption]. apply T2; [assumption|]. eapply ext_in_cks; eauto.
Qed.

(* [good fin s b]: the invariant, and b is a node of the tree other than the root *)
Definition good (fin : bool) (s : state) (b : N) : Prop := wf fin s /\ memN b (tree s) = true /\ b <> root s.

Lemma le_upd : forall s id f, wf fin s -> keeps_skel f -> le s (with_cks s (upd_ck id f (cks s))).
Proof.
  intros s id f W Hf. split; [simpl; now apply ext_upd|]. split; [|simpl; auto].
  simpl. rewrite (skel_desc (cks s)); [|now apply upd_ck_skel]. apply desc_id_refl. now apply root_in_cks.
Qed.

Section Steps.

Variable V : variant.
Variable n E local : N.

Lemma set_finalized_good : forall s src b c,
  good fin s b -> find_ck b (cks s) = Some c -> c_par c = src ->
  good fin (set_finalized s src) b /\ le s (set_finalized s src).
Proof.
  intros s src b c (W & Hb & Hne) F Hp.
  assert (Hsrc : memN src (tree s) = true) by (rewrite <- Hp; now apply (w_par fin s W b c)).
  pose proof (wf_set_finalized s src W Hsrc) as W'.
  assert (Hs : map skel (upd_ck src (set_st Finalized) (cks s)) = map skel (cks s)) by (apply upd_ck_skel, keeps_set_st).
  (* b is a proper descendant of its parent *)
  destruct (proper_desc_par (cks s) (root s) b c (w_sk fin s W) F Hne (w_desc fin s W b Hb)) as (pc & Fp & Ea & _).
  assert (Hdb : desc_id (cks s) src b = true).
  { unfold desc_id. rewrite F. unfold desc. apply orb_true_iff. right. apply memN_In. rewrite Ea, Hp. now left. }
  assert (Hbs : b <> src).
  { intros ->. apply (wf_self (cks s) (w_sk fin s W) c); [apply find_ck_some in F; tauto|].
    apply find_ck_some in F. destruct F as [_ ->]. rewrite Ea, Hp. now left. }
  split.
  - split; [assumption|]. unfold set_finalized in *. rewrite Hsrc in *. simpl. split; [|assumption].
    apply memN_In. apply filter_In. split; [now apply memN_In|]. now rewrite (skel_desc _ _ _ _ Hs).
  - unfold set_finalized. rewrite Hsrc. split; [simpl; apply ext_upd, keeps_set_st|]. split; simpl.
    + rewrite (skel_desc _ _ _ _ Hs). now apply (w_desc fin s W).
    + intros x Hx _. apply memN_In in Hx. apply filter_In in Hx. apply memN_In. tauto.
Qed.

Lemma set_justified_good : forall s src b,
  good fin s b -> good fin (set_justified s src b) b /\ le s (set_justified s src b).
Proof.
  intros s src b G. pose proof G as (W & Hb & Hne). unfold set_justified.
  set (s1 := with_cks s (upd_ck b (set_st Justified) (cks s))).
  assert (W1 : wf fin s1).
  { apply wf_upd; [assumption|apply keeps_set_st|]. intros c H. simpl in H. discriminate. }
  assert (L1 : le s s1) by (apply le_upd; [assumption|apply keeps_set_st]).
  assert (G1 : good fin s1 b) by (split; [assumption|split; assumption]).
  destruct (find_ck b (cks s)) as [t|] eqn:F; [|split; assumption].
  destruct (c_par t =? src) eqn:Ep; [|split; assumption].
  apply N.eqb_eq in Ep.
  assert (F1 : find_ck b (cks s1) = Some (set_st Justified t)).
  { simpl. rewrite find_upd_same by apply keeps_set_st. now rewrite F. }
  destruct (set_finalized_good s1 src b _ G1 F1 Ep) as (G2 & L2).
  split; [assumption|]. eapply le_trans; [apply G2|exact L1|exact L2].
Qed.

Lemma admit_good : forall s v, good fin s (v_tgt v) ->
  good fin (admit_ver V n s v) (v_tgt v) /\ le s (admit_ver V n s v).
Proof.
  intros s v G. pose proof G as (W & Hb & Hne). unfold admit_ver.
  destruct (find_ck (v_tgt v) (cks s)) as [t|] eqn:Ft; [|split; [assumption|now apply le_refl]].
  destruct (find_ck (v_src v) (cks s)) as [src|] eqn:Fs; [|split; [assumption|now apply le_refl]].
  set (tl' := add_ver (v_src v) (v_srch v) (v_key v) (v_sig v) (c_tl t)).
  set (s1 := mkst (upd_ck (v_tgt v) (set_tl tl') (cks s)) (tree s) (root s) (vote_of v :: adm s) (posted s)).
  assert (W1 : wf fin s1).
  { apply (wf_transfer s); auto.
    - simpl. apply upd_ck_skel, keeps_set_tl.
    - intros c' Hc' Hfin. simpl in Hc'. destruct (in_upd_ck _ _ _ _ Hc') as (c0 & Hi & [->|[-> _]]); exists c0; auto. }
  assert (L1 : le s s1).
  { split; [simpl; apply ext_upd, keeps_set_tl|]. split; [|simpl; auto].
    simpl. rewrite (skel_desc (cks s)); [|apply upd_ck_skel, keeps_set_tl]. apply desc_id_refl. now apply root_in_cks. }
  assert (G1 : good fin s1 (v_tgt v)) by (split; [assumption|split; assumption]).
  destruct (find_link (v_src v) tl'); [|split; assumption].
  destruct (status_eqb (c_st t) Unjustified && is_majority n l && src_status_ok V (c_st src)); [|split; assumption].
  destruct (set_justified_good s1 (v_src v) (v_tgt v) G1) as (G2 & L2).
  split; [assumption|]. eapply le_trans; [apply G2|exact L1|exact L2].
Qed.

Lemma fold_admit_good : forall vs s b, (forall v, In v vs -> v_tgt v = b) -> good fin s b ->
  good fin (fold_left (admit_ver V n) vs s) b /\ le s (fold_left (admit_ver V n) vs s).
Proof.
  induction vs as [|v vs IH]; simpl; intros s b Hv G; [split; [assumption|apply le_refl, G]|].
  assert (Ev : v_tgt v = b) by (apply Hv; now left).
  destruct (admit_good s v) as (G1 & L1); [now rewrite Ev|]. rewrite Ev in G1.
  destruct (IH (admit_ver V n s v) b) as (G2 & L2); [intros; apply Hv; now right|assumption|].
  split; [assumption|]. eapply le_trans; [apply G2|exact L1|exact L2].
Qed.

Lemma vers_of_slots_tgt : forall k b h src srch sl v, In v (vers_of_slots k b h src srch sl) -> v_tgt v = b.
Proof.
  induction k as [|k IH]; simpl; intros b h src srch sl v H; [contradiction|].
  destruct (slot_get (N.of_nat k) sl).
  - apply in_app_or in H. destruct H as [H|[<-|[]]]; [eapply IH; eauto|reflexivity].
  - eapply IH; eauto.
Qed.

Lemma apply_links_good : forall ls b h s, good fin s b ->
  good fin (fst (apply_links V n E b h s ls)) b /\ le s (fst (apply_links V n E b h s ls)).
Proof.
  induction ls as [|l ls IH]; simpl; intros b h s G; [split; [assumption|apply le_refl, G]|].
  unfold apply_link. destruct (link_src_ok s l); [|split; [assumption|apply le_refl, G]].
  set (vs := filter (verify E s) (vers_of_link n b h l)).
  destruct (fold_admit_good vs s b) as (G1 & L1); [|assumption|].
  { intros v Hv. apply filter_In in Hv. destruct Hv as [Hv _]. unfold vers_of_link in Hv.
    eapply vers_of_slots_tgt; eauto. }
  destruct (IH b h _ G1) as (G2 & L2). split; [assumption|]. eapply le_trans; [apply G2|exact L1|exact L2].
Qed.


(* a state with the same store, tree and root *)
Lemma wf_same : forall s s', wf fin s -> cks s' = cks s -> tree s' = tree s -> root s' = root s -> wf fin s'.
Proof.
  intros s s' W Hc Ht Hr. apply (wf_transfer s); auto; [now rewrite Hc|].
  intros c' Hc' Hf. rewrite Hc in Hc'. exists c'. auto.
Qed.

Lemma le_same : forall s s', wf fin s -> cks s' = cks s -> tree s' = tree s -> root s' = root s -> le s s'.
Proof.
  intros s s' W Hc Ht Hr. unfold le. rewrite Hc, Ht, Hr. now apply le_refl.
Qed.

Lemma find_ck_snoc_old : forall l nb x c, find_ck x l = Some c -> find_ck x (l ++ [nb]) = Some c.
Proof. intros l nb x c F. now rewrite find_ck_app, F. Qed.

Lemma find_ck_snoc_new : forall l nb, in_cks (c_id nb) l = false -> find_ck (c_id nb) (l ++ [nb]) = Some nb.
Proof.
  intros l nb H. rewrite find_ck_app. unfold in_cks in H. destruct (find_ck (c_id nb) l); [discriminate|].
  simpl. now rewrite N.eqb_refl.
Qed.

(* a new checkpoint under a checkpoint of the tree *)
Lemma wf_add : forall s b p h pc st db tl hl a po,
  wf fin s -> find_ck p (cks s) = Some pc -> memN p (tree s) = true -> in_cks b (cks s) = false ->
  st <> Finalized ->
  wf fin (mkst (cks s ++ [mkck b p h (p :: c_anc pc) st db tl hl]) (tree s ++ [b]) (root s) a po).
Proof.
  intros s b p h pc st db tl hl a po W Fp Hp Hb Hst.
  pose proof W as [W1 W2 W3 W4 W5]. pose proof W1 as [S1 S2 S3 S4].
  set (nb := mkck b p h (p :: c_anc pc) st db tl hl).
  assert (Hpc : In pc (cks s) /\ c_id pc = p) by (now apply find_ck_some).
  assert (Hbn : ~ In b (map c_id (cks s))).
  { intros H. apply in_cks_true in H. congruence. }
  assert (Hex : ext (cks s) (cks s ++ [nb])) by apply ext_app.
  assert (Wsk : wf_sk (cks s ++ [nb])).
  { constructor.
    - rewrite map_app. simpl. apply nodup_snoc; assumption.
    - intros c x Hc Hx. rewrite map_app. apply in_or_app. apply in_app_or in Hc. destruct Hc as [Hc|[<-|[]]].
      + left. now apply (S2 c).
      + left. simpl in Hx. destruct Hx as [<-|Hx]; [destruct Hpc as [Hi <-]; now apply in_map|].
        apply (S2 pc); tauto.
    - intros c Hc. apply in_app_or in Hc. destruct Hc as [Hc|[<-|[]]].
      + destruct (S3 c Hc) as [Ea|(pc0 & Fp0 & Ea)]; [now left|]. right. exists pc0.
        split; [now apply find_ck_snoc_old|assumption].
      + right. exists pc. split; [simpl; now apply find_ck_snoc_old|reflexivity].
    - intros c Hc. apply in_app_or in Hc. destruct Hc as [Hc|[<-|[]]]; [now apply S4|].
      simpl. intros [Hx|Hx].
      + apply Hbn. rewrite <- Hx. destruct Hpc as [Hi <-]. now apply in_map.
      + apply Hbn. apply (S2 pc); tauto. }
  assert (Fb : find_ck b (cks s ++ [nb]) = Some nb) by (apply (find_ck_snoc_new (cks s) nb); exact Hb).
  constructor; simpl.
  - exact Wsk.
  - rewrite memN_app. now rewrite W2.
  - intros x Hx. rewrite memN_app in Hx. apply orb_true_iff in Hx. destruct Hx as [Hx|Hx].
    + eapply ext_desc; [exact Hex|]. now apply W3.
    + simpl in Hx. rewrite orb_false_r in Hx. apply N.eqb_eq in Hx. subst x.
      unfold desc_id. rewrite Fb. unfold desc. simpl.
      pose proof (W3 p Hp) as Hd. unfold desc_id in Hd. rewrite Fp in Hd. unfold desc in Hd.
      destruct Hpc as [_ Hid]. rewrite Hid in Hd.
      apply orb_true_iff in Hd. apply orb_true_iff. right.
      destruct Hd as [Hd|Hd]; [apply N.eqb_eq in Hd; rewrite Hd, N.eqb_refl; reflexivity|]. rewrite Hd. apply orb_true_r.
  - intros x c Hx Hne F. rewrite memN_app. rewrite memN_app in Hx. apply orb_true_iff in Hx.
    destruct Hx as [Hx|Hx].
    + pose proof (desc_id_in _ _ _ (W3 x Hx)) as Hin. unfold in_cks in Hin.
      destruct (find_ck x (cks s)) as [c0|] eqn:F0; [|discriminate].
      rewrite (find_ck_snoc_old _ nb _ _ F0) in F. inversion F; subst c0.
      now rewrite (W4 x c Hx Hne F0).
    + simpl in Hx. rewrite orb_false_r in Hx. apply N.eqb_eq in Hx. subst x.
      rewrite Fb in F. inversion F; subst c. simpl. now rewrite Hp.
  - intros Hfin c Hc Hf. apply in_app_or in Hc. destruct Hc as [Hc|[<-|[]]].
    + eapply ext_desc; [exact Hex|]. now apply W5.
    + simpl in Hf. congruence.
Qed.

Lemma good_same : forall s s' b, good fin s b -> cks s' = cks s -> tree s' = tree s -> root s' = root s -> good fin s' b.
Proof.
  intros s s' b (W & Hb & Hne) Hc Ht Hr. split; [now apply (wf_same s)|]. now rewrite Ht, Hr.
Qed.

Lemma apply_block_ok : forall s b p h links, wf fin s ->
  wf fin (fst (apply_block V n E local s b p h links)) /\ le s (fst (apply_block V n E local s b p h links)).
Proof.
  intros s b p h links W. assert (R : wf fin s /\ le s s) by (split; [assumption|now apply le_refl]).
  unfold apply_block.
  destruct (memN b (tree s)); [exact R|].
  destruct (in_cks b (cks s)) eqn:Hb; [exact R|].
  destruct (memN p (tree s)) eqn:Hp; [|exact R]. simpl.
  destruct (find_ck p (cks s)) as [pc|] eqn:Fp; [|exact R].
  destruct (c_hgt pc <? h); [|exact R]. simpl.
  destruct (precheck_links V && negb (forallb (link_src_ok s) (map norm_link links))); [exact R|].
  set (nb := mkck b p h (p :: c_anc pc) Unjustified false [] []).
  set (s1 := mkst (cks s ++ [nb]) (tree s ++ [b]) (root s) (adm s) (posted s)).
  assert (W1 : wf fin s1) by (apply wf_add; auto; discriminate).
  assert (Hbn : ~ In b (map c_id (cks s))) by (intros H; apply in_cks_true in H; congruence).
  assert (L1 : le s s1).
  { split; [apply ext_app|]. split.
    - simpl. eapply ext_desc; [apply ext_app|]. apply desc_id_refl. now apply root_in_cks.
    - simpl. intros x Hx Hin. rewrite memN_app in Hx. apply orb_true_iff in Hx. destruct Hx as [Hx|Hx]; [assumption|].
      simpl in Hx. rewrite orb_false_r in Hx. apply N.eqb_eq in Hx. subst x. apply in_cks_true in Hin. contradiction. }
  assert (G1 : good fin s1 b).
  { split; [assumption|]. split.
    - simpl. rewrite memN_app. simpl. rewrite N.eqb_refl. apply orb_true_r.
    - simpl. intros ->. apply Hbn. apply in_cks_true. now apply root_in_cks. }
  assert (Hmain : forall s2 links2, good fin s2 b -> le s s2 ->
            let '(s3, ok) := apply_links V n E b h s2 links2 in
            wf fin (fst (if ok then (with_cks s3 (upd_ck b (fun c => set_db (set_hl links2 c)) (cks s3)), true)
                          else (s3, false))) /\
            le s (fst (if ok then (with_cks s3 (upd_ck b (fun c => set_db (set_hl links2 c)) (cks s3)), true)
                       else (s3, false)))).
  { intros s2 links2 G2 L2. destruct (apply_links_good links2 b h s2 G2) as (G3 & L3).
    destruct (apply_links V n E b h s2 links2) as [s3 ok]. simpl in G3, L3.
    assert (L13 : le s s3) by (eapply le_trans; [apply G3|exact L2|exact L3]).
    destruct ok; simpl; [|split; [apply G3|assumption]].
    assert (Hk : keeps_skel (fun c => set_db (set_hl links2 c))) by (intros c; reflexivity).
    split.
    - apply wf_upd; [apply G3|exact Hk|]. intros c H. exact H.
    - eapply le_trans; [|exact L13|apply le_upd; [apply G3|exact Hk]].
      apply wf_upd; [apply G3|exact Hk|]. intros c H. exact H. }
  destruct (my_verification n E local s1 nb) as [v|].
  - specialize (Hmain (post s1 v) (add_ver (v_src v) (v_srch v) (v_key v) (v_sig v) (map norm_link links))).
    destruct (apply_links V n E b h (post s1 v) _) as [s3 ok]. apply Hmain.
    + apply (good_same s1); auto.
    + eapply le_trans; [|exact L1|apply le_same; auto]. apply (wf_same s1); auto.
  - specialize (Hmain s1 (map norm_link links)).
    destruct (apply_links V n E b h s1 _) as [s3 ok]. now apply Hmain.
Qed.

Lemma auth_ok : forall dup s pub src tgt x, wf fin s -> memN tgt (tree s) = true ->
  wf fin (fst (auth V n E dup s pub src tgt x)) /\ le s (fst (auth V n E dup s pub src tgt x)).
Proof.
  intros dup s pub src tgt x W Ht. assert (R : wf fin s /\ le s s) by (split; [assumption|now apply le_refl]).
  unfold auth.
  destruct (find_ck src (cks s)) as [sc|]; [|exact R].
  destruct (negb (c_db sc)); [exact R|].
  destruct (find_ck tgt (cks s)) as [t|]; [|exact R].
  destruct (tgt =? root s) eqn:Er; [exact R|]. apply N.eqb_neq in Er.
  destruct (negb (pub <? n)); [exact R|].
  destruct (dup && contains_ver pub src (c_tl t)); [exact R|].
  set (v := mkvmsg pub src (c_hgt sc) tgt (c_hgt t) x).
  destruct (negb (verify E s v)); [exact R|].
  assert (G : good fin s (v_tgt v)) by (split; [assumption|split; assumption]).
  destruct (admit_good s v G) as (G1 & L1).
  set (s1 := post (admit_ver V n s v) v).
  assert (W1 : wf fin s1) by (apply (wf_same (admit_ver V n s v)); auto; apply G1).
  assert (L01 : le s s1).
  { eapply le_trans; [exact W1|exact L1|]. apply le_same; auto. apply G1. }
  destruct (c_db t); cbn [fst]; [|split; assumption].
  assert (Hk : keeps_skel (fun c => set_hl (add_ver src (c_hgt sc) pub x (c_hl c)) c)) by (intros c; reflexivity).
  split.
  - apply wf_upd; [assumption|exact Hk|]. intros c H. exact H.
  - eapply le_trans; [|exact L01|apply le_upd; [assumption|exact Hk]].
    apply wf_upd; [assumption|exact Hk|]. intros c H. exact H.
Qed.

Definition is_restart (e : event) : bool := match e with Restart _ => true | _ => false end.
Definition restart_free (evs : list event) : bool := forallb (fun e => negb (is_restart e)) evs.

Lemma step_ok : forall s e, is_restart e = false -> wf fin s ->
  wf fin (fst (step V n E local s e)) /\ le s (fst (step V n E local s e)).
Proof.
  intros s e He W. destruct e as [b p h links|pub src tgt x|pub src tgt x|r]; simpl in *; try discriminate.
  - now apply apply_block_ok.
  - unfold auth_verification. destruct (memN tgt (tree s)) eqn:Ht; [now apply auth_ok|].
    simpl. split; [assumption|now apply le_refl].
  - unfold auth_cached. destruct (memN tgt (tree s)) eqn:Ht; [now apply auth_ok|].
    simpl. split; [assumption|now apply le_refl].
Qed.

Lemma steps_ok : forall evs s, restart_free evs = true -> wf fin s ->
  let s' := fold_left (fun s e => fst (step V n E local s e)) evs s in wf fin s' /\ le s s'.
Proof.
  induction evs as [|e evs IH]; simpl; intros s Hr W; [split; [assumption|now apply le_refl]|].
  apply andb_true_iff in Hr. destruct Hr as [He Hr]. apply negb_true_iff in He.
  destruct (step_ok s e He W) as (W1 & L1). destruct (IH _ Hr W1) as (W2 & L2).
  split; [assumption|]. eapply le_trans; eauto.
Qed.

End Steps.

End Fin.

(* ---- histories ---------------------------------------------------------------------- *)

Lemma init_wf : forall fin g, wf fin (init g).
Proof.
  intros fin g. unfold init. constructor; simpl.
  - constructor; simpl.
    + constructor; [intros []|constructor].
    + intros c a [<-|[]] [].
    + intros c [<-|[]]. now left.
    + intros c [<-|[]] [].
  - now rewrite N.eqb_refl.
  - intros x Hx. rewrite orb_false_r in Hx. apply N.eqb_eq in Hx. subst x.
    unfold desc_id. simpl. rewrite N.eqb_refl. unfold desc. simpl. now rewrite N.eqb_refl.
  - intros x c Hx Hne. rewrite orb_false_r in Hx. apply N.eqb_eq in Hx. congruence.
  - intros _ c [<-|[]] H. simpl in H. discriminate.
Qed.

Section Histories.

Variable V : variant.
Variable n E local g : N.

Notation run := (run V n E local g).

Lemma run_app : forall evs1 evs2,
  run (evs1 ++ evs2) = fold_left (fun s e => fst (step V n E local s e)) evs2 (run evs1).
Proof. intros. unfold Model.run. apply fold_left_app. Qed.

Lemma run_wf : forall fin evs, restart_free evs = true -> wf fin (run evs).
Proof.
  intros fin evs Hr. unfold Model.run.
  apply (steps_ok fin V n E local evs (init g) Hr (init_wf fin g)).
Qed.

Lemma restart_free_app : forall a b, restart_free (a ++ b) = restart_free a && restart_free b.
Proof. intros. unfold restart_free. apply forallb_app. Qed.

(* the last finalized checkpoint only moves to descendants of itself *)
Lemma monotone : forall evs1 evs2, restart_free (evs1 ++ evs2) = true ->
  desc_id (cks (run (evs1 ++ evs2))) (root (run evs1)) (root (run (evs1 ++ evs2))) = true.
Proof.
  intros evs1 evs2 Hr. rewrite restart_free_app in Hr. apply andb_true_iff in Hr. destruct Hr as [H1 H2].
  rewrite run_app. pose proof (run_wf false evs1 H1) as W1.
  destruct (steps_ok false V n E local evs2 (run evs1) H2 W1) as (_ & _ & D & _). exact D.
Qed.

(* every checkpoint of the tree descends from the last finalized checkpoint, which is in the tree *)
Lemma tree_under_root : forall evs, restart_free evs = true ->
  memN (root (run evs)) (tree (run evs)) = true /\
  forall x, memN x (tree (run evs)) = true -> desc_id (cks (run evs)) (root (run evs)) x = true.
Proof.
  intros evs Hr. pose proof (run_wf false evs Hr) as W. split; [apply W|apply W].
Qed.

Definition on_one_chain (a b : ck) : Prop :=
  c_id a = c_id b \/ In (c_id a) (c_anc b) \/ In (c_id b) (c_anc a).

(* two finalized checkpoints lie on one chain *)
Lemma finalized_one_chain : forall evs, restart_free evs = true ->
  forall a b, In a (cks (run evs)) -> In b (cks (run evs)) -> c_st a = Finalized -> c_st b = Finalized ->
  on_one_chain a b.
Proof.
  intros evs Hr a b Ha Hb Sa Sb. pose proof (run_wf true evs Hr) as W.
  set (s := run evs) in *. pose proof (w_sk true s W) as Wsk.
  pose proof (w_fin true s W eq_refl a Ha Sa) as Da. pose proof (w_fin true s W eq_refl b Hb Sb) as Db.
  destruct (desc_id_cases _ _ _ Da) as (cr & Fr & Ca). destruct (desc_id_cases _ _ _ Db) as (cr' & Fr' & Cb).
  assert (cr' = cr) by congruence. subst cr'.
  assert (Fa : find_ck (c_id a) (cks s) = Some a) by (apply find_ck_in; [apply Wsk|assumption]).
  assert (Fb : find_ck (c_id b) (cks s) = Some b) by (apply find_ck_in; [apply Wsk|assumption]).
  assert (Hcr : In cr (cks s)) by (apply find_ck_some in Fr; tauto).
  assert (Er : cr = a \/ In (c_id a) (c_anc cr)).
  { destruct Ca as [Q|Hin]; [left|now right]. rewrite Q in Fr. congruence. }
  assert (Er' : cr = b \/ In (c_id b) (c_anc cr)).
  { destruct Cb as [Q|Hin]; [left|now right]. rewrite Q in Fr. congruence. }
  unfold on_one_chain. destruct Er as [->|Ia], Er' as [Q'|Ib].
  - left. congruence.
  - right. right. assumption.
  - subst cr. right. left. assumption.
  - destruct (anc_chain (cks s) cr (c_id a) (c_id b) a b Wsk Hcr Ia Ib Fa Fb) as [Q|[H|H]]; auto.
Qed.

End Histories.

(* ---- restart: the persisted finalized pointer may lag behind ---------------------------- *)

(* a Restart may only name a checkpoint the node has stored as finalized (or genesis) *)
Definition restart_legit (g : N) (s : state) (e : event) : bool :=
  match e with
  | Restart r => match find_ck r (cks s) with
                 | Some c => c_db c && (status_eqb (c_st c) Finalized || (r =? g))
                 | None => false
                 end
  | _ => true
  end.

Fixpoint legit (V : variant) (n E local g : N) (s : state) (evs : list event) : bool :=
  match evs with
  | [] => true
  | e :: r => restart_legit g s e && legit V n E local g (fst (step V n E local s e)) r
  end.

Definition C16_monotone_full : Prop :=
  forall V n E local g evs1 evs2, legit V n E local g (init g) (evs1 ++ evs2) = true ->
    desc_id (cks (run V n E local g (evs1 ++ evs2))) (root (run V n E local g evs1))
            (root (run V n E local g (evs1 ++ evs2))) = true.

(* witness: b4 and b8 on a trunk; validators 1,2 vote 0->4 (the node, key 0, has voted by itself), validators
   1,2,3 vote 4->8: b4 is finalized by a verification message; the chain state was last saved before that, so a
   reopened node starts from genesis again *)
Definition wit_restart_pre : list event :=
  [Ckpt 4 0 4 []; Ckpt 8 4 8 []; Vote 1 0 4 (mksig 1 0 4); Vote 2 0 4 (mksig 2 0 4);
   Vote 1 4 8 (mksig 1 4 8); Vote 2 4 8 (mksig 2 4 8); Vote 3 4 8 (mksig 3 4 8)].

Lemma monotone_refuted_restart : ~ C16_monotone_full.
Proof.
  intros H. specialize (H (mkvar true true) 4 4 0 0 wit_restart_pre [Restart 0] eq_refl).
  vm_compute in H. discriminate.
Qed.

Example wit_restart_root_before : root (run (mkvar true true) 4 4 0 0 wit_restart_pre) = 4.
Proof. reflexivity. Qed.
