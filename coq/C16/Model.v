(* C16/C17/C18 — executable model of the finality engine of the Bytom node (package
   protocol/casper), at the granularity of checkpoints.

   Mirrors (working tree of /repo, i.e. with the repairs listed under [variant]):
     protocol/casper/apply_block.go        ApplyBlock (for a block that closes an epoch), applyMyVerification,
                                           myVerification, lastJustifiedCheckpoint, applySupLinks,
                                           validVerificationsFromSupLink, supLinkSource
     protocol/casper/auth_verification.go  AuthVerification, authCachedMsg, authVerification,
                                           addVerificationToCheckpoint, saveVerificationToHeader, setJustified,
                                           setFinalized, verifyVerification, verifySameHeight, verifySpanHeight
     protocol/casper/verfication.go        convertVerification, supLinkToVerifications, valid, verifySignature
     protocol/casper/casper.go             LastFinalized, LastJustified, NewCasper
     protocol/casper/tree_node.go          makeTree, nodeByHash, lastJustified
     protocol/state/checkpoint.go          AddVerification, ContainsVerification
     protocol/bc/types/sup_link.go         AddSupLink, IsMajority
     database/store_checkpoint.go          GetCheckpoint, GetCheckpointsByHeight, CheckpointsFromNode,
                                           loadCheckpointsFromIter, SaveCheckpoints

   Conventions.
   * A block hash is an opaque label in N.  Only blocks that close an epoch (height mod E = 0) carry a
     checkpoint that votes can name; the blocks in between only make a checkpoint grow and change nothing the
     engine decides, so an event [Ckpt b p h links] stands for "the block b of height h, whose nearest
     epoch-closing ancestor is p, reaches Casper.ApplyBlock with the sup links [links] in its header".
   * Validators: the effective validator set is the same for every checkpoint (hypothesis same_validators): n
     validators, the validator with public key k sits in slot k (k < n).  A sup link has 10 slots.
   * Signatures are an oracle: a signature is the token (signer, source, target); it verifies for key k on the
     link s -> t iff it is (k, s, t).  Garbage is a token of a signer that is no validator.
   * Every checkpoint record carries the list of its ancestors [c_anc] (nearest first), which stands for the
     Parent pointers / ParentHash chain of the code.
   * One status per checkpoint: the tree object and the stored copy are saved together by every operation.
   * The stored block header keeps every sup link the block arrived with (verified or not) plus the votes the
     node added ([c_hl]); the tree object only has verified votes ([c_tl]) until a restart reloads it from the
     header. *)
From Coq Require Import List NArith Bool.
Import ListNotations.
Open Scope N_scope.

Inductive status := Growing | Unjustified | Justified | Finalized.

Definition status_eqb (a b : status) : bool :=
  match a, b with
  | Growing, Growing | Unjustified, Unjustified | Justified, Justified | Finalized, Finalized => true
  | _, _ => false
  end.

(* ------------------------------------------------------------------ signatures, links *)

Record sig := mksig { sg_key : N; sg_src : N; sg_tgt : N }.

Definition sig_ok (k s t : N) (x : sig) : bool :=
  (sg_key x =? k) && (sg_src x =? s) && (sg_tgt x =? t).

(* types.SupLink: SourceHash, SourceHeight, Signatures (slot -> signature; an absent slot is the empty
   signature) *)
Record link := mklink { l_src : N; l_srch : N; l_slots : list (N * sig) }.

Fixpoint slot_get (k : N) (sl : list (N * sig)) : option sig :=
  match sl with
  | [] => None
  | (j, x) :: r => if j =? k then Some x else slot_get k r
  end.

Definition slot_filled (k : N) (l : link) : bool :=
  match slot_get k (l_slots l) with Some _ => true | None => false end.

Fixpoint slot_del (k : N) (sl : list (N * sig)) : list (N * sig) :=
  match sl with
  | [] => []
  | (j, x) :: r => if j =? k then slot_del k r else (j, x) :: slot_del k r
  end.

(* supLink.Signatures[k] = x *)
Definition slot_set (k : N) (x : sig) (sl : list (N * sig)) : list (N * sig) := (k, x) :: slot_del k sl.

(* slots as the decoder delivers them: one signature per slot, slots 0..9 *)
Fixpoint norm_slots (sl : list (N * sig)) : list (N * sig) :=
  match sl with
  | [] => []
  | (j, x) :: r => if j <? 10 then slot_set j x (norm_slots r) else norm_slots r
  end.

Definition norm_link (l : link) : link := mklink (l_src l) (l_srch l) (norm_slots (l_slots l)).

(* Checkpoint.AddVerification / SupLinks.AddSupLink: the first link with that source gets the signature,
   otherwise a new link is appended *)
Fixpoint add_ver (src srch k : N) (x : sig) (ls : list link) : list link :=
  match ls with
  | [] => [mklink src srch [(k, x)]]
  | l :: r => if l_src l =? src then mklink (l_src l) (l_srch l) (slot_set k x (l_slots l)) :: r
              else l :: add_ver src srch k x r
  end.

Fixpoint find_link (src : N) (ls : list link) : option link :=
  match ls with
  | [] => None
  | l :: r => if l_src l =? src then Some l else find_link src r
  end.

(* SupLink.IsMajority: every non-empty slot counts *)
Definition is_majority (n : N) (l : link) : bool := n * 2 / 3 <? N.of_nat (length (l_slots l)).

(* Checkpoint.ContainsVerification(order, &source) *)
Definition contains_ver (k src : N) (ls : list link) : bool :=
  existsb (fun l => (l_src l =? src) && slot_filled k l) ls.

(* ------------------------------------------------------------------ checkpoints, state *)

Record ck := mkck {
  c_id : N;            (* Hash *)
  c_par : N;           (* ParentHash *)
  c_hgt : N;           (* Height *)
  c_anc : list N;      (* the ancestors, nearest first *)
  c_st : status;       (* Status *)
  c_db : bool;         (* the checkpoint has been saved (SaveCheckpoints) and its block is stored *)
  c_tl : list link;    (* SupLinks of the object in the tree *)
  c_hl : list link     (* SupLinks of the stored block header *)
}.

(* an admitted or produced vote: validator, source, source height, target, target height *)
Record vote := mkvote { vt_key : N; vt_src : N; vt_srch : N; vt_tgt : N; vt_tgth : N }.

Record state := mkst {
  cks : list ck;        (* every checkpoint the node knows *)
  tree : list N;        (* the checkpoints of the in-memory tree *)
  root : N;             (* the root of the tree = Casper.LastFinalized *)
  adm : list vote;      (* votes the node accepted into a checkpoint (latest first) *)
  posted : list vote    (* votes the node posted on its event dispatcher (latest first) *)
}.

Definition memN (x : N) (l : list N) : bool := existsb (N.eqb x) l.

Fixpoint find_ck (id : N) (l : list ck) : option ck :=
  match l with
  | [] => None
  | c :: r => if c_id c =? id then Some c else find_ck id r
  end.

Fixpoint upd_ck (id : N) (f : ck -> ck) (l : list ck) : list ck :=
  match l with
  | [] => []
  | c :: r => if c_id c =? id then f c :: r else c :: upd_ck id f r
  end.

Definition set_st (x : status) (c : ck) : ck :=
  mkck (c_id c) (c_par c) (c_hgt c) (c_anc c) x (c_db c) (c_tl c) (c_hl c).
Definition set_tl (x : list link) (c : ck) : ck :=
  mkck (c_id c) (c_par c) (c_hgt c) (c_anc c) (c_st c) (c_db c) x (c_hl c).
Definition set_hl (x : list link) (c : ck) : ck :=
  mkck (c_id c) (c_par c) (c_hgt c) (c_anc c) (c_st c) (c_db c) (c_tl c) x.
Definition set_db (c : ck) : ck :=
  mkck (c_id c) (c_par c) (c_hgt c) (c_anc c) (c_st c) true (c_tl c) (c_hl c).

Definition with_cks (s : state) (l : list ck) : state := mkst l (tree s) (root s) (adm s) (posted s).

(* c is a or a descendant of a *)
Definition desc (a : N) (c : ck) : bool := (c_id c =? a) || memN a (c_anc c).

Definition desc_id (l : list ck) (a x : N) : bool :=
  match find_ck x l with Some c => desc a c | None => false end.

(* model variants (DESIGN §5): true = the code as repaired in /repo's working tree, false = the pinned code *)
Record variant := mkvar {
  src_must_be_justified : bool;   (* addVerificationToCheckpoint: a sup link justifies its target only from a
                                     Justified source (pinned: from every source that is not Finalized) *)
  precheck_links : bool           (* ApplyBlock rejects a block with an unusable sup link before the tree grows
                                     and before the node's own vote (pinned: afterwards) *)
}.

Section Engine.

Variable V : variant.
Variable n : N.       (* number of validators *)
Variable E : N.       (* consensus.ActiveNetParams.BlocksOfEpoch *)
Variable local : N.   (* the node's own key; a validator iff local < n *)

(* ------------------------------------------------------------------ checks on a vote *)

Record vmsg := mkvmsg { v_key : N; v_src : N; v_srch : N; v_tgt : N; v_tgth : N; v_sig : sig }.

Definition vote_of (v : vmsg) : vote := mkvote (v_key v) (v_src v) (v_srch v) (v_tgt v) (v_tgth v).

(* verification.valid *)
Definition valid_v (v : vmsg) : bool :=
  (v_srch v mod E =? 0) && (v_tgth v mod E =? 0) && (v_srch v <? v_tgth v) &&
  sig_ok (v_key v) (v_src v) (v_tgt v) (v_sig v).

(* verifySameHeight: the stored checkpoints of the target height, with the sup links of their stored headers *)
Definition same_height_ok (s : state) (v : vmsg) : bool :=
  forallb (fun c => negb (c_db c && (c_hgt c =? v_tgth v) && negb (c_id c =? v_tgt v) &&
                          existsb (slot_filled (v_key v)) (c_hl c)))
          (cks s).

(* verifySpanHeight: the checkpoints of the tree, with the sup links of the tree objects *)
Definition span_link_ok (v : vmsg) (ch : N) (l : link) : bool :=
  negb (slot_filled (v_key v) l &&
        (((ch <? v_tgth v) && (v_srch v <? l_srch l)) || ((v_tgth v <? ch) && (l_srch l <? v_srch v)))).

Definition span_ok (s : state) (v : vmsg) : bool :=
  forallb (fun c => negb (memN (c_id c) (tree s)) || (c_hgt c =? v_tgth v) ||
                    forallb (span_link_ok v (c_hgt c)) (c_tl c))
          (cks s).

(* verifyVerification *)
Definition verify (s : state) (v : vmsg) : bool := valid_v v && same_height_ok s v && span_ok s v.

(* ------------------------------------------------------------------ justification, finalization *)

(* setFinalized *)
Definition set_finalized (s : state) (src : N) : state :=
  let l := upd_ck src (set_st Finalized) (cks s) in
  if memN src (tree s)
  then mkst l (filter (desc_id l src) (tree s)) src (adm s) (posted s)
  else mkst l (tree s) (root s) (adm s) (posted s).

(* setJustified *)
Definition set_justified (s : state) (src tgt : N) : state :=
  let s1 := with_cks s (upd_ck tgt (set_st Justified) (cks s)) in
  match find_ck tgt (cks s) with
  | Some t => if c_par t =? src then set_finalized s1 src else s1
  | None => s1
  end.

Definition src_status_ok (x : status) : bool :=
  if src_must_be_justified V then status_eqb x Justified else negb (status_eqb x Finalized).

(* addVerificationToCheckpoint for one verification *)
Definition admit_ver (s : state) (v : vmsg) : state :=
  match find_ck (v_tgt v) (cks s), find_ck (v_src v) (cks s) with
  | Some t, Some src =>
    let tl' := add_ver (v_src v) (v_srch v) (v_key v) (v_sig v) (c_tl t) in
    let s1 := mkst (upd_ck (v_tgt v) (set_tl tl') (cks s)) (tree s) (root s) (vote_of v :: adm s) (posted s) in
    match find_link (v_src v) tl' with
    | Some l => if status_eqb (c_st t) Unjustified && is_majority n l && src_status_ok (c_st src)
                then set_justified s1 (v_src v) (v_tgt v) else s1
    | None => s1
    end
  | _, _ => s
  end.

Definition post (s : state) (v : vmsg) : state :=
  mkst (cks s) (tree s) (root s) (adm s) (vote_of v :: posted s).

(* ------------------------------------------------------------------ ApplyBlock *)

(* supLinkSource: the source is a stored checkpoint of the declared height *)
Definition link_src_ok (s : state) (l : link) : bool :=
  match find_ck (l_src l) (cks s) with
  | Some c => c_db c && (c_hgt c =? l_srch l)
  | None => false
  end.

(* lastJustifiedCheckpoint: the nearest proper ancestor inside the tree whose status is Justified *)
Definition last_justified_anc (s : state) (b : ck) : option ck :=
  match find (fun a => memN a (tree s) &&
                       match find_ck a (cks s) with Some c => status_eqb (c_st c) Justified | None => false end)
             (c_anc b) with
  | Some a => find_ck a (cks s)
  | None => None
  end.

(* myVerification *)
Definition my_verification (s : state) (b : ck) : option vmsg :=
  if local <? n then
    match last_justified_anc s b with
    | Some src =>
      let v := mkvmsg local (c_id src) (c_hgt src) (c_id b) (c_hgt b) (mksig local (c_id src) (c_id b)) in
      if existsb (slot_filled local) (c_tl b) then None
      else if verify s v then Some v else None
    | None => None
    end
  else None.

(* supLinkToVerifications: the validators whose slot is filled *)
Fixpoint vers_of_slots (k : nat) (b h src srch : N) (sl : list (N * sig)) : list vmsg :=
  match k with
  | O => []
  | S k' =>
    let r := vers_of_slots k' b h src srch sl in
    match slot_get (N.of_nat k') sl with
    | Some x => r ++ [mkvmsg (N.of_nat k') src srch b h x]
    | None => r
    end
  end.

Definition vers_of_link (b h : N) (l : link) : list vmsg :=
  vers_of_slots (N.to_nat n) b h (l_src l) (l_srch l) (l_slots l).

(* applySupLinks, one link: verify every carried vote, then add the valid ones.  None = supLinkSource fails
   (only reachable in the pinned variant) *)
Definition apply_link (b h : N) (s : state) (l : link) : option state :=
  if link_src_ok s l
  then Some (fold_left admit_ver (filter (verify s) (vers_of_link b h l)) s)
  else None.

Fixpoint apply_links (b h : N) (s : state) (ls : list link) : state * bool :=
  match ls with
  | [] => (s, true)
  | l :: r => match apply_link b h s l with
              | Some s' => apply_links b h s' r
              | None => (s, false)
              end
  end.

Definition in_cks (id : N) (l : list ck) : bool :=
  match find_ck id l with Some _ => true | None => false end.

(* Casper.ApplyBlock followed by Store.SaveBlock.  Result: new state, success *)
Definition apply_block (s : state) (b p h : N) (links0 : list link) : state * bool :=
  let links := map norm_link links0 in
  if memN b (tree s) then (s, true)
  else if in_cks b (cks s) then (s, false)          (* a checkpoint outside the tree: its branch was pruned *)
  else if negb (memN p (tree s)) then (s, false)    (* checkpointNodeByHash: previous round checkpoint not found *)
  else match find_ck p (cks s) with
  | None => (s, false)
  | Some pc =>
    if negb (c_hgt pc <? h) then (s, false)
    else if precheck_links V && negb (forallb (link_src_ok s) links) then (s, false)
    else
      let nb := mkck b p h (p :: c_anc pc) Unjustified false [] [] in
      let s1 := mkst (cks s ++ [nb]) (tree s ++ [b]) (root s) (adm s) (posted s) in
      let '(s2, links2) :=
        match my_verification s1 nb with
        | Some v => (post s1 v, add_ver (v_src v) (v_srch v) (v_key v) (v_sig v) links)
        | None => (s1, links)
        end in
      let '(s3, ok) := apply_links b h s2 links2 in
      if ok then (with_cks s3 (upd_ck b (fun c => set_db (set_hl links2 c)) (cks s3)), true)
      else (s3, false)
  end.

(* ------------------------------------------------------------------ AuthVerification *)

(* the part AuthVerification and authCachedMsg share, after the target node was found; [dupcheck] = the
   ContainsVerification test of AuthVerification *)
Definition auth (dupcheck : bool) (s : state) (pub src tgt : N) (x : sig) : state * bool :=
  match find_ck src (cks s) with
  | None => (s, false)                                   (* store.GetCheckpoint(source) fails *)
  | Some sc =>
    if negb (c_db sc) then (s, false)
    else match find_ck tgt (cks s) with
    | None => (s, false)
    | Some t =>
      if tgt =? root s then (s, false)                   (* convertVerification: the root has no parent *)
      else if negb (pub <? n) then (s, false)            (* not a validator *)
      else if dupcheck && contains_ver pub src (c_tl t) then (s, true)
      else
        let v := mkvmsg pub src (c_hgt sc) tgt (c_hgt t) x in
        if negb (verify s v) then (s, false)
        else
          let s1 := post (admit_ver s v) v in
          (* saveVerificationToHeader; fails when the target block is not stored *)
          if c_db t
          then (with_cks s1 (upd_ck tgt (fun c => set_hl (add_ver src (c_hgt sc) pub x (c_hl c)) c) (cks s1)), true)
          else (s1, false)
    end
  end.

(* AuthVerification: a message for a target outside the tree is cached, no error *)
Definition auth_verification (s : state) (pub src tgt : N) (x : sig) : state * bool :=
  if memN tgt (tree s) then auth true s pub src tgt x else (s, true).

(* authCachedMsg: a cached message is applied when the first block after its target arrives *)
Definition auth_cached (s : state) (pub src tgt : N) (x : sig) : state * bool :=
  if memN tgt (tree s) then auth false s pub src tgt x else (s, false).

(* ------------------------------------------------------------------ restart *)

(* NewCasper(CheckpointsFromNode(r)): the tree is rebuilt from the stored checkpoints that descend from r; every
   node but the root gets the sup links of its stored block header *)
Definition restart (s : state) (r : N) : state :=
  match find_ck r (cks s) with
  | None => s
  | Some rc =>
    if c_db rc then
      let l := map (fun c => if c_id c =? r then set_tl [] c else set_tl (c_hl c) c) (cks s) in
      mkst l (map c_id (filter (fun c => c_db c && desc r c) l)) r (adm s) (posted s)
    else s                       (* no stored checkpoint under that key: the node cannot start from it *)
  end.

(* ------------------------------------------------------------------ histories *)

Inductive event :=
| Ckpt (b p h : N) (links : list link)
| Vote (pub src tgt : N) (x : sig)
| Replay (pub src tgt : N) (x : sig)
| Restart (r : N).

Definition step (s : state) (e : event) : state * bool :=
  match e with
  | Ckpt b p h links => apply_block s b p h links
  | Vote pub src tgt x => auth_verification s pub src tgt x
  | Replay pub src tgt x => auth_cached s pub src tgt x
  | Restart r => (restart s r, true)
  end.

(* initChainStatus: the genesis checkpoint is Justified *)
Definition init (g : N) : state :=
  mkst [mkck g 0 0 [] Justified true [] []] [g] g [] [].

Definition run (g : N) (evs : list event) : state := fold_left (fun s e => fst (step s e)) evs (init g).

(* Casper.LastJustified (its height): the highest Justified checkpoint of the tree *)
Definition last_justified_height (s : state) : N :=
  fold_left (fun m c => if memN (c_id c) (tree s) && status_eqb (c_st c) Justified then N.max m (c_hgt c) else m)
            (cks s) 0.

End Engine.
