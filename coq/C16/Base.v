(* C16/C17/C18 — basic lemmas about the engine model: lookups, updates that keep the skeleton
   (id, parent, height, ancestors) of every checkpoint, well-formed ancestor lists. *)
From Coq Require Import List NArith Bool Lia PeanoNat.
From C16 Require Import Model.
Import ListNotations.
Open Scope N_scope.

(* ---- membership ------------------------------------------------------------ *)

Lemma memN_In : forall x l, memN x l = true <-> In x l.
Proof.
  intros x l. unfold memN. rewrite existsb_exists. split.
  - intros (y & Hy & He). apply N.eqb_eq in He. now subst.
  - intros H. exists x. split; [assumption|apply N.eqb_refl].
Qed.

Lemma memN_false : forall x l, memN x l = false <-> ~ In x l.
Proof.
  intros x l. split.
  - intros H Hin. apply memN_In in Hin. congruence.
  - intros H. destruct (memN x l) eqn:E; [|reflexivity]. exfalso. apply H. now apply memN_In.
Qed.

Lemma memN_app : forall x l1 l2, memN x (l1 ++ l2) = memN x l1 || memN x l2.
Proof. intros. unfold memN. apply existsb_app. Qed.

Lemma nodup_snoc : forall (l : list N) b, NoDup l -> ~ In b l -> NoDup (l ++ [b]).
Proof.
  induction l as [|a l IH]; simpl; intros b N Hb; [constructor; [intros []|constructor]|].
  inversion N as [|x y Hn N']; subst. constructor.
  - intros Hx. apply in_app_or in Hx. destruct Hx as [Hx|[Hx|[]]]; [contradiction|].
    subst. apply Hb. now left.
  - apply IH; [assumption|]. intros H. apply Hb. now right.
Qed.

(* ---- find_ck ---------------------------------------------------------------- *)

Lemma find_ck_some : forall id l c, find_ck id l = Some c -> In c l /\ c_id c = id.
Proof.
  induction l as [|d l IH]; simpl; intros c H; [discriminate|].
  destruct (c_id d =? id) eqn:E.
  - inversion H; subst. split; [now left|now apply N.eqb_eq].
  - destruct (IH c H). split; [now right|assumption].
Qed.

Lemma find_ck_none : forall id l, find_ck id l = None <-> ~ In id (map c_id l).
Proof.
  induction l as [|d l IH]; simpl; [tauto|].
  destruct (c_id d =? id) eqn:E.
  - apply N.eqb_eq in E. split; [discriminate|]. intros H. exfalso. apply H. now left.
  - apply N.eqb_neq in E. rewrite IH. tauto.
Qed.

Lemma find_ck_in : forall l c, NoDup (map c_id l) -> In c l -> find_ck (c_id c) l = Some c.
Proof.
  induction l as [|d l IH]; simpl; intros c N H; [contradiction|].
  inversion N as [|x y Hn N']; subst. destruct H as [->|H].
  - now rewrite N.eqb_refl.
  - destruct (c_id d =? c_id c) eqn:E.
    + apply N.eqb_eq in E. exfalso. apply Hn. rewrite E. now apply in_map.
    + now apply IH.
Qed.

Lemma find_ck_app : forall id l1 l2,
  find_ck id (l1 ++ l2) = match find_ck id l1 with Some c => Some c | None => find_ck id l2 end.
Proof.
  induction l1 as [|d l1 IH]; simpl; intros; [reflexivity|].
  destruct (c_id d =? id); [reflexivity|apply IH].
Qed.

Lemma in_cks_true : forall id l, in_cks id l = true <-> In id (map c_id l).
Proof.
  intros id l. unfold in_cks. destruct (find_ck id l) eqn:E.
  - split; [|reflexivity]. intros _. apply find_ck_some in E. destruct E as [Hi <-]. now apply in_map.
  - apply find_ck_none in E. split; [discriminate|contradiction].
Qed.

Lemma cons_inv : forall {A} (a b : A) l m, a :: l = b :: m -> a = b /\ l = m.
Proof. intros A a b l m H. inversion H. auto. Qed.

(* ---- skeleton ---------------------------------------------------------------- *)

Definition skel (c : ck) := (c_id c, c_par c, c_hgt c, c_anc c).

Definition keeps_skel (f : ck -> ck) : Prop := forall c, skel (f c) = skel c.

Lemma keeps_skel_id : forall f c, keeps_skel f -> c_id (f c) = c_id c.
Proof. intros f c H. specialize (H c). unfold skel in H. congruence. Qed.

Lemma keeps_set_st : forall x, keeps_skel (set_st x).
Proof. intros x c. reflexivity. Qed.
Lemma keeps_set_tl : forall x, keeps_skel (set_tl x).
Proof. intros x c. reflexivity. Qed.
Lemma keeps_set_hl : forall x, keeps_skel (set_hl x).
Proof. intros x c. reflexivity. Qed.
Lemma keeps_set_db : keeps_skel set_db.
Proof. intros c. reflexivity. Qed.
Lemma keeps_comp : forall f g, keeps_skel f -> keeps_skel g -> keeps_skel (fun c => f (g c)).
Proof. intros f g Hf Hg c. rewrite Hf. apply Hg. Qed.

Lemma upd_ck_skel : forall id f l, keeps_skel f -> map skel (upd_ck id f l) = map skel l.
Proof.
  induction l as [|d l IH]; simpl; intros Hf; [reflexivity|].
  destruct (c_id d =? id); simpl; [now rewrite Hf|now rewrite IH].
Qed.

Lemma map_skel_ids : forall l1 l2, map skel l1 = map skel l2 -> map c_id l1 = map c_id l2.
Proof.
  induction l1 as [|a l1 IH]; destruct l2 as [|b l2]; simpl; intros H; try discriminate; [reflexivity|].
  apply cons_inv in H. destruct H as [H1 H2]. unfold skel in H1. f_equal; [congruence|now apply IH].
Qed.

Lemma upd_ck_ids : forall id f l, keeps_skel f -> map c_id (upd_ck id f l) = map c_id l.
Proof. intros. apply map_skel_ids. now apply upd_ck_skel. Qed.

Lemma find_upd_same : forall id f l, keeps_skel f ->
  find_ck id (upd_ck id f l) = option_map f (find_ck id l).
Proof.
  induction l as [|d l IH]; simpl; intros Hf; [reflexivity|].
  destruct (c_id d =? id) eqn:E; simpl.
  - rewrite (keeps_skel_id f d Hf), E. reflexivity.
  - rewrite E. now apply IH.
Qed.

Lemma find_upd_other : forall id x f l, keeps_skel f -> x <> id ->
  find_ck x (upd_ck id f l) = find_ck x l.
Proof.
  induction l as [|d l IH]; simpl; intros Hf Hne; [reflexivity|].
  destruct (c_id d =? id) eqn:E; simpl.
  - rewrite (keeps_skel_id f d Hf). apply N.eqb_eq in E.
    destruct (c_id d =? x) eqn:E2; [apply N.eqb_eq in E2; congruence|reflexivity].
  - destruct (c_id d =? x); [reflexivity|now apply IH].
Qed.

(* a lookup after an update: same skeleton *)
Lemma find_upd_skel : forall id x f l c, keeps_skel f ->
  find_ck x (upd_ck id f l) = Some c -> exists c0, find_ck x l = Some c0 /\ skel c = skel c0 /\
                                                    (x <> id -> c = c0) /\ (x = id -> c = f c0).
Proof.
  intros id x f l c Hf H. destruct (N.eq_dec x id) as [->|Hne].
  - rewrite find_upd_same in H by assumption. destruct (find_ck id l) as [c0|]; [|discriminate].
    simpl in H. inversion H; subst. exists c0.
    split; [reflexivity|]. split; [apply Hf|]. split; [intros Hx; congruence|reflexivity].
  - rewrite find_upd_other in H by assumption. exists c.
    split; [assumption|]. split; [reflexivity|]. split; [reflexivity|intros Hx; congruence].
Qed.

Lemma in_upd_ck : forall id f l c, In c (upd_ck id f l) ->
  exists c0, In c0 l /\ (c = c0 \/ (c = f c0 /\ c_id c0 = id)).
Proof.
  induction l as [|d l IH]; simpl; intros c H; [contradiction|].
  destruct (c_id d =? id) eqn:E.
  - apply N.eqb_eq in E.
    destruct H as [<-|H]; [exists d; split; [now left|right; now split]|exists c; split; [now right|now left]].
  - destruct H as [<-|H]; [exists d; split; [now left|now left]|].
    destruct (IH c H) as (c0 & Hi & Hc). exists c0. split; [now right|assumption].
Qed.

(* ---- well-formed ancestor lists ------------------------------------------------ *)

Record wf_sk (l : list ck) : Prop := mk_wf_sk {
  wf_ids : NoDup (map c_id l);
  wf_anc_in : forall c a, In c l -> In a (c_anc c) -> In a (map c_id l);
  wf_anc_struct : forall c, In c l ->
      c_anc c = [] \/ exists pc, find_ck (c_par c) l = Some pc /\ c_anc c = c_par c :: c_anc pc;
  wf_self : forall c, In c l -> ~ In (c_id c) (c_anc c)
}.

(* wf_sk only depends on the skeletons *)
Lemma find_ck_skel : forall l1 l2 x c1, map skel l1 = map skel l2 -> find_ck x l1 = Some c1 ->
  exists c2, find_ck x l2 = Some c2 /\ skel c1 = skel c2.
Proof.
  induction l1 as [|a l1 IH]; destruct l2 as [|b l2]; simpl; intros x c1 H F; try discriminate.
  apply cons_inv in H. destruct H as [H1 H2]. assert (Hid : c_id a = c_id b) by (unfold skel in H1; congruence).
  rewrite <- Hid. destruct (c_id a =? x).
  - inversion F; subst. exists b. split; [reflexivity|assumption].
  - now apply IH.
Qed.

Lemma in_skel : forall l1 l2 c1, map skel l1 = map skel l2 -> In c1 l1 -> exists c2, In c2 l2 /\ skel c1 = skel c2.
Proof.
  induction l1 as [|a l1 IH]; destruct l2 as [|b l2]; simpl; intros c1 H F; try discriminate; [contradiction|].
  apply cons_inv in H. destruct H as [H1 H2]. destruct F as [<-|F].
  - exists b. split; [now left|assumption].
  - destruct (IH l2 c1 H2 F) as (c2 & Hi & Hs). exists c2. split; [now right|assumption].
Qed.

Lemma wf_sk_skel : forall l1 l2, map skel l1 = map skel l2 -> wf_sk l1 -> wf_sk l2.
Proof.
  intros l1 l2 H [W1 W2 W3 W4]. pose proof (map_skel_ids _ _ H) as Hids.
  assert (Hs : map skel l2 = map skel l1) by (symmetry; exact H).
  constructor.
  - now rewrite <- Hids.
  - intros c a Hc Ha. destruct (in_skel _ _ c Hs Hc) as (c1 & Hc1 & Hsk). rewrite <- Hids.
    apply (W2 c1 a Hc1). unfold skel in Hsk. congruence.
  - intros c Hc. destruct (in_skel _ _ c Hs Hc) as (c1 & Hc1 & Hsk).
    assert (Ea : c_anc c = c_anc c1) by (unfold skel in Hsk; congruence).
    assert (Ep : c_par c = c_par c1) by (unfold skel in Hsk; congruence).
    destruct (W3 c1 Hc1) as [E|(pc & Hf & E)]; [left; congruence|].
    right. destruct (find_ck_skel _ _ _ _ H Hf) as (pc2 & Hf2 & Hsk2).
    exists pc2. split; [congruence|]. rewrite Ea, E. f_equal; [congruence|]. unfold skel in Hsk2. congruence.
  - intros c Hc. destruct (in_skel _ _ c Hs Hc) as (c1 & Hc1 & Hsk).
    assert (E : c_anc c = c_anc c1 /\ c_id c = c_id c1) by (unfold skel in Hsk; split; congruence).
    destruct E as [E1 E2]. rewrite E1, E2. now apply W4.
Qed.

Lemma wf_sk_upd : forall id f l, keeps_skel f -> wf_sk l -> wf_sk (upd_ck id f l).
Proof. intros id f l Hf W. eapply wf_sk_skel; [|exact W]. symmetry. now apply upd_ck_skel. Qed.

(* the ancestors of an ancestor are ancestors *)
Lemma anc_closed_k : forall l, wf_sk l -> forall k c, (length (c_anc c) <= k)%nat -> In c l ->
  forall a ca, In a (c_anc c) -> find_ck a l = Some ca -> incl (c_anc ca) (c_anc c).
Proof.
  intros l W. induction k as [|k IH]; intros c Hk Hc a ca Ha Hf.
  - destruct (c_anc c); [contradiction|simpl in Hk; lia].
  - destruct (wf_anc_struct l W c Hc) as [E|(pc & Hp & E)]; [rewrite E in Ha; contradiction|].
    rewrite E in Ha |- *. destruct Ha as [<-|Ha].
    + assert (ca = pc) by congruence. subst ca. intros x Hx. now right.
    + assert (Hpc : In pc l) by (apply find_ck_some in Hp; tauto).
      assert (Hlen : (length (c_anc pc) <= k)%nat) by (rewrite E in Hk; simpl in Hk; lia).
      intros x Hx. right. exact (IH pc Hlen Hpc a ca Ha Hf x Hx).
Qed.

Lemma anc_closed : forall l c a ca, wf_sk l -> In c l -> In a (c_anc c) -> find_ck a l = Some ca ->
  incl (c_anc ca) (c_anc c).
Proof.
  intros l c a ca W Hc Ha Hf.
  exact (anc_closed_k l W (length (c_anc c)) c (Nat.le_refl _) Hc a ca Ha Hf).
Qed.

(* desc: reflexive, transitive *)
Lemma desc_id_refl : forall l x, in_cks x l = true -> desc_id l x x = true.
Proof.
  intros l x H. unfold desc_id, in_cks in *. destruct (find_ck x l) as [c|] eqn:E; [|discriminate].
  unfold desc. apply find_ck_some in E. destruct E as [_ ->]. now rewrite N.eqb_refl.
Qed.

Lemma desc_id_in : forall l a x, desc_id l a x = true -> in_cks x l = true.
Proof. intros l a x H. unfold desc_id, in_cks in *. destruct (find_ck x l); [reflexivity|discriminate]. Qed.

Lemma desc_id_cases : forall l a x, desc_id l a x = true ->
  exists c, find_ck x l = Some c /\ (x = a \/ In a (c_anc c)).
Proof.
  intros l a x H. unfold desc_id in H. destruct (find_ck x l) as [c|] eqn:E; [|discriminate].
  exists c. split; [reflexivity|]. unfold desc in H. apply orb_true_iff in H. destruct H as [H|H].
  - left. apply N.eqb_eq in H. apply find_ck_some in E. destruct E. congruence.
  - right. now apply memN_In.
Qed.

Lemma desc_id_trans : forall l a b x, wf_sk l ->
  desc_id l b a = true -> desc_id l a x = true -> desc_id l b x = true.
Proof.
  intros l a b x W Hba Hax.
  destruct (desc_id_cases _ _ _ Hax) as (cx & Fx & [->|Hx]); [assumption|].
  destruct (desc_id_cases _ _ _ Hba) as (ca & Fa & [->|Ha]); [assumption|].
  unfold desc_id. rewrite Fx. unfold desc. apply orb_true_iff. right. apply memN_In.
  assert (Hcx : In cx l) by (apply find_ck_some in Fx; tauto).
  exact (anc_closed l cx a ca W Hcx Hx Fa b Ha).
Qed.

(* two ancestors of one checkpoint lie on one chain *)
Lemma anc_chain_k : forall l, wf_sk l -> forall k c, (length (c_anc c) <= k)%nat -> In c l ->
  forall a b ca cb, In a (c_anc c) -> In b (c_anc c) -> find_ck a l = Some ca -> find_ck b l = Some cb ->
  a = b \/ In a (c_anc cb) \/ In b (c_anc ca).
Proof.
  intros l W. induction k as [|k IH]; intros c Hk Hc a b ca cb Ha Hb Fa Fb.
  - destruct (c_anc c); [contradiction|simpl in Hk; lia].
  - destruct (wf_anc_struct l W c Hc) as [E|(pc & Hp & E)]; [rewrite E in Ha; contradiction|].
    rewrite E in Ha, Hb. assert (Hpc : In pc l) by (apply find_ck_some in Hp; tauto).
    assert (Hlen : (length (c_anc pc) <= k)%nat) by (rewrite E in Hk; simpl in Hk; lia).
    destruct Ha as [<-|Ha], Hb as [<-|Hb].
    + now left.
    + right. right. assert (ca = pc) by congruence. now subst.
    + right. left. assert (cb = pc) by congruence. now subst.
    + exact (IH pc Hlen Hpc a b ca cb Ha Hb Fa Fb).
Qed.

Lemma anc_chain : forall l c a b ca cb, wf_sk l -> In c l -> In a (c_anc c) -> In b (c_anc c) ->
  find_ck a l = Some ca -> find_ck b l = Some cb -> a = b \/ In a (c_anc cb) \/ In b (c_anc ca).
Proof.
  intros l c a b ca cb W Hc Ha Hb Fa Fb.
  exact (anc_chain_k l W (length (c_anc c)) c (Nat.le_refl _) Hc a b ca cb Ha Hb Fa Fb).
Qed.
