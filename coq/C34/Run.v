(* C34 — helpers used by the generated case files.

   A case file first defines [pools]: per local node k, groups of distance
   hashes (group 0 = the local node's own hash), each hash written as one
   hexadecimal number.  A case is then: the local node's pool k, a population
   of nodes given as (id label, group, index in group) — labels stand for node
   ids, of which the model uses equality only; label 0 is the local id — and an
   operation list referring to the population by position.  The result is the
   projection compared with the implementation: recorded count, the non-empty
   buckets as (index, entry labels in order, replacement labels in order), and
   per operation the contested node (add) or the flag (bump, as 1/0). *)
From Coq Require Import List ZArith NArith Bool PeanoNat.
From Verif Require Import Outcome Cmp.
From C34 Require Import Model.
Import ListNotations.

(* ---- 32 big-endian bytes of a number -------------------------------------- *)
Fixpoint pos_bits (p : positive) : list bool :=   (* least significant first *)
  match p with
  | xH => [true]
  | xO q => false :: pos_bits q
  | xI q => true :: pos_bits q
  end.
Definition N_bits (x : N) : list bool := match x with N0 => [] | Npos p => pos_bits p end.
Fixpoint byte_of (bits : list bool) : N :=
  match bits with
  | [] => 0
  | b :: r => ((if b then 1 else 0) + 2 * byte_of r)%N
  end.
Fixpoint bytes_le (k : nat) (bits : list bool) : list N :=
  match k with
  | O => []
  | S k' => byte_of (firstn 8 bits) :: bytes_le k' (skipn 8 bits)
  end.
Definition hash_of_N (x : N) : list N := rev (bytes_le 32 (N_bits x)).

Definition pool := list (list (list (list N))).   (* local node -> group -> index -> hash bytes *)
Definition mkpools (l : list (list (list N))) : pool := map (map (map hash_of_N)) l.

Definition nthN {A} (l : list A) (i : N) : option A := nth_error l (N.to_nat i).

(* ---- operations by position ----------------------------------------------- *)
Inductive iop :=
| IAdd (i : N)
| IStuff (l : list N)
| IDelete (i : N)
| IDeleteReplace (i : N)
| IBump (i : N)
| IDelRepl (i : N).

Fixpoint resolve_list (nodes : list node) (l : list N) : option (list node) :=
  match l with
  | [] => Some []
  | i :: l' =>
    match nthN nodes i, resolve_list nodes l' with
    | Some n, Some r => Some (n :: r)
    | _, _ => None
    end
  end.

Definition resolve (nodes : list node) (o : iop) : option op :=
  match o with
  | IAdd i => option_map OAdd (nthN nodes i)
  | IStuff l => option_map OStuff (resolve_list nodes l)
  | IDelete i => option_map ODelete (nthN nodes i)
  | IDeleteReplace i => option_map ODeleteReplace (nthN nodes i)
  | IBump i => option_map OBump (nthN nodes i)
  | IDelRepl i => option_map ODelRepl (nthN nodes i)
  end.

Fixpoint resolve_all (nodes : list node) (ops : list iop) : option (list op) :=
  match ops with
  | [] => Some []
  | o :: ops' =>
    match resolve nodes o, resolve_all nodes ops' with
    | Some x, Some r => Some (x :: r)
    | _, _ => None
    end
  end.

Fixpoint mknodes (groups : list (list (list N))) (specs : list (N * N * N)) : option (list node) :=
  match specs with
  | [] => Some []
  | (lbl, g, j) :: specs' =>
    match nthN groups g with
    | Some grp =>
      match nthN grp j, mknodes groups specs' with
      | Some h, Some r => Some (mkNode lbl h :: r)
      | _, _ => None
      end
    | None => None
    end
  end.

(* ---- projection ------------------------------------------------------------- *)
Definition dump_obs (r : obs) : option N :=
  match r with
  | ONone => None
  | ONode n => Some (nid n)
  | OFlag true => Some 1%N
  | OFlag false => Some 0%N
  end.

Fixpoint dump_buckets (i : N) (l : list bucket) : list (N * (list N * list N)) :=
  match l with
  | [] => []
  | b :: l' =>
    match entries b, replacements b with
    | [], [] => dump_buckets (N.succ i) l'
    | _, _ => (i, (map nid (entries b), map nid (replacements b))) :: dump_buckets (N.succ i) l'
    end
  end.

Definition cres := option (Z * (list (N * (list N * list N)) * list (option N))).

Definition run_case (s : node) (nodes : list node) (ops : list iop) : cres :=
  match resolve_all nodes ops with
  | None => None
  | Some ops' =>
    match run (new_table s) ops' with
    | Ok (t, rs) => Some (count t, (dump_buckets 0 (buckets t), map dump_obs rs))
    | _ => None
    end
  end.

Definition run_case_pool (p : pool) (k : N) (specs : list (N * N * N)) (ops : list iop) : cres :=
  match nthN p k with
  | Some groups =>
    match mknodes groups [(0, 0, 0)%N], mknodes groups specs with
    | Some [s], Some nodes => run_case s nodes ops
    | _, _ => None
    end
  | None => None
  end.

Definition cres_eqb : cres -> cres -> bool :=
  option_eqb (pair_eqb Z.eqb
    (pair_eqb (list_eqb (pair_eqb N.eqb (pair_eqb (list_eqb N.eqb) (list_eqb N.eqb))))
              (list_eqb (option_eqb N.eqb)))).
