(* C34 — helpers used by the generated case files: a case is the local node,
   a node population, and an operation list that refers to nodes by index;
   the result is the projection compared with the implementation. *)
From Coq Require Import List ZArith NArith Bool PeanoNat.
From Verif Require Import Outcome Cmp.
From C34 Require Import Model.
Import ListNotations.

Inductive iop :=
| IAdd (i : nat)
| IStuff (l : list nat)
| IDelete (i : nat)
| IDeleteReplace (i : nat)
| IBump (i : nat)
| IDelRepl (i : nat).

Fixpoint resolve_list (nodes : list node) (l : list nat) : option (list node) :=
  match l with
  | [] => Some []
  | i :: l' =>
    match nth_error nodes i, resolve_list nodes l' with
    | Some n, Some r => Some (n :: r)
    | _, _ => None
    end
  end.

Definition resolve (nodes : list node) (o : iop) : option op :=
  match o with
  | IAdd i => option_map OAdd (nth_error nodes i)
  | IStuff l => option_map OStuff (resolve_list nodes l)
  | IDelete i => option_map ODelete (nth_error nodes i)
  | IDeleteReplace i => option_map ODeleteReplace (nth_error nodes i)
  | IBump i => option_map OBump (nth_error nodes i)
  | IDelRepl i => option_map ODelRepl (nth_error nodes i)
  end.

Fixpoint resolve_all (nodes : list node) (ops : list iop) : option (list op) :=
  match ops with
  | [] => Some []
  | o :: ops' =>
    match resolve nodes o, resolve_all nodes ops' with
    | Some x, Some r => Some (x :: r)
    | _, _ => None
    end
  end.

(* projection: recorded count; the non-empty buckets as (index, entry ids in
   order, replacement ids in order); per operation the contested node id
   (add) or the flag (bump, as 1/0) *)
Definition dump_obs (r : obs) : option N :=
  match r with
  | ONone => None
  | ONode n => Some (nid n)
  | OFlag true => Some 1%N
  | OFlag false => Some 0%N
  end.

Fixpoint dump_buckets (i : nat) (l : list bucket) : list (nat * (list N * list N)) :=
  match l with
  | [] => []
  | b :: l' =>
    match entries b, replacements b with
    | [], [] => dump_buckets (S i) l'
    | _, _ => (i, (map nid (entries b), map nid (replacements b))) :: dump_buckets (S i) l'
    end
  end.

Definition cres := option (Z * (list (nat * (list N * list N)) * list (option N))).

Definition run_case (s : node) (nodes : list node) (ops : list iop) : cres :=
  match resolve_all nodes ops with
  | None => None
  | Some ops' =>
    match run (new_table s) ops' with
    | Ok (t, rs) => Some (count t, (dump_buckets 0 (buckets t), map dump_obs rs))
    | _ => None
    end
  end.

Definition cres_eqb : cres -> cres -> bool :=
  option_eqb (pair_eqb Z.eqb
    (pair_eqb (list_eqb (pair_eqb Nat.eqb (pair_eqb (list_eqb N.eqb) (list_eqb N.eqb))))
              (list_eqb (option_eqb N.eqb)))).

(* shorthand used by the case files: 32 hash bytes given as one number *)
Fixpoint be_bytes (k : nat) (x : N) (acc : list N) : list N :=
  match k with
  | O => acc
  | S k' => be_bytes k' (N.div x 256) (N.modulo x 256 :: acc)
  end.
Definition nd (id sha : N) : node := mkNode id (be_bytes 32 sha []).
