(* C34 — proofs about the routing-table model (C34/Model.v). *)
From Coq Require Import List ZArith NArith Bool PeanoNat Lia Permutation.
From Verif Require Import Outcome.
From C34 Require Import Model.
Import ListNotations.

(* ---------------------------------------------------------------------- *)
(* The invariant                                                            *)
(* ---------------------------------------------------------------------- *)

Definition ids (l : list node) : list N := map nid l.

(* n is at log-distance i from the local node s (as the code computes it) *)
Definition at_dist (s : node) (i : nat) (n : node) : Prop :=
  logdist (nsha s) (nsha n) = Ok i.

(* a slice of nodes of bucket i: at most bucketSize, pairwise distinct ids,
   every node at distance i, the local node absent *)
Definition slice_ok (s : node) (i : nat) (l : list node) : Prop :=
  length l <= bucket_size /\
  NoDup (ids l) /\
  Forall (at_dist s i) l /\
  ~ In (nid s) (ids l).

Definition disj (es rs : list node) : Prop :=
  forall x, In x (ids es) -> ~ In x (ids rs).

Definition bucket_inv (s : node) (i : nat) (b : bucket) : Prop :=
  slice_ok s i (entries b) /\ slice_ok s i (replacements b) /\
  disj (entries b) (replacements b).

Fixpoint total (l : list bucket) : Z :=
  match l with
  | [] => 0
  | b :: l' => Z.of_nat (length (entries b)) + total l'
  end.

Definition table_inv (t : table) : Prop :=
  length (buckets t) = n_buckets /\
  (forall i b, nth_error (buckets t) i = Some b -> bucket_inv (self t) i b) /\
  count t = total (buckets t).

(* ---------------------------------------------------------------------- *)
(* Subsequences                                                             *)
(* ---------------------------------------------------------------------- *)

Inductive subl : list node -> list node -> Prop :=
| subl_nil : subl [] []
| subl_keep x l' l : subl l' l -> subl (x :: l') (x :: l)
| subl_skip x l' l : subl l' l -> subl l' (x :: l).

Lemma subl_refl l : subl l l.
Proof. induction l; constructor; assumption. Qed.

Lemma subl_length l' l : subl l' l -> length l' <= length l.
Proof. induction 1; cbn; lia. Qed.

Lemma subl_in l' l : subl l' l -> forall x, In x (ids l') -> In x (ids l).
Proof.
  induction 1; cbn; intros y Hy; auto.
  destruct Hy as [Hy | Hy]; auto.
Qed.

Lemma subl_nodup l' l : subl l' l -> NoDup (ids l) -> NoDup (ids l').
Proof.
  induction 1 as [| x l' l H IH | x l' l H IH]; cbn; intros ND; auto.
  - inversion ND as [| ? ? Hn ND']; subst. constructor; auto.
    intros Hin. apply Hn. eapply subl_in; eauto.
  - inversion ND; subst. auto.
Qed.

Lemma subl_forall (P : node -> Prop) l' l : subl l' l -> Forall P l -> Forall P l'.
Proof.
  induction 1; intros F; auto.
  - inversion F; subst. constructor; auto.
  - inversion F; subst. auto.
Qed.

Lemma slice_ok_subl s i l' l : subl l' l -> slice_ok s i l -> slice_ok s i l'.
Proof.
  intros S (Hl & Hn & Hd & Hs). repeat split.
  - pose proof (subl_length _ _ S). lia.
  - eapply subl_nodup; eauto.
  - eapply subl_forall; eauto.
  - intros Hin. apply Hs. eapply subl_in; eauto.
Qed.

Lemma disj_subl es' es rs' rs : subl es' es -> subl rs' rs -> disj es rs -> disj es' rs'.
Proof.
  intros S1 S2 D x Hx Hr. apply (D x).
  - eapply subl_in; eauto.
  - eapply subl_in; eauto.
Qed.

Lemma subl_app_l a b : subl a (a ++ b).
Proof.
  induction a; cbn.
  - induction b; constructor; assumption.
  - constructor; assumption.
Qed.

Lemma subl_tl l : subl (tl l) l.
Proof. destruct l; cbn; [constructor | constructor; apply subl_refl]. Qed.

(* ---------------------------------------------------------------------- *)
(* The slice primitives                                                     *)
(* ---------------------------------------------------------------------- *)

Lemma id_eqb_true a b : id_eqb a b = true <-> nid a = nid b.
Proof. unfold id_eqb. apply N.eqb_eq. Qed.

Lemma id_eqb_false a b : id_eqb a b = false <-> nid a <> nid b.
Proof. unfold id_eqb. apply N.eqb_neq. Qed.

Lemma remove_all_subl n l : subl (remove_all n l) l.
Proof.
  induction l as [| e l IH]; cbn; [constructor |].
  destruct (id_eqb e n); constructor; assumption.
Qed.

Lemma remove_all_not_in n l : ~ In (nid n) (ids (remove_all n l)).
Proof.
  induction l as [| e l IH]; cbn; auto.
  destruct (id_eqb e n) eqn:E; auto.
  cbn. intros [H | H]; auto. apply id_eqb_false in E. congruence.
Qed.

Lemma remove_first_none n l : remove_first n l = None -> ~ In (nid n) (ids l).
Proof.
  induction l as [| e l IH]; cbn; auto.
  destruct (id_eqb e n) eqn:E; [discriminate |].
  destruct (remove_first n l); [discriminate |].
  intros _ [H | H]; [| apply IH; auto].
  apply id_eqb_false in E. congruence.
Qed.

Lemma remove_first_some n l r : remove_first n l = Some r ->
  subl r l /\ length l = S (length r) /\ In (nid n) (ids l) /\
  (NoDup (ids l) -> ~ In (nid n) (ids r)).
Proof.
  revert r. induction l as [| e l IH]; cbn; intros r; [discriminate |].
  destruct (id_eqb e n) eqn:E.
  - intros H; inversion H; subst. apply id_eqb_true in E.
    repeat split.
    + constructor. apply subl_refl.
    + left; assumption.
    + intros ND. inversion ND; subst. rewrite <- E. assumption.
  - destruct (remove_first n l) as [r0 |]; [| discriminate].
    intros H; inversion H; subst.
    destruct (IH r0 eq_refl) as (S1 & L1 & I1 & N1).
    repeat split.
    + constructor; assumption.
    + cbn. lia.
    + right; assumption.
    + intros ND. inversion ND; subst. cbn. intros [Hx | Hx].
      * apply id_eqb_false in E. congruence.
      * apply N1; assumption.
Qed.

Lemma has_id_false n l : has_id n l = false -> ~ In (nid n) (ids l).
Proof.
  induction l as [| e l IH]; cbn; auto.
  destruct (id_eqb e n) eqn:E; [discriminate |].
  intros H [Hx | Hx]; [| apply IH; auto].
  apply id_eqb_false in E. congruence.
Qed.

Lemma split_last_some l i z : split_last l = Some (i, z) -> l = i ++ [z].
Proof.
  revert i z. induction l as [| x l IH]; cbn; intros i z; [discriminate |].
  destruct (split_last l) as [[i0 z0] |] eqn:E.
  - intros H; inversion H; subst. cbn. f_equal. apply IH. reflexivity.
  - intros H; inversion H; subst. destruct l; [reflexivity |].
    cbn in E. destruct (split_last l) as [[? ?] |]; discriminate.
Qed.

Lemma split_last_none l : split_last l = None -> l = [].
Proof.
  destruct l as [| x l]; cbn; auto.
  destruct (split_last l) as [[? ?] |]; discriminate.
Qed.

Lemma ids_app a b : ids (a ++ b) = ids a ++ ids b.
Proof. apply map_app. Qed.

Lemma nodup_snoc (l : list N) x : NoDup (l ++ [x]) <-> NoDup l /\ ~ In x l.
Proof.
  split.
  - intros H. apply (Permutation_NoDup (Permutation_sym (Permutation_cons_append l x))) in H.
    inversion H; subst. split; assumption.
  - intros [H1 H2]. apply (Permutation_NoDup (Permutation_cons_append l x)).
    constructor; assumption.
Qed.

(* ---------------------------------------------------------------------- *)
(* The bucket array                                                         *)
(* ---------------------------------------------------------------------- *)

Lemma upd_length l i b : length (upd l i b) = length l.
Proof.
  revert i; induction l as [| x l IH]; intros [| i]; cbn; auto.
Qed.

Lemma upd_same l i b x : nth_error l i = Some x -> nth_error (upd l i b) i = Some b.
Proof.
  revert i; induction l as [| y l IH]; intros [| i]; cbn; try discriminate; auto.
Qed.

Lemma upd_other l i j b : i <> j -> nth_error (upd l i b) j = nth_error l j.
Proof.
  revert i j; induction l as [| y l IH]; intros [| i] [| j] H; cbn; auto; try congruence.
Qed.

Lemma upd_total l i b x : nth_error l i = Some x ->
  total (upd l i b) = (total l - Z.of_nat (length (entries x)) + Z.of_nat (length (entries b)))%Z.
Proof.
  revert i; induction l as [| y l IH]; intros [| i]; cbn; try discriminate.
  - intros H; inversion H; subst. lia.
  - intros H. rewrite (IH _ H). lia.
Qed.

Lemma set_bucket_inv t c d b b' :
  table_inv t ->
  nth_error (buckets t) d = Some b ->
  bucket_inv (self t) d b' ->
  c = (count t - Z.of_nat (length (entries b)) + Z.of_nat (length (entries b')))%Z ->
  table_inv (set_bucket t c d b') /\ self (set_bucket t c d b') = self t.
Proof.
  intros (HL & HB & HC) Hd Hb' Hc. split; [| reflexivity].
  unfold table_inv, set_bucket; cbn. split; [| split].
  - rewrite upd_length. assumption.
  - intros i x Hx. destruct (Nat.eq_dec d i) as [-> | Hne].
    + rewrite (upd_same _ _ _ _ Hd) in Hx. inversion Hx; subst. assumption.
    + rewrite (upd_other _ _ _ _ Hne) in Hx. apply HB; assumption.
  - rewrite (upd_total _ _ _ _ Hd). lia.
Qed.

Lemma bucket_of_ok t n d b : bucket_of t n = Ok (d, b) ->
  at_dist (self t) d n /\ nth_error (buckets t) d = Some b.
Proof.
  unfold bucket_of, at_dist.
  destruct (logdist (nsha (self t)) (nsha n)) as [d0 | |]; try discriminate.
  destruct (nth_error (buckets t) d0) as [b0 |] eqn:E; try discriminate.
  intros H; inversion H; subst. auto.
Qed.

(* ---------------------------------------------------------------------- *)
(* Each operation preserves the invariant                                   *)
(* ---------------------------------------------------------------------- *)

Definition keeps (t t' : table) : Prop := table_inv t' /\ self t' = self t.

Lemma keeps_refl t : table_inv t -> keeps t t.
Proof. split; auto. Qed.

(* entering a node at the front / at the back of a slice *)
Lemma slice_ok_cons s i n l :
  slice_ok s i l -> length l < bucket_size -> ~ In (nid n) (ids l) ->
  at_dist s i n -> nid n <> nid s -> slice_ok s i (n :: l).
Proof.
  intros (Hl & Hn & Hd & Hs) Hlt Hin Hat Hns. repeat split; cbn.
  - lia.
  - constructor; assumption.
  - constructor; assumption.
  - intros [H | H]; [congruence | auto].
Qed.

Lemma slice_ok_snoc s i n l :
  slice_ok s i l -> length l < bucket_size -> ~ In (nid n) (ids l) ->
  at_dist s i n -> nid n <> nid s -> slice_ok s i (l ++ [n]).
Proof.
  intros (Hl & Hn & Hd & Hs) Hlt Hin Hat Hns. repeat split.
  - rewrite app_length. cbn. lia.
  - rewrite ids_app. cbn. apply nodup_snoc. split; assumption.
  - apply Forall_app. split; [assumption | constructor; [assumption | constructor]].
  - rewrite ids_app. cbn. intros H. apply in_app_or in H. destruct H as [H | [H | []]]; [auto | congruence].
Qed.

(* the bump case: the entry with n's id is replaced by n at the front *)
Lemma bump_bucket_inv s i b n es' :
  bucket_inv s i b -> bump (entries b) n = Some es' -> at_dist s i n -> nid n <> nid s ->
  bucket_inv s i (mkBucket es' (replacements b)) /\ length es' = length (entries b).
Proof.
  intros (He & Hr & Hdj) Hb Hat Hns. unfold bump in Hb.
  destruct (remove_first n (entries b)) as [r |] eqn:E; [| discriminate].
  inversion Hb; subst. destruct (remove_first_some _ _ _ E) as (S1 & L1 & I1 & N1).
  split; [| cbn; lia].
  split; [| split]; cbn.
  - apply slice_ok_cons; auto.
    + eapply slice_ok_subl; eauto.
    + pose proof He as (Hl & _). lia.
    + apply N1. apply He.
  - assumption.
  - intros x [Hx | Hx].
    + subst x. apply Hdj. assumption.
    + apply Hdj. eapply subl_in; eauto.
Qed.

Lemma disj_cons_remove_all n es rs :
  disj es rs -> disj (n :: es) (remove_all n rs).
Proof.
  intros D x [Hx | Hx] Hr.
  - subst x. eapply remove_all_not_in; eauto.
  - apply (D x Hx). eapply subl_in; [apply remove_all_subl | eauto].
Qed.

Lemma add_keeps t n t' r : table_inv t -> add t n = Ok (t', r) -> keeps t t'.
Proof.
  intros Inv. unfold add, add_gen.
  destruct (N.eqb (nid n) (nid (self t))) eqn:Eself.
  { intros H; inversion H; subst. apply keeps_refl; assumption. }
  apply N.eqb_neq in Eself.
  destruct (bucket_of t n) as [[d b] | |] eqn:Eb; try discriminate.
  destruct (bucket_of_ok _ _ _ _ Eb) as (Hat & Hnth).
  pose proof Inv as (_ & HB & _). pose proof (HB _ _ Hnth) as Hbi.
  destruct (bump (entries b) n) as [es' |] eqn:Ebump.
  - intros H; inversion H; subst.
    destruct (bump_bucket_inv _ _ _ _ _ Hbi Ebump Hat Eself) as (Hbi' & Hlen).
    eapply set_bucket_inv; eauto. cbn. lia.
  - unfold bump in Ebump.
    destruct (remove_first n (entries b)) eqn:Erf; [discriminate |].
    apply remove_first_none in Erf.
    destruct Hbi as (He & Hr & Hdj).
    destruct (Nat.ltb (length (entries b)) bucket_size) eqn:Elt.
    + apply Nat.ltb_lt in Elt. intros H; inversion H; subst.
      eapply set_bucket_inv; eauto.
      * split; [| split]; cbn.
        -- unfold add_front. apply slice_ok_cons; auto.
        -- eapply slice_ok_subl; [apply remove_all_subl | assumption].
        -- unfold add_front, delete_from_replacement. apply disj_cons_remove_all; assumption.
      * cbn. lia.
    + apply Nat.ltb_ge in Elt.
      destruct (split_last (entries b)) as [[ini l] |] eqn:Esl; [| discriminate].
      intros H; inversion H; subst.
      eapply set_bucket_inv; eauto; [| cbn; lia].
      set (ra := delete_from_replacement (replacements b) n).
      assert (Sra : subl ra (replacements b)) by apply remove_all_subl.
      assert (Hra : slice_ok (self t) d ra) by (eapply slice_ok_subl; eauto).
      assert (Hnra : ~ In (nid n) (ids ra)) by apply remove_all_not_in.
      clearbody ra.
      assert (Hfull : length (ra ++ [n]) <= S bucket_size /\
                      NoDup (ids (ra ++ [n])) /\ Forall (at_dist (self t) d) (ra ++ [n]) /\
                      ~ In (nid (self t)) (ids (ra ++ [n]))).
      { destruct Hra as (Hl & Hn & Hd & Hs). repeat split.
        - rewrite app_length. cbn. lia.
        - rewrite ids_app. cbn. apply nodup_snoc. split; assumption.
        - apply Forall_app. split; [assumption | constructor; [assumption | constructor]].
        - rewrite ids_app. cbn. intros Hx. apply in_app_or in Hx.
          destruct Hx as [Hx | [Hx | []]]; [auto | congruence]. }
      assert (Hdj' : disj (entries b) (ra ++ [n])).
      { intros x Hx Hr'. rewrite ids_app in Hr'. cbn in Hr'. apply in_app_or in Hr'.
        destruct Hr' as [Hr' | [Hr' | []]].
        - apply (Hdj x Hx). eapply subl_in; eauto.
        - subst x. auto. }
      destruct Hfull as (Hl & Hn & Hd & Hs).
      split; [| split]; cbn [entries replacements]; auto.
      * destruct (Nat.ltb bucket_size (length (ra ++ [n]))) eqn:E17.
        -- repeat split.
           ++ apply Nat.ltb_lt in E17. unfold bucket_size in *.
              destruct (ra ++ [n]); cbn [tl length] in *; lia.
           ++ eapply subl_nodup; [apply subl_tl | assumption].
           ++ eapply subl_forall; [apply subl_tl | assumption].
           ++ intros Hx. apply Hs. eapply subl_in; [apply subl_tl | eassumption].
        -- apply Nat.ltb_ge in E17. repeat split; auto.
      * destruct (Nat.ltb bucket_size (length (ra ++ [n]))); auto.
        eapply disj_subl; [apply subl_refl | apply subl_tl | assumption].
Qed.

Lemma stuff1_keeps t n t' : table_inv t -> stuff1_gen true t n = Ok t' -> keeps t t'.
Proof.
  intros Inv. unfold stuff1_gen.
  destruct (N.eqb (nid n) (nid (self t))) eqn:Eself.
  { intros H; inversion H; subst. apply keeps_refl; assumption. }
  apply N.eqb_neq in Eself.
  destruct (bucket_of t n) as [[d b] | |] eqn:Eb; try discriminate.
  destruct (bucket_of_ok _ _ _ _ Eb) as (Hat & Hnth).
  pose proof Inv as (_ & HB & _). pose proof (HB _ _ Hnth) as (He & Hr & Hdj).
  destruct (has_id n (entries b)) eqn:Ehas.
  { intros H; inversion H; subst. apply keeps_refl; assumption. }
  apply has_id_false in Ehas.
  destruct (Nat.ltb (length (entries b)) bucket_size) eqn:Elt.
  - apply Nat.ltb_lt in Elt. intros H; inversion H; subst.
    eapply set_bucket_inv; eauto.
    + split; [| split]; cbn.
      * apply slice_ok_snoc; auto.
      * eapply slice_ok_subl; [apply remove_all_subl | assumption].
      * intros x Hx Hr'. rewrite ids_app in Hx. cbn in Hx. apply in_app_or in Hx.
        destruct Hx as [Hx | [Hx | []]].
        -- apply (Hdj x Hx). eapply subl_in; [apply remove_all_subl | eassumption].
        -- subst x. eapply remove_all_not_in; eauto.
    + cbn. rewrite app_length. cbn. lia.
  - intros H; inversion H; subst. apply keeps_refl; assumption.
Qed.

Lemma keeps_trans t1 t2 t3 : keeps t1 t2 -> keeps t2 t3 -> keeps t1 t3.
Proof. intros (I2 & S2) (I3 & S3). split; [assumption | congruence]. Qed.

Lemma stuff_keeps ns : forall t t', table_inv t -> stuff t ns = Ok t' -> keeps t t'.
Proof.
  unfold stuff. induction ns as [| n ns IH]; cbn; intros t t' Inv.
  - intros H; inversion H; subst. apply keeps_refl; assumption.
  - destruct (stuff1_gen true t n) as [t1 | |] eqn:E1; try discriminate.
    intros H. pose proof (stuff1_keeps _ _ _ Inv E1) as K1.
    eapply keeps_trans; [exact K1 |]. apply IH; [apply K1 | assumption].
Qed.

Lemma delete_keeps t n t' : table_inv t -> delete t n = Ok t' -> keeps t t'.
Proof.
  intros Inv. unfold delete.
  destruct (bucket_of t n) as [[d b] | |] eqn:Eb; try discriminate.
  destruct (bucket_of_ok _ _ _ _ Eb) as (Hat & Hnth).
  pose proof Inv as (_ & HB & _). pose proof (HB _ _ Hnth) as (He & Hr & Hdj).
  destruct (remove_first n (entries b)) as [es' |] eqn:Erf.
  - destruct (remove_first_some _ _ _ Erf) as (S1 & L1 & _ & _).
    intros H; inversion H; subst.
    eapply set_bucket_inv; eauto.
    + split; [| split]; cbn.
      * eapply slice_ok_subl; eauto.
      * assumption.
      * eapply disj_subl; [eassumption | apply subl_refl | assumption].
    + cbn. lia.
  - intros H; inversion H; subst.
    eapply set_bucket_inv; eauto.
    + split; [| split]; cbn.
      * assumption.
      * eapply slice_ok_subl; [apply remove_all_subl | assumption].
      * eapply disj_subl; [apply subl_refl | apply remove_all_subl | assumption].
    + cbn. lia.
Qed.

Lemma delete_replace_keeps t n t' : table_inv t -> delete_replace t n = Ok t' -> keeps t t'.
Proof.
  intros Inv. unfold delete_replace.
  destruct (bucket_of t n) as [[d b] | |] eqn:Eb; try discriminate.
  destruct (bucket_of_ok _ _ _ _ Eb) as (Hat & Hnth).
  pose proof Inv as (_ & HB & _). pose proof (HB _ _ Hnth) as (He & Hr & Hdj).
  set (es' := remove_all n (entries b)).
  set (rs' := delete_from_replacement (replacements b) n).
  assert (Ses : subl es' (entries b)) by apply remove_all_subl.
  assert (Srs : subl rs' (replacements b)) by apply remove_all_subl.
  assert (Hes : slice_ok (self t) d es') by (eapply slice_ok_subl; eauto).
  assert (Hrs : slice_ok (self t) d rs') by (eapply slice_ok_subl; eauto).
  assert (Hdj' : disj es' rs') by (eapply disj_subl; eauto).
  assert (Plain : forall c, c = (count t - (Z.of_nat (length (entries b)) - Z.of_nat (length es')))%Z ->
                  keeps t (set_bucket t c d (mkBucket es' rs'))).
  { intros c Hc. eapply set_bucket_inv; eauto.
    - split; [| split]; cbn; assumption.
    - cbn. lia. }
  destruct (Nat.ltb (length es') bucket_size) eqn:Elt.
  - apply Nat.ltb_lt in Elt.
    destruct (split_last rs') as [[rs'' r] |] eqn:Esl.
    + apply split_last_some in Esl.
      intros H; inversion H; subst.
      assert (Hin_r : In (nid r) (ids rs')).
      { rewrite Esl, ids_app. apply in_or_app. right. left. reflexivity. }
      assert (Srs'' : subl rs'' rs') by (rewrite Esl; apply subl_app_l).
      destruct Hrs as (Hrl & Hrn & Hrd & Hrself).
      eapply set_bucket_inv; eauto.
      * split; [| split]; cbn.
        -- unfold add_front. apply slice_ok_cons; auto.
           ++ intros Hx. apply (Hdj' _ Hx). assumption.
           ++ rewrite Esl in Hrd. apply Forall_app in Hrd. destruct Hrd as (_ & Hrd).
              inversion Hrd; subst. assumption.
           ++ intros Heq. apply Hrself. rewrite <- Heq. assumption.
        -- eapply slice_ok_subl; [eassumption | repeat split; assumption].
        -- unfold add_front. intros x [Hx | Hx] Hr'.
           ++ subst x. rewrite Esl, ids_app in Hrn. cbn in Hrn. apply nodup_snoc in Hrn.
              destruct Hrn as (_ & Hrn). auto.
           ++ apply (Hdj' x Hx). eapply subl_in; eauto.
      * cbn. unfold add_front. cbn. fold es'. lia.
    + intros H; inversion H; subst. apply Plain. reflexivity.
  - intros H; inversion H; subst. apply Plain. reflexivity.
Qed.

Lemma bump_op_keeps t n t' f : table_inv t -> bump_op t n = Ok (t', f) -> keeps t t'.
Proof.
  intros Inv. unfold bump_op.
  destruct (bucket_of t n) as [[d b] | |] eqn:Eb; try discriminate.
  destruct (bucket_of_ok _ _ _ _ Eb) as (Hat & Hnth).
  pose proof Inv as (_ & HB & _). pose proof (HB _ _ Hnth) as Hbi.
  destruct (bump (entries b) n) as [es' |] eqn:Ebump.
  - intros H; inversion H; subst.
    (* n's id is in the bucket, so it is not the local node's id *)
    assert (Hns : nid n <> nid (self t)).
    { unfold bump in Ebump. destruct (remove_first n (entries b)) as [r |] eqn:E; [| discriminate].
      destruct (remove_first_some _ _ _ E) as (_ & _ & I1 & _).
      destruct Hbi as ((_ & _ & _ & Hs) & _). intros Heq. apply Hs. rewrite <- Heq. assumption. }
    destruct (bump_bucket_inv _ _ _ _ _ Hbi Ebump Hat Hns) as (Hbi' & Hlen).
    eapply set_bucket_inv; eauto. cbn. lia.
  - intros H; inversion H; subst. apply keeps_refl; assumption.
Qed.

Lemma delrepl_op_keeps t n t' : table_inv t -> delrepl_op t n = Ok t' -> keeps t t'.
Proof.
  intros Inv. unfold delrepl_op.
  destruct (bucket_of t n) as [[d b] | |] eqn:Eb; try discriminate.
  destruct (bucket_of_ok _ _ _ _ Eb) as (Hat & Hnth).
  pose proof Inv as (_ & HB & _). pose proof (HB _ _ Hnth) as (He & Hr & Hdj).
  intros H; inversion H; subst.
  eapply set_bucket_inv; eauto.
  - split; [| split]; cbn.
    + assumption.
    + eapply slice_ok_subl; [apply remove_all_subl | assumption].
    + eapply disj_subl; [apply subl_refl | apply remove_all_subl | assumption].
  - cbn. lia.
Qed.

Lemma step_keeps t o t' r : table_inv t -> step t o = Ok (t', r) -> keeps t t'.
Proof.
  intros Inv. unfold step. destruct o as [n | ns | n | n | n | n]; cbn.
  - destruct (add_gen true t n) as [[t1 [c |]] | |] eqn:E; try discriminate;
      intros H; inversion H; subst; eapply add_keeps; eauto.
  - destruct (stuff_gen true t ns) as [t1 | |] eqn:E; try discriminate.
    intros H; inversion H; subst. eapply stuff_keeps; eauto.
  - destruct (delete t n) as [t1 | |] eqn:E; try discriminate.
    intros H; inversion H; subst. eapply delete_keeps; eauto.
  - destruct (delete_replace t n) as [t1 | |] eqn:E; try discriminate.
    intros H; inversion H; subst. eapply delete_replace_keeps; eauto.
  - destruct (bump_op t n) as [[t1 f] | |] eqn:E; try discriminate.
    intros H; inversion H; subst. eapply bump_op_keeps; eauto.
  - destruct (delrepl_op t n) as [t1 | |] eqn:E; try discriminate.
    intros H; inversion H; subst. eapply delrepl_op_keeps; eauto.
Qed.

Lemma run_keeps ops : forall t t' rs, table_inv t -> run t ops = Ok (t', rs) -> keeps t t'.
Proof.
  unfold run. induction ops as [| o ops IH]; cbn; intros t t' rs Inv.
  - intros H; inversion H; subst. apply keeps_refl; assumption.
  - destruct (step_gen true t o) as [[t1 r] | |] eqn:E1; try discriminate.
    destruct (run_gen true t1 ops) as [[t2 rs2] | |] eqn:E2; try discriminate.
    intros H; inversion H; subst.
    pose proof (step_keeps _ _ _ _ Inv E1) as K1.
    eapply keeps_trans; [exact K1 |]. eapply IH; [apply K1 | eassumption].
Qed.

(* ---------------------------------------------------------------------- *)
(* The empty table                                                          *)
(* ---------------------------------------------------------------------- *)

Lemma total_repeat_empty k : total (repeat (mkBucket [] []) k) = 0%Z.
Proof. induction k; cbn; auto. Qed.

Lemma empty_bucket_inv s i : bucket_inv s i (mkBucket [] []).
Proof.
  assert (E : slice_ok s i []).
  { unfold slice_ok. cbn. split; [unfold bucket_size; lia |].
    split; [constructor |]. split; [constructor | auto]. }
  split; [exact E |]. split; [exact E |]. intros x Hx. cbn in Hx. contradiction.
Qed.

Lemma new_table_inv s : table_inv (new_table s).
Proof.
  unfold table_inv, new_table; cbn [buckets count self]. split; [| split].
  - apply repeat_length.
  - intros i b H. apply nth_error_In in H. apply repeat_spec in H. subst b.
    apply empty_bucket_inv.
  - symmetry. apply total_repeat_empty.
Qed.

Lemma reachable_inv s ops t rs :
  run (new_table s) ops = Ok (t, rs) -> table_inv t /\ self t = s.
Proof.
  intros H. destruct (run_keeps _ _ _ _ (new_table_inv s) H) as (I & S). split; auto.
Qed.

(* The property in the words of its statement. *)
Definition c34_statement (s : node) (t : table) : Prop :=
  (forall i b, nth_error (buckets t) i = Some b ->
     length (entries b) <= 16 /\
     NoDup (map nid (entries b)) /\
     (forall n, In n (entries b) -> logdist (nsha s) (nsha n) = Ok i) /\
     ~ In (nid s) (map nid (entries b))) /\
  count t = total (buckets t).

Lemma inv_statement t : table_inv t -> c34_statement (self t) t.
Proof.
  intros (_ & HB & HC). split; [| assumption].
  intros i b Hnth. destruct (HB _ _ Hnth) as ((Hl & Hn & Hd & Hs) & _ & _).
  repeat split; auto.
  intros n Hin. rewrite Forall_forall in Hd. apply Hd. assumption.
Qed.

Lemma reachable_statement s ops t rs :
  run (new_table s) ops = Ok (t, rs) -> c34_statement s t.
Proof.
  intros H. destruct (reachable_inv _ _ _ _ H) as (I & S). subst s. apply inv_statement; assumption.
Qed.

Lemma step_statement t o t' r :
  table_inv t -> step t o = Ok (t', r) -> table_inv t' /\ self t' = self t.
Proof. apply step_keeps. Qed.

(* ---------------------------------------------------------------------- *)
(* No run-time panic on well-formed hashes                                  *)
(* ---------------------------------------------------------------------- *)

Definition isbyte (x : N) : Prop := (x < 256)%N.
Definition wf_hash (h : list N) : Prop := length h = hash_len /\ Forall isbyte h.
Definition wf_node (n : node) : Prop := wf_hash (nsha n).
Definition wf_op (o : op) : Prop :=
  match o with
  | OAdd n | ODelete n | ODeleteReplace n | OBump n | ODelRepl n => wf_node n
  | OStuff ns => Forall wf_node ns
  end.

Lemma lxor_byte x y : isbyte x -> isbyte y -> isbyte (N.lxor x y).
Proof.
  unfold isbyte. intros Hx Hy.
  destruct (N.eq_dec (N.lxor x y) 0) as [E | E]; [rewrite E; reflexivity |].
  change 256%N with (2 ^ 8)%N. apply N.log2_lt_pow2; [lia |].
  pose proof (N.log2_lxor x y) as H.
  assert (Lx : (N.log2 x < 8)%N).
  { destruct (N.eq_dec x 0) as [-> | Ex]; [reflexivity |]. apply N.log2_lt_pow2; [lia | exact Hx]. }
  assert (Ly : (N.log2 y < 8)%N).
  { destruct (N.eq_dec y 0) as [-> | Ey]; [reflexivity |]. apply N.log2_lt_pow2; [lia | exact Hy]. }
  lia.
Qed.

Lemma lz_table_length : length lz_table = 256.
Proof. reflexivity. Qed.

Lemma lz_table_le8 : Forall (fun k => k <= 8) lz_table.
Proof. unfold lz_table. repeat (constructor; [lia |]). constructor. Qed.

Lemma lz_loop_ok a : forall b, length a = length b -> Forall isbyte a -> Forall isbyte b ->
  exists r, lz_loop a b = Ok r /\ r <= 8 * length a.
Proof.
  induction a as [| x a IH]; intros [| y b] HL Fa Fb; cbn in HL; try discriminate.
  - exists 0. cbn. split; [reflexivity | lia].
  - inversion Fa; subst. inversion Fb; subst. cbn [lz_loop].
    destruct (N.eqb (N.lxor x y) 0) eqn:E.
    + destruct (IH b) as (r & Hr & Hle); auto. rewrite Hr. exists (8 + r). split; [reflexivity |].
      cbn [length]. lia.
    + assert (Hb : isbyte (N.lxor x y)) by (apply lxor_byte; assumption).
      destruct (nth_error lz_table (N.to_nat (N.lxor x y))) as [k |] eqn:En.
      * exists k. split; [reflexivity |].
        apply nth_error_In in En. pose proof lz_table_le8 as F. rewrite Forall_forall in F.
        specialize (F _ En). cbn [length]. lia.
      * apply nth_error_None in En. rewrite lz_table_length in En. unfold isbyte in Hb. lia.
Qed.

Lemma logdist_ok a b : wf_hash a -> wf_hash b -> exists d, logdist a b = Ok d /\ d < n_buckets.
Proof.
  intros (La & Fa) (Lb & Fb). unfold logdist.
  destruct (lz_loop_ok a b) as (r & Hr & Hle); auto; [congruence |].
  rewrite Hr. eexists. split; [reflexivity |]. rewrite La. unfold n_buckets, hash_len. lia.
Qed.

Lemma bucket_of_total t n : table_inv t -> wf_node (self t) -> wf_node n ->
  exists d b, bucket_of t n = Ok (d, b).
Proof.
  intros (HL & _ & _) Ws Wn. unfold bucket_of.
  destruct (logdist_ok _ _ Ws Wn) as (d & Hd & Hlt). rewrite Hd.
  destruct (nth_error (buckets t) d) as [b |] eqn:E.
  - eauto.
  - apply nth_error_None in E. lia.
Qed.

Lemma add_total t n : table_inv t -> wf_node (self t) -> wf_node n ->
  exists t' r, add t n = Ok (t', r).
Proof.
  intros Inv Ws Wn. unfold add, add_gen.
  destruct (N.eqb (nid n) (nid (self t))); [eauto |].
  destruct (bucket_of_total _ _ Inv Ws Wn) as (d & b & Hb). rewrite Hb.
  destruct (bump (entries b) n); [eauto |].
  destruct (Nat.ltb (length (entries b)) bucket_size) eqn:Elt; [eauto |].
  apply Nat.ltb_ge in Elt.
  destruct (split_last (entries b)) as [[ini l] |] eqn:Esl; [eauto |].
  apply split_last_none in Esl. rewrite Esl in Elt. cbn in Elt. unfold bucket_size in Elt. lia.
Qed.

Lemma stuff1_total t n : table_inv t -> wf_node (self t) -> wf_node n ->
  exists t', stuff1_gen true t n = Ok t'.
Proof.
  intros Inv Ws Wn. unfold stuff1_gen.
  destruct (N.eqb (nid n) (nid (self t))); [eauto |].
  destruct (bucket_of_total _ _ Inv Ws Wn) as (d & b & Hb). rewrite Hb.
  destruct (has_id n (entries b)); [eauto |].
  destruct (Nat.ltb (length (entries b)) bucket_size); eauto.
Qed.

Lemma stuff_total ns : forall t, table_inv t -> wf_node (self t) -> Forall wf_node ns ->
  exists t', stuff t ns = Ok t'.
Proof.
  unfold stuff. induction ns as [| n ns IH]; cbn; intros t Inv Ws F; [eauto |].
  inversion F; subst.
  destruct (stuff1_total _ _ Inv Ws H1) as (t1 & E1). rewrite E1.
  destruct (stuff1_keeps _ _ _ Inv E1) as (I1 & S1).
  apply IH; auto. rewrite S1. assumption.
Qed.

Lemma step_total t o : table_inv t -> wf_node (self t) -> wf_op o ->
  exists t' r, step t o = Ok (t', r).
Proof.
  intros Inv Ws Wo. unfold step. destruct o as [n | ns | n | n | n | n]; cbn in *.
  - destruct (add_total _ _ Inv Ws Wo) as (t' & [c |] & E); unfold add in E; rewrite E; eauto.
  - destruct (stuff_total _ _ Inv Ws Wo) as (t' & E); unfold stuff in E; rewrite E; eauto.
  - unfold delete. destruct (bucket_of_total _ _ Inv Ws Wo) as (d & b & Hb). rewrite Hb.
    destruct (remove_first n (entries b)); eauto.
  - unfold delete_replace. destruct (bucket_of_total _ _ Inv Ws Wo) as (d & b & Hb). rewrite Hb.
    destruct (Nat.ltb _ bucket_size); [| eauto].
    destruct (split_last _) as [[? ?] |]; eauto.
  - unfold bump_op. destruct (bucket_of_total _ _ Inv Ws Wo) as (d & b & Hb). rewrite Hb.
    destruct (bump (entries b) n); eauto.
  - unfold delrepl_op. destruct (bucket_of_total _ _ Inv Ws Wo) as (d & b & Hb). rewrite Hb. eauto.
Qed.

Lemma run_total ops : forall t, table_inv t -> wf_node (self t) -> Forall wf_op ops ->
  exists t' rs, run t ops = Ok (t', rs).
Proof.
  unfold run. induction ops as [| o ops IH]; cbn; intros t Inv Ws F; [eauto |].
  inversion F; subst.
  destruct (step_total _ _ Inv Ws H1) as (t1 & r & E1). unfold step in E1. rewrite E1.
  destruct (step_keeps _ _ _ _ Inv E1) as (I1 & S1).
  destruct (IH t1) as (t2 & rs & E2); auto; [rewrite S1; assumption |].
  rewrite E2. eauto.
Qed.

Lemma reachable_total s ops : wf_node s -> Forall wf_op ops ->
  exists t rs, run (new_table s) ops = Ok (t, rs).
Proof. intros Ws F. apply run_total; auto. apply new_table_inv. Qed.

(* ---------------------------------------------------------------------- *)
(* logdist is the bit length of the xor (lzcount is 8 - bit length)          *)
(* ---------------------------------------------------------------------- *)

Lemma lz_table_spec :
  forallb (fun v => match nth_error lz_table v with
                    | Some k => Nat.eqb k (8 - N.to_nat (N.size (N.of_nat v)))
                    | None => false end) (seq 0 256) = true.
Proof. vm_compute. reflexivity. Qed.

(* ---------------------------------------------------------------------- *)
(* The hypotheses are satisfiable by non-trivial values                     *)
(* ---------------------------------------------------------------------- *)

Definition ex_self : node := mkNode 1 (repeat 0%N 32).
Definition ex_node (k : N) : node := mkNode (100 + k) (128%N :: k :: repeat 0%N 30).

Example ex_wf_self : wf_node ex_self.
Proof. split; [reflexivity |]. cbn. repeat constructor. Qed.

Example ex_wf_node : wf_node (ex_node 7).
Proof. split; [reflexivity |]. cbn. repeat (constructor; [reflexivity |]). constructor. Qed.

(* a run that fills bucket 256, parks a node in the replacement cache, frees a
   slot, re-adds the parked node and then replaces another entry *)
Definition ex_ops : list op :=
  map (fun k => OAdd (ex_node k)) (map N.of_nat (seq 0 16)) ++
  [OAdd (ex_node 16); ODelete (ex_node 3); OAdd (ex_node 16); ODeleteReplace (ex_node 5);
   OStuff [ex_node 3; ex_node 17; ex_self]; OBump (ex_node 9); ODelRepl (ex_node 17)].

Example ex_run_ok :
  match run (new_table ex_self) ex_ops with
  | Ok (t, _) => count t = 16%Z /\
                 option_map (fun b => length (entries b)) (nth_error (buckets t) 256) = Some 16
  | _ => False
  end.
Proof. vm_compute. split; reflexivity. Qed.
