(* C34 — DHT routing table keeps its invariants.  PROPERTY THEOREMS ONLY.

   Model: C34/Model.v mirrors p2p/discover/dht/table.go (add, stuff, delete,
   deleteReplace, bucket.bump, addFront, deleteFromReplacement) and node.go
   (logdist, lzcount) with the repair of Table.add/Table.stuff in place
   ([run] = [run_gen true]).  An operation sequence is any list of
   OAdd / OStuff / ODelete / ODeleteReplace / OBump / ODelRepl over arbitrary
   nodes (id, distance hash); [run] returns [Ok] unless the Go code would panic.

   c34_statement s t  :=  every bucket i of t holds at most 16 entries, with
   pairwise distinct ids, each at log-distance i from the local node s (as
   logdist computes it), none with s's id;  and count t = number of entries. *)
From Coq Require Import List ZArith NArith.
From Verif Require Import Outcome.
From C34 Require Import Model Proofs Logdist.
Import ListNotations.

(* The property: after ANY sequence of operations (any length, any nodes, any
   interleaving) from the empty table, the statement holds. *)
Theorem c34_table_invariants_all_histories :
  forall (s : node) (ops : list op) (t : table) (rs : list obs),
    run (new_table s) ops = Ok (t, rs) ->
    (forall i b, nth_error (buckets t) i = Some b ->
       length (entries b) <= 16 /\
       NoDup (map nid (entries b)) /\
       (forall n, In n (entries b) -> logdist (nsha s) (nsha n) = Ok i) /\
       ~ In (nid s) (map nid (entries b))) /\
    count t = total (buckets t).
Proof. exact reachable_statement. Qed.
Print Assumptions c34_table_invariants_all_histories.

(* The inductive invariant behind it (it also bounds the replacement caches,
   keeps them duplicate-free and disjoint from the entries): it holds for the
   empty table and every single operation preserves it and the local node. *)
Theorem c34_inv_init : forall s, table_inv (new_table s).
Proof. exact new_table_inv. Qed.
Print Assumptions c34_inv_init.

Theorem c34_inv_step :
  forall t o t' r, table_inv t -> step t o = Ok (t', r) -> table_inv t' /\ self t' = self t.
Proof. exact step_statement. Qed.
Print Assumptions c34_inv_step.

Theorem c34_inv_reachable :
  forall s ops t rs, run (new_table s) ops = Ok (t, rs) -> table_inv t /\ self t = s.
Proof. exact reachable_inv. Qed.
Print Assumptions c34_inv_reachable.

Theorem c34_inv_implies_statement : forall t, table_inv t -> c34_statement (self t) t.
Proof. exact inv_statement. Qed.
Print Assumptions c34_inv_implies_statement.

(* No operation sequence panics (no index out of range in the bucket array, in
   lzcount or in b.entries[len-1]) when hashes are what the Go types say:
   32 bytes.  Hence the premise [run ... = Ok ...] above is always met. *)
Theorem c34_no_panic :
  forall s ops, wf_node s -> Forall wf_op ops ->
    exists t rs, run (new_table s) ops = Ok (t, rs).
Proof. exact reachable_total. Qed.
Print Assumptions c34_no_panic.

(* The bucket index computed by logdist is a valid bucket number. *)
Theorem c34_logdist_in_range :
  forall a b, wf_hash a -> wf_hash b -> exists d, logdist a b = Ok d /\ d < n_buckets.
Proof. exact logdist_ok. Qed.
Print Assumptions c34_logdist_in_range.

(* What "the bucket's distance" is: logdist (byte loop + lzcount table of
   node.go) is the bit length of the xor of the two hashes read as big-endian
   numbers - the Kademlia log-distance; [be] is the big-endian value. *)
Theorem c34_logdist_is_bit_length :
  forall a b, length a = length b -> Forall isbyte a -> Forall isbyte b ->
    logdist a b = Ok (N.to_nat (N.size (N.lxor (be a) (be b)))).
Proof. exact logdist_is_bit_length. Qed.
Print Assumptions c34_logdist_is_bit_length.
