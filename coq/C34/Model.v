(* C34 — DHT routing table (p2p/discover/dht/table.go).  EXECUTABLE MODEL ONLY.

   A node is its id (the 32-byte NodeID read as a big-endian number; only
   equality is used) and its distance hash [nsha] (the 32 bytes cached in
   Node.sha).  A table is the recorded [count], the array of buckets and the
   local node.  Every function mirrors the Go function of the same name; the
   slice idioms (append(s[:i], s[i+1:]...), copy(s[1:], s[:i]), s[:len-1])
   are written with value semantics, which is exact here because no slice
   descriptor outlives the call that shifts it.

   The flag [fixd] selects the behaviour of [add]/[stuff]:
     true  = the tree with the repair (the node is removed from the bucket's
             replacement cache when it enters the bucket's entries);
     false = the pinned tree (it is left there).
   The property theorems are about [fixd = true]; C34/History.v shows that
   the pinned behaviour violates the invariant. *)
From Coq Require Import List ZArith NArith Bool PeanoNat.
From Verif Require Import Outcome.
Import ListNotations.
Open Scope outcome_scope.

Definition res := outcome unit.

Record node := mkNode { nid : N; nsha : list N }.

Record bucket := mkBucket { entries : list node; replacements : list node }.

Record table := mkTable { count : Z; buckets : list bucket; self : node }.

(* constants of table.go *)
Definition bucket_size : nat := 16.       (* bucketSize *)
Definition hash_len : nat := 32.          (* len(common.Hash{}) *)
Definition n_buckets : nat := hash_len * 8 + 1.   (* nBuckets = hashBits + 1 *)

(* node.go: lzcount, table of leading zero counts for bytes [0..255] *)
Definition lz_table : list nat :=
  [8; 7; 6; 6; 5; 5; 5; 5;
   4; 4; 4; 4; 4; 4; 4; 4;
   3; 3; 3; 3; 3; 3; 3; 3;
   3; 3; 3; 3; 3; 3; 3; 3;
   2; 2; 2; 2; 2; 2; 2; 2;
   2; 2; 2; 2; 2; 2; 2; 2;
   2; 2; 2; 2; 2; 2; 2; 2;
   2; 2; 2; 2; 2; 2; 2; 2;
   1; 1; 1; 1; 1; 1; 1; 1;
   1; 1; 1; 1; 1; 1; 1; 1;
   1; 1; 1; 1; 1; 1; 1; 1;
   1; 1; 1; 1; 1; 1; 1; 1;
   1; 1; 1; 1; 1; 1; 1; 1;
   1; 1; 1; 1; 1; 1; 1; 1;
   1; 1; 1; 1; 1; 1; 1; 1;
   1; 1; 1; 1; 1; 1; 1; 1;
   0; 0; 0; 0; 0; 0; 0; 0;
   0; 0; 0; 0; 0; 0; 0; 0;
   0; 0; 0; 0; 0; 0; 0; 0;
   0; 0; 0; 0; 0; 0; 0; 0;
   0; 0; 0; 0; 0; 0; 0; 0;
   0; 0; 0; 0; 0; 0; 0; 0;
   0; 0; 0; 0; 0; 0; 0; 0;
   0; 0; 0; 0; 0; 0; 0; 0;
   0; 0; 0; 0; 0; 0; 0; 0;
   0; 0; 0; 0; 0; 0; 0; 0;
   0; 0; 0; 0; 0; 0; 0; 0;
   0; 0; 0; 0; 0; 0; 0; 0;
   0; 0; 0; 0; 0; 0; 0; 0;
   0; 0; 0; 0; 0; 0; 0; 0;
   0; 0; 0; 0; 0; 0; 0; 0;
   0; 0; 0; 0; 0; 0; 0; 0].

(* node.go logdist: the loop "for i := range a { x := a[i]^b[i]; if x == 0 { lz += 8 }
   else { lz += lzcount[x]; break } }".  Both arguments are [32]byte in Go; an
   index outside [b] or outside the table would be a run-time panic. *)
Fixpoint lz_loop (a b : list N) : res nat :=
  match a with
  | [] => Ok 0
  | x :: a' =>
    match b with
    | [] => Panic IndexOOR
    | y :: b' =>
      let v := N.lxor x y in
      if N.eqb v 0 then
        match lz_loop a' b' with
        | Ok r => Ok (8 + r)
        | Err e => Err e
        | Panic p => Panic p
        end
      else
        match nth_error lz_table (N.to_nat v) with
        | Some k => Ok k
        | None => Panic IndexOOR
        end
    end
  end.

Definition logdist (a b : list N) : res nat :=
  match lz_loop a b with
  | Ok lz => Ok (length a * 8 - lz)
  | Err e => Err e
  | Panic p => Panic p
  end.

(* ---- slices of nodes -------------------------------------------------- *)

Definition id_eqb (a b : node) : bool := N.eqb (nid a) (nid b).

(* remove the first element with n's id: append(s[:i], s[i+1:]...) for the
   first matching i; None if there is none *)
Fixpoint remove_first (n : node) (es : list node) : option (list node) :=
  match es with
  | [] => None
  | e :: es' =>
    if id_eqb e n then Some es'
    else match remove_first n es' with
         | Some r => Some (e :: r)
         | None => None
         end
  end.

(* remove every element with n's id (loops of deleteFromReplacement and
   deleteReplace) *)
Fixpoint remove_all (n : node) (es : list node) : list node :=
  match es with
  | [] => []
  | e :: es' => if id_eqb e n then remove_all n es' else e :: remove_all n es'
  end.

(* s[:len-1], s[len-1] *)
Fixpoint split_last (l : list node) : option (list node * node) :=
  match l with
  | [] => None
  | x :: l' =>
    match split_last l' with
    | None => Some ([], x)
    | Some (i, z) => Some (x :: i, z)
    end
  end.

Fixpoint has_id (n : node) (es : list node) : bool :=
  match es with
  | [] => false
  | e :: es' => if id_eqb e n then true else has_id n es'
  end.

(* bucket.bump: the first entry with n's id is replaced by n and moved to the front *)
Definition bump (es : list node) (n : node) : option (list node) :=
  match remove_first n es with
  | Some r => Some (n :: r)
  | None => None
  end.

(* bucket.addFront *)
Definition add_front (es : list node) (n : node) : list node := n :: es.

(* Table.deleteFromReplacement *)
Definition delete_from_replacement (rs : list node) (n : node) : list node := remove_all n rs.

(* ---- the bucket array ------------------------------------------------- *)

Fixpoint upd (l : list bucket) (i : nat) (b : bucket) : list bucket :=
  match l, i with
  | [], _ => []
  | _ :: l', O => b :: l'
  | x :: l', S i' => x :: upd l' i' b
  end.

Definition new_table (s : node) : table :=
  mkTable 0 (repeat (mkBucket [] []) n_buckets) s.

(* tab.buckets[logdist(tab.self.sha, n.sha)] *)
Definition bucket_of (t : table) (n : node) : res (nat * bucket) :=
  match logdist (nsha (self t)) (nsha n) with
  | Ok d =>
    match nth_error (buckets t) d with
    | Some b => Ok (d, b)
    | None => Panic IndexOOR
    end
  | Err e => Err e
  | Panic p => Panic p
  end.

Definition set_bucket (t : table) (c : Z) (d : nat) (b : bucket) : table :=
  mkTable c (upd (buckets t) d b) (self t).

(* ---- Table.add ---------------------------------------------------------- *)
Definition add_gen (fixd : bool) (t : table) (n : node) : res (table * option node) :=
  if N.eqb (nid n) (nid (self t)) then Ok (t, None) else
  match bucket_of t n with
  | Ok (d, b) =>
    match bump (entries b) n with
    | Some es' => Ok (set_bucket t (count t) d (mkBucket es' (replacements b)), None)
    | None =>
      if Nat.ltb (length (entries b)) bucket_size then
        let rs := if fixd then delete_from_replacement (replacements b) n else replacements b in
        Ok (set_bucket t (count t + 1) d (mkBucket (add_front (entries b) n) rs), None)
      else
        let rs := delete_from_replacement (replacements b) n ++ [n] in
        let rs' := if Nat.ltb bucket_size (length rs) then tl rs else rs in
        match split_last (entries b) with
        | Some (_, l) => Ok (set_bucket t (count t) d (mkBucket (entries b) rs'), Some l)
        | None => Panic IndexOOR
        end
    end
  | Err e => Err e
  | Panic p => Panic p
  end.

(* ---- Table.stuff -------------------------------------------------------- *)
Definition stuff1_gen (fixd : bool) (t : table) (n : node) : res table :=
  if N.eqb (nid n) (nid (self t)) then Ok t else
  match bucket_of t n with
  | Ok (d, b) =>
    if has_id n (entries b) then Ok t
    else if Nat.ltb (length (entries b)) bucket_size then
      let rs := if fixd then delete_from_replacement (replacements b) n else replacements b in
      Ok (set_bucket t (count t + 1) d (mkBucket (entries b ++ [n]) rs))
    else Ok t
  | Err e => Err e
  | Panic p => Panic p
  end.

Fixpoint stuff_gen (fixd : bool) (t : table) (ns : list node) : res table :=
  match ns with
  | [] => Ok t
  | n :: ns' =>
    match stuff1_gen fixd t n with
    | Ok t' => stuff_gen fixd t' ns'
    | Err e => Err e
    | Panic p => Panic p
    end
  end.

(* ---- Table.delete ------------------------------------------------------- *)
Definition delete (t : table) (n : node) : res table :=
  match bucket_of t n with
  | Ok (d, b) =>
    match remove_first n (entries b) with
    | Some es' => Ok (set_bucket t (count t - 1) d (mkBucket es' (replacements b)))
    | None => Ok (set_bucket t (count t) d
                    (mkBucket (entries b) (delete_from_replacement (replacements b) n)))
    end
  | Err e => Err e
  | Panic p => Panic p
  end.

(* ---- Table.deleteReplace ------------------------------------------------ *)
Definition delete_replace (t : table) (n : node) : res table :=
  match bucket_of t n with
  | Ok (d, b) =>
    let es' := remove_all n (entries b) in
    let c' := (count t - (Z.of_nat (length (entries b)) - Z.of_nat (length es')))%Z in
    let rs' := delete_from_replacement (replacements b) n in
    if Nat.ltb (length es') bucket_size then
      match split_last rs' with
      | Some (rs'', r) => Ok (set_bucket t (c' + 1) d (mkBucket (add_front es' r) rs''))
      | None => Ok (set_bucket t c' d (mkBucket es' rs'))
      end
    else Ok (set_bucket t c' d (mkBucket es' rs'))
  | Err e => Err e
  | Panic p => Panic p
  end.

(* ---- bucket.bump / deleteFromReplacement applied to n's own bucket ------ *)
Definition bump_op (t : table) (n : node) : res (table * bool) :=
  match bucket_of t n with
  | Ok (d, b) =>
    match bump (entries b) n with
    | Some es' => Ok (set_bucket t (count t) d (mkBucket es' (replacements b)), true)
    | None => Ok (t, false)
    end
  | Err e => Err e
  | Panic p => Panic p
  end.

Definition delrepl_op (t : table) (n : node) : res table :=
  match bucket_of t n with
  | Ok (d, b) =>
    Ok (set_bucket t (count t) d (mkBucket (entries b) (delete_from_replacement (replacements b) n)))
  | Err e => Err e
  | Panic p => Panic p
  end.

(* ---- operation sequences ------------------------------------------------ *)
Inductive op :=
| OAdd (n : node)
| OStuff (ns : list node)
| ODelete (n : node)
| ODeleteReplace (n : node)
| OBump (n : node)
| ODelRepl (n : node).

(* what the caller sees: add's contested node, bump's flag *)
Inductive obs := ONone | ONode (n : node) | OFlag (b : bool).

Definition step_gen (fixd : bool) (t : table) (o : op) : res (table * obs) :=
  match o with
  | OAdd n =>
    match add_gen fixd t n with
    | Ok (t', Some c) => Ok (t', ONode c)
    | Ok (t', None) => Ok (t', ONone)
    | Err e => Err e
    | Panic p => Panic p
    end
  | OStuff ns =>
    match stuff_gen fixd t ns with
    | Ok t' => Ok (t', ONone)
    | Err e => Err e
    | Panic p => Panic p
    end
  | ODelete n =>
    match delete t n with
    | Ok t' => Ok (t', ONone)
    | Err e => Err e
    | Panic p => Panic p
    end
  | ODeleteReplace n =>
    match delete_replace t n with
    | Ok t' => Ok (t', ONone)
    | Err e => Err e
    | Panic p => Panic p
    end
  | OBump n =>
    match bump_op t n with
    | Ok (t', f) => Ok (t', OFlag f)
    | Err e => Err e
    | Panic p => Panic p
    end
  | ODelRepl n =>
    match delrepl_op t n with
    | Ok t' => Ok (t', ONone)
    | Err e => Err e
    | Panic p => Panic p
    end
  end.

Fixpoint run_gen (fixd : bool) (t : table) (ops : list op) : res (table * list obs) :=
  match ops with
  | [] => Ok (t, [])
  | o :: ops' =>
    match step_gen fixd t o with
    | Ok (t', r) =>
      match run_gen fixd t' ops' with
      | Ok (t'', rs) => Ok (t'', r :: rs)
      | Err e => Err e
      | Panic p => Panic p
      end
    | Err e => Err e
    | Panic p => Panic p
    end
  end.

(* the tree as repaired *)
Definition add := add_gen true.
Definition stuff := stuff_gen true.
Definition step := step_gen true.
Definition run := run_gen true.
