(* C34 — what the bucket index means: logdist (node.go: byte loop + lzcount
   table) returns the bit length of the xor of the two hashes read as
   big-endian numbers, i.e. the Kademlia log-distance. *)
From Coq Require Import List ZArith NArith Bool PeanoNat Lia.
From Verif Require Import Outcome.
From C34 Require Import Model Proofs.
Import ListNotations.
Local Open Scope N_scope.

(* big-endian value of a byte string *)
Fixpoint be (l : list N) : N :=
  match l with
  | [] => 0
  | x :: l' => x * 2 ^ (8 * N.of_nat (length l')) + be l'
  end.

Lemma be_bound l : Forall isbyte l -> be l < 2 ^ (8 * N.of_nat (length l)).
Proof.
  induction 1 as [| x l Hx F IH]; cbn [be length]; [cbn; lia |].
  unfold isbyte in Hx.
  replace (8 * N.of_nat (S (length l))) with (8 + 8 * N.of_nat (length l)) by lia.
  rewrite N.pow_add_r. change (2 ^ 8) with 256.
  set (P := 2 ^ (8 * N.of_nat (length l))) in *. nia.
Qed.

Lemma testbit_split x r k n : r < 2 ^ k ->
  N.testbit (x * 2 ^ k + r) n = if n <? k then N.testbit r n else N.testbit x (n - k).
Proof.
  intros Hr. assert (Hp : 2 ^ k <> 0) by (apply N.pow_nonzero; lia).
  destruct (n <? k) eqn:E.
  - apply N.ltb_lt in E.
    rewrite <- (N.mod_pow2_bits_low (x * 2 ^ k + r) k n E).
    rewrite N.add_comm, N.mod_add by exact Hp. rewrite N.mod_small by exact Hr. reflexivity.
  - apply N.ltb_ge in E.
    replace n with ((n - k) + k) at 1 by lia.
    rewrite <- N.div_pow2_bits.
    rewrite N.div_add_l by exact Hp. rewrite (N.div_small r) by exact Hr.
    rewrite N.add_0_r. reflexivity.
Qed.

Lemma lxor_lt_pow2 r s k : r < 2 ^ k -> s < 2 ^ k -> N.lxor r s < 2 ^ k.
Proof.
  intros Hr Hs.
  destruct (N.eq_dec (N.lxor r s) 0) as [E | E].
  { rewrite E. apply N.neq_0_lt_0. apply N.pow_nonzero. lia. }
  apply N.log2_lt_pow2; [lia |].
  pose proof (N.log2_lxor r s) as H.
  assert (Lr : r = 0 \/ N.log2 r < k).
  { destruct (N.eq_dec r 0); [left; assumption | right; apply N.log2_lt_pow2; [lia | exact Hr]]. }
  assert (Ls : s = 0 \/ N.log2 s < k).
  { destruct (N.eq_dec s 0); [left; assumption | right; apply N.log2_lt_pow2; [lia | exact Hs]]. }
  destruct Lr as [-> | Lr]; destruct Ls as [-> | Ls].
  - rewrite N.lxor_0_l in E. contradiction.
  - rewrite N.lxor_0_l. exact Ls.
  - rewrite N.lxor_0_r. exact Lr.
  - lia.
Qed.

Lemma lxor_split x y r s k : r < 2 ^ k -> s < 2 ^ k ->
  N.lxor (x * 2 ^ k + r) (y * 2 ^ k + s) = N.lxor x y * 2 ^ k + N.lxor r s.
Proof.
  intros Hr Hs. apply N.bits_inj. intros n.
  rewrite N.lxor_spec, !testbit_split by (try assumption; apply lxor_lt_pow2; assumption).
  destruct (n <? k); rewrite N.lxor_spec; reflexivity.
Qed.

Lemma size_split v w k : v <> 0 -> w < 2 ^ k -> N.size (v * 2 ^ k + w) = N.size v + k.
Proof.
  intros Hv Hw.
  assert (Hp : 0 < 2 ^ k) by (apply N.neq_0_lt_0; apply N.pow_nonzero; lia).
  rewrite !N.size_log2 by nia.
  assert (L : N.log2 (v * 2 ^ k + w) = N.log2 v + k).
  { apply N.log2_unique; [lia |].
    destruct (N.log2_spec v) as [Lo Hi]; [lia |].
    rewrite N.pow_succ_r', !N.pow_add_r. rewrite N.pow_succ_r' in Hi.
    set (P := 2 ^ k) in *. set (Q := 2 ^ N.log2 v) in *. split; nia. }
  rewrite L. lia.
Qed.

Lemma lzcount_spec v k : v <> 0 -> isbyte v -> nth_error lz_table (N.to_nat v) = Some k ->
  (k + N.to_nat (N.size v) = 8)%nat.
Proof.
  intros Hv Hb Hk. unfold isbyte in Hb.
  pose proof lz_table_spec as F. rewrite forallb_forall in F.
  specialize (F (N.to_nat v)). rewrite Hk in F.
  assert (Hin : In (N.to_nat v) (seq 0 256)) by (apply in_seq; lia).
  specialize (F Hin). apply Nat.eqb_eq in F. rewrite N2Nat.id in F.
  assert (N.size v <= 8).
  { rewrite N.size_log2 by exact Hv.
    assert (N.log2 v < 8) by (apply N.log2_lt_pow2; [lia | exact Hb]). lia. }
  lia.
Qed.

Lemma lz_loop_spec a : forall b, length a = length b -> Forall isbyte a -> Forall isbyte b ->
  exists r, lz_loop a b = Ok r /\
    (r + N.to_nat (N.size (N.lxor (be a) (be b))) = 8 * length a)%nat.
Proof.
  induction a as [| x a IH]; intros [| y b] HL Fa Fb; cbn in HL; try discriminate.
  - exists 0%nat. split; reflexivity.
  - inversion Fa as [| ? ? Hx Fa']; subst. inversion Fb as [| ? ? Hy Fb']; subst.
    assert (HL' : length a = length b) by lia.
    cbn [lz_loop be].
    rewrite <- HL'.
    rewrite lxor_split by (try apply be_bound; try assumption; rewrite HL'; apply be_bound; assumption).
    assert (Hw : N.lxor (be a) (be b) < 2 ^ (8 * N.of_nat (length a))).
    { apply lxor_lt_pow2; [apply be_bound; assumption | rewrite HL'; apply be_bound; assumption]. }
    destruct (N.eqb (N.lxor x y) 0) eqn:E.
    + apply N.eqb_eq in E. rewrite E. rewrite N.mul_0_l, N.add_0_l.
      destruct (IH b HL' Fa' Fb') as (r & Hr & Hsum). rewrite Hr.
      exists (8 + r)%nat. split; [reflexivity |]. cbn [length]. lia.
    + apply N.eqb_neq in E.
      assert (Hb : isbyte (N.lxor x y)) by (apply lxor_byte; assumption).
      destruct (nth_error lz_table (N.to_nat (N.lxor x y))) as [k |] eqn:En.
      * exists k. split; [reflexivity |].
        rewrite size_split by assumption.
        pose proof (lzcount_spec _ _ E Hb En). cbn [length]. lia.
      * apply nth_error_None in En. rewrite lz_table_length in En. unfold isbyte in Hb. lia.
Qed.

(* logdist = bit length of (a xor b) *)
Lemma logdist_is_bit_length a b : length a = length b -> Forall isbyte a -> Forall isbyte b ->
  logdist a b = Ok (N.to_nat (N.size (N.lxor (be a) (be b)))).
Proof.
  intros HL Fa Fb. unfold logdist.
  destruct (lz_loop_spec a b HL Fa Fb) as (r & Hr & Hsum). rewrite Hr. f_equal. lia.
Qed.

Example ex_logdist : logdist [0; 1; 255] [0; 1; 254] = Ok 1%nat /\
                     logdist [128; 0] [0; 0] = Ok 16%nat /\ logdist [7] [7] = Ok 0%nat.
Proof. vm_compute. repeat split. Qed.
