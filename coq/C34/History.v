(* C34 — the behaviour of the pinned tree (before the repair in Table.add /
   Table.stuff): a node parked in a bucket's replacement cache stays there when
   it later enters the bucket's entries; the next deleteReplace promotes it a
   second time.  Not a proof obligation of the property; kept to show that the
   repair is needed and that the invariant proof does not hold vacuously. *)
From Coq Require Import List ZArith NArith Bool PeanoNat Lia.
From Verif Require Import Outcome.
From C34 Require Import Model Proofs.
Import ListNotations.

Definition witness_ops : list op :=
  map (fun k => OAdd (ex_node k)) (map N.of_nat (seq 0 16)) ++
  [OAdd (ex_node 16); ODelete (ex_node 3); OAdd (ex_node 16); ODeleteReplace (ex_node 5)].


Lemma witness_wf : Forall wf_op witness_ops.
Proof.
  unfold witness_ops. apply Forall_app. split.
  - apply Forall_map. apply Forall_map. apply Forall_forall. intros k Hk.
    split; [reflexivity |]. cbn. constructor; [reflexivity |].
    constructor.
    + unfold isbyte. apply in_seq in Hk. lia.
    + repeat (constructor; [reflexivity |]). constructor.
  - repeat (constructor; [split; [reflexivity | cbn; repeat (constructor; [reflexivity |]); constructor] |]).
    constructor.
Qed.

(* the pinned behaviour reaches a table with the same node twice in one bucket
   (and a recorded count that still equals the number of entries) *)
Theorem pinned_refuted :
  exists ops : list op, Forall wf_op ops /\
    match run_gen false (new_table ex_self) ops with
    | Ok (t, _) => ~ c34_statement ex_self t
    | _ => False
    end.
Proof.
  exists witness_ops. split; [exact witness_wf |].
  let r := eval vm_compute in (run_gen false (new_table ex_self) witness_ops) in
  replace (run_gen false (new_table ex_self) witness_ops) with r by (vm_compute; reflexivity).
  intros (HB & _).
  specialize (HB 256 _ eq_refl). destruct HB as (_ & ND & _).
  cbn in ND. inversion ND as [| ? ? Hn _]; subst. apply Hn. left. reflexivity.
Qed.

(* with the repair the same run keeps the invariant (instance of the general theorem) *)
Lemma repaired_same_run : forall t rs,
  run (new_table ex_self) witness_ops = Ok (t, rs) -> c34_statement ex_self t.
Proof. intros t rs H. eapply reachable_statement; eauto. Qed.
