(* C22 — lemmas about the association lists of C22/Model.v. *)
From Coq Require Import List NArith Bool PeanoNat Lia.
From C22 Require Import Model.
Import ListNotations.

Section MapLemmas.
  Context {V : Type}.
  Implicit Types (m : list (N * V)) (k : N) (v : V).

  Lemma lookup_remove_eq m k : lookup (remove k m) k = None.
  Proof.
    induction m as [|[k' v] m IH]; cbn; [reflexivity|].
    destruct (N.eqb_spec k' k); [exact IH|]. cbn.
    destruct (N.eqb_spec k' k); [contradiction|exact IH].
  Qed.

  Lemma lookup_remove_neq m k k' : k <> k' -> lookup (remove k m) k' = lookup m k'.
  Proof.
    intros Hn. induction m as [|[k0 v] m IH]; cbn; [reflexivity|].
    destruct (N.eqb_spec k0 k).
    - subst. destruct (N.eqb_spec k k'); [contradiction|exact IH].
    - cbn. destruct (N.eqb_spec k0 k'); [reflexivity|exact IH].
  Qed.

  Lemma lookup_insert_eq m k v : lookup (insert k v m) k = Some v.
  Proof. unfold insert; cbn. rewrite N.eqb_refl. reflexivity. Qed.

  Lemma lookup_insert_neq m k k' v : k <> k' -> lookup (insert k v m) k' = lookup m k'.
  Proof.
    intros Hn. unfold insert; cbn. destruct (N.eqb_spec k k'); [contradiction|].
    apply lookup_remove_neq; assumption.
  Qed.

  Lemma lookup_insert m k k' v :
    lookup (insert k v m) k' = if N.eqb k k' then Some v else lookup m k'.
  Proof.
    destruct (N.eqb_spec k k').
    - subst. apply lookup_insert_eq.
    - apply lookup_insert_neq; assumption.
  Qed.

  Lemma lookup_remove m k k' :
    lookup (remove k m) k' = if N.eqb k k' then None else lookup m k'.
  Proof.
    destruct (N.eqb_spec k k').
    - subst. apply lookup_remove_eq.
    - apply lookup_remove_neq; assumption.
  Qed.

  Lemma has_insert m k k' v : has (insert k v m) k' = N.eqb k k' || has m k'.
  Proof. unfold has. rewrite lookup_insert. destruct (N.eqb k k'); reflexivity. Qed.

  Lemma has_remove m k k' : has (remove k m) k' = negb (N.eqb k k') && has m k'.
  Proof. unfold has. rewrite lookup_remove. destruct (N.eqb k k'); reflexivity. Qed.

  Lemma has_true m k : has m k = true <-> exists v, lookup m k = Some v.
  Proof.
    unfold has. destruct (lookup m k); split; intros H; try eauto; try discriminate.
    destruct H as [? H]; discriminate.
  Qed.

  Lemma has_false m k : has m k = false <-> lookup m k = None.
  Proof. unfold has. destruct (lookup m k); split; intros H; try reflexivity; discriminate. Qed.

  Lemma lookup_In m k v : lookup m k = Some v -> In (k, v) m.
  Proof.
    induction m as [|[k' v'] m IH]; cbn; [discriminate|].
    destruct (N.eqb_spec k' k); intros H.
    - inversion H; subst. left; reflexivity.
    - right; auto.
  Qed.

  Lemma In_remove m k k' v : In (k', v) (remove k m) -> In (k', v) m /\ k' <> k.
  Proof.
    induction m as [|[k0 v0] m IH]; cbn; [tauto|].
    destruct (N.eqb_spec k0 k).
    - intros H. apply IH in H. tauto.
    - cbn. intros [H|H].
      + inversion H; subst. split; [left; reflexivity|assumption].
      + apply IH in H. tauto.
  Qed.

  Lemma In_remove_intro m k k' v : In (k', v) m -> k' <> k -> In (k', v) (remove k m).
  Proof.
    induction m as [|[k0 v0] m IH]; cbn; [tauto|].
    intros [H|H] Hn.
    - inversion H; subst. destruct (N.eqb_spec k' k); [contradiction|left; reflexivity].
    - destruct (N.eqb_spec k0 k); [auto|right; auto].
  Qed.

  Lemma In_insert m k v k' v' :
    In (k', v') (insert k v m) -> (k' = k /\ v' = v) \/ (In (k', v') m /\ k' <> k).
  Proof.
    unfold insert; cbn. intros [H|H].
    - inversion H; subst. left; split; reflexivity.
    - right. apply In_remove in H. exact H.
  Qed.

  Lemma length_remove m k : length (remove k m) <= length m.
  Proof.
    induction m as [|[k0 v0] m IH]; cbn; [lia|].
    destruct (N.eqb k0 k); cbn; lia.
  Qed.
End MapLemmas.

Lemma memN_In x l : memN x l = true <-> In x l.
Proof.
  induction l as [|y l IH]; cbn; [split; [discriminate|tauto]|].
  destruct (N.eqb_spec y x).
  - subst. split; auto.
  - rewrite IH. split; [auto|]. intros [H|H]; [contradiction|assumption].
Qed.
