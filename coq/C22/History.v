(* C22 — concrete histories.
   1. The unconditional statement [C22_full] (no guard on the history) is
      false on the tree as repaired: two witness classes, both replayed on the
      implementation by the harness corpus —
        withdrawn-parent : a pooled parent is removed unconfirmed while an
                           orphan counts on its output;
        shared-output-id : two transactions with the same inputs and outputs
                           (different time range) have the same output ids.
   2. The guard of the conditional theorem is satisfiable by a non-trivial
      history (Example).
   3. What the pinned tree did (model with fx = false): a multi-parent orphan
      is indexed only under its last input; an orphan re-submitted after its
      parent was confirmed is pooled and stays in orphans. *)
From Coq Require Import List NArith Bool Permutation.
From C22 Require Import Model Maps Prims Proofs Guard Run.
Import ListNotations.
Open Scope N_scope.

Lemma idP_perm : forall o (l : list (N * tx)), Permutation (idP o l) l.
Proof. intros; apply Permutation_refl. Qed.

(* the property with no restriction on the history *)
Definition C22_full : Prop :=
  forall ordP ordE, (forall o l, Permutation (ordP o l) l) ->
  forall c0 ops w, run ordP ordE (init_world c0) ops = Some w ->
    c22_statement (wchain w) (wst w).

Definition C22_full_promotion : Prop :=
  forall ordP ordE, (forall o l, Permutation (ordP o l) l) ->
  forall c0 ops now t w w' r, run ordP ordE (init_world c0) ops = Some w ->
    step ordP ordE w (OSubmit now t) = Some (w', r) -> c22_promotes w w'.

Definition world_of (x : option world) : world :=
  match x with Some w => w | None => init_world [] end.

(* ---- witness 1: withdrawn parent ------------------------------------------------- *)
Definition tP := mkTx 1 [1000] [(8, true)].
Definition tZ := mkTx 2 [1001] [(16, true)].
Definition tY := mkTx 3 [8; 16] [(24, true)].
Definition c01 : list N := [1000; 1001].

Definition wd_ops : list op := [OSubmit 10 tY; OSubmit 20 tP; ORemove 1].
Definition wd_w : world := Eval vm_compute in world_of (run idP idE (init_world c01) wd_ops).

Theorem refuted_withdrawn_parent : ~ C22_full.
Proof.
  intros H.
  assert (E : run idP idE (init_world c01) wd_ops = Some wd_w) by (vm_compute; reflexivity).
  destruct (H idP idE idP_perm _ _ _ E) as [_ [H2 _]].
  assert (L : lookup (orphans (wst wd_w)) 3 = Some (mkOrphan tY 610)) by (vm_compute; reflexivity).
  destruct (H2 3 _ 8 L) as [inner [Hi _]].
  - cbn. auto.
  - vm_compute. reflexivity.
  - vm_compute in Hi. discriminate.
Qed.

(* ... and the orphan is then never promoted although both parents arrive *)
Definition wd_ops4 : list op := [OSubmit 10 tY; OSubmit 20 tP; ORemove 1; OSubmit 40 tZ].
Definition wd_w4 : world := Eval vm_compute in world_of (run idP idE (init_world c01) wd_ops4).
Definition wd_w5 : world :=
  Eval vm_compute in
    match step idP idE wd_w4 (OSubmit 50 tP) with Some (w, _) => w | None => init_world [] end.

Theorem refuted_withdrawn_parent_promotion : ~ C22_full_promotion.
Proof.
  intros H.
  assert (E : run idP idE (init_world c01) wd_ops4 = Some wd_w4) by (vm_compute; reflexivity).
  assert (Es : step idP idE wd_w4 (OSubmit 50 tP) = Some (wd_w5, false)) by (vm_compute; reflexivity).
  pose proof (H idP idE idP_perm _ _ _ _ _ _ _ E Es) as P.
  assert (L : lookup (orphans (wst wd_w5)) 3 = Some (mkOrphan tY 610)) by (vm_compute; reflexivity).
  specialize (P 3 _ L).
  assert (C : complete (wchain wd_w5) (wst wd_w5) (otx (mkOrphan tY 610))).
  { intros o [<-|[<-|[]]]; vm_compute; reflexivity. }
  specialize (P C 8 (or_introl eq_refl)). vm_compute in P. discriminate.
Qed.

(* ---- witness 2: two transactions with the same output ids --------------------------- *)
Definition tA := mkTx 1 [1000] [(8, true); (9, true)].
Definition tA' := mkTx 2 [1000] [(8, true); (9, true)].
Definition tw_ops : list op := [OSubmit 10 tA; OSubmit 20 tA'; ORemove 2].
Definition tw_w : world := Eval vm_compute in world_of (run idP idE (init_world c01) tw_ops).

Theorem refuted_shared_output_id : ~ C22_full.
Proof.
  intros H.
  assert (E : run idP idE (init_world c01) tw_ops = Some tw_w) by (vm_compute; reflexivity).
  destruct (H idP idE idP_perm _ _ _ E) as [H1 _].
  assert (X : has (utxo (wst tw_w)) 8 = true).
  { apply H1. exists 1, tA. split; [vm_compute; reflexivity|cbn; auto]. }
  vm_compute in X. discriminate.
Qed.

(* both witnesses are outside the guard, each for its own reason *)
Example wd_outside_guard : hist_ok c01 wd_ops idP idE = false /\ wf_univ_b (ops_txs wd_ops) = true.
Proof. split; vm_compute; reflexivity. Qed.
Example tw_outside_guard : wf_univ_b (ops_txs tw_ops) = false /\ run_ok idP idE (init_world c01) tw_ops = true.
Proof. split; vm_compute; reflexivity. Qed.

(* ---- the guard is satisfiable by a non-trivial history -------------------------------- *)
(* three parents of a three-input orphan arrive one by one, a grandchild waits
   behind it, one parent is confirmed by a block, an unrelated orphan expires *)
Definition p1 := mkTx 1 [1000] [(8, true)].
Definition p2 := mkTx 2 [1001] [(16, true); (17, false)].
Definition p3 := mkTx 3 [1002] [(24, true)].
Definition y4 := mkTx 4 [16; 24; 8] [(32, true); (33, true)].
Definition g5 := mkTx 5 [33] [(40, true)].
Definition u6 := mkTx 6 [99] [(48, true)].
Definition ok_ops : list op :=
  [OSubmit 10 g5; OSubmit 20 y4; OSubmit 30 u6; OSubmit 40 p1; OSubmit 50 p2;
   OChain [1000; 1001; 24]; OSubmit 60 y4; OExpire 700; OSubmit 70 p3; ORemove 1; OReject].

Example guard_satisfiable :
  hist_ok [1000; 1001; 1002] ok_ops idP idE = true /\
  option_map (fun w => dump_state (wst w)) (run idP idE (init_world [1000; 1001; 1002]) ok_ops)
  = Some ([2; 4; 5], [16; 32; 33; 40], [3], [(1002, [3])]).
Proof. split; vm_compute; reflexivity. Qed.

(* ---- the pinned tree (fx = false) -------------------------------------------------------- *)
(* (a) a two-parent orphan is indexed under its last input only *)
Definition pin_w1 : world :=
  Eval vm_compute in world_of (run_gen idP idE false (init_world c01) [OSubmit 10 tY]).

Theorem pinned_orphan_indexed_under_last_input_only :
  run_gen idP idE false (init_world c01) [OSubmit 10 tY] = Some pin_w1 /\
  ~ c22_statement (wchain pin_w1) (wst pin_w1).
Proof.
  split; [vm_compute; reflexivity|]. intros [_ [H2 _]].
  assert (L : lookup (orphans (wst pin_w1)) 3 = Some (mkOrphan tY 610)) by (vm_compute; reflexivity).
  destruct (H2 3 _ 8 L) as [inner [Hi _]].
  - cbn. auto.
  - vm_compute. reflexivity.
  - vm_compute in Hi. discriminate.
Qed.

(* hence: parents arriving last-listed first leave it stuck with both parents pooled *)
Example pinned_orphan_stuck :
  option_map (fun w => dump_state (wst w))
    (run_gen idP idE false (init_world c01) [OSubmit 10 tY; OSubmit 20 tZ; OSubmit 30 tP])
  = Some ([1; 2], [8; 16], [3], []) /\
  option_map (fun w => dump_state (wst w))
    (run idP idE (init_world c01) [OSubmit 10 tY; OSubmit 20 tZ; OSubmit 30 tP])
  = Some ([1; 2; 3], [8; 16; 24], [], []).
Proof. split; vm_compute; reflexivity. Qed.

(* (b) an orphan re-submitted after its parent was confirmed is pooled and still orphaned *)
Definition tC := mkTx 4 [8] [(32, true)].
Definition pin_ops2 : list op := [OSubmit 10 tC; OChain [1001; 8]; OSubmit 30 tC].
Definition pin_w2 : world := Eval vm_compute in world_of (run_gen idP idE false (init_world c01) pin_ops2).

Theorem pinned_pooled_and_orphaned :
  run_gen idP idE false (init_world c01) pin_ops2 = Some pin_w2 /\
  ~ c22_statement (wchain pin_w2) (wst pin_w2).
Proof.
  split; [vm_compute; reflexivity|]. intros [_ [_ [_ H4]]].
  apply (H4 4); vm_compute; reflexivity.
Qed.

Example repaired_not_orphaned :
  option_map (fun w => dump_state (wst w)) (run idP idE (init_world c01) pin_ops2)
  = Some ([4], [32], [], []).
Proof. vm_compute. reflexivity. Qed.
