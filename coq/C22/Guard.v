(* C22 — the statement of the property, the decidable form of the guard, and
   the theorems over all histories in the form Props.v states them. *)
From Coq Require Import List NArith Bool PeanoNat Lia Permutation.
From Verif Require Import Cmp.
From C22 Require Import Model Maps Prims Proofs.
Import ListNotations.

(* ---- the statement, clause by clause ---------------------------------------- *)
Definition c22_statement (c : list N) (st : state) : Prop :=
  (* (i) the output index lists exactly the original outputs of pooled transactions *)
  (forall o, has (utxo st) o = true <->
             exists h t, lookup (pool st) h = Some t /\ In (o, true) (outs t)) /\
  (* (ii) every orphan is indexed under each output it still waits for ... *)
  (forall h e o, lookup (orphans st) h = Some e -> In o (ins (otx e)) ->
     avail c st o = false ->
     exists inner, lookup (obp st) o = Some inner /\ In (h, otx e) inner) /\
  (* ... and there are no dangling index entries *)
  (forall o inner h t, lookup (obp st) o = Some inner -> In (h, t) inner ->
     In o (ins t) /\ exists e, lookup (orphans st) h = Some e /\ otx e = t) /\
  (* (iii) no transaction is both pooled and orphaned *)
  (forall h, has (pool st) h = true -> has (orphans st) h = true -> False).

(* (iv) each orphan is promoted as soon as all its parents are available: a
   submission leaves no orphan behind whose parents became available through it *)
Definition c22_promotes (w w' : world) : Prop :=
  forall h e, lookup (orphans (wst w')) h = Some e ->
    complete (wchain w') (wst w') (otx e) -> complete (wchain w) (wst w) (otx e).

Lemma inv_statement U w : pool_inv U w -> c22_statement (wchain w) (wst w).
Proof.
  intros [B W]. split; [apply (b_utxo _ _ B)|]. split; [exact W|].
  split; [apply (b_idx _ _ B)|apply (b_disj _ _ B)].
Qed.

(* ---- decidable well-formedness of a transaction universe ---------------------- *)
Definition out_eqb : N * bool -> N * bool -> bool := pair_eqb N.eqb Bool.eqb.

Definition tx_eqb (a b : tx) : bool :=
  N.eqb (tid a) (tid b) && list_eqb N.eqb (ins a) (ins b) && list_eqb out_eqb (outs a) (outs b).

Lemma out_eqb_eq a b : out_eqb a b = true <-> a = b.
Proof.
  destruct a as [a1 a2], b as [b1 b2]. unfold out_eqb, pair_eqb; cbn.
  rewrite andb_true_iff, N.eqb_eq, Bool.eqb_true_iff. split.
  - intros [-> ->]; reflexivity.
  - intros H; inversion H; auto.
Qed.

Lemma tx_eqb_eq a b : tx_eqb a b = true <-> a = b.
Proof.
  destruct a as [i1 n1 o1], b as [i2 n2 o2]. unfold tx_eqb; cbn.
  rewrite !andb_true_iff, N.eqb_eq.
  rewrite (list_eqb_eq N.eqb N.eqb_eq), (list_eqb_eq out_eqb out_eqb_eq). split.
  - intros [[-> ->] ->]; reflexivity.
  - intros H; inversion H; auto.
Qed.

Definition pair_ok (t1 t2 : tx) : bool :=
  (negb (N.eqb (tid t1) (tid t2)) || tx_eqb t1 t2) &&
  (negb (existsb (fun o => memN o (map fst (outs t2))) (map fst (outs t1))) || tx_eqb t1 t2) &&
  forallb (fun ob : N * bool => snd ob || negb (memN (fst ob) (ins t2))) (outs t1).

Definition wf_univ_b (U : list tx) : bool := forallb (fun t1 => forallb (pair_ok t1) U) U.

Lemma wf_univ_b_sound U : wf_univ_b U = true -> wf_univ U.
Proof.
  unfold wf_univ_b. rewrite forallb_forall. intros H.
  assert (P : forall t1 t2, In t1 U -> In t2 U -> pair_ok t1 t2 = true).
  { intros t1 t2 H1 H2. specialize (H t1 H1). rewrite forallb_forall in H. auto. }
  clear H. split; [|split].
  - intros t1 t2 H1 H2 E. specialize (P t1 t2 H1 H2). unfold pair_ok in P.
    rewrite !andb_true_iff in P. destruct P as [[P _] _].
    apply orb_true_iff in P. destruct P as [P|P].
    + apply negb_true_iff, N.eqb_neq in P. contradiction.
    + apply tx_eqb_eq; exact P.
  - intros t1 t2 o H1 H2 I1 I2. specialize (P t1 t2 H1 H2). unfold pair_ok in P.
    rewrite !andb_true_iff in P. destruct P as [[_ P] _].
    apply orb_true_iff in P. destruct P as [P|P].
    + apply negb_true_iff in P. exfalso.
      assert (X : existsb (fun o => memN o (map fst (outs t2))) (map fst (outs t1)) = true).
      { apply existsb_exists. exists o. split; [exact I1|]. apply memN_In; exact I2. }
      congruence.
    + apply tx_eqb_eq; exact P.
  - intros t1 t2 o H1 H2 I1 I2. specialize (P t1 t2 H1 H2). unfold pair_ok in P.
    rewrite !andb_true_iff in P. destruct P as [_ P]. rewrite forallb_forall in P.
    specialize (P (o, false) I1). cbn in P. apply negb_true_iff in P.
    apply memN_In in I2. congruence.
Qed.

(* the complete decidable guard of a history: its transactions form a DAG
   universe and no environment step withdraws an output from under an orphan *)
Definition hist_ok (c0 : list N) (ops : list op)
           (ordP : N -> amap tx -> amap tx) (ordE : amap orphan -> amap orphan) : bool :=
  wf_univ_b (ops_txs ops) && run_ok ordP ordE (init_world c0) ops.

(* ---- the theorems over all histories -------------------------------------------- *)
Section All.
  Variable ordP : N -> amap tx -> amap tx.
  Variable ordE : amap orphan -> amap orphan.
  Hypothesis ordP_perm : forall o l, Permutation (ordP o l) l.

  Theorem reachable_inv c0 ops w :
    wf_univ (ops_txs ops) -> run_ok ordP ordE (init_world c0) ops = true ->
    run ordP ordE (init_world c0) ops = Some w -> pool_inv (ops_txs ops) w.
  Proof.
    intros WF G E. eapply (run_inv ordP ordE ordP_perm (ops_txs ops) WF ops); eauto.
    apply empty_inv.
  Qed.

  Theorem reachable_statement c0 ops w :
    hist_ok c0 ops ordP ordE = true ->
    run ordP ordE (init_world c0) ops = Some w -> c22_statement (wchain w) (wst w).
  Proof.
    unfold hist_ok. rewrite andb_true_iff. intros [WF G] E.
    eapply inv_statement. eapply reachable_inv; eauto. apply wf_univ_b_sound; exact WF.
  Qed.

  Theorem step_statement U w o w' r :
    wf_univ U -> pool_inv U w -> step_ok w o = true -> (forall t, In t (op_txs o) -> In t U) ->
    step ordP ordE w o = Some (w', r) -> pool_inv U w'.
  Proof. intros WF. apply (step_inv ordP ordE ordP_perm U WF). Qed.

  Theorem promotion_step U w now t w' r :
    wf_univ U -> pool_inv U w -> In t U ->
    step ordP ordE w (OSubmit now t) = Some (w', r) -> c22_promotes w w'.
  Proof. intros WF I HU E. exact (submit_promotes ordP ordE ordP_perm U WF w now t w' r I HU E). Qed.

  Theorem promotion_reachable c0 ops now t w w' r :
    hist_ok c0 (ops ++ [OSubmit now t]) ordP ordE = true ->
    run ordP ordE (init_world c0) ops = Some w ->
    step ordP ordE w (OSubmit now t) = Some (w', r) -> c22_promotes w w'.
  Proof.
    unfold hist_ok. rewrite andb_true_iff. intros [WF G] E Es.
    apply wf_univ_b_sound in WF.
    assert (Hsub : forall x, In x (ops_txs ops) -> In x (ops_txs (ops ++ [OSubmit now t]))).
    { intros x Hx. unfold ops_txs. rewrite flat_map_app. apply in_or_app; auto. }
    assert (G' : run_ok ordP ordE (init_world c0) ops = true).
    { clear - G. revert G. generalize (init_world c0). induction ops as [|o ops IH]; intros w0; cbn; [auto|].
      rewrite !andb_true_iff. intros [G1 G2]. split; [exact G1|].
      destruct (step ordP ordE w0 o) as [[w1 r1]|]; [auto|discriminate]. }
    assert (I : pool_inv (ops_txs (ops ++ [OSubmit now t])) w).
    { eapply (run_inv ordP ordE ordP_perm _ WF ops); eauto. apply empty_inv. }
    eapply promotion_step; eauto.
    unfold ops_txs. rewrite flat_map_app. apply in_or_app. right. cbn. auto.
  Qed.

  (* no orphan with all parents available is created by a submission *)
  Theorem no_complete_orphan_preserved U w now t w' r :
    wf_univ U -> pool_inv U w -> In t U ->
    (forall h e, lookup (orphans (wst w)) h = Some e -> ~ complete (wchain w) (wst w) (otx e)) ->
    step ordP ordE w (OSubmit now t) = Some (w', r) ->
    forall h e, lookup (orphans (wst w')) h = Some e -> ~ complete (wchain w') (wst w') (otx e).
  Proof.
    intros WF I HU Hn E h e He Hc.
    pose proof (promotion_step U w now t w' r WF I HU E h e He Hc) as Hc0.
    (* the orphan is new or old; in both cases it has a missing parent in w *)
    destruct I as [B W]. cbn in E.
    destruct (validate_tx_gen ordP true (wchain w) (wst w) now t) as [[st' r']|] eqn:Ev; [|discriminate].
    inversion E; subst. cbn [wst wchain] in *.
    unfold validate_tx_gen in Ev. destruct (has (pool (wst w)) (tid t)) eqn:Hp.
    { inversion Ev; subst. exact (Hn h e He Hc0). }
    unfold process_transaction_gen in Ev.
    change (check_orphan_utxos_gen true (wchain w) (wst w) t) with (missing (wchain w) (wst w) t) in Ev.
    destruct (missing (wchain w) (wst w) t) as [|o req] eqn:Em.
    - (* promotions only remove orphans *)
      assert (Hsub : exists e0, lookup (orphans (wst w)) h = Some e0 /\ otx e0 = otx e).
      { pose proof (validate_tx_inv ordP ordP_perm U WF (wchain w) (wst w) now t st' false HU B W) as V.
        unfold validate_tx, validate_tx_gen in V. rewrite Hp in V.
        unfold process_transaction_gen in V.
        change (check_orphan_utxos_gen true (wchain w) (wst w) t) with (missing (wchain w) (wst w) t) in V.
        rewrite Em in V.
        destruct (process_orphans_gen ordP true (wchain w) (add_transaction_gen true (wst w) t) t) as [st2|] eqn:Ep; [|discriminate].
        inversion Ev; subst st2.
        (* orphans only shrink along processOrphans: shown through the loop invariant below *)
        exists e. split; [|reflexivity]. exact (orphans_shrink_po ordP (wchain w) (wst w) t st' Ep h e He). }
      destruct Hsub as [e0 [He0 Eo]]. apply (Hn h e0 He0). rewrite Eo. exact Hc0.
    - inversion Ev; subst st' r. clear Ev. unfold add_orphan in He; cbn [orphans] in He.
      rewrite lookup_insert in He. destruct (N.eqb_spec (tid t) h).
      + inversion He; subst e. cbn [otx] in *. apply missing_nil in Hc0. congruence.
      + exact (Hn h e He Hc0).
  Qed.

  Theorem submitted_not_complete_orphan U w now t w' r :
    wf_univ U -> pool_inv U w -> In t U ->
    step ordP ordE w (OSubmit now t) = Some (w', r) ->
    forall e, lookup (orphans (wst w')) (tid t) = Some e ->
      ~ complete (wchain w') (wst w') (otx e).
  Proof. intros WF. exact (submit_self_not_complete_orphan ordP ordE ordP_perm U WF w now t w' r). Qed.

  Theorem run_never_stuck ops w : exists w', run ordP ordE w ops = Some w'.
  Proof. apply (run_total ordP ordE ordP_perm). Qed.
End All.
