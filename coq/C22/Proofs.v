(* C22 — processOrphans, the operations of the history alphabet, and the
   invariant over all histories. *)
From Coq Require Import List NArith Bool PeanoNat Lia Permutation.
From C22 Require Import Model Maps Prims.
Import ListNotations.

Lemma missing_nil c st t : missing c st t = [] <-> complete c st t.
Proof.
  unfold missing, complete. induction (ins t) as [|o os IH]; cbn.
  - split; [intros _ o []|reflexivity].
  - destruct (avail c st o) eqn:E; cbn.
    + rewrite IH. split.
      * intros H o' [<-|Hin]; auto.
      * intros H o' Hin. apply H; auto.
    + split; [discriminate|]. intros H. specialize (H o (or_introl eq_refl)). congruence.
Qed.

Lemma missing_In c st t o : In o (missing c st t) <-> In o (ins t) /\ avail c st o = false.
Proof.
  unfold missing. rewrite filter_In. rewrite negb_true_iff. tauto.
Qed.

Lemma complete_dec c st t : complete c st t \/ exists o, In o (ins t) /\ avail c st o = false.
Proof.
  destruct (missing c st t) as [|o l] eqn:E.
  - left. apply missing_nil. exact E.
  - right. exists o. apply missing_In. rewrite E. left; reflexivity.
Qed.

Lemma is_nil_true {A} (l : list A) : is_nil l = true <-> l = [].
Proof. destruct l; cbn; split; intros; try reflexivity; discriminate. Qed.

(* ---- what one promotion does, independently of the order of its parts ---- *)
Record promoted (st : state) (wl : list tx) (x : tx) (st' : state) (wl' : list tx) : Prop := {
  pr_utxo : forall o, has (utxo st') o = true <-> has (utxo st) o = true \/ In (o, true) (outs x);
  pr_orph : forall h, lookup (orphans st') h =
                      if N.eqb (tid x) h then None else lookup (orphans st) h;
  pr_keep : forall o i h t, lookup (obp st) o = Some i -> ~ In o (map fst (outs x)) ->
              In (h, t) i -> h <> tid x ->
              exists i', lookup (obp st') o = Some i' /\ In (h, t) i';
  pr_moved : forall o i h t, lookup (obp st) o = Some i -> In o (map fst (outs x)) ->
              In (h, t) i -> h <> tid x -> In t wl';
  pr_mono : forall t, In t wl -> In t wl';
  pr_src : forall t, In t wl' -> In t wl \/ exists o i h, lookup (obp st) o = Some i /\ In (h, t) i
}.

Definition J (c : list N) (st0 st : state) (wl : list tx) : Prop :=
  forall h e, lookup (orphans st) h = Some e -> complete c st (otx e) ->
    complete c st0 (otx e) \/ In (otx e) wl.

Section Main.
  Variable ordP : N -> amap tx -> amap tx.
  Variable ordE : amap orphan -> amap orphan.
  Hypothesis ordP_perm : forall o l, Permutation (ordP o l) l.
  Variable U : list tx.
  Hypothesis WF : wf_univ U.

  Lemma avail_false c st o : avail c st o = false <-> memN o c = false /\ has (utxo st) o = false.
  Proof. unfold avail. apply orb_false_iff. Qed.

  Lemma promoted_avail_mono c st wl x st' wl' o :
    promoted st wl x st' wl' -> avail c st o = true -> avail c st' o = true.
  Proof.
    intros P. unfold avail. rewrite !orb_true_iff. intros [H|H]; [left; exact H|right].
    apply (pr_utxo _ _ _ _ _ P). left; exact H.
  Qed.

  Lemma promoted_winv c st wl x st' wl' :
    In x U -> binv U st -> winv c st -> promoted st wl x st' wl' -> winv c st'.
  Proof.
    destruct WF as [C1 [C2 C3]].
    intros HU B W P h e o He Ho Ha. rewrite (pr_orph _ _ _ _ _ P) in He.
    destruct (N.eqb_spec (tid x) h) as [|Hne]; [discriminate|].
    assert (Ha0 : avail c st o = false).
    { destruct (avail c st o) eqn:E; [|reflexivity].
      rewrite (promoted_avail_mono _ _ _ _ _ _ _ P E) in Ha. discriminate. }
    destruct (W h e o He Ho Ha0) as [i [Hi Hin]].
    destruct (b_orph _ _ B _ _ He) as [Hid HUe].
    apply (pr_keep _ _ _ _ _ P o i h (otx e) Hi); auto.
    intros Hm. apply in_map_iff in Hm. destruct Hm as [[o' b] [Eo Hm]]. cbn in Eo. subst o'.
    destruct b.
    - apply avail_false in Ha. destruct Ha as [_ Ha].
      assert (has (utxo st') o = true) by (apply (pr_utxo _ _ _ _ _ P); right; exact Hm).
      congruence.
    - exact (C3 x (otx e) o HU HUe Hm Ho).
  Qed.

  Lemma promoted_J c st0 st wl x st' wl' :
    binv U st -> winv c st -> promoted st wl x st' wl' ->
    (forall h e, lookup (orphans st) h = Some e -> complete c st (otx e) ->
       complete c st0 (otx e) \/ In (otx e) wl \/ tid (otx e) = tid x) ->
    J c st0 st' wl'.
  Proof.
    intros B W P H h e He Hc. rewrite (pr_orph _ _ _ _ _ P) in He.
    destruct (N.eqb_spec (tid x) h) as [|Hne]; [discriminate|].
    destruct (b_orph _ _ B _ _ He) as [Hid HUe].
    destruct (complete_dec c st (otx e)) as [Hc0|[o [Ho Ha]]].
    - destruct (H h e He Hc0) as [Hl|[Hl|Hl]]; [left; exact Hl| |congruence].
      right. apply (pr_mono _ _ _ _ _ P). exact Hl.
    - right. destruct (W h e o He Ho Ha) as [i [Hi Hin]].
      assert (Ha' : avail c st' o = true) by (apply Hc; exact Ho).
      apply avail_false in Ha. destruct Ha as [Hm Hu].
      unfold avail in Ha'. rewrite Hm in Ha'. cbn in Ha'.
      apply (pr_utxo _ _ _ _ _ P) in Ha'. destruct Ha' as [Ha'|Ha']; [congruence|].
      apply (pr_moved _ _ _ _ _ P o i h (otx e) Hi); auto.
      apply in_map_iff. exists (o, true). auto.
  Qed.

  Lemma promoted_univ st wl x st' wl' :
    binv U st -> promoted st wl x st' wl' ->
    (forall t, In t wl -> In t U) -> forall t, In t wl' -> In t U.
  Proof.
    intros B P Hw t Hin. apply (pr_src _ _ _ _ _ P) in Hin.
    destruct Hin as [Hin|[o [i [h [Hi Hin]]]]]; [auto|].
    destruct (b_idx _ _ B _ _ _ _ Hi Hin) as [_ [e [He Ht]]].
    destruct (b_orph _ _ B _ _ He) as [_ HU]. subst t. exact HU.
  Qed.

  Lemma with_obp_binv st m' :
    binv U st -> (forall o i, lookup m' o = Some i -> lookup (obp st) o = Some i) ->
    binv U (with_obp st m').
  Proof.
    intros B H. constructor; unfold with_obp; cbn [pool utxo orphans obp].
    - apply (b_pool _ _ B).
    - apply (b_orph _ _ B).
    - apply (b_utxo _ _ B).
    - intros o i h t Hl. apply H in Hl. apply (b_idx _ _ B _ _ _ _ Hl).
    - apply (b_disj _ _ B).
  Qed.

  (* the body of the loop: addRely; removeOrphan; addTransaction *)
  Lemma loop_promoted st wl x m1 wl1 :
    add_rely ordP (obp st) wl x = (m1, wl1) ->
    promoted st wl x
      (add_transaction (remove_orphan (with_obp st m1) (tid x)) x) wl1.
  Proof.
    intros E. destruct (add_rely_spec ordP ordP_perm _ _ _ _ _ E) as [Q1 [Q2 [Q3 [Q4 [Q5 _]]]]].
    rewrite add_transaction_eq. constructor; unfold plain_add; cbn [pool utxo orphans obp].
    - intros o. rewrite !remove_orphan_utxo. unfold with_obp; cbn [utxo]. apply add_utxo_has.
    - intros h. rewrite !remove_orphan_orphans. unfold with_obp; cbn [orphans].
      destruct (N.eqb (tid x) h); reflexivity.
    - intros o i h t Hi Hn Hin Hne.
      assert (Hm : lookup (obp (with_obp st m1)) o = Some i) by (apply Q2; assumption).
      destruct (remove_orphan_keep _ (tid x) _ _ _ _ Hm Hin Hne) as [i2 [Hi2 Hin2]].
      exact (remove_orphan_keep _ (tid x) _ _ _ _ Hi2 Hin2 Hne).
    - intros o i h t Hi Hm Hin _. exact (Q3 o i h t Hi Hm Hin).
    - exact Q4.
    - exact Q5.
  Qed.

  Lemma loop_binv st wl x m1 wl1 :
    In x U -> binv U st -> add_rely ordP (obp st) wl x = (m1, wl1) ->
    binv U (add_transaction (remove_orphan (with_obp st m1) (tid x)) x).
  Proof.
    intros HU B E. destruct (add_rely_spec ordP ordP_perm _ _ _ _ _ E) as [Q1 _].
    apply add_transaction_binv; auto. apply remove_orphan_binv. apply with_obp_binv; auto.
    intros o i H. apply Q1 in H. tauto.
  Qed.

  (* processTransaction's order: addTransaction; addRely *)
  Lemma init_promoted st x m1 wl1 :
    add_rely ordP (obp (add_transaction st x)) [] x = (m1, wl1) ->
    promoted st [] x (with_obp (add_transaction st x) m1) wl1.
  Proof.
    intros E. destruct (add_rely_spec ordP ordP_perm _ _ _ _ _ E) as [Q1 [Q2 [Q3 [Q4 [Q5 _]]]]].
    rewrite add_transaction_eq in *. unfold plain_add in *. cbn [pool utxo orphans obp] in *.
    constructor; unfold with_obp; cbn [pool utxo orphans obp].
    - intros o. rewrite remove_orphan_utxo. apply add_utxo_has.
    - intros h. rewrite remove_orphan_orphans. reflexivity.
    - intros o i h t Hi Hn Hin Hne.
      destruct (remove_orphan_keep _ (tid x) _ _ _ _ Hi Hin Hne) as [i2 [Hi2 Hin2]].
      exists i2. split; [|exact Hin2]. apply Q2; assumption.
    - intros o i h t Hi Hm Hin Hne.
      destruct (remove_orphan_keep _ (tid x) _ _ _ _ Hi Hin Hne) as [i2 [Hi2 Hin2]].
      exact (Q3 o i2 h t Hi2 Hm Hin2).
    - intros t [].
    - intros t Hin. apply Q5 in Hin. destruct Hin as [[]|[o [i [h [Hi Hin]]]]].
      right. apply remove_orphan_sub in Hi. destruct Hi as [i0 [Hi0 Hs]].
      exists o, i0, h. auto.
  Qed.

  Lemma init_binv st x m1 wl1 :
    In x U -> binv U st -> add_rely ordP (obp (add_transaction st x)) [] x = (m1, wl1) ->
    binv U (with_obp (add_transaction st x) m1).
  Proof.
    intros HU B E. destruct (add_rely_spec ordP ordP_perm _ _ _ _ _ E) as [Q1 _].
    apply with_obp_binv; [apply add_transaction_binv; auto|].
    intros o i H. apply Q1 in H. tauto.
  Qed.

  (* ---- the loop ----------------------------------------------------------- *)
  Lemma po_loop_inv c st0 : forall fuel st wl st',
    binv U st -> winv c st -> (forall t, In t wl -> In t U) -> J c st0 st wl ->
    po_loop ordP true c fuel st wl = Some st' ->
    binv U st' /\ winv c st' /\ J c st0 st' [].
  Proof.
    induction fuel as [|f IH]; intros st wl st' B W HU HJ E; destruct wl as [|x wl']; cbn in E.
    - inversion E; subst. auto.
    - discriminate.
    - inversion E; subst. auto.
    - change (check_orphan_utxos_gen true c st x) with (missing c st x) in E.
      destruct (is_nil (missing c st x)) eqn:En.
      + apply is_nil_true in En.
        destruct (add_rely ordP (obp st) wl' x) as [m1 wl1] eqn:Er. cbn [fst snd] in E.
        assert (HUx : In x U) by (apply HU; left; reflexivity).
        pose proof (loop_promoted st wl' x m1 wl1 Er) as P.
        pose proof (loop_binv st wl' x m1 wl1 HUx B Er) as B'.
        assert (W' : winv c (add_transaction (remove_orphan (with_obp st m1) (tid x)) x))
          by (exact (promoted_winv c st wl' x _ wl1 HUx B W P)).
        assert (HU' : forall t, In t wl1 -> In t U).
        { apply (promoted_univ st wl' x _ wl1 B P). intros t Ht. apply HU. right; exact Ht. }
        assert (J' : J c st0 (add_transaction (remove_orphan (with_obp st m1) (tid x)) x) wl1).
        { apply (promoted_J c st0 st wl' x _ wl1 B W P). intros h e He Hc.
          destruct (HJ h e He Hc) as [Hl|[Hl|Hl]]; auto. right; right. congruence. }
        exact (IH _ _ _ B' W' HU' J' E).
      + assert (HU' : forall t, In t wl' -> In t U) by (intros t Ht; apply HU; right; exact Ht).
        assert (J' : J c st0 st wl').
        { intros h e He Hc. destruct (HJ h e He Hc) as [Hl|[Hl|Hl]]; auto.
          exfalso. subst x. apply missing_nil in Hc. rewrite Hc in En. discriminate. }
        exact (IH _ _ _ B W HU' J' E).
  Qed.

  Lemma po_loop_total c : forall fuel st wl,
    obp_size (obp st) + length wl <= fuel ->
    exists st', po_loop ordP true c fuel st wl = Some st'.
  Proof.
    induction fuel as [|f IH]; intros st wl Hm; destruct wl as [|x wl']; cbn [po_loop].
    - eauto.
    - cbn in Hm. lia.
    - eauto.
    - destruct (is_nil (check_orphan_utxos_gen true c st x)).
      + destruct (add_rely ordP (obp st) wl' x) as [m1 wl1] eqn:Er. cbn [fst snd].
        destruct (add_rely_spec ordP ordP_perm _ _ _ _ _ Er) as [_ [_ [_ [_ [_ Q6]]]]].
        apply IH. change (add_transaction_gen true) with add_transaction.
        rewrite add_transaction_eq. unfold plain_add; cbn [obp].
        pose proof (remove_orphan_size (remove_orphan (with_obp st m1) (tid x)) (tid x)).
        pose proof (remove_orphan_size (with_obp st m1) (tid x)).
        unfold with_obp in *; cbn [obp] in *. cbn [length] in Hm. lia.
      + apply IH. cbn [length] in Hm. lia.
  Qed.

  (* processOrphans only removes orphans *)
  Lemma add_transaction_orphans_sub st t h e :
    lookup (orphans (add_transaction st t)) h = Some e -> lookup (orphans st) h = Some e.
  Proof.
    rewrite add_transaction_eq. unfold plain_add; cbn [orphans].
    rewrite remove_orphan_orphans. destruct (N.eqb (tid t) h); [discriminate|auto].
  Qed.

  Lemma po_loop_orphans_sub c : forall fuel st wl st',
    po_loop ordP true c fuel st wl = Some st' ->
    forall h e, lookup (orphans st') h = Some e -> lookup (orphans st) h = Some e.
  Proof.
    induction fuel as [|f IH]; intros st wl st' E h e He; destruct wl as [|x wl']; cbn in E.
    - inversion E; subst; exact He.
    - discriminate.
    - inversion E; subst; exact He.
    - match type of E with context [if ?b then _ else _] => destruct b end.
      + apply (IH _ _ _ E) in He. change (add_transaction_gen true) with add_transaction in He.
        apply add_transaction_orphans_sub in He. rewrite remove_orphan_orphans in He.
        destruct (N.eqb (tid x) h); [discriminate|]. exact He.
      + exact (IH _ _ _ E h e He).
  Qed.

  Lemma orphans_shrink_po c st t st' :
    process_orphans_gen ordP true c (add_transaction_gen true st t) t = Some st' ->
    forall h e, lookup (orphans st') h = Some e -> lookup (orphans st) h = Some e.
  Proof.
    unfold process_orphans_gen. intros E h e He.
    apply (po_loop_orphans_sub _ _ _ _ _ E) in He. unfold with_obp in He; cbn [orphans] in He.
    change (add_transaction_gen true) with add_transaction in He.
    apply add_transaction_orphans_sub in He. exact He.
  Qed.

  (* processOrphans only adds to the pool *)
  Lemma add_transaction_pool_mono st t h :
    has (pool st) h = true -> has (pool (add_transaction st t)) h = true.
  Proof.
    rewrite add_transaction_eq. unfold plain_add; cbn [pool]. rewrite has_insert, remove_orphan_pool.
    intros ->. apply orb_true_r.
  Qed.

  Lemma po_loop_pool_mono c : forall fuel st wl st',
    po_loop ordP true c fuel st wl = Some st' ->
    forall h, has (pool st) h = true -> has (pool st') h = true.
  Proof.
    induction fuel as [|f IH]; intros st wl st' E h Hh; destruct wl as [|x wl']; cbn in E.
    - inversion E; subst; exact Hh.
    - discriminate.
    - inversion E; subst; exact Hh.
    - match type of E with context [if ?b then _ else _] => destruct b end.
      + apply (IH _ _ _ E). change (add_transaction_gen true) with add_transaction.
        apply add_transaction_pool_mono. rewrite remove_orphan_pool. exact Hh.
      + exact (IH _ _ _ E h Hh).
  Qed.

  (* ---- ValidateTx / processTransaction -------------------------------------- *)
  Lemma add_orphan_avail c st now t req o : avail c (add_orphan st now t req) o = avail c st o.
  Proof. reflexivity. Qed.

  Lemma validate_tx_inv c st now t st' r :
    In t U -> binv U st -> winv c st ->
    validate_tx ordP c st now t = Some (st', r) ->
    binv U st' /\ winv c st' /\
    (forall h e, lookup (orphans st') h = Some e -> complete c st' (otx e) ->
                 complete c st (otx e)).
  Proof.
    intros HU B W E. unfold validate_tx, validate_tx_gen in E.
    destruct (has (pool st) (tid t)) eqn:Hp.
    { inversion E; subst. auto. }
    unfold process_transaction_gen in E.
    change (check_orphan_utxos_gen true c st t) with (missing c st t) in E.
    destruct (missing c st t) as [|o req] eqn:Em.
    - unfold process_orphans_gen in E.
      change (add_transaction_gen true) with add_transaction in E.
      destruct (add_rely ordP (obp (add_transaction st t)) [] t) as [m1 wl1] eqn:Er.
      cbn [fst snd] in E.
      destruct (po_loop ordP true c _ _ wl1) as [st2|] eqn:El; [|discriminate].
      inversion E; subst st2 r. clear E.
      pose proof (init_promoted st t m1 wl1 Er) as P.
      pose proof (init_binv st t m1 wl1 HU B Er) as B'.
      assert (W' : winv c (with_obp (add_transaction st t) m1))
        by (exact (promoted_winv c st [] t _ wl1 HU B W P)).
      assert (HU' : forall t', In t' wl1 -> In t' U).
      { apply (promoted_univ st [] t _ wl1 B P). intros t' []. }
      assert (J' : J c st (with_obp (add_transaction st t) m1) wl1).
      { apply (promoted_J c st st [] t _ wl1 B W P). intros h e He Hc. left; exact Hc. }
      destruct (po_loop_inv c st _ _ _ _ B' W' HU' J' El) as [B2 [W2 J2]].
      split; [exact B2|]. split; [exact W2|].
      intros h e He Hc. destruct (J2 h e He Hc) as [Hl|[]]. exact Hl.
    - inversion E; subst st' r. clear E. rewrite <- Em.
      split; [|split].
      + apply add_orphan_binv; auto. intros o' Ho'. apply missing_In in Ho'. tauto.
      + eapply add_orphan_winv; eauto.
      + intros h e He Hc o' Ho'. rewrite <- (add_orphan_avail c st now t (missing c st t) o').
        apply Hc. exact Ho'.
  Qed.

  Lemma validate_tx_total c st now t :
    exists st' r, validate_tx ordP c st now t = Some (st', r).
  Proof.
    unfold validate_tx, validate_tx_gen. destruct (has (pool st) (tid t)); [eauto|].
    unfold process_transaction_gen. destruct (check_orphan_utxos_gen true c st t); [|eauto].
    unfold process_orphans_gen.
    destruct (add_rely ordP (obp (add_transaction_gen true st t)) [] t) as [m1 wl1] eqn:Er.
    cbn [fst snd].
    destruct (add_rely_spec ordP ordP_perm _ _ _ _ _ Er) as [_ [_ [_ [_ [_ Q6]]]]].
    destruct (po_loop_total c (S (obp_size (obp (add_transaction_gen true st t))))
                (with_obp (add_transaction_gen true st t) m1) wl1) as [st' Hs].
    - unfold with_obp; cbn [obp]. cbn [length] in Q6. lia.
    - rewrite Hs. eauto.
  Qed.

  (* ---- ExpireOrphan ------------------------------------------------------------ *)
  Lemma expire_fold_inv c now : forall (l : amap orphan) st,
    binv U st -> winv c st ->
    binv U (fold_left (expire_step now) l st) /\ winv c (fold_left (expire_step now) l st).
  Proof.
    induction l as [|[h e] l IH]; cbn [fold_left]; intros st B W; [auto|].
    apply IH; unfold expire_step; cbn [fst snd]; destruct (N.ltb (oexp e) now); auto.
    - apply remove_orphan_binv; exact B.
    - eapply remove_orphan_winv; eauto.
  Qed.

  Lemma expire_inv c st now :
    binv U st -> winv c st -> binv U (expire ordE st now) /\ winv c (expire ordE st now).
  Proof. intros B W. unfold expire. apply expire_fold_inv; assumption. Qed.

  (* ---- environment steps under the guard --------------------------------------- *)
  Lemma no_withdraw_winv c st c' st' :
    no_withdraw c st c' st' = true -> orphans st' = orphans st -> obp st' = obp st ->
    winv c st -> winv c' st'.
  Proof.
    intros G Eo Eb W h e o He Ho Ha. rewrite Eo in He. rewrite Eb.
    apply (W h e o He Ho). unfold no_withdraw in G. rewrite forallb_forall in G.
    specialize (G (h, e) (lookup_In _ _ _ He)). cbn [snd] in G. rewrite forallb_forall in G.
    specialize (G o Ho). rewrite Ha in G. destruct (avail c st o); [discriminate|reflexivity].
  Qed.

  Lemma remove_transaction_orphans st h : orphans (remove_transaction st h) = orphans st.
  Proof. unfold remove_transaction. destruct (lookup (pool st) h); reflexivity. Qed.

  Lemma remove_transaction_obp st h : obp (remove_transaction st h) = obp st.
  Proof. unfold remove_transaction. destruct (lookup (pool st) h); reflexivity. Qed.

  (* ---- histories ------------------------------------------------------------------ *)
  Definition pool_inv (w : world) : Prop := binv U (wst w) /\ winv (wchain w) (wst w).

  Lemma empty_inv c : pool_inv (init_world c).
  Proof.
    split; [constructor|]; cbn.
    - discriminate.
    - discriminate.
    - intros o. split; [discriminate|]. intros [h [t [H _]]]. discriminate.
    - discriminate.
    - discriminate.
    - intros h e o H. discriminate.
  Qed.

  Lemma step_inv w o w' r :
    pool_inv w -> step_ok w o = true -> (forall t, In t (op_txs o) -> In t U) ->
    step ordP ordE w o = Some (w', r) -> pool_inv w'.
  Proof.
    intros [B W] G HU E. destruct o as [c'|now t|h|now|]; cbn in E.
    - inversion E; subst. split; cbn [wst wchain]; [exact B|].
      eapply no_withdraw_winv; eauto.
    - destruct (validate_tx_gen ordP true (wchain w) (wst w) now t) as [[st' r']|] eqn:Ev; [|discriminate].
      inversion E; subst. apply validate_tx_inv in Ev; auto.
      + destruct Ev as [B' [W' _]]. split; assumption.
      + apply HU. left; reflexivity.
    - inversion E; subst. split; cbn [wst wchain].
      + apply remove_transaction_binv; assumption.
      + cbn in G. eapply no_withdraw_winv; eauto.
        * apply remove_transaction_orphans.
        * apply remove_transaction_obp.
    - inversion E; subst. unfold pool_inv; cbn [wst wchain]. apply expire_inv; assumption.
    - inversion E; subst. split; assumption.
  Qed.

  Lemma step_total w o : exists w' r, step ordP ordE w o = Some (w', r).
  Proof.
    destruct o as [c'|now t|h|now|]; cbn; eauto.
    destruct (validate_tx_total (wchain w) (wst w) now t) as [st' [r E]].
    unfold validate_tx in E. rewrite E. eauto.
  Qed.

  Lemma run_inv : forall ops w w',
    pool_inv w -> run_ok ordP ordE w ops = true -> (forall t, In t (ops_txs ops) -> In t U) ->
    run ordP ordE w ops = Some w' -> pool_inv w'.
  Proof.
    induction ops as [|o ops IH]; intros w w' I G HU E; cbn in E.
    - inversion E; subst; exact I.
    - cbn in G. apply andb_prop in G. destruct G as [G1 G2].
      change (step_gen ordP ordE true w o) with (step ordP ordE w o) in E.
      destruct (step ordP ordE w o) as [[w1 r]|] eqn:Es; [|discriminate].
      apply (IH w1 w'); auto.
      + eapply step_inv; eauto. intros t Ht. apply HU. unfold ops_txs; cbn. apply in_or_app; auto.
      + intros t Ht. apply HU. unfold ops_txs; cbn. apply in_or_app; auto.
  Qed.

  Lemma run_total : forall ops w, exists w', run ordP ordE w ops = Some w'.
  Proof.
    induction ops as [|o ops IH]; intros w; cbn; [eauto|].
    destruct (step_total w o) as [w1 [r E]]. unfold step in E. rewrite E. apply IH.
  Qed.

  (* (iv): a submission leaves no orphan behind that became complete through it *)
  Lemma submit_promotes w now t w' r :
    pool_inv w -> In t U -> step ordP ordE w (OSubmit now t) = Some (w', r) ->
    forall h e, lookup (orphans (wst w')) h = Some e ->
      complete (wchain w') (wst w') (otx e) -> complete (wchain w) (wst w) (otx e).
  Proof.
    intros [B W] HU E. cbn in E.
    destruct (validate_tx_gen ordP true (wchain w) (wst w) now t) as [[st' r']|] eqn:Ev; [|discriminate].
    inversion E; subst. cbn [wst wchain]. apply validate_tx_inv in Ev; auto. tauto.
  Qed.
  (* the submitted transaction itself never ends up as an orphan with all its parents available *)
  Lemma submit_self_not_complete_orphan w now t w' r :
    pool_inv w -> In t U -> step ordP ordE w (OSubmit now t) = Some (w', r) ->
    forall e, lookup (orphans (wst w')) (tid t) = Some e ->
      ~ complete (wchain w') (wst w') (otx e).
  Proof.
    intros [B W] HU E e He Hc. cbn in E.
    destruct (validate_tx_gen ordP true (wchain w) (wst w) now t) as [[st' r']|] eqn:Ev; [|discriminate].
    inversion E; subst. cbn [wst wchain] in *.
    pose proof (validate_tx_inv _ _ _ _ _ _ HU B W Ev) as [B' _].
    unfold validate_tx_gen in Ev. destruct (has (pool (wst w)) (tid t)) eqn:Hp.
    { inversion Ev; subst. apply (b_disj _ _ B (tid t) Hp). apply has_true; eauto. }
    unfold process_transaction_gen in Ev.
    change (check_orphan_utxos_gen true (wchain w) (wst w) t) with (missing (wchain w) (wst w) t) in Ev.
    destruct (missing (wchain w) (wst w) t) as [|o req] eqn:Em.
    - unfold process_orphans_gen in Ev.
      destruct (po_loop ordP true (wchain w) _ _ _) as [st2|] eqn:El; [|discriminate].
      inversion Ev; subst st2 r. apply (b_disj _ _ B' (tid t)); [|apply has_true; eauto].
      apply (po_loop_pool_mono _ _ _ _ _ El). unfold with_obp; cbn [pool].
      change (add_transaction_gen true) with add_transaction. rewrite add_transaction_eq.
      unfold plain_add; cbn [pool]. rewrite has_insert, N.eqb_refl. reflexivity.
    - inversion Ev; subst st' r. unfold add_orphan in He; cbn [orphans] in He.
      rewrite lookup_insert_eq in He. inversion He; subst e. cbn [otx] in Hc.
      assert (Hc0 : complete (wchain w) (wst w) t) by (intros o' Ho'; exact (Hc o' Ho')).
      apply missing_nil in Hc0. congruence.
  Qed.
End Main.
