(* C22 — mempool bookkeeping (protocol/txpool.go, protocol/tx.go).
   EXECUTABLE MODEL ONLY (no proofs).

   Identifiers (transaction ids, output ids) are opaque labels in N; only
   equality is used.  A Go map is an association list: [lookup] returns the
   first binding, [insert] drops older bindings of the key, [remove] drops
   all of them.

   A transaction is its id, the ids of the outputs it spends (SpentOutputIDs,
   in input order) and its result ids in output order, each flagged
   "is an OriginalOutput entry" (true) or not (retirement / vote output).

   State = the four maps of TxPool:
     pool           id          -> transaction          (tp.pool)
     utxo           output id   -> id of its creator    (tp.utxo)
     orphans        id          -> (transaction, expiration)
     obp            output id   -> (id -> transaction)   (tp.orphansByPrev;
                    the inner entry mirrors the *orphanTx pointer: it carries
                    the transaction it points to)
   The chain's utxo set (state.Store, read through GetTransactionsUtxo /
   CanSpend) is a list of spendable output ids that the environment may
   replace between operations (OChain).

   Time: the clock reading of addOrphan (time.Now()) is an explicit input of
   OSubmit; ExpireOrphan's argument is the input of OExpire.

   Map iteration order: processOrphans ranges over the inner map of
   orphansByPrev, ExpireOrphan over tp.orphans.  Both orders are explicit
   parameters ([ordP], [ordE]); the theorems hold for every choice that is a
   permutation.

   The flag [fx] of the _gen functions selects
     true  = the tree with the two repairs (checkOrphanUtxos copies the hash
             per iteration; addTransaction drops the orphan entry of the
             transaction it adds),
     false = the pinned tree (every required parent is the address of the loop
             variable, i.e. k copies of the LAST spent output id; a pooled
             transaction may stay in orphans).
   The property theorems are about fx = true; C22/History.v shows the pinned
   behaviour violating the invariant.

   Not modelled: the capacity limits maxNewTxNum = 10000 / maxOrphanNum = 2000
   (ErrPoolIsFull), the error cache, events and the lastUpdated stamp. *)
From Coq Require Import List NArith Bool PeanoNat.
Import ListNotations.

(* ---- association lists keyed by N ------------------------------------- *)
Notation amap V := (list (N * V)) (only parsing).

Section AMap.
  Context {V : Type}.

  Fixpoint lookup (m : amap V) (k : N) : option V :=
    match m with
    | [] => None
    | (k', v) :: m' => if N.eqb k' k then Some v else lookup m' k
    end.

  Fixpoint remove (k : N) (m : amap V) : amap V :=
    match m with
    | [] => []
    | (k', v) :: m' => if N.eqb k' k then remove k m' else (k', v) :: remove k m'
    end.

  Definition insert (k : N) (v : V) (m : amap V) : amap V := (k, v) :: remove k m.

  Definition has (m : amap V) (k : N) : bool :=
    match lookup m k with Some _ => true | None => false end.
End AMap.

Fixpoint memN (x : N) (l : list N) : bool :=
  match l with
  | [] => false
  | y :: l' => if N.eqb y x then true else memN x l'
  end.

(* ---- transactions and the pool ---------------------------------------- *)
Record tx := mkTx { tid : N; ins : list N; outs : list (N * bool) }.

Record orphan := mkOrphan { otx : tx; oexp : N }.

Record state := mkState {
  pool : amap tx;
  utxo : amap N;
  orphans : amap orphan;
  obp : amap (amap tx)
}.

Definition empty_state : state := mkState [] [] [] [].

(* orphanTTL, in ticks of the logical clock *)
Definition orphan_ttl : N := 600.

(* view.CanSpend(&hash) || tp.utxo[hash] != nil *)
Definition avail (c : list N) (st : state) (o : N) : bool := memN o c || has (utxo st) o.

Definition missing (c : list N) (st : state) (t : tx) : list N :=
  filter (fun o => negb (avail c st o)) (ins t).

Fixpoint last_opt (l : list N) : option N :=
  match l with
  | [] => None
  | [x] => Some x
  | _ :: l' => last_opt l'
  end.

(* checkOrphanUtxos.  Pinned tree: "hashes = append(hashes, &hash)" with the
   range variable [hash] shared by all iterations (go 1.16 semantics): after
   the loop every element points to the last SpentOutputID. *)
Definition check_orphan_utxos_gen (fx : bool) (c : list N) (st : state) (t : tx) : list N :=
  let m := missing c st t in
  if fx then m
  else match last_opt (ins t) with
       | Some l => map (fun _ => l) m
       | None => []
       end.

(* removeOrphan *)
Definition remove_orphan_step (h : N) (m : amap (amap tx)) (o : N) : amap (amap tx) :=
  match lookup m o with
  | None => m
  | Some inner =>
    match remove h inner with
    | [] => remove o m
    | inner' => insert o inner' m
    end
  end.

Definition remove_orphan (st : state) (h : N) : state :=
  match lookup (orphans st) h with
  | None => st
  | Some e =>
    mkState (pool st) (utxo st) (remove h (orphans st))
            (fold_left (remove_orphan_step h) (ins (otx e)) (obp st))
  end.

(* addOrphan *)
Definition add_orphan_step (t : tx) (m : amap (amap tx)) (o : N) : amap (amap tx) :=
  insert o (insert (tid t) t (match lookup m o with Some i => i | None => [] end)) m.

Definition add_orphan (st : state) (now : N) (t : tx) (req : list N) : state :=
  mkState (pool st) (utxo st)
          (insert (tid t) (mkOrphan t (now + orphan_ttl)) (orphans st))
          (fold_left (add_orphan_step t) req (obp st)).

(* addTransaction: the utxo index gets the OriginalOutput result ids only *)
Definition add_utxo_step (h : N) (u : amap N) (o : N * bool) : amap N :=
  if snd o then insert (fst o) h u else u.

Definition add_transaction_gen (fx : bool) (st : state) (t : tx) : state :=
  let st0 := if fx then remove_orphan st (tid t) else st in
  mkState (insert (tid t) t (pool st0))
          (fold_left (add_utxo_step (tid t)) (outs t) (utxo st0))
          (orphans st0) (obp st0).

(* RemoveTransaction *)
Definition remove_transaction (st : state) (h : N) : state :=
  match lookup (pool st) h with
  | None => st
  | Some t =>
    mkState (remove h (pool st))
            (fold_left (fun u o => remove (fst o) u) (outs t) (utxo st))
            (orphans st) (obp st)
  end.

(* ---- processOrphans ---------------------------------------------------- *)
Section Orders.
  Variable ordP : N -> amap tx -> amap tx.        (* range over orphansByPrev[o] *)
  Variable ordE : amap orphan -> amap orphan.     (* range over tp.orphans *)

  (* addRely: for every result id of t, move the orphans indexed under it to the
     end of the work list and delete the index entry *)
  Definition add_rely_step (sw : amap (amap tx) * list tx) (o : N) : amap (amap tx) * list tx :=
    match lookup (fst sw) o with
    | None => sw
    | Some inner => (remove o (fst sw), snd sw ++ map snd (ordP o inner))
    end.

  Definition add_rely (m : amap (amap tx)) (wl : list tx) (t : tx) : amap (amap tx) * list tx :=
    fold_left add_rely_step (map fst (outs t)) (m, wl).

  Definition with_obp (st : state) (m : amap (amap tx)) : state :=
    mkState (pool st) (utxo st) (orphans st) m.

  Definition is_nil {A} (l : list A) : bool := match l with [] => true | _ => false end.

  (* the loop "for ; len(processOrphans) > 0; processOrphans = processOrphans[1:]" *)
  Fixpoint po_loop (fx : bool) (c : list N) (fuel : nat) (st : state) (wl : list tx) : option state :=
    match wl with
    | [] => Some st
    | x :: wl' =>
      match fuel with
      | O => None
      | S f =>
        if is_nil (check_orphan_utxos_gen fx c st x) then
          let mw := add_rely (obp st) wl' x in
          let st1 := with_obp st (fst mw) in
          let st2 := remove_orphan st1 (tid x) in
          let st3 := add_transaction_gen fx st2 x in
          po_loop fx c f st3 (snd mw)
        else po_loop fx c f st wl'
      end
    end.

  Definition obp_size (m : amap (amap tx)) : nat :=
    fold_right (fun kv n => length (snd kv) + n) 0 m.

  Definition process_orphans_gen (fx : bool) (c : list N) (st : state) (t : tx) : option state :=
    let mw := add_rely (obp st) [] t in
    po_loop fx c (S (obp_size (obp st))) (with_obp st (fst mw)) (snd mw).

  (* processTransaction: (state, isOrphan) *)
  Definition process_transaction_gen (fx : bool) (c : list N) (st : state) (now : N) (t : tx)
    : option (state * bool) :=
    match check_orphan_utxos_gen fx c st t with
    | [] =>
      match process_orphans_gen fx c (add_transaction_gen fx st t) t with
      | Some st' => Some (st', false)
      | None => None
      end
    | req => Some (add_orphan st now t req, true)
    end.

  (* Chain.ValidateTx for a transaction that passes validation: a pooled
     transaction is not processed again (HaveTransaction) *)
  Definition validate_tx_gen (fx : bool) (c : list N) (st : state) (now : N) (t : tx)
    : option (state * bool) :=
    if has (pool st) (tid t) then Some (st, false)
    else process_transaction_gen fx c st now t.

  (* ExpireOrphan *)
  Definition expire_step (now : N) (st : state) (he : N * orphan) : state :=
    if N.ltb (oexp (snd he)) now then remove_orphan st (fst he) else st.

  Definition expire (st : state) (now : N) : state :=
    fold_left (expire_step now) (ordE (orphans st)) st.

  (* ---- histories ------------------------------------------------------- *)
  Record world := mkWorld { wchain : list N; wst : state }.

  Inductive op :=
  | OChain (c : list N)            (* the chain's spendable set changes *)
  | OSubmit (now : N) (t : tx)     (* Chain.ValidateTx of a valid transaction *)
  | ORemove (h : N)                (* TxPool.RemoveTransaction *)
  | OExpire (now : N)              (* TxPool.ExpireOrphan *)
  | OReject.                       (* a submission refused before the pool (dust, invalid) *)

  Definition step_gen (fx : bool) (w : world) (o : op) : option (world * bool) :=
    match o with
    | OChain c => Some (mkWorld c (wst w), false)
    | OSubmit now t =>
      match validate_tx_gen fx (wchain w) (wst w) now t with
      | Some (st', r) => Some (mkWorld (wchain w) st', r)
      | None => None
      end
    | ORemove h => Some (mkWorld (wchain w) (remove_transaction (wst w) h), false)
    | OExpire now => Some (mkWorld (wchain w) (expire (wst w) now), false)
    | OReject => Some (w, false)
    end.

  Fixpoint run_gen (fx : bool) (w : world) (ops : list op) : option world :=
    match ops with
    | [] => Some w
    | o :: ops' =>
      match step_gen fx w o with
      | Some (w', _) => run_gen fx w' ops'
      | None => None
      end
    end.

  (* the tree as repaired *)
  Definition check_orphan_utxos := check_orphan_utxos_gen true.
  Definition add_transaction := add_transaction_gen true.
  Definition process_orphans := process_orphans_gen true.
  Definition process_transaction := process_transaction_gen true.
  Definition validate_tx := validate_tx_gen true.
  Definition step := step_gen true.
  Definition run := run_gen true.
End Orders.

Definition init_world (c : list N) : world := mkWorld c empty_state.

(* ---- the guard of the conditional theorem ------------------------------
   An environment step (the chain's set changes, a transaction is removed from
   the pool) "withdraws" an output when a live orphan spends it and it was
   available before the step and is not afterwards.  [no_withdraw] is the
   decidable statement that this does not happen. *)
Definition no_withdraw (c : list N) (st : state) (c' : list N) (st' : state) : bool :=
  forallb (fun he : N * orphan =>
             forallb (fun o => implb (avail c st o) (avail c' st' o)) (ins (otx (snd he))))
          (orphans st).

Definition step_ok (w : world) (o : op) : bool :=
  match o with
  | OChain c => no_withdraw (wchain w) (wst w) c (wst w)
  | ORemove h => no_withdraw (wchain w) (wst w) (wchain w) (remove_transaction (wst w) h)
  | _ => true
  end.

Section RunOk.
  Variable ordP : N -> amap tx -> amap tx.
  Variable ordE : amap orphan -> amap orphan.
  Fixpoint run_ok (w : world) (ops : list op) : bool :=
    match ops with
    | [] => true
    | o :: ops' =>
      step_ok w o &&
      match step ordP ordE w o with
      | Some (w', _) => run_ok w' ops'
      | None => false
      end
    end.
End RunOk.

Definition op_txs (o : op) : list tx :=
  match o with OSubmit _ t => [t] | _ => [] end.
Definition ops_txs (ops : list op) : list tx := flat_map op_txs ops.
