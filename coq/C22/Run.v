(* C22 — helpers used by the generated case files.

   A case: the chain's initial spendable set (labels of output ids), the
   universe of transactions of the case (labels for ids and output ids), and
   an operation list that refers to transactions by position in the universe.
   The result is, per operation, the isOrphan flag of the submission (false
   for the other operations) and the sorted dump of the four maps:
     pooled ids; outputs listed in the output index; orphan ids;
     (output, ids indexed under it).
   Map iteration orders are the identity: the projected dump does not depend
   on them (sets only). *)
From Coq Require Import List NArith Bool.
From Verif Require Import Cmp.
From C22 Require Import Model.
Import ListNotations.

Definition idP : N -> amap tx -> amap tx := fun _ l => l.
Definition idE : amap orphan -> amap orphan := fun l => l.

Inductive iop :=
| IConfirm (c : list N) (hs : list N)   (* a block connects: new spendable set, its transactions leave the pool *)
| ISubmit (now : N) (i : N)
| IRemove (h : N)
| IExpire (now : N)
| IReject.

Definition resolve (univ : list tx) (o : iop) : option (list op) :=
  match o with
  | IConfirm c hs => Some (OChain c :: map ORemove hs)
  | ISubmit now i => option_map (fun t => [OSubmit now t]) (nth_error univ (N.to_nat i))
  | IRemove h => Some [ORemove h]
  | IExpire now => Some [OExpire now]
  | IReject => Some [OReject]
  end.

(* the operations of one harness step; the flag is the last operation's *)
Fixpoint steps (w : world) (r : bool) (os : list op) : option (world * bool) :=
  match os with
  | [] => Some (w, r)
  | o :: os' =>
    match step idP idE w o with
    | None => None
    | Some (w', r') => steps w' r' os'
    end
  end.

(* insertion sort by key *)
Fixpoint ins_sorted {A} (key : A -> N) (x : A) (l : list A) : list A :=
  match l with
  | [] => [x]
  | y :: l' => if N.leb (key x) (key y) then x :: l else y :: ins_sorted key x l'
  end.
Definition sort_by {A} (key : A -> N) (l : list A) : list A :=
  fold_right (ins_sorted key) [] l.

Definition dump := (list N * list N * list N * list (N * list N))%type.

Definition dump_state (st : state) : dump :=
  (sort_by (fun x => x) (map fst (pool st)),
   sort_by (fun x => x) (map fst (utxo st)),
   sort_by (fun x => x) (map fst (orphans st)),
   sort_by fst (map (fun kv => (fst kv, sort_by (fun x => x) (map fst (snd kv)))) (obp st))).

Definition cres := option (list (bool * dump)).

Fixpoint run_ops (univ : list tx) (w : world) (ops : list iop) : cres :=
  match ops with
  | [] => Some []
  | o :: ops' =>
    match resolve univ o with
    | None => None
    | Some os =>
      match steps w false os with
      | None => None
      | Some (w', r) =>
        match run_ops univ w' ops' with
        | None => None
        | Some rs => Some ((r, dump_state (wst w')) :: rs)
        end
      end
    end
  end.

Definition run_case (c0 : list N) (univ : list tx) (ops : list iop) : cres :=
  run_ops univ (init_world c0) ops.

(* ---- concurrent rounds ------------------------------------------------------
   The harness also submits several transactions from goroutines of their own, with
   the pool's store lookups stalled and released in a chosen order.  Every entry
   point of TxPool holds tp.mtx for its whole body, so a round is some sequential
   order of its submissions: the harness reads that order off the order in which
   the submissions' own store lookups began (they begin under the write lock) and
   passes it here.  A round yields one result entry per submission (its isOrphan
   flag), each with the dump of the maps after the whole round (the only state the
   harness can observe).  Submission j of a round reads the clock at now_j. *)
Inductive cop :=
| CSeq (o : iop)
| CRound (subs : list (N * N)).    (* (now, index into the universe), linearisation order *)

Fixpoint round_steps (univ : list tx) (w : world) (subs : list (N * N)) : option (world * list bool) :=
  match subs with
  | [] => Some (w, [])
  | (now, i) :: subs' =>
    match nth_error univ (N.to_nat i) with
    | None => None
    | Some t =>
      match step idP idE w (OSubmit now t) with
      | None => None
      | Some (w', f) =>
        match round_steps univ w' subs' with
        | None => None
        | Some (w'', fs) => Some (w'', f :: fs)
        end
      end
    end
  end.

Fixpoint run_cops (univ : list tx) (w : world) (ops : list cop) : cres :=
  match ops with
  | [] => Some []
  | CSeq o :: ops' =>
    match resolve univ o with
    | None => None
    | Some os =>
      match steps w false os with
      | None => None
      | Some (w', r) =>
        match run_cops univ w' ops' with
        | None => None
        | Some rs => Some ((r, dump_state (wst w')) :: rs)
        end
      end
    end
  | CRound subs :: ops' =>
    match round_steps univ w subs with
    | None => None
    | Some (w', fs) =>
      match run_cops univ w' ops' with
      | None => None
      | Some rs => Some (map (fun f => (f, dump_state (wst w'))) fs ++ rs)
      end
    end
  end.

Definition run_case_conc (c0 : list N) (univ : list tx) (ops : list cop) : cres :=
  run_cops univ (init_world c0) ops.

Definition dump_eqb : dump -> dump -> bool :=
  pair_eqb (pair_eqb (pair_eqb (list_eqb N.eqb) (list_eqb N.eqb))
                     (list_eqb N.eqb))
           (list_eqb (pair_eqb N.eqb (list_eqb N.eqb))).

Definition cres_eqb : cres -> cres -> bool :=
  option_eqb (list_eqb (pair_eqb Bool.eqb dump_eqb)).
